"""C13 — a satisfied trigger condition launches its task exactly once.

Lean: Props/C13.lean over Model/Cron.lean (cron window / min-interval / next-tick rules for an arbitrary tick
      predicate, plus the concrete 5-field matcher) and Model/Trigger.lean (the trigger store of both backends, the
      trigger loop, concurrent loop iterations at store-operation granularity).  Several full statements are false of
      the current code; they are kept as `…Statement` definitions with `_partial` theorems and `decide` refutations.
Tie:  (A) cron: Lean matcher / latest / next vs croniter vs an independent minute-by-minute evaluator; Lean
          `isSatisfiedBy` vs the real `CronCondition._is_satisfied_by`; whole poll sequences (regular, jittered,
          bursty, gapped, boundary) through `check_time_based_triggers` on MemTrigger and SQLiteTrigger vs the Lean
          store model;
      (C) differential of both trigger stores through public methods vs the Lean driver: registration, occurrences
          of every kind (events, status changes, results, exceptions through the real orchestrator), idempotent
          re-reports, claims under a controlled clock, cron bookkeeping, cron passes, loop iterations, reloads, a
          second app object on the same SQLite file;
      (E) two concurrent loop iterations / cron passes: SQLite at SQL-statement granularity (two app objects on one
          file), memory at store-operation granularity and at source-line granularity inside mem_trigger.py (cooperative
          stand-ins for its RLocks); the claims / compare-and-swaps of every executed history are replayed, in completion
          order, on the Lean store model.
Search: (B, D, E, F) oracles that know nothing of the model: occurrences per scheduled minute, none outside windows,
      first eligible poll fires; launches per occurrence for single-condition / OR triggers, AND semantics, arguments
      from that occurrence, remaining valid conditions — sequentially and with two threads.
"""
from __future__ import annotations

import datetime as dt
import os
from collections import Counter
from typing import Any

from harness.apps import VirtualClock, flush, make_app
from harness.c13_lib import (POLL_STYLES, SPECIAL_EXPRS, US_MIN, US_SEC, UTC, BruteCron, Built, Config, CondSpec, CronCfg,
                             Occurrences, TrigSpec, bf_in_window, bf_polls, canon_valid, gen_config, gen_expr,
                             launch_token, poll_sequence, to_dt, to_us, toks)
from harness.common import Ctx, LeanDriver, lean_stage, thorough_rebuild, tok

THEOREMS: list[str] = [
    "cron_fires_iff", "inWindow_iff_strictly", "cron_fires_iff_window",
    "at_most_once_per_tick", "at_most_once_per_tick_count", "no_fire_outside_window",
    "first_eligible_poll_fires", "cache_sound", "old_first_poll_fired_unconditionally",
    "old_short_window_ignored", "latestOf_sound", "nextOf_sound",
    "isSatisfiedBy_sound", "record_idempotent", "record_mem_iff",
    "distinct_occurrences_both_pending", "claim_exclusive", "claim_first_wins",
    "claim_again_after_expiry", "cas_exclusive", "cas_exclusive_refuted_when_never_executed",
    "cron_step_fires_only_when_satisfied", "cron_step_fired_stores_now", "reregister_keeps_last_cron",
    "iteration_launch_le_one", "iteration_launch_eq_one", "pass_launch_le_one",
    "or_run_planned", "and_single_run_planned", "or_occurrence_launched_exactly_once",
    "single_condition_one_pending_launched_once", "and_needs_all", "and_all_then_consumes",
    "args_from_that_occurrence_partial", "args_from_that_occurrence_refuted", "one_per_occurrence_refuted_default_logic",
    "default_and_coalesces_witness", "never_twice_within_expiry", "never_twice_refuted_after_expiry",
    "step_preserves", "concurrent_launch_le_one", "concurrent_launch_eq_one_at_quiescence",
    "runFits_of_no_provider", "solo_runner_is_trigger_pass",
]


def untok(t: str) -> str | None:
    if t == "-":
        return None
    if t == "e":
        return ""
    return bytes.fromhex(t[1:]).decode()


def untoks(s: str) -> list[str]:
    return [] if s == "-" else [untok(x) or "" for x in s.split(",")]


def fresh_app(kind: str, tmp: str, app_id: str, db: str | None = None):  # noqa: ANN201
    from pynenc.app import Pynenc

    Pynenc._clear_instances()
    return make_app(kind, tmp, app_id=app_id, db=db)


# ================================================================================================
# A. cron: matcher, isSatisfiedBy, poll sequences (pure functions)
# ================================================================================================

def cron_family(ctx: Ctx) -> list[list[str]]:
    n = 24 if ctx.quick else 220
    fam = [e.split() for e in SPECIAL_EXPRS]
    fam += [gen_expr(ctx.rng) for _ in range(n)]
    fam += [gen_expr(ctx.rng, dense=True) for _ in range(n // 2)]
    out = []
    from croniter import croniter

    for f in fam:
        try:
            croniter(" ".join(f))
        except Exception:  # noqa: BLE001
            continue
        out.append(f)
    return out


def rand_instant(ctx: Ctx) -> int:
    """an instant between 2020 and 2033 (binary64 seconds keep µs exact there)"""
    base = ctx.rng.randint(1_580_000_000, 2_000_000_000)
    return base * US_SEC + ctx.rng.choice([0, 0, 1, 999_999, ctx.rng.randint(0, 999_999)])


def cron_matcher(ctx: Ctx, drv: LeanDriver, fam: list[list[str]]) -> None:
    from croniter import croniter

    lines: list[str] = []
    want: list[str] = []
    nbf = nbf_bad = 0
    first_bf = None
    per = 4 if ctx.quick else 10
    for f in fam:
        expr = " ".join(f)
        bc = BruteCron(f)
        for j in range(per):
            t = rand_instant(ctx)
            if j % 3 == 0:  # land on / next to a scheduled minute
                nx = croniter(expr, to_dt(t)).get_next(dt.datetime)
                t = to_us(nx) + ctx.rng.choice([-1, 0, 1, 30 * US_SEC, 59_999_999, US_MIN, US_MIN + 1])
            d = to_dt(t)
            m = t // US_MIN
            mt = bool(croniter.match(expr, d))
            prev = to_us(croniter(expr, d).get_prev(dt.datetime)) // US_MIN
            nxt = to_us(croniter(expr, d).get_next(dt.datetime)) // US_MIN
            latest = m if mt else prev
            lines += [f"cron.tick {expr} {m}", f"cron.latest {expr} {m}", f"cron.next {expr} {m}"]
            want += ["true" if mt else "false", str(latest), str(nxt)]
            # independent evaluator against the library, minute by minute
            nbf += 1
            bl = bc.latest(m, 3 * 1440)
            ok = bc.tick(m) == mt and (bl == latest if (m - latest) <= 3 * 1440 else bl is None)
            if ok and nxt - m <= 2 * 1440:
                ok = not any(bc.tick(x) for x in range(m + 1, nxt)) and bc.tick(nxt)
            if not ok:
                nbf_bad += 1
                first_bf = first_bf or (expr, t)
            ctx.count()
            ctx.distinct(("tick", expr, m))
    outs = drv.ask_many(lines)
    bad = [(l, w, o) for l, w, o in zip(lines, want, outs) if w != o]
    ctx.obligation("correspondence: Lean cron matcher / latest tick / next tick == croniter (match, get_prev, get_next)",
                   not bad, f"{len(bad)} of {len(lines)} differ, first {bad[:1]}")
    ctx.obligation("independent minute-by-minute evaluator agrees with croniter on the sampled instants", nbf_bad == 0,
                   f"{nbf_bad} of {nbf} differ, first {first_bf}")
    ctx.notes["cron_expressions"] = len(fam)
    ctx.sample({"op": lines[0], "croniter": want[0], "model": outs[0]})


def gen_cfg(ctx: Ctx) -> CronCfg:
    r = ctx.rng
    return CronCfg(window=r.choice([60, 60, 60, 90, 120, 300, 10, 30, 0, 59, 61]), min_interval=r.choice([50, 50, 0, 30, 60, 61, 120, 600]),
                   tolerance=r.choice([30, 0, 10, 45, 60, 90]), strict=r.random() < 0.3)


def cron_satisfied(ctx: Ctx, drv: LeanDriver, fam: list[list[str]]) -> None:
    from croniter import croniter
    from pynenc.trigger.conditions.cron import CronCondition, CronContext

    lines: list[str] = []
    want: list[str] = []
    nsub = len(fam) if not ctx.quick else min(len(fam), 36)
    for f in ctx.rng.sample(fam, nsub):
        expr = " ".join(f)
        for _ in range(2 if ctx.quick else 4):
            cfg = gen_cfg(ctx)
            cond = CronCondition(expr, check_window_seconds=cfg.window, min_interval_seconds=cfg.min_interval,
                                 precision_tolerance_seconds=cfg.tolerance, strict_timing=cfg.strict)
            tick = to_us(croniter(expr, to_dt(rand_instant(ctx))).get_next(dt.datetime))
            offs = [0, 1, 30 * US_SEC, 59_999_999, US_MIN, US_MIN + 1, cfg.window * US_SEC, cfg.window * US_SEC + 1, cfg.window * US_SEC - 1,
                    cfg.tolerance * US_SEC, cfg.tolerance * US_SEC + 1, -1, -30 * US_SEC, ctx.rng.randint(0, 400 * US_SEC)]
            for off in ctx.rng.sample(offs, 5 if ctx.quick else 7):
                t = tick + off
                prev_tick = to_us(croniter(expr, to_dt(tick)).get_prev(dt.datetime))
                lasts: list[int | None] = [None, t - cfg.min_interval * US_SEC, t - cfg.min_interval * US_SEC + 1, t - cfg.min_interval * US_SEC - 1,
                                           prev_tick, prev_tick + 5 * US_SEC, tick, tick - 1, tick + 1, t, t - ctx.rng.randint(0, 200 * US_SEC)]
                for last in ctx.rng.sample(lasts, 4 if ctx.quick else 5):
                    if last is not None and last > t:
                        continue
                    c = CronContext(timestamp=to_dt(t), last_execution=None if last is None else to_dt(last))
                    try:
                        r = "true" if cond._is_satisfied_by(c) else "false"
                    except Exception as e:  # noqa: BLE001
                        r = f"err:{type(e).__name__}"
                    lines.append(f"cron.sat {expr} {cfg.line()} {t} {'-' if last is None else last}")
                    want.append(r)
                    ctx.count()
                    ctx.distinct(("sat", expr, cfg.line(), off, None if last is None else t - last))
    outs = drv.ask_many(lines)
    bad = [(l, w, o) for l, w, o in zip(lines, want, outs) if w != o]
    ctx.obligation("correspondence: Lean isSatisfiedBy == CronCondition._is_satisfied_by (windows, min interval, next-tick rule, strict mode)",
                   not bad, f"{len(bad)} of {len(lines)} differ, first {bad[:1]}")
    ctx.cov["sat_true_fraction"] = round(sum(1 for w in want if w == "true") / max(1, len(want)), 3)


def real_poll_run(cond: Any, last: int | None, polls: list[int]) -> list[int]:
    """`runPolls` with the real `is_satisfied_by` (no store)"""
    from pynenc.trigger.conditions.cron import CronContext

    fired = []
    for t in polls:
        if cond.is_satisfied_by(CronContext(timestamp=to_dt(t), last_execution=None if last is None else to_dt(last))):
            fired.append(t)
            last = t
    return fired


def poll_cases(ctx: Ctx, fam: list[list[str]], n: int) -> list[tuple[list[str], CronCfg, int | None, list[int], str]]:
    from croniter import croniter

    cases = []
    dense = [f for f in fam if f[2] == "*" and f[3] == "*"]
    for i in range(n):
        f = ctx.rng.choice(dense if (dense and ctx.rng.random() < 0.7) else fam)
        expr = " ".join(f)
        cfg = gen_cfg(ctx)
        style = POLL_STYLES[i % len(POLL_STYLES)]
        tick = to_us(croniter(expr, to_dt(rand_instant(ctx))).get_next(dt.datetime))
        start = tick - ctx.rng.choice([0, 1, 5 * US_SEC, 90 * US_SEC, 600 * US_SEC])
        polls = poll_sequence(ctx.rng, style, start, ctx.rng.randint(8, 30 if ctx.quick else 60))
        last: int | None = None
        if ctx.rng.random() < 0.6:
            last = to_us(croniter(expr, to_dt(start)).get_prev(dt.datetime)) + ctx.rng.choice([0, 1, 20 * US_SEC, 59 * US_SEC])
            if last > polls[0]:
                last = None
        cases.append((f, cfg, last, polls, style))
    # edges of the window and of the minimum interval, hit exactly (and one µs off)
    for j in range(max(4, n // 6)):
        f = ctx.rng.choice(dense or fam)
        expr = " ".join(f)
        cfg = gen_cfg(ctx)
        tick = to_us(croniter(expr, to_dt(rand_instant(ctx))).get_next(dt.datetime))
        prev = to_us(croniter(expr, to_dt(tick)).get_prev(dt.datetime))
        edge = tick + cfg.window * US_SEC
        if j % 2 == 0:
            cases.append((f, cfg, prev, [tick - 1, edge] if j % 4 == 0 else [tick - 1, edge + 1, edge + 2], "edge-window"))
        else:
            t = tick + min(10, max(cfg.window, 0)) * US_SEC
            last = t - cfg.min_interval * US_SEC
            cases.append((f, cfg, last, [t - 1, t, t + 1], "edge-interval"))
    return cases


def cron_poll_sequences(ctx: Ctx, drv: LeanDriver, fam: list[list[str]]) -> None:
    from pynenc.trigger.conditions.cron import CronCondition

    lines, want = [], []
    for f, cfg, last, polls, style in poll_cases(ctx, fam, 40 if ctx.quick else 400):
        expr = " ".join(f)
        cond = CronCondition(expr, check_window_seconds=cfg.window, min_interval_seconds=cfg.min_interval,
                             precision_tolerance_seconds=cfg.tolerance, strict_timing=cfg.strict)
        fired = real_poll_run(cond, last, polls)
        lines.append(f"cron.polls {expr} {cfg.line()} spec {'-' if last is None else last} {','.join(map(str, polls))}")
        want.append(",".join(map(str, fired)) or "-")
        ctx.count(len(polls))
        ctx.distinct(("polls", expr, cfg.line(), style, len(fired)))
    outs = drv.ask_many(lines)
    bad = [(l[:200], w, o) for l, w, o in zip(lines, want, outs) if w != o]
    ctx.obligation("correspondence: poll sequences judged by the real is_satisfied_by == Lean runPolls", not bad,
                   f"{len(bad)} of {len(lines)} differ, first {bad[:1]}")


# ================================================================================================
# B. cron on the real stores: check_time_based_triggers over poll sequences; the property itself
# ================================================================================================

STORE_SETTINGS_CHANGED: list[tuple] = []


def cron_store_run(kind: str, tmp: str, app_id: str, f: list[str], cfg: CronCfg, last: int | None, polls: list[int]) -> list[int]:
    """fired instants when a fresh trigger store of `kind` is polled at `polls` (one runner)"""
    app = fresh_app(kind, tmp, app_id)
    conf = Config([CondSpec("cron", fields=f, cfg=cfg)], [TrigSpec("target", [0], "and", [])])
    b = Built(app, conf)
    cid = conf.conds[0].cid
    # what the store hands back is the condition that was registered, setting by setting (0 and False included)
    back = app.trigger.get_condition(cid)
    have = None if back is None else (back.check_window_seconds, back.min_interval_seconds, back.precision_tolerance_seconds, bool(back.strict_timing))
    if have != (cfg.window, cfg.min_interval, cfg.tolerance, bool(cfg.strict)):
        STORE_SETTINGS_CHANGED.append((kind, " ".join(f), (cfg.window, cfg.min_interval, cfg.tolerance, bool(cfg.strict)), have))
    if last is not None:
        app.trigger.store_last_cron_execution(cid, to_dt(last))
    fired = []
    seen: set[str] = set()
    for t in polls:
        app.trigger.check_time_based_triggers(to_dt(t))
        ids = set(b.valid_ids())
        if ids - seen:
            fired.append(t)
        seen = ids
    return fired


def classify_cron(bc: BruteCron, cfg: CronCfg, last: int | None, polls: list[int], got: list[int], spec: list[int]) -> tuple[str, str] | None:
    """compare what the store fired with the property evaluated literally; returns (signature, description)"""
    if got == spec:
        return None
    gs, ss = set(got), set(spec)
    extra = sorted(gs - ss)
    missing = sorted(ss - gs)
    if extra and not (missing and missing[0] < extra[0]):  # judge the earliest disagreement
        t = extra[0]
        ok, lt = bf_in_window(bc, cfg, t)
        if not ok:
            if lt is not None and t // US_MIN == lt and (t - lt * US_MIN) > min(cfg.window, cfg.tolerance if cfg.strict else cfg.window) * US_SEC:
                return ("cron-window-shorter-than-a-minute-ignored",
                        f"poll at {to_dt(t).isoformat()} fired {(t - lt * US_MIN) / US_SEC} s after the scheduled minute although "
                        f"check_window_seconds={cfg.window}, strict={cfg.strict}, tolerance={cfg.tolerance}: the whole scheduled minute counts as offset 0")
            if last is None and t == got[0]:
                return ("cron-first-poll-fires-off-schedule",
                        f"never-fired cron condition fired at its first poll {to_dt(t).isoformat()} although the latest scheduled minute "
                        f"is {'none within 3 days' if lt is None else to_dt(lt * US_MIN).isoformat()} (window {cfg.window} s)")
            return ("cron-fires-outside-window", f"poll at {to_dt(t).isoformat()} fired outside every window (latest scheduled minute {lt})")
        return ("cron-extra-occurrence", f"poll at {to_dt(t).isoformat()} fired although the property says it must not (got {len(got)}, expected {len(spec)})")
    t = missing[0]
    return ("cron-eligible-poll-did-not-fire", f"poll at {to_dt(t).isoformat()} is the first eligible poll of its scheduled minute and did not fire")


def cron_on_stores(ctx: Ctx, drv: LeanDriver, fam: list[list[str]]) -> None:
    cases = poll_cases(ctx, fam, 16 if ctx.quick else 100)
    # directed: every timing setting at 0 / False at least once, with polls a few seconds around consecutive minutes
    T0 = 1_700_000_040_000_000
    dense = [T0 + d * US_SEC for d in (-5, 5, 35, 65, 125, 240, 300, 320, 600, 620)]
    for cfg0 in (CronCfg(window=60, min_interval=0, tolerance=30, strict=False), CronCfg(window=0, min_interval=50, tolerance=30, strict=False),
                 CronCfg(window=60, min_interval=50, tolerance=0, strict=True), CronCfg(window=0, min_interval=0, tolerance=0, strict=False)):
        cases.append(("* * * * *".split(), cfg0, None, dense, "dense-zero-settings"))
        cases.append(("*/5 * * * *".split(), cfg0, T0 - 600 * US_SEC, dense, "dense-zero-settings"))
    # directed: schedules whose ticks are a day / a week apart, polled twice around each tick for several periods (the previous firing is
    # then 24 h or more old - more than any "seconds" component can hold)
    from croniter import croniter

    for expr, periods in (("30 6 * * *", 5), ("15 3 * * 1", 3), ("0 0 1 * *", 3)):
        ticks, cur = [], to_dt(T0)
        for _ in range(periods):
            cur = croniter(expr, cur).get_next(dt.datetime)
            ticks.append(to_us(cur))
        sparse = [t + d * US_SEC for t in ticks for d in (5, 65)]
        for cfgd in (CronCfg(window=300, min_interval=240, tolerance=30, strict=False), CronCfg(window=120, min_interval=50, tolerance=30, strict=False)):
            cases.append((expr.split(), cfgd, None, sparse, "sparse-over-periods"))
            cases.append((expr.split(), cfgd, ticks[0] - 86400 * US_SEC * (7 if "1" == expr.split()[4] else 1) + 7 * US_SEC, sparse, "sparse-over-periods"))
    STORE_SETTINGS_CHANGED.clear()
    lines, want, meta = [], [], []
    nviol = Counter()
    for i, (f, cfg, last, polls, style) in enumerate(cases):
        expr = " ".join(f)
        bc = BruteCron(f)
        spec = bf_polls(bc, cfg, last, polls)
        for kind in ("mem", "sqlite"):
            got = cron_store_run(kind, ctx.tmp, f"c13cron{kind}{i}", f, cfg, last, polls)
            lines.append(f"cron.polls {expr} {cfg.line()} code {'-' if last is None else last} {','.join(map(str, polls))}")
            want.append(",".join(map(str, got)) or "-")
            meta.append((kind, expr))
            ctx.count(len(polls))
            ctx.distinct(("store-polls", kind, expr, cfg.line(), style, last is None))
            # --- the property, evaluated on what the real store did
            per_minute = Counter(bc.latest(t // US_MIN, 400 * 1440) for t in got)
            dup = [m for m, n in per_minute.items() if n > 1 and m is not None]
            replay = {"family": "cron-polls", "backend": kind, "fields": f, "cfg": [cfg.window, cfg.min_interval, cfg.tolerance, cfg.strict],
                      "last": last, "polls": polls}
            if dup:
                ctx.report("cron-two-occurrences-one-minute", f"{kind}: scheduled minute {to_dt(dup[0] * US_MIN).isoformat()} of '{expr}' yielded "
                           f"{per_minute[dup[0]]} occurrences", replay)
            c = classify_cron(bc, cfg, last, polls, got, spec)
            if c:
                nviol[c[0]] += 1
                ctx.report(c[0], f"{kind}, '{expr}', {style} polls: {c[1]}", replay)
    outs = drv.ask_many(lines)
    bad = [(m, l[:160], w, o) for m, l, w, o in zip(meta, lines, want, outs) if w != o]
    ctx.obligation("correspondence: check_time_based_triggers over poll sequences on MemTrigger and SQLiteTrigger == Lean cron pass", not bad,
                   f"{len(bad)} of {len(lines)} differ, first {bad[:1]}")
    for kind, expr, want_cfg, have in STORE_SETTINGS_CHANGED[:3]:
        ctx.report(f"cron-settings-changed-by-store[{kind}]", f"{kind}: cron condition '{expr}' registered with (window, min interval, tolerance, strict) = {want_cfg} comes back from the store as {have}",
                   {"family": "cron-settings", "backend": kind, "expr": expr, "registered": list(want_cfg), "stored": None if have is None else list(have)})
    ctx.notes["cron_store_cases"] = len(cases) * 2
    ctx.notes["cron_store_property_failures"] = dict(nviol)


# ================================================================================================
# C. differential of both trigger stores against the Lean driver
# ================================================================================================

class Diff:
    """collects (model line, implementation output, canonicaliser) triples"""

    def __init__(self) -> None:
        self.lines: list[str] = []
        self.want: list[str] = []
        self.canon: list[Any] = []
        self.trace: list[str] = []

    def add(self, line: str, want: str = "ok", canon: Any = None) -> None:
        self.lines.append(line)
        self.want.append(want)
        self.canon.append(canon)

    def adds(self, lines: list[str]) -> None:
        for l in lines:
            self.add(l)

    def check(self, drv: LeanDriver) -> list[tuple[int, str, str, str]]:
        outs = drv.ask_many(self.lines)
        bad = []
        for i, (l, w, o, c) in enumerate(zip(self.lines, self.want, outs, self.canon)):
            if c is not None:
                o = c(o)
            if w != o:
                bad.append((i, l[:200], w[:300], o[:300]))
        return bad


def canon_valid_tokens(s: str) -> str:
    return toks(canon_valid(untoks(s)))


def loop_out(b: Built, trig: Any) -> str:
    from pynenc.trigger.arguments.argument_providers import ArgumentProviderError

    raised = 0
    try:
        trig.trigger_loop_iteration()
    except ArgumentProviderError:
        raised = 1
    nl = b.new_launches()
    return f"L {','.join(sorted(launch_token(x) for x in nl)) or '-'} R {raised}"


def store_sequence(ctx: Ctx, kind: str, idx: int, cfg: Config, nops: int) -> tuple[Diff, dict]:
    """one random operation sequence on a real store of `kind`; returns the triples and a description"""
    rng = ctx.rng
    db = os.path.join(ctx.tmp, f"c13s{idx}.db")
    app = fresh_app(kind, ctx.tmp, f"c13s{kind}{idx}", db=db)
    b = Built(app, Config.from_dict(cfg.describe()))
    occ = Occurrences(b)
    d = Diff()
    d.add(f"trg.reset {kind}")
    d.adds(b.registration_lines())
    runners = {"A": b}
    cron_ids = [c.cid for c in b.cfg.conds if c.kind == "cron" and c.cid]
    all_cids = [c.cid for c in b.cfg.conds if c.cid]
    claim_ids = ["r1", "r2", "run with space", ""]
    script: list[str] = []
    with VirtualClock(1_700_000_000_000_000 + rng.randint(0, 3600) * US_SEC) as clk:
        for _ in range(nops):
            r = rng.random()
            who = rng.choice(sorted(runners))
            bb = runners[who]
            if r < 0.16:
                code, n = rng.choice(["e1", "e2"]), str(rng.randint(0, 9))
                d.adds(occ.event(code, n))
                script.append(f"event {code} {n}")
            elif r < 0.26:
                k = rng.choice("abc")
                d.adds(occ.ok(k))
                script.append(f"ok {k}")
            elif r < 0.34:
                k, e = rng.choice("abc"), rng.choice(["ValueError", "KeyError"])
                d.adds(occ.fail(k, e))
                script.append(f"fail {k} {e}")
            elif r < 0.40 and occ.log:
                # idempotent re-report of an earlier occurrence through the public report methods
                o = rng.choice(occ.log)
                if o["kind"] == "status":
                    from pynenc.invocation.status import InvocationStatus

                    app.trigger.report_tasks_status([o["inv"]], InvocationStatus(o["status"]))
                    d.add(f"trg.status {tok(b.src_key)} {tok(o['inv'])} {tok(o['status'])} {tok(o['k'])}")
                    script.append("re-report status")
            elif r < 0.50:
                d.add("trg.valid", toks(canon_valid(bb.valid_ids())), canon_valid_tokens)
                script.append("valid")
            elif r < 0.55:
                vcs = bb.app.trigger.get_valid_conditions()
                pick = [k for k in vcs if rng.random() < 0.4]
                bb.app.trigger.clear_valid_conditions([vcs[k] for k in pick])
                d.add(f"trg.clear {toks(pick)}")
                script.append(f"clear {len(pick)}")
            elif r < 0.65:
                rid, exp = rng.choice(claim_ids), rng.choice([60, 60, 1, 0, 120])
                got = bb.app.trigger.claim_trigger_run(rid, exp)
                d.add(f"trg.claim {tok(rid)} {clk.us} {exp * US_SEC}", "true" if got else "false")
                script.append(f"claim {rid!r} {exp}")
            elif r < 0.70:
                cid = rng.choice(all_cids + ["unregistered"])
                got = bb.app.trigger.get_last_cron_execution(cid)
                d.add(f"trg.getlast {tok(cid)}", "-" if got is None else str(to_us(got)))
                script.append("getlast")
            elif r < 0.76:
                cid = rng.choice((cron_ids or all_cids) + ["unregistered"])
                cur = bb.app.trigger.get_last_cron_execution(cid)
                expected = rng.choice([None, cur, to_dt(clk.us - 5 * US_SEC)])
                t = clk.us - rng.choice([0, 1, 30 * US_SEC])
                got = bb.app.trigger.store_last_cron_execution(cid, to_dt(t), expected)
                d.add(f"trg.cas {tok(cid)} {t} {'-' if expected is None else to_us(expected)}", "true" if got else "false")
                script.append("cas")
            elif r < 0.86:
                d.add(f"trg.loop {who} {clk.us}", loop_out(b, bb.app.trigger))
                d.add("trg.valid", toks(canon_valid(bb.valid_ids())), canon_valid_tokens)
                for cid in cron_ids:
                    got = bb.app.trigger.get_last_cron_execution(cid)
                    d.add(f"trg.getlast {tok(cid)}", "-" if got is None else str(to_us(got)))
                script.append(f"loop {who}")
            elif r < 0.91 and kind == "sqlite" and len(runners) < 2:
                app2 = fresh_app(kind, ctx.tmp, f"c13s{kind}{idx}", db=db)
                b2 = Built(app2, Config.from_dict(cfg.describe()))
                runners["B"] = b2
                d.adds(b2.registration_lines())
                script.append("second app object")
            else:
                step = rng.choice([1, 1000, US_SEC, 20 * US_SEC, 59 * US_SEC, 60 * US_SEC, 61 * US_SEC, 130 * US_SEC])
                clk.advance(step)
                script.append(f"advance {step}")
        d.add("trg.valid", toks(canon_valid(b.valid_ids())), canon_valid_tokens)
    return d, {"backend": kind, "config": cfg.describe(), "script": script}


def store_differential(ctx: Ctx, drv: LeanDriver) -> None:
    nseq = 9 if ctx.quick else 70
    nbad = 0
    first = None
    ops = Counter()
    for i in range(nseq):
        cfg = gen_config(ctx.rng, with_cron=(i % 2 == 0))
        for kind in ("mem", "sqlite"):
            d, desc = store_sequence(ctx, kind, i, cfg, 36 if ctx.quick else 60)
            bad = d.check(drv)
            ctx.count(len(d.lines))
            for s in desc["script"]:
                ops[s.split()[0]] += 1
            ctx.distinct(("store-seq", kind, i, len(d.lines)))
            if bad:
                nbad += 1
                first = first or (desc["backend"], desc["config"], bad[0])
    ctx.obligation("correspondence: MemTrigger and SQLiteTrigger public operations == Lean trigger store / loop model", nbad == 0,
                   f"{nbad} of {2 * nseq} sequences differ, first {first}")
    ctx.notes["store_ops"] = dict(ops)


# ================================================================================================
# D. the property itself on loop iterations (sequential), independent of the model
# ================================================================================================

def occ_matches(c: CondSpec, o: dict) -> bool:
    """does occurrence `o` (as logged by `Occurrences`) satisfy condition `c`? — read off the condition's own definition"""
    if c.kind != o["kind"]:
        return False
    if c.kind == "event":
        return c.code == o["code"]
    if c.kind == "status":
        return o["status"] in c.statuses
    if c.kind == "result":
        return True
    if c.kind == "exception":
        return not c.types or o["type"] in c.types
    return False


def expected_args(prov: list[str], o: dict) -> tuple[str, str] | None:
    """what the trigger's provider derives from *that* occurrence; None = unspecified (no provider applies)"""
    if not prov:
        return ("-", "-")
    for p in prov:
        if p.startswith("s:"):
            return (p[2:], "-")
        k = p[2:]
        if k == "event" and o["kind"] == "event":
            return (o["n"], "event:" + o["id"])
        if k == "status" and o["kind"] in ("status", "result", "exception"):
            return (o["k"], "status:" + o["inv"])
        if k == "result" and o["kind"] == "result":
            return (o["res"], "result:" + o["inv"])
        if k == "exception" and o["kind"] == "exception":
            return (o["type"], "exception:" + o["inv"])
    return None


def providers_fit(cfg: Config) -> bool:
    """every launch can get its arguments: an OR / single trigger has a provider for each of its kinds, an AND
    trigger for at least one"""
    for t in cfg.trigs:
        if not t.prov or any(p.startswith("s:") for p in t.prov):
            continue
        kinds = [cfg.conds[i].kind for i in t.conds]

        def covers(kd: str) -> bool:
            return any((p == "c:" + kd) or (p == "c:status" and kd in ("status", "result", "exception")) for p in t.prov)

        if t.logic == "or" or len(t.conds) == 1:
            if not all(covers(k) for k in kinds):
                return False
        elif not any(covers(k) for k in kinds):
            return False
    return True


class LoopOracle:
    """what the property text says the launches of each trigger must be, iteration by iteration"""

    def __init__(self, cfg: Config):
        self.cfg = cfg
        self.pending: list[dict[int, list[dict]]] = [{ci: [] for ci in t.conds} for t in cfg.trigs]
        self.consumed: list[list[tuple[dict, int]]] = [[] for _ in cfg.trigs]  # (occurrence, iteration) already launched
        self.nseen = 0
        self.iteration = 0

    def feed(self, log: list[dict]) -> None:
        for o in log[self.nseen:]:
            for ti, t in enumerate(self.cfg.trigs):
                for ci in t.conds:
                    if occ_matches(self.cfg.conds[ci], o):
                        self.pending[ti][ci].append(o)
        self.nseen = len(log)

    def expect(self, ti: int) -> tuple[int, list[tuple[str, str] | None], dict]:
        """expected number of launches of trigger `ti` in the next iteration, their arguments (None = any), facts for classification"""
        t = self.cfg.trigs[ti]
        pend = self.pending[ti]
        facts = {"max_pending_one_cond": max((len(v) for v in pend.values()), default=0), "logic": t.logic, "nconds": len(t.conds)}
        if t.logic == "or" or len(t.conds) == 1:
            occs = [(o, ci) for ci in t.conds for o in pend[ci]]
            return len(occs), [expected_args(t.prov, o) for o, _ in occs], facts
        if all(pend[ci] for ci in t.conds):
            allo = [o for ci in t.conds for o in pend[ci]]
            args: tuple[str, str] | None = None
            if not t.prov or t.prov[0].startswith("s:"):
                args = expected_args(t.prov, allo[0])
            else:
                cands = {expected_args([p], o) for p in t.prov[:1] for o in allo} - {None}
                args = next(iter(cands)) if len(cands) == 1 else None
            return 1, [args], facts
        return 0, [], facts

    def consume(self, ti: int) -> None:
        t = self.cfg.trigs[ti]
        pend = self.pending[ti]
        if t.logic == "or" or len(t.conds) == 1 or all(pend[ci] for ci in t.conds):
            for ci in t.conds:
                self.consumed[ti] += [(o, self.iteration) for o in pend[ci]]
                pend[ci] = []

    def remaining_pairs(self) -> int:
        """(occurrence, condition) pairs some trigger is still waiting with"""
        seen = set()
        for ti, t in enumerate(self.cfg.trigs):
            for ci in t.conds:
                for o in self.pending[ti][ci]:
                    seen.add((ci, id(o)))
        return len(seen)


def history_script(rng: Any, n: int, long_waits: bool) -> list[tuple]:
    script: list[tuple] = []
    for _ in range(n):
        r = rng.random()
        if r < 0.3:
            script.append(("event", rng.choice(["e1", "e2"]), str(rng.randint(0, 9))))
        elif r < 0.45:
            script.append(("ok", rng.choice("abc")))
        elif r < 0.58:
            script.append(("fail", rng.choice("abc"), rng.choice(["ValueError", "KeyError"])))
        elif r < 0.88:
            script.append(("loop",))
        else:
            script.append(("advance", rng.choice([1, 5, 20, 59]) if not long_waits else rng.choice([5, 61, 130])))
    script.append(("loop",))
    script.append(("loop",))
    return script


def run_history(kind: str, tmp: str, app_id: str, cfg: Config, script: list[tuple]) -> list[dict]:
    """run a history on a real app; returns the judgement of every loop iteration that contradicts the property"""
    app = fresh_app(kind, tmp, app_id)
    b = Built(app, Config.from_dict(cfg.describe()))
    occ = Occurrences(b)
    orc = LoopOracle(b.cfg)
    bad: list[dict] = []
    task_key = {t.task: b.targets[t.task].task_id.key for t in b.cfg.trigs}
    with VirtualClock(1_700_000_000_000_000) as clk:
        for step, op in enumerate(script):
            if op[0] == "event":
                occ.event(op[1], op[2])
            elif op[0] == "ok":
                occ.ok(op[1])
            elif op[0] == "fail":
                occ.fail(op[1], op[2])
            elif op[0] == "advance":
                clk.advance(op[1] * US_SEC)
            elif op[0] == "loop":
                orc.feed(occ.log)
                orc.iteration += 1
                expects = [orc.expect(ti) for ti in range(len(b.cfg.trigs))]
                try:
                    app.trigger.trigger_loop_iteration()
                except Exception as e:  # noqa: BLE001
                    bad.append({"step": step, "what": f"trigger_loop_iteration raised {type(e).__name__}: {e}", "cls": "raised"})
                    break
                new = b.new_launches()
                for ti, t in enumerate(b.cfg.trigs):
                    got = sorted((tag, src) for (task, tag, src) in new if task == task_key[t.task])
                    n_exp, args_exp, facts = expects[ti]
                    stale = {expected_args(t.prov, o) for o, _ in orc.consumed[ti]} - {None}
                    kept = bool(orc.consumed[ti]) and any(
                        u is not t and set(u.conds) & set(t.conds) and u.logic == "and" and len(u.conds) > 1 for u in b.cfg.trigs)
                    if len(got) != n_exp:
                        cls = "count"
                        if len(got) < n_exp and t.logic == "and" and len(t.conds) == 1 and facts["max_pending_one_cond"] + (1 if kept else 0) >= 2:
                            cls = "and-default-coalesces"
                        elif len(got) > n_exp and kept:
                            cls = "relaunch"
                        bad.append({"step": step, "trigger": ti, "cls": cls, "what":
                                    f"trigger {ti} ({t.logic}, {len(t.conds)} condition(s), task {t.task}) launched {len(got)} time(s) in this iteration, "
                                    f"the property requires {n_exp} (pending occurrences per condition: "
                                    f"{ {ci: len(v) for ci, v in orc.pending[ti].items()} })", "got": got})
                    elif None not in args_exp and sorted(args_exp) != got:  # type: ignore[type-var]
                        npend = sum(len(v) for v in orc.pending[ti].values())
                        if kept and any(g in stale for g in got):
                            cls = "stale"
                        elif npend >= 2:
                            cls = "args-first-context"
                        else:
                            cls = "args"
                        bad.append({"step": step, "trigger": ti, "cls": cls, "what":
                                    f"trigger {ti} ({t.logic}) launched with arguments {got}, the occurrences' own arguments are {sorted(args_exp)}",  # type: ignore[type-var]
                                    "got": got})
                    orc.consume(ti)
                remaining = len(b.valid_ids())
                if remaining != orc.remaining_pairs() and not bad:
                    bad.append({"step": step, "cls": "remaining", "what":
                                f"{remaining} valid condition(s) pending after the iteration, {orc.remaining_pairs()} (occurrence, condition) pairs are still awaited by an AND trigger"})
    return bad


LOOP_SIGNATURES = {
    "and-default-coalesces": "and-default-coalesces-pending-occurrences",
    "args-first-context": "provider-takes-first-pending-context",
    "relaunch": "relaunch-after-claim-expiry:occurrence-kept-for-unready-trigger",
    "stale": "launched-occurrence-rejoins-context:occurrence-kept-for-unready-trigger",
}


def loop_oracle(ctx: Ctx) -> None:
    n = 14 if ctx.quick else 130
    stats = Counter()
    for i in range(n):
        for _try in range(50):
            cfg = gen_config(ctx.rng, with_cron=False)
            if providers_fit(cfg):
                break
        script = history_script(ctx.rng, ctx.rng.randint(6, 14), long_waits=(i % 4 == 3))
        for kind in ("mem", "sqlite"):
            bad = run_history(kind, ctx.tmp, f"c13h{kind}{i}", cfg, script)
            ctx.count(sum(1 for op in script if op[0] == "loop"))
            ctx.distinct(("history", kind, i, len(script)))
            for x in bad[:1]:
                stats[x["cls"]] += 1
                sig = LOOP_SIGNATURES.get(x["cls"], f"loop-oracle:{x['cls']}")
                ctx.report(sig, f"{kind}: {x['what']} [step {x['step']} of {script}]",
                           {"family": "history", "backend": kind, "config": cfg.describe(), "script": script})
    ctx.notes["loop_oracle_failures"] = dict(stats)
    ctx.sample({"history": script, "config": cfg.describe()})


# ================================================================================================
# F. fixed scenarios: every defect class found so far, on the real code, with a stable signature
# ================================================================================================

def _single(kind: str, tmp: str, name: str, conds: list[CondSpec], trigs: list[TrigSpec]):  # noqa: ANN202
    app = fresh_app(kind, tmp, f"c13f{name}{kind}")
    return Built(app, Config(conds, trigs))


def scenario(name: str, kind: str, tmp: str) -> tuple[bool, str]:
    """returns (property violated?, what happened)"""
    T0 = 1_700_000_040_000_000  # 2023-11-14 22:14:00 UTC, start of a minute
    if name == "two-pending-events-default-logic":
        b = _single(kind, tmp, "b", [CondSpec("event", code="ping")], [TrigSpec("target", [0], "and", ["c:event"])])
        o = Occurrences(b)
        with VirtualClock(T0):
            o.event("ping", "1"); o.event("ping", "2")
            b.app.trigger.trigger_loop_iteration()
            ls, rem = b.new_launches(), b.valid_ids()
        return len(ls) != 2, f"two `ping` events pending, trigger on `ping` alone (default logic): {len(ls)} launch(es) {[(x[1]) for x in ls]}, {len(rem)} still pending"
    if name == "two-pending-events-or-arguments":
        b = _single(kind, tmp, "c", [CondSpec("event", code="ping")], [TrigSpec("target", [0], "or", ["c:event"])])
        o = Occurrences(b)
        with VirtualClock(T0):
            o.event("ping", "1"); o.event("ping", "2")
            b.app.trigger.trigger_loop_iteration()
            ls = b.new_launches()
        tags = sorted(x[1] for x in ls)
        return tags != ["1", "2"], f"two `ping` events (n=1, n=2) pending, OR trigger with arguments from the event: launches carry n={tags}"
    if name == "shared-occurrence-relaunched-after-expiry":
        b = _single(kind, tmp, "h", [CondSpec("event", code="A"), CondSpec("event", code="B")],
                    [TrigSpec("target", [0], "and", ["c:event"]), TrigSpec("target2", [0, 1], "and", [])])
        o = Occurrences(b)
        counts = []
        with VirtualClock(T0) as clk:
            o.event("A", "1")
            for _ in range(4):
                b.app.trigger.trigger_loop_iteration()
                counts.append(sum(1 for x in b.launches() if x[0].endswith("target")))
                clk.advance(40 * US_SEC)
        return counts[-1] != 1, f"one event `A`; trigger 1 on `A` alone, trigger 2 on `A` AND `B` (never emitted): launches of trigger 1 after iterations at +0/40/80/120 s: {counts}"
    if name == "kept-occurrence-rejoins-context":
        b = _single(kind, tmp, "i", [CondSpec("event", code="A"), CondSpec("event", code="B")],
                    [TrigSpec("target", [0], "and", ["c:event"]), TrigSpec("target2", [0, 1], "and", [])])
        o = Occurrences(b)
        with VirtualClock(T0) as clk:
            o.event("A", "1")
            b.app.trigger.trigger_loop_iteration()
            first = [x[1] for x in b.new_launches()]
            clk.advance(5 * US_SEC)
            o.event("A", "2")
            b.app.trigger.trigger_loop_iteration()
            second = [x[1] for x in b.new_launches()]
        return second != ["2"], (f"events `A`(n=1), loop, `A`(n=2), loop; trigger 1 on `A` alone, trigger 2 on `A` AND `B` (never emitted): "
                                 f"first iteration launches n={first}, second iteration launches n={second} (the first event is still pending for trigger 2 and rejoins trigger 1's context)")
    if name == "and-occurrences-redelivered-in-other-order":
        # the SAME two occurrences of an AND trigger are delivered a second time (a duplicate report), in the other order, a few
        # seconds after they were consumed: it is the same run - claimed already - not a new one
        b = _single(kind, tmp, "j", [CondSpec("event", code="A"), CondSpec("event", code="B")], [TrigSpec("target", [0, 1], "and", [])])
        o = Occurrences(b)
        with VirtualClock(T0) as clk:
            o.event("A", "1"); o.event("B", "1")
            vcs = list(b.app.trigger.get_valid_conditions().values())
            b.app.trigger.trigger_loop_iteration()
            first = len(b.new_launches())
            clk.advance(5 * US_SEC)
            b.app.trigger.record_valid_conditions(list(reversed(vcs)))
            b.app.trigger.trigger_loop_iteration()
            second = len(b.new_launches())
        return (first, second) != (1, 0), (f"AND trigger on events `A` and `B`: one occurrence of each, loop -> {first} launch(es); the same two occurrences reported again "
                                           f"in the other order 5 s later, loop -> {second} more launch(es)")
    if name == "trigger-definitions-momentarily-absent":
        # a starting runner re-registers the triggers of a task: it removes the task's definitions and writes them again (two store
        # operations).  A loop iteration of ANOTHER runner falls in between: the pending occurrence has, for that moment, no trigger.
        # It is nobody's yet - it stays pending and is launched once the definitions are back.
        b = _single(kind, tmp, "ta", [CondSpec("event", code="ping")], [TrigSpec("target", [0], "or", ["c:event"])])
        o = Occurrences(b)
        trig = b.app.trigger
        with VirtualClock(T0) as clk:
            o.event("ping", "2")
            trig.clean_task_trigger_definitions(b.targets["target"].task_id)
            trig.trigger_loop_iteration()                      # the other runner's iteration, between the two writes
            trig.register_task_triggers(b.targets["target"], b.builders["target"])
            for _ in range(3):
                clk.advance(2 * US_SEC)
                trig.trigger_loop_iteration()
            tags = sorted(x[1] for x in b.launches())
        return tags != ["2"], (f"event `ping`(n=2) pending while the trigger definitions of its task are re-registered (removed, one loop iteration, written again): "
                               f"after three more iterations the launches carry n={tags}, {len(b.valid_ids())} occurrence(s) pending")
    if name == "many-unconsumable-occurrences-pending":
        # 120 occurrences that cannot be consumed yet (one side of an AND trigger) are pending when an ordinary event arrives and the
        # AND is completed: both launch, nothing is starved by the backlog
        b = _single(kind, tmp, "mu", [CondSpec("event", code="e"), CondSpec("event", code="x"), CondSpec("event", code="y")],
                    [TrigSpec("target", [0], "or", ["c:event"]), TrigSpec("target2", [1, 2], "and", [])])
        o = Occurrences(b)
        with VirtualClock(T0) as clk:
            for j in range(120):
                o.event("x", str(j))
            b.app.trigger.trigger_loop_iteration()
            o.event("e", "1"); o.event("y", "1")
            for _ in range(5):
                clk.advance(2 * US_SEC)
                b.app.trigger.trigger_loop_iteration()
            per = Counter(x[0].split(".")[-1] for x in b.launches())
        return (per.get("target", 0) != 1 or per.get("target2", 0) < 1), (f"120 `x` events pending for a trigger on `x` AND `y`; then `e` (own trigger) and `y` arrive; after five iterations the launches are "
                                                                            f"{dict(per)} (trigger on `e`: 1 expected; trigger on `x` AND `y`: at least 1), {len(b.valid_ids())} occurrences pending")
    if name == "occurrence-reported-during-iteration":
        # an occurrence is reported WHILE a loop iteration runs - right before its k-th access to the trigger store, every k:
        # it is launched by that iteration or a later one, never deleted unevaluated
        worst = None
        for k in range(0, 16):
            b = _single(kind, tmp, f"k{k}", [CondSpec("event", code="ping")], [TrigSpec("target", [0], "or", ["c:event"])])
            o = Occurrences(b)
            trig = b.app.trigger
            n = {"ops": 0, "done": False}
            saved = {}
            with VirtualClock(T0) as clk:
                o.event("ping", "1")

                def wrap(opname):  # type: ignore[no-untyped-def]
                    real = getattr(trig, opname)

                    def f(*a, **kw):  # type: ignore[no-untyped-def]
                        if n["ops"] == k and not n["done"]:
                            n["done"] = True
                            o.event("ping", "2")
                        n["ops"] += 1
                        return real(*a, **kw)
                    saved[opname] = real
                    setattr(trig, opname, f)

                for opname in STORE_OPS:
                    if hasattr(trig, opname):
                        wrap(opname)
                try:
                    trig.trigger_loop_iteration()
                finally:
                    for opname in saved:
                        delattr(trig, opname)
                if not n["done"]:
                    break                      # the iteration has fewer than k store accesses
                for _ in range(2):
                    clk.advance(2 * US_SEC)
                    trig.trigger_loop_iteration()
                tags = sorted(x[1] for x in b.launches())
                # (which arguments the two launches carry when both occurrences are pending in ONE iteration is the listed finding
                #  provider-takes-first-pending-context; here the NUMBER of launches is judged)
                if len(tags) != 2 and worst is None:
                    worst = (k, tags, len(b.valid_ids()))
        if worst:
            return True, (f"event `ping`(n=2) reported during a loop iteration, right before its store access #{worst[0]} (n=1 was pending): after that iteration and two more the "
                          f"launches carry n={worst[1]}, {worst[2]} occurrence(s) still pending - the occurrence was dropped without being evaluated")
        return False, "every occurrence reported during an iteration was launched"
    if name == "same-exception-type-two-invocations":
        b = _single(kind, tmp, "a", [CondSpec("exception", types=["ValueError"])], [TrigSpec("target", [0], "or", ["c:exception"])])
        o = Occurrences(b)
        with VirtualClock(T0):
            o.fail("a", "ValueError"); o.fail("b", "ValueError")
            b.app.trigger.trigger_loop_iteration()
            ls = b.new_launches()
        return len(ls) != 2, f"two invocations failed with ValueError: {len(ls)} launch(es)"
    if name == "cron-first-poll-off-schedule":
        b = _single(kind, tmp, "g", [CondSpec("cron", fields="0 0 1 1 *".split())], [TrigSpec("target", [0], "and", [])])
        with VirtualClock(T0 + 83 * US_SEC):
            b.app.trigger.trigger_loop_iteration()
            ls = b.new_launches()
        return len(ls) != 0, f"cron `0 0 1 1 *` (yearly), first loop iteration on 2023-11-14 22:15:23 UTC: {len(ls)} launch(es)"
    if name == "cron-short-window":
        cfg = CronCfg(window=10, min_interval=50)
        b = _single(kind, tmp, "f", [CondSpec("cron", fields="* * * * *".split(), cfg=cfg)], [TrigSpec("target", [0], "and", [])])
        b.app.trigger.store_last_cron_execution(b.cfg.conds[0].cid, to_dt(T0 - 60 * US_SEC))
        with VirtualClock(T0 + 45 * US_SEC):
            b.app.trigger.trigger_loop_iteration()
            ls = b.new_launches()
        return len(ls) != 0, f"cron `* * * * *`, check_window_seconds=10, last execution one minute ago, poll 45 s into the minute: {len(ls)} launch(es)"
    if name == "cron-reregistered-by-second-app":
        if kind != "sqlite":
            return False, "n/a"
        db = os.path.join(tmp, "c13fe.db")
        conds = [CondSpec("cron", fields="* * * * *".split())]
        app1 = fresh_app(kind, tmp, "c13fe", db=db)
        b1 = Built(app1, Config(conds, [TrigSpec("target", [0], "and", [])]))
        b1.app.trigger.store_last_cron_execution(b1.cfg.conds[0].cid, to_dt(T0 - 60 * US_SEC))
        with VirtualClock(T0 + 5 * US_SEC) as clk:
            b1.app.trigger.trigger_loop_iteration()
            n1 = len(b1.new_launches())
            app2 = fresh_app(kind, tmp, "c13fe", db=db)  # a second process starting up on the same database
            b2 = Built(app2, Config([CondSpec("cron", fields="* * * * *".split())], [TrigSpec("target", [0], "and", [])]))
            clk.advance(10 * US_SEC)
            b2.app.trigger.trigger_loop_iteration()
            n2 = len(b1.new_launches())
        return n1 + n2 != 1, f"cron `* * * * *`: runner 1 fires at :05 ({n1} launch), a second app object registers the same condition, its loop at :15 launches {n2} more for the same minute"
    if name == "same-named-filters-in-two-modules":
        from harness import c13_tasks as T13
        from harness.c13_rules import eu, us
        from pynenc.trigger.trigger_builder import TriggerBuilder

        app = fresh_app(kind, tmp, f"c13fsn{kind}")
        ta = app.task(T13.target, triggers=[TriggerBuilder().on_event("order", eu.accepts).with_args_from_event(T13.args_from_event)])
        tb = app.task(T13.target2, triggers=[TriggerBuilder().on_event("order", us.accepts).with_args_from_event(T13.args_from_event)])
        app.register_deferred_triggers()
        got: dict[str, list] = {}
        seen: set = set()
        with VirtualClock(T0) as clk:
            for region in ("us", "eu", "asia", "us"):
                app.trigger.emit_event("order", {"n": region})
                for _ in range(2):
                    app.trigger.trigger_loop_iteration()
                    clk.advance(2 * US_SEC)
                now_ = []
                for nm, t in (("target", ta), ("target2", tb)):
                    for inv_id in app.orchestrator.get_task_invocation_ids(t.task_id):
                        if inv_id not in seen:
                            seen.add(inv_id)
                            now_.append((nm, str(app.state_backend.get_invocation(inv_id).call.arguments.kwargs.get("tag"))))
                got.setdefault(region, []).append(sorted(now_))
        want = {"us": [[("target2", "us")], [("target2", "us")]], "eu": [[("target", "eu")]], "asia": [[]]}
        return got != want, (f"two triggers on event `order`, each with a payload filter called `accepts` (modules c13_rules.eu / c13_rules.us); events us, eu, asia, us one at a "
                             f"time: launches per event {got}, expected {want}")
    if name == "trigger-redefined-by-another-runner":
        from harness import c13_tasks as T13
        from pynenc.trigger.trigger_builder import TriggerBuilder

        if kind != "sqlite":
            return False, "shared store needed"
        db = os.path.join(tmp, f"c13frd{os.getpid()}.db")
        tags = []
        with VirtualClock(T0) as clk:
            a1 = fresh_app(kind, tmp, "c13frd", db=db)
            t1 = a1.task(T13.target, triggers=[TriggerBuilder().on_event("deploy").with_args_static({"tag": "old"})])
            a1.register_deferred_triggers()
            a1.trigger.emit_event("deploy", {"n": "1"})
            a1.trigger.trigger_loop_iteration()
            clk.advance(5 * US_SEC)
            # a rolling update: another runner of the same application registers the same trigger with other arguments
            a2 = fresh_app(kind, tmp, "c13frd", db=db)
            a2.task(T13.target, triggers=[TriggerBuilder().on_event("deploy").with_args_static({"tag": "new"})])
            a2.register_deferred_triggers()
            clk.advance(5 * US_SEC)
            a1.trigger.emit_event("deploy", {"n": "2"})
            a1.trigger.trigger_loop_iteration()          # the OLD runner serves the second event
            clk.advance(5 * US_SEC)
            a2.trigger.emit_event("deploy", {"n": "3"})
            a2.trigger.trigger_loop_iteration()
            for inv_id in a2.orchestrator.get_task_invocation_ids(t1.task_id):
                tags.append(str(a2.state_backend.get_invocation(inv_id).call.arguments.kwargs.get("tag")))
            stored = [str(t.argument_provider.get_arguments if False else "") for t in []]
        _ = stored
        return sorted(tags) != ["new", "new", "old"], (f"sqlite, two runners of one application on one store: runner A registers a trigger on `deploy` with static arguments tag=old and serves "
                                                      f"event 1; runner B registers the SAME trigger with tag=new; event 2 is served by A's loop, event 3 by B's: launches carry tags "
                                                      f"{sorted(tags)}, expected ['new', 'new', 'old'] (the stored definition is what every loop launches with)")
    raise ValueError(name)


SCENARIOS = {
    "two-pending-events-default-logic": "and-default-coalesces-pending-occurrences",
    "two-pending-events-or-arguments": "provider-takes-first-pending-context",
    "shared-occurrence-relaunched-after-expiry": "relaunch-after-claim-expiry:occurrence-kept-for-unready-trigger",
    "kept-occurrence-rejoins-context": "launched-occurrence-rejoins-context:occurrence-kept-for-unready-trigger",
    "and-occurrences-redelivered-in-other-order": "and-run-identity-depends-on-delivery-order",
    "occurrence-reported-during-iteration": "occurrence-reported-during-iteration-is-dropped",
    "many-unconsumable-occurrences-pending": "backlog-of-unconsumable-occurrences-starves-the-loop",
    "trigger-definitions-momentarily-absent": "occurrence-dropped-while-trigger-definitions-are-re-registered",
    "same-exception-type-two-invocations": "exception-occurrence-identity-ignores-invocation",
    "cron-first-poll-off-schedule": "cron-first-poll-fires-off-schedule",
    "cron-short-window": "cron-window-shorter-than-a-minute-ignored",
    "cron-reregistered-by-second-app": "cron-reregistration-resets-last-execution:sqlite",
    "same-named-filters-in-two-modules": "filters-with-one-name-share-a-condition",
    "trigger-redefined-by-another-runner": "loop-launches-with-a-stale-trigger-definition",
}


def fixed_scenarios(ctx: Ctx) -> None:
    res = {}
    for name, sig in SCENARIOS.items():
        for kind in ("mem", "sqlite"):
            bad, what = scenario(name, kind, ctx.tmp)
            ctx.count()
            ctx.distinct(("scenario", name, kind))
            res[f"{name}:{kind}"] = "violated" if bad else "holds"
            if bad:
                ctx.report(sig, f"{kind}: {what}", {"family": "scenario", "name": name, "backend": kind})
    ctx.notes["scenarios"] = res


def loop_faults(ctx: Ctx) -> None:
    """A storage fault ("database is locked", a dropped connection) strikes the k-th access of a loop iteration to the trigger store
    or the launch itself, every k; the iteration fails (the runner's service loop reports it) and later iterations run without faults -
    first while the claims of the failed iteration are still held, then after they have expired.  Outside the stated quantifier (no
    faults there); judged by the statement all the same: every pending occurrence is launched once - not lost, not launched twice."""
    import sqlite3

    T0 = 1_700_000_040_000_000
    res: Counter = Counter()
    for kind in ("mem", "sqlite"):
        for logic, nocc, want in (("or", 3, 3), ("and", 1, 1)):
            for k in range(0, 30):
                b = _single(kind, ctx.tmp, f"lf{logic}{k}", [CondSpec("event", code="ping")], [TrigSpec("target", [0], logic, ["c:event"])])
                o = Occurrences(b)
                trig = b.app.trigger
                n = {"ops": 0, "done": None}
                saved = {}
                with VirtualClock(T0) as clk:
                    for j in range(nocc):
                        o.event("ping", str(j + 1))

                    def wrap(opname):  # type: ignore[no-untyped-def]
                        real = getattr(trig, opname)

                        def f(*a, **kw):  # type: ignore[no-untyped-def]
                            if n["ops"] == k and n["done"] is None:
                                n["done"] = opname
                                n["ops"] += 1
                                raise sqlite3.OperationalError("database is locked")
                            n["ops"] += 1
                            return real(*a, **kw)
                        saved[opname] = real
                        setattr(trig, opname, f)

                    for opname in STORE_OPS:
                        if hasattr(trig, opname):
                            wrap(opname)
                    raised = None
                    try:
                        trig.trigger_loop_iteration()
                    except Exception as e:  # noqa: BLE001
                        raised = type(e).__name__
                    finally:
                        for opname in saved:
                            delattr(trig, opname)
                    if n["done"] is None:
                        break                                   # the iteration has fewer than k store accesses
                    for _ in range(3):                          # the claims made before the fault are still held
                        clk.advance(2 * US_SEC)
                        trig.trigger_loop_iteration()
                    for _ in range(2):                          # ... and have expired
                        clk.advance(180 * US_SEC)
                        trig.trigger_loop_iteration()
                    got, left = len(b.launches()), len(b.valid_ids())
                ctx.count()
                ctx.distinct(("loop-fault", kind, logic, n["done"], k))
                op = n["done"]
                res[f"{op}:{'ok' if got == want else ('lost' if got < want else 'twice')}"] += 1
                if got != want:
                    what = "occurrence-lost" if got < want else "launched-twice"
                    ctx.report(f"loop-fault:{op}:{what}",
                               f"{kind}: {nocc} `ping` event(s) pending, {logic.upper()} trigger; store access #{k} of the loop iteration ({op}) fails with 'database is locked' "
                               f"(the iteration {'raised ' + raised if raised else 'returned normally'}); after three more iterations within the claim lifetime and two after it: {got} launch(es) "
                               f"instead of {want}, {left} occurrence(s) still pending",
                               {"family": "loop-fault", "backend": kind, "logic": logic, "fault_at_access": k, "operation": op})
    # ---- two cron conditions due in the SAME poll, a fault at the k-th store access of that iteration; later polls fall into the same
    #      check window: every tick launches its task once
    for kind in ("mem", "sqlite"):
        for k in range(0, 40):
            cfgc = CronCfg(window=120, min_interval=50, tolerance=30, strict=False)
            b = _single(kind, ctx.tmp, f"lfc{k}", [CondSpec("cron", fields="* * * * *".split(), cfg=cfgc), CondSpec("cron", fields="*/2 * * * *".split(), cfg=cfgc)],
                        [TrigSpec("target", [0], "and", []), TrigSpec("target2", [1], "and", [])])
            trig = b.app.trigger
            n = {"ops": 0, "done": None}
            saved = {}
            with VirtualClock(T0 + 5 * US_SEC) as clk:       # T0 is the start of an even minute: both schedules tick
                def wrapc(opname):  # type: ignore[no-untyped-def]
                    real = getattr(trig, opname)

                    def f(*a, **kw):  # type: ignore[no-untyped-def]
                        if n["ops"] == k and n["done"] is None:
                            n["done"] = opname
                            n["ops"] += 1
                            raise sqlite3.OperationalError("database is locked")
                        n["ops"] += 1
                        return real(*a, **kw)
                    saved[opname] = real
                    setattr(trig, opname, f)

                for opname in STORE_OPS:
                    if hasattr(trig, opname):
                        wrapc(opname)
                raised = None
                try:
                    trig.trigger_loop_iteration()
                except Exception as e:  # noqa: BLE001
                    raised = type(e).__name__
                finally:
                    for opname in saved:
                        delattr(trig, opname)
                if n["done"] is None:
                    break
                for _ in range(3):
                    clk.advance(10 * US_SEC)
                    trig.trigger_loop_iteration()
                per = Counter(x[0].split(".")[-1] for x in b.launches())
            ctx.count()
            ctx.distinct(("loop-fault-cron", kind, n["done"], k))
            op = n["done"]
            bad_t = [t for t in ("target", "target2") if per.get(t, 0) != 1]
            res[f"cron:{op}:{'ok' if not bad_t else 'bad'}"] += 1
            if bad_t and op != "execute_task":
                what = "occurrence-lost" if per.get(bad_t[0], 0) == 0 else "launched-twice"
                ctx.report(f"loop-fault:cron:{op}:{what}",
                           f"{kind}: two cron triggers ('* * * * *', '*/2 * * * *') tick in the same poll; store access #{k} of that iteration ({op}) fails with 'database is locked' "
                           f"(the iteration {'raised ' + raised if raised else 'returned'}); after three more polls inside the check window the launches are {dict(per)} (one each expected)",
                           {"family": "loop-fault-cron", "backend": kind, "fault_at_access": k, "operation": op})
    ctx.notes["loop_faults"] = dict(res)


# ================================================================================================
# E. two concurrent loop iterations / cron passes on the real stores
# ================================================================================================

SQL_PATCH = [("pynenc.util.sqlite_utils", "create_sqlite_connection"), ("pynenc.trigger.sqlite_trigger", "sqlite_conn"),
             ("pynenc.orchestrator.sqlite_orchestrator", "sqlite_conn"), ("pynenc.state_backend.sqlite_state_backend", "sqlite_conn"),
             ("pynenc.broker.sqlite_broker", "sqlite_conn")]
STORE_OPS = ["_get_all_conditions", "get_valid_conditions", "get_triggers_for_condition", "claim_trigger_run", "execute_task",
             "clear_valid_conditions", "get_last_cron_execution", "store_last_cron_execution", "record_valid_conditions"]
T_CONC = 1_700_000_040_000_000  # start of a minute


def conc_config(variant: str) -> Config:
    if variant == "or":
        return Config([CondSpec("event", code="e1")], [TrigSpec("target", [0], "or", ["c:event"])])
    if variant == "single":
        return Config([CondSpec("event", code="e1")], [TrigSpec("target", [0], "and", ["c:event"])])
    if variant == "two-triggers":
        return Config([CondSpec("event", code="e1"), CondSpec("status", statuses=["success"])],
                      [TrigSpec("target", [0], "or", ["c:event"]), TrigSpec("target2", [0, 1], "or", ["c:event", "c:status"])])
    raise ValueError(variant)


class SyncHistory:
    """While scheduling threads statement by statement, the state backend's fire-and-forget history writer threads
    would touch the database at arbitrary real times; inside this context their work is done synchronously by the
    thread that started them (so it is part of the schedule)."""

    def __enter__(self):  # noqa: ANN204
        import pynenc.state_backend.base_state_backend as m

        self.m, self.saved = m, m.threading

        class _T:
            def __init__(self, target=None, args=(), kwargs=None, **_kw):  # noqa: ANN001
                self.t, self.a, self.k = target, args, kwargs or {}

            def start(self):  # noqa: ANN202
                self.t(*self.a, **self.k)

            def join(self, timeout=None):  # noqa: ANN001, ANN202
                return None

            def is_alive(self):  # noqa: ANN202
                return False

        class _Shim:
            Thread = _T

            def __getattr__(self, name):  # noqa: ANN001, ANN204
                return getattr(self_saved, name)

        self_saved = self.saved
        m.threading = _Shim()
        return self

    def __exit__(self, *a):  # noqa: ANN002, ANN204
        self.m.threading = self.saved


class ClaimLog:
    """records every completed claim / compare-and-swap on the given trigger objects, in completion order"""

    def __init__(self, trigs: list[Any], clock: VirtualClock):
        self.events: list[tuple] = []
        self._saved = []
        for t in trigs:
            oc, os_ = t.claim_trigger_run, t.store_last_cron_execution

            def claim(rid, expiration_seconds=60, _o=oc):  # noqa: ANN001, ANN202
                r = _o(rid, expiration_seconds)
                self.events.append(("claim", rid, clock.us, expiration_seconds * US_SEC, r))
                return r

            def cas(cid, t_, expected_last_execution=None, _o=os_):  # noqa: ANN001, ANN202
                r = _o(cid, t_, expected_last_execution)
                ex = expected_last_execution
                self.events.append(("cas", cid, to_us(t_), None if ex is None else to_us(ex), r))
                return r

            t.claim_trigger_run = claim
            t.store_last_cron_execution = cas
            self._saved.append(t)

    def restore(self) -> None:
        for t in self._saved:
            for n in ("claim_trigger_run", "store_last_cron_execution"):
                t.__dict__.pop(n, None)

    def explained_by_atomic_model(self, drv: LeanDriver, kind: str, cron_line: str | None) -> bool:
        """replay the completed operations, in completion order, on the Lean store: same results?"""
        lines = [f"trg.reset {kind}"] + ([cron_line] if cron_line else [])
        want = ["ok"] * len(lines)
        for e in self.events:
            if e[0] == "claim":
                lines.append(f"trg.claim {tok(e[1])} {e[2]} {e[3]}")
            else:
                lines.append(f"trg.cas {tok(e[1])} {e[2]} {'-' if e[3] is None else e[3]}")
            want.append("true" if e[-1] else "false")
        return drv.ask_many(lines) == want


def preemption_points(trace: list[tuple], thread: int, only_after_reads: bool) -> list[int]:
    """numbers of steps of `thread` after which to switch to the other thread"""
    mine = [t for t in trace if t[1] == thread]
    pts = []
    for k, t in enumerate(mine, 1):
        if not only_after_reads or (t[2] in ("exec", "op") and (t[3].upper().startswith("SELECT") or t[3].startswith("get_") or t[3].startswith("_get"))):
            pts.append(k)
    return pts


def conc_schedules(ctx: Ctx, probe_trace: list[tuple], nthreads: int = 2) -> list[list[int]]:
    """single-pre-emption schedules `A×k, B…, A…` (and the mirror image), k after every read of the store (quick)
    or after every step (thorough); plus seeded two-pre-emption schedules in the thorough tier"""
    out: list[list[int]] = [[]]
    for a in range(nthreads):
        b = 1 - a
        pts = preemption_points(probe_trace, 0, only_after_reads=ctx.quick)
        if ctx.quick and len(pts) > 7:
            pts = sorted(ctx.rng.sample(pts, 7))
        for k in pts:
            out.append([a] * (k + 1) + [b] * 400)  # the first release only runs the thread up to its first yield point
    if not ctx.quick:
        n = len([t for t in probe_trace if t[1] == 0])
        for _ in range(40):
            k1 = ctx.rng.randint(1, max(1, n - 1))
            k2 = ctx.rng.randint(1, max(1, n - 1))
            k3 = ctx.rng.randint(1, max(1, n))
            a = ctx.rng.randint(0, 1)
            out.append([a] * k1 + [1 - a] * k2 + [a] * k3 + [1 - a] * 400)
    return out


def concurrent_loops_sqlite(ctx: Ctx, drv: LeanDriver) -> None:
    from harness.sched_sql import PrefixChooser, SqlSched

    stats = Counter()
    unexplained_without_failure = 0
    for variant in (["or"] if ctx.quick else ["or", "single", "two-triggers"]):
        cfgd = conc_config(variant).describe()
        db = os.path.join(ctx.tmp, f"c13e{variant}.db")
        b1 = Built(fresh_app("sqlite", ctx.tmp, f"c13e{variant}", db=db), Config.from_dict(cfgd))
        b2 = Built(fresh_app("sqlite", ctx.tmp, f"c13e{variant}", db=db), Config.from_dict(cfgd))
        for b in (b1, b2):  # create every component's tables now, not inside the scheduled section
            b.app.orchestrator, b.app.state_backend, b.app.broker, b.app.client_data_store
            b.src(k="warm")
            flush(b.app)
        b1.new_launches()
        occ = Occurrences(b1)
        sched = SqlSched(patch=SQL_PATCH)
        with VirtualClock(T_CONC) as clk, sched, SyncHistory():
            occ.event("e1", "0")
            probe = sched.run([b1.app.trigger.trigger_loop_iteration, b2.app.trigger.trigger_loop_iteration], PrefixChooser([]))
            b1.new_launches()
            for prefix in conc_schedules(ctx, probe.trace):
                clk.advance(1000)
                occ.event("e1", str(len(occ.log)))
                ev = occ.log[-1]
                log = ClaimLog([b1.app.trigger, b2.app.trigger], clk)
                run = sched.run([b1.app.trigger.trigger_loop_iteration, b2.app.trigger.trigger_loop_iteration], PrefixChooser(prefix))
                log.restore()
                ctx.count()
                ctx.distinct(("conc-sqlite", variant, tuple(run.choices)))
                stats["schedules"] += 1
                errs = [e for e in run.errors if e is not None]
                new = b1.new_launches()
                per_task = Counter(x[0] for x in new if x[2] == "event:" + ev["id"])
                expected_tasks = {b1.targets[t.task].task_id.key for t in b1.cfg.trigs}
                bad = [(k, per_task.get(k, 0)) for k in expected_tasks if per_task.get(k, 0) != 1]
                explained = log.explained_by_atomic_model(drv, "sqlite", None)
                if not explained:
                    stats["histories not explained by atomic claims"] += 1
                if errs and not bad:
                    stats["errors"] += 1
                    ctx.report(f"concurrent-loop-raised:sqlite:{type(errs[0]).__name__}",
                               f"a loop iteration raised {errs[0]!r} under schedule {run.choices[:60]}",
                               {"family": "conc-sqlite-loop", "variant": variant, "schedule": run.choices})
                if bad:
                    stats["double or missing launch"] += 1
                    kind_ = "double-launch" if any(n > 1 for _, n in bad) else "missing-launch"
                    wins = [e for e in log.events if e[0] == "claim" and e[-1]]
                    sig = (f"concurrent-{kind_}:sqlite:claim_trigger_run-select-then-write"
                           if kind_ == "double-launch" and len(wins) > len({e[1] for e in wins}) else f"concurrent-{kind_}:sqlite")
                    ctx.report(sig, f"sqlite, {variant}: one `e1` event, two runners iterate concurrently: launches per task {dict(per_task)} "
                               f"(successful claims: {len(wins)} for {len({e[1] for e in wins})} run id(s)); schedule {run.choices[:40]}…",
                               {"family": "conc-sqlite-loop", "variant": variant, "schedule": run.choices})
                elif not explained:
                    unexplained_without_failure += 1
    ctx.obligation("every concurrent SQLite history that the atomic-step store model does not explain comes with a reported property failure",
                   unexplained_without_failure == 0, f"{unexplained_without_failure} unexplained histories without a failing launch count")
    ctx.notes["conc_sqlite_loops"] = dict(stats)


def concurrent_cron(ctx: Ctx, drv: LeanDriver) -> None:
    """two runners evaluate one cron condition in the same scheduled minute (instants 1 ms apart)"""
    from harness.c13_sched import OpSched
    from harness.sched_sql import PrefixChooser, SqlSched

    stats = Counter()
    unexplained_without_failure = 0
    conf = Config([CondSpec("cron", fields="* * * * *".split())], [TrigSpec("target", [0], "and", [])])
    cron_line = None
    for kind in ("mem", "sqlite"):
        for scen in ("first-tick", "later-tick"):
            # probe run to learn the step structure
            schedules: list[list[int]] | None = None
            i = 0
            while schedules is None or i < len(schedules):
                prefix = [] if schedules is None else schedules[i]
                db = os.path.join(ctx.tmp, f"c13ec{kind}{scen}{i}{schedules is None}.db")
                b1 = Built(fresh_app(kind, ctx.tmp, f"c13ec{kind}", db=db), Config.from_dict(conf.describe()))
                b2 = b1 if kind == "mem" else Built(fresh_app(kind, ctx.tmp, f"c13ec{kind}", db=db), Config.from_dict(conf.describe()))
                cid = b1.cfg.conds[0].cid
                cron_line = b1.cond_line(b1.cfg.conds[0])
                t1, t2 = T_CONC + 60 * US_SEC + 5 * US_SEC, T_CONC + 60 * US_SEC + 5 * US_SEC + 1000
                if scen == "later-tick":
                    b1.app.trigger.store_last_cron_execution(cid, to_dt(T_CONC + 2 * US_SEC))
                with VirtualClock(t1) as clk:
                    trigs = [b1.app.trigger] if kind == "mem" else [b1.app.trigger, b2.app.trigger]
                    log = ClaimLog(trigs, clk)
                    bodies = [lambda: b1.app.trigger.check_time_based_triggers(to_dt(t1)),
                              lambda: b2.app.trigger.check_time_based_triggers(to_dt(t2))]
                    if kind == "mem":
                        sch = OpSched()
                        sch.wrap(b1.app.trigger, STORE_OPS)
                        run = sch.run(bodies, PrefixChooser(prefix))
                        sch.unwrap()
                    else:
                        with SqlSched(patch=SQL_PATCH) as sq:
                            run = sq.run(bodies, PrefixChooser(prefix))
                    log.restore()
                if schedules is None:
                    schedules = conc_schedules(ctx, run.trace)
                    continue
                i += 1
                ctx.count()
                ctx.distinct(("conc-cron", kind, scen, tuple(run.choices)))
                stats[f"{kind}:{scen}:schedules"] += 1
                fired = [v for v in b1.valid_ids() if "_context_cron_" in v]
                pre = []
                if scen == "later-tick":
                    pre = [f"trg.cas {tok(cid)} {T_CONC + 2 * US_SEC} -"]
                lines_ok = True
                if log.events:
                    lines = [f"trg.reset {kind}", cron_line] + pre
                    want = ["ok", "ok"] + ["true"] * len(pre)
                    for e in log.events:
                        lines.append(f"trg.cas {tok(e[1])} {e[2]} {'-' if e[3] is None else e[3]}")
                        want.append("true" if e[-1] else "false")
                    lines_ok = drv.ask_many(lines) == want
                if not lines_ok:
                    stats[f"{kind}:{scen}:histories not explained by atomic compare-and-swap"] += 1
                if len(fired) > 1:
                    stats[f"{kind}:{scen}:double fire"] += 1
                    sig = ("concurrent-cron-double-fire:first-tick:compare-and-swap-skipped-when-nothing-stored" if scen == "first-tick"
                           else f"concurrent-cron-double-fire:{kind}:store_last_cron_execution-select-then-write")
                    ctx.report(sig, f"{kind}, {scen}: two runners poll `* * * * *` at :05.000 and :05.001 of the same minute: {len(fired)} occurrences "
                               f"recorded ({[e[-1] for e in log.events]} compare-and-swap results); schedule {run.choices[:40]}",
                               {"family": "conc-cron", "backend": kind, "scenario": scen, "schedule": run.choices})
                elif not lines_ok:
                    unexplained_without_failure += 1
                if any(e is not None for e in run.errors):
                    stats[f"{kind}:{scen}:errors"] += 1
                    stats[f"error:{[repr(e) for e in run.errors if e is not None][0][:200]}"] += 1
    ctx.obligation("every concurrent cron history that the atomic compare-and-swap model does not explain comes with a reported double firing",
                   unexplained_without_failure == 0, f"{unexplained_without_failure}")
    ctx.notes["conc_cron"] = dict(stats)


def concurrent_loops_mem(ctx: Ctx, drv: LeanDriver) -> None:
    """one in-memory app, two threads, interleaved at store-operation granularity"""
    from harness.c13_sched import OpSched
    from harness.sched_sql import PrefixChooser, explore

    stats = Counter()
    for variant in ("or", "single", "two-triggers"):
        cfgd = conc_config(variant).describe()
        counter = [0]

        def run_one(chooser):  # noqa: ANN001, ANN202
            counter[0] += 1
            b = Built(fresh_app("mem", ctx.tmp, f"c13em{variant}{counter[0]}"), Config.from_dict(cfgd))
            occ = Occurrences(b)
            with VirtualClock(T_CONC):
                occ.event("e1", "7")
                sch = OpSched()
                sch.wrap(b.app.trigger, STORE_OPS)
                run = sch.run([b.app.trigger.trigger_loop_iteration, b.app.trigger.trigger_loop_iteration], chooser)
                sch.unwrap()
            run.built = b  # type: ignore[attr-defined]
            run.event = occ.log[-1]  # type: ignore[attr-defined]
            return run

        for run in explore(run_one, max_preemptions=(1 if ctx.quick else 2), max_schedules=(40 if ctx.quick else 1500)):
            b = run.built  # type: ignore[attr-defined]
            ctx.count()
            ctx.distinct(("conc-mem", variant, tuple(run.choices)))
            stats["schedules"] += 1
            new = b.new_launches()
            per_task = Counter(x[0] for x in new)
            expected_tasks = {b.targets[t.task].task_id.key for t in b.cfg.trigs}
            bad = [(k, per_task.get(k, 0)) for k in expected_tasks if per_task.get(k, 0) != 1]
            errs = [e for e in run.errors if e is not None]
            if bad:
                stats["double or missing launch"] += 1
                kind_ = "double-launch" if any(n > 1 for _, n in bad) else "missing-launch"
                ctx.report(f"concurrent-{kind_}:mem", f"mem, {variant}: one `e1` event, two threads iterate concurrently: launches per task "
                           f"{dict(per_task)}; schedule {run.choices}", {"family": "conc-mem-loop", "variant": variant, "schedule": run.choices})
            elif errs:
                stats["errors"] += 1
                ctx.report(f"concurrent-loop-raised:mem:{type(errs[0]).__name__}", f"a loop iteration raised {errs[0]!r} under schedule {run.choices}",
                           {"family": "conc-mem-loop", "variant": variant, "schedule": run.choices})
            if len(b.valid_ids()) != 0 and not bad:
                ctx.report("concurrent-occurrence-not-consumed:mem", f"mem, {variant}: the occurrence is still pending after both iterations; schedule {run.choices}",
                           {"family": "conc-mem-loop", "variant": variant, "schedule": run.choices})
    ctx.notes["conc_mem_loops"] = dict(stats)


def concurrent_lines_mem(ctx: Ctx, drv: LeanDriver) -> None:
    """one in-memory app, two threads, a yield point before every source line of mem_trigger.py (cooperative stand-ins for
    its RLocks): loop iterations with one pending occurrence, and cron passes in one scheduled minute"""
    from harness.c13_sched import CoopLock, LineSched
    from harness.sched_sql import explore

    stats = Counter()
    counter = [0]

    def make(variant: str, scen: str | None):  # noqa: ANN202
        def run_one(chooser):  # noqa: ANN001, ANN202
            counter[0] += 1
            conf = conc_config(variant) if scen is None else Config([CondSpec("cron", fields="* * * * *".split())], [TrigSpec("target", [0], "and", [])])
            b = Built(fresh_app("mem", ctx.tmp, f"c13el{counter[0]}"), Config.from_dict(conf.describe()))
            tr = b.app.trigger
            sch = LineSched(files=("pynenc/trigger/mem_trigger.py",))
            t1 = T_CONC + 65 * US_SEC
            with VirtualClock(t1 if scen else T_CONC):
                if scen is None:
                    Occurrences(b).event("e1", "7")
                    bodies = [tr.trigger_loop_iteration, tr.trigger_loop_iteration]
                else:
                    if scen == "later-tick":
                        tr.store_last_cron_execution(b.cfg.conds[0].cid, to_dt(T_CONC + 2 * US_SEC))
                    bodies = [lambda: tr.check_time_based_triggers(to_dt(t1)), lambda: tr.check_time_based_triggers(to_dt(t1 + 1000))]
                for nm in ("_cron_lock", "_claim_lock", "_trigger_run_lock"):
                    setattr(tr, nm, CoopLock(sch))
                run = sch.run(bodies, chooser)
            run.built = b  # type: ignore[attr-defined]
            return run

        return run_one

    cases = [("or", None), ("single", None), ("or", "first-tick"), ("or", "later-tick")]
    for variant, scen in cases:
        for run in explore(make(variant, scen), max_preemptions=1, max_schedules=(30 if ctx.quick else 400)):
            b = run.built  # type: ignore[attr-defined]
            ctx.count()
            ctx.distinct(("conc-lines-mem", variant, scen, tuple(run.choices)))
            stats[f"{scen or variant}:schedules"] += 1
            for e in run.errors:
                if e is not None:
                    stats[f"{scen or variant}:raised {type(e).__name__}"] += 1
            if run.aborted:
                stats["aborted"] += 1
                continue
            if scen is None:
                n = len(b.new_launches())
                if n != 1:
                    ctx.report(f"concurrent-{'double' if n > 1 else 'missing'}-launch:mem:line-level",
                               f"mem, {variant}: one `e1` event, two threads iterate concurrently (line-level): {n} launches; schedule {run.choices}",
                               {"family": "conc-mem-lines", "variant": variant, "schedule": run.choices})
            else:
                fired = [v for v in b.valid_ids() if "_context_cron_" in v]
                if len(fired) > 1:
                    stats[f"{scen}:double fire"] += 1
                    sig = ("concurrent-cron-double-fire:first-tick:compare-and-swap-skipped-when-nothing-stored" if scen == "first-tick"
                           else "concurrent-cron-double-fire:mem:line-level")
                    ctx.report(sig, f"mem, {scen} (line-level): two threads poll `* * * * *` 1 ms apart in one minute: {len(fired)} occurrences; schedule {run.choices}",
                               {"family": "conc-mem-lines", "variant": variant, "scenario": scen, "schedule": run.choices})
    ctx.obligation("line-level schedules of MemTrigger complete (no deadlock of the cooperative locks)", stats.get("aborted", 0) == 0, str(dict(stats)))
    ctx.notes["conc_mem_lines"] = dict(stats)


PHASES = ["cron_matcher", "cron_satisfied", "cron_poll_sequences", "cron_on_stores", "store_differential", "fixed_scenarios",
          "loop_oracle", "concurrent_loops_mem", "concurrent_lines_mem", "concurrent_cron", "concurrent_loops_sqlite", "loop_faults"]


def phase_rngs(ctx: Ctx) -> dict[str, Any]:
    """one PRNG per phase, all derived from the run's PRNG in a fixed order (a phase can be re-run on its own)"""
    import random

    return {name: random.Random(ctx.rng.getrandbits(64)) for name in ["family"] + PHASES}


def run(ctx: Ctx) -> None:
    lean_stage(ctx, None, THEOREMS)
    drv = LeanDriver()
    rngs = phase_rngs(ctx)
    ctx.rng = rngs["family"]
    fam = cron_family(ctx)
    g = globals()
    for name in PHASES:
        ctx.rng = rngs[name]
        fn = g[name]
        if name.startswith("cron_"):
            fn(ctx, drv, fam)
        elif name in ("fixed_scenarios", "loop_oracle", "loop_faults"):
            fn(ctx)
        else:
            fn(ctx, drv)
    drv.close()
    ctx.cov["rule"] = (
        "cron: generated 5-field expressions (steps, lists, ranges, wildcards, the whole-range and day-of-month/day-of-week special "
        "cases) x instants / settings / poll sequences (regular, jittered, bursty, gapped, minute boundaries, exact window and interval "
        "edges); trigger store: random sequences of public operations on 1-3 condition configurations per backend; loop oracle: random "
        "occurrence histories; concurrency: single-pre-emption schedules after every store read (quick) / every step plus seeded "
        "two-pre-emption schedules (thorough). distinct+non-trivial = distinct (expression, minute), (expression, settings, offset, last), "
        "(expression, settings, style) poll sequences, operation sequences, histories and executed schedules")
    ctx.assumptions += [
        "the clock never runs backwards (poll sequences are non-decreasing; hypothesis PollsOK / ActsInWindow of the theorems)",
        "SHA-256 of trigger id + valid-condition ids is injective on the ids in play (the model keeps run ids as structured pairs)",
        "`valid_condition_<cond>_context_<ctx>` determines the pair (cond, ctx) for the ids in play",
        "the theorems about concurrent iterations are about the atomic-step model (one store operation = one step); that one MemTrigger "
        "call under its lock / one SQLite BEGIN IMMEDIATE transaction is such a step is checked only by the bounded schedule exploration",
        "timestamps between 2020 and 2033 (binary64 seconds inside croniter keep microseconds exact there)",
        "argument filters / payload filters / result filters of conditions are the trivial ones (conditions are modelled by kind, task, "
        "statuses, exception types, event code)",
    ]
    if not ctx.quick:
        thorough_rebuild(ctx)


def replay(data: dict) -> int:
    """re-execute a recorded failing input on the real code; exit status 1 when the property fails again"""
    import tempfile
    import shutil

    r = data["replay"]
    tmp = tempfile.mkdtemp(prefix="verif-C13-replay-")
    try:
        fam = r.get("family")
        if fam == "cron-polls":
            cfg = CronCfg(*r["cfg"])
            got = cron_store_run(r["backend"], tmp, "c13replay", r["fields"], cfg, r["last"], r["polls"])
            bc = BruteCron(r["fields"])
            spec = bf_polls(bc, cfg, r["last"], r["polls"])
            print("fired  :", [to_dt(t).isoformat() for t in got])
            print("property:", [to_dt(t).isoformat() for t in spec])
            c = classify_cron(bc, cfg, r["last"], r["polls"], got, spec)
            print(c or "agrees with the property")
            return 1 if c else 0
        if fam == "scenario":
            bad, what = scenario(r["name"], r["backend"], tmp)
            print(("VIOLATED: " if bad else "holds: ") + what)
            return 1 if bad else 0
        if fam == "history":
            bad = run_history(r["backend"], tmp, "c13replay", Config.from_dict(r["config"]), [tuple(x) for x in r["script"]])
            for x in bad:
                print(x["cls"], "-", x["what"])
            return 1 if bad else 0
        if fam in ("conc-sqlite-loop", "conc-mem-loop"):
            from harness.c13_sched import OpSched
            from harness.sched_sql import PrefixChooser, SqlSched

            kind = "sqlite" if fam == "conc-sqlite-loop" else "mem"
            cfgd = conc_config(r["variant"]).describe()
            db = os.path.join(tmp, "replay.db")
            b1 = Built(fresh_app(kind, tmp, "c13replay", db=db), Config.from_dict(cfgd))
            b2 = b1 if kind == "mem" else Built(fresh_app(kind, tmp, "c13replay", db=db), Config.from_dict(cfgd))
            for b in (b1, b2):
                b.app.orchestrator, b.app.state_backend, b.app.broker, b.app.client_data_store
                b.src(k="warm")
                flush(b.app)
            b1.new_launches()
            occ = Occurrences(b1)
            with VirtualClock(T_CONC), SyncHistory():
                occ.event("e1", "7")
                bodies = [b1.app.trigger.trigger_loop_iteration, b2.app.trigger.trigger_loop_iteration]
                if kind == "mem":
                    sch = OpSched()
                    sch.wrap(b1.app.trigger, STORE_OPS)
                    run = sch.run(bodies, PrefixChooser(r["schedule"]))
                    sch.unwrap()
                else:
                    with SqlSched(patch=SQL_PATCH) as sq:
                        run = sq.run(bodies, PrefixChooser(r["schedule"]))
            per_task = Counter(x[0] for x in b1.new_launches())
            print("schedule followed" if not run.deviated else "schedule deviated", "- launches per task:", dict(per_task), "errors:", run.errors)
            want = {b1.targets[t.task].task_id.key for t in b1.cfg.trigs}
            return 1 if any(per_task.get(k, 0) != 1 for k in want) else 0
        if fam == "conc-cron":
            from harness.c13_sched import OpSched
            from harness.sched_sql import PrefixChooser, SqlSched

            kind, scen = r["backend"], r["scenario"]
            conf = Config([CondSpec("cron", fields="* * * * *".split())], [TrigSpec("target", [0], "and", [])])
            db = os.path.join(tmp, "replay.db")
            b1 = Built(fresh_app(kind, tmp, "c13replay", db=db), Config.from_dict(conf.describe()))
            b2 = b1 if kind == "mem" else Built(fresh_app(kind, tmp, "c13replay", db=db), Config.from_dict(conf.describe()))
            t1, t2 = T_CONC + 65 * US_SEC, T_CONC + 65 * US_SEC + 1000
            if scen == "later-tick":
                b1.app.trigger.store_last_cron_execution(b1.cfg.conds[0].cid, to_dt(T_CONC + 2 * US_SEC))
            bodies = [lambda: b1.app.trigger.check_time_based_triggers(to_dt(t1)), lambda: b2.app.trigger.check_time_based_triggers(to_dt(t2))]
            with VirtualClock(t1):
                if kind == "mem":
                    sch = OpSched()
                    sch.wrap(b1.app.trigger, STORE_OPS)
                    run = sch.run(bodies, PrefixChooser(r["schedule"]))
                    sch.unwrap()
                else:
                    with SqlSched(patch=SQL_PATCH) as sq:
                        run = sq.run(bodies, PrefixChooser(r["schedule"]))
            fired = [v for v in b1.valid_ids() if "_context_cron_" in v]
            print("occurrences recorded for the minute:", fired)
            return 1 if len(fired) > 1 else 0
        if fam == "conc-mem-lines":
            from harness.c13_sched import CoopLock, LineSched
            from harness.sched_sql import PrefixChooser

            scen = r.get("scenario")
            conf = conc_config(r["variant"]) if scen is None else Config([CondSpec("cron", fields="* * * * *".split())], [TrigSpec("target", [0], "and", [])])
            b = Built(fresh_app("mem", tmp, "c13replay"), Config.from_dict(conf.describe()))
            tr = b.app.trigger
            sch = LineSched(files=("pynenc/trigger/mem_trigger.py",))
            t1 = T_CONC + 65 * US_SEC
            with VirtualClock(t1 if scen else T_CONC):
                if scen is None:
                    Occurrences(b).event("e1", "7")
                    bodies = [tr.trigger_loop_iteration, tr.trigger_loop_iteration]
                else:
                    if scen == "later-tick":
                        tr.store_last_cron_execution(b.cfg.conds[0].cid, to_dt(T_CONC + 2 * US_SEC))
                    bodies = [lambda: tr.check_time_based_triggers(to_dt(t1)), lambda: tr.check_time_based_triggers(to_dt(t1 + 1000))]
                for nm in ("_cron_lock", "_claim_lock", "_trigger_run_lock"):
                    setattr(tr, nm, CoopLock(sch))
                run = sch.run(bodies, PrefixChooser(r["schedule"]))
            if scen is None:
                n = len(b.new_launches())
                print("launches:", n, "errors:", run.errors)
                return 1 if n != 1 else 0
            fired = [v for v in b.valid_ids() if "_context_cron_" in v]
            print("occurrences recorded for the minute:", fired)
            return 1 if len(fired) > 1 else 0
        print("nothing to replay for", fam)
        return 0
    finally:
        shutil.rmtree(tmp, ignore_errors=True)
