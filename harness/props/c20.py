"""C20 — monitoring pages only observe: a GET never changes the system.

Lean: Props/C20.lean over Model/Monitor.lean and Gen/Handlers.lean (route table of the real FastAPI app + the
      component methods every handler can reach, regenerated here on every run).
Tie:  (a) translator: routes from `pynmon.app` (cross-checked with its OpenAPI document), call sets from the AST call
          graph of views / util / templates / pynenc value objects; validated dynamically: while a request is served the
          component methods really entered must be ⊆ the extracted set of the handler that served it, and the classes
          of the objects the components hand out must be among the classes the translator analysed;
      (b) the hand-written read-only / mutating classification (asked from the compiled model, never copied here) is
          checked against the real methods on the in-memory and the SQLite family by before/after read-outs;
      (c) `GET /broker/queue` against `Monitor.queueView` (and the pre-repair handler against `queueViewOld` on a
          re-implementation of the old loop over the real brokers), broker/record operations against the model.
Oracle (independent of the model): full read-out of the monitored app's backends before and after every request —
      queue content in order, raw stores (every in-memory structure / every SQLite table), and the public-API view of every
      invocation's status, owner, timestamp, retries, result, exception, history, runner heartbeats, contexts, trigger
      store and workflow data — must be equal, whatever the response status.
"""
from __future__ import annotations

import json
import random
import warnings
from collections import Counter

from harness import monitor_probe as P
from harness.common import Ctx, LeanDriver, lean_stage, thorough_rebuild, tok
from harness.translate import handlers as tr

THEOREMS = [
    "readOnly_op_preserves", "mutating_op_can_change", "generated_names_agree", "handler_readonly_preserves",
    "all_GET_handlers_readonly", "GET_handler_calls_readonly", "GET_routes_preserve", "exceptions_are_queue_view",
    "mutating_routes_are_POST", "queueView_preserves", "queueView_ok", "queueView_fault_keeps_messages",
    "queueView_old_rotates", "queueView_old_rotates_general", "queueView_old_drops_on_missing_record",
]
MODES = ["existing", "missing", "malformed", "edge"]


# ------------------------------------------------------------------------------------------------
# serving requests
# ------------------------------------------------------------------------------------------------


class Monitor:
    """The real FastAPI app of pynmon behind a TestClient, pointed at one monitored app at a time."""

    def __init__(self):
        from fastapi.testclient import TestClient

        import pynmon.app as pa

        self.pa = pa
        self.app = tr.monitor_app()
        self.last_scope: dict = {}
        mon = self.app
        me = self

        async def asgi(scope, receive, send):
            try:
                await mon(scope, receive, send)
            finally:
                if scope.get("type") == "http":
                    me.last_scope = scope

        self.client = TestClient(asgi, raise_server_exceptions=False)
        self._shadow_client = None

    def point_at(self, app) -> None:
        self.pa.pynenc_instance = app
        self.pa.all_pynenc_instances = {app.app_id: app}

    def get(self, url: str):
        self.last_scope = {}
        r = self.client.get(url, follow_redirects=False)
        ep = self.last_scope.get("endpoint")
        name = f"{ep.__module__}.{ep.__name__}" if ep is not None and hasattr(ep, "__name__") else None
        return r, name

    def post(self, url: str):
        self.last_scope = {}
        r = self.client.post(url, headers={"origin": "http://testserver"}, follow_redirects=False)
        ep = self.last_scope.get("endpoint")
        return r, (f"{ep.__module__}.{ep.__name__}" if ep is not None and hasattr(ep, "__name__") else None)

    def shadow_client(self, routes: list[dict]):
        """a second FastAPI app that mounts, under /__shadowed__, the GET handlers whose own URL is captured by an
        earlier route of the real table (they cannot be reached through the real app)"""
        if self._shadow_client is None:
            from fastapi import FastAPI
            from fastapi.testclient import TestClient

            app = FastAPI()
            for r in routes:
                app.add_api_route("/__shadowed__" + r["path"], r["endpoint"], methods=["GET"])
            self._shadow_client = TestClient(app, raise_server_exceptions=False)
        return self._shadow_client


def query_names(route: dict) -> list[str]:
    names: list[str] = []
    # the dependant of the registered route knows the declared query parameters
    for r in _api_routes():
        if r.endpoint is route["endpoint"]:
            names = [p.name for p in r.dependant.query_params]
            break
    if route["func"] in ("call_detail_by_query", "call_detail"):
        names.append("call_id_key")  # read from request.query_params directly
    return names


_API_ROUTES: list = []


def _api_routes() -> list:
    from fastapi.routing import APIRoute

    if not _API_ROUTES:
        def walk(routes):
            for r in routes:
                if isinstance(r, APIRoute):
                    _API_ROUTES.append(r)
                elif hasattr(r, "original_router"):
                    walk(r.original_router.routes)
        walk(tr.monitor_app().routes)
    return _API_ROUTES


# ------------------------------------------------------------------------------------------------
# the oracle
# ------------------------------------------------------------------------------------------------


def judge(before: dict, after: dict) -> list[str]:
    """the property's own statement on two read-outs: nothing differs"""
    if before == after:
        return []
    out: list[str] = []
    if before["queue"] != after["queue"]:
        b, a = before["queue"], after["queue"]
        how = ("queue-reordered" if sorted(b) == sorted(a) else "queue-lost-messages" if len(a) < len(b)
               else "queue-gained-messages" if len(a) > len(b) else "queue-changed")
        short = lambda q: [str(i)[:8] for i in q]  # noqa: E731
        out.append(f"{how}: {short(b)} -> {short(a)}")
    for part in ("api", "raw"):
        if before.get(part) != after.get(part):
            out += P.diff(before.get(part), after.get(part), part)
    return out or ["read-outs differ"]


def section_of(diffs: list[str]) -> str:
    d = diffs[0]
    if d.startswith("queue"):
        return d.split(":")[0]
    import re

    head = d.split(": ")[0]
    m = re.match(r"raw/[^/]*?::(?:.*?__)?(\w+)", head)
    if m:  # a table of the SQLite file: name it without the file and the app-specific prefix
        return "raw/" + m.group(1)
    parts = re.sub(r"\[\d+\]", "", head).split("/")
    if len(parts) > 2 and parts[1] == "invocations":
        return "/".join([parts[0], parts[1], *parts[3:4]])  # api/invocations/<id>/status -> api/invocations/status
    return "/".join(parts[:3]) if parts[0] in ("api", "raw") else parts[0]


# ------------------------------------------------------------------------------------------------
# classification of the real methods
# ------------------------------------------------------------------------------------------------


def call_recipes(w: P.World) -> dict[str, list]:
    """plausible argument tuples for the component methods the model classifies (existing / missing ids, limits)"""
    import datetime as dt

    from pynenc.identifiers.call_id import CallId
    from pynenc.identifiers.task_id import TaskId
    from pynenc.invocation.status import InvocationStatus as S

    ids = w.inv[:3] + [P.MISSING_UUID]
    t_add = w.tasks["add"]
    objs = [w.invobj[i] for i in w.inv[:3]]
    wf = objs[0].workflow if objs else None
    far = (dt.datetime(2000, 1, 1, tzinfo=dt.UTC), dt.datetime(2100, 1, 1, tzinfo=dt.UTC))
    runner = (w.runners or ["rA"])[0]
    call_ids = [o.call.call_id for o in objs] + [CallId(TaskId("no.mod", "f"), "0" * 64)]
    ser = [dict(o.call.serialized_arguments) for o in objs]
    R: dict[str, list] = {
        "broker.count_invocations": [()],
        "orchestrator.count_invocations": [(), (t_add.task_id, None), (None, [S.REGISTERED, S.PENDING]), (TaskId("no.mod", "f"), [S.SUCCESS])],
        "orchestrator.get_active_runners": [(), (True,), (False,)],
        "orchestrator.get_blocking_invocations": [(0,), (1,), (10,)],
        "orchestrator.get_existing_invocations": [(t_add,), (t_add, None, [S.REGISTERED]), (w.tasks["keyed"], {"k": "x"}, None)],
        "orchestrator.get_invocation_status": [(i,) for i in ids],
        "orchestrator.get_invocation_status_record": [(i,) for i in ids],
        "orchestrator.get_invocation_retries": [(i,) for i in ids],
        "orchestrator.get_invocation_ids_paginated": [(), (t_add.task_id, [S.REGISTERED], 2, 0), (None, None, 1, 5), (None, None, 0, 0)],
        "orchestrator.get_task_invocation_ids": [(t_add.task_id,), (TaskId("no.mod", "f"),)],
        "orchestrator.get_call_invocation_ids": [(c,) for c in call_ids],
        "orchestrator.filter_by_status": [(ids, frozenset({S.REGISTERED, S.PENDING})), ([], frozenset({S.SUCCESS}))],
        "orchestrator.filter_final": [(ids,), ([],)],
        "state_backend.get_invocation": [(i,) for i in ids],
        "state_backend.get_history": [(i,) for i in ids],
        "state_backend.get_result": [(i,) for i in ids],
        "state_backend.get_exception": [(i,) for i in ids],
        "state_backend.get_runner_context": [(runner,), ("no-such-runner",)],
        "state_backend.get_runner_contexts": [([runner, "no-such-runner"],), ([],)],
        "state_backend.get_matching_runner_contexts": [(runner[:1],), ("zzz",), ("",)],
        "state_backend.get_child_invocations": [(i,) for i in ids],
        "state_backend.get_all_workflow_types": [()],
        "state_backend.get_all_workflow_runs": [()],
        "state_backend.get_workflow_runs": [(t_add.task_id,), (TaskId("no.mod", "f"),)],
        "state_backend.get_workflow_sub_invocations": [(i,) for i in ids],
        "state_backend.get_workflow_data": ([(wf, "k", None), (wf, "absent", 7)] if wf else []),
        "state_backend.get_invocation_ids_by_workflow": [(str(wf.workflow_id) if wf else None, None), (None, t_add.task_id.key), (P.MISSING_UUID, None)],
        "state_backend.iter_history_in_timerange": [far, (far[1], far[1])],
        "state_backend.iter_invocations_in_timerange": [far],
        "trigger.get_condition": [("no-such-condition",)],
        "trigger.get_trigger": [("no-such-trigger",)],
        "trigger.get_triggers_for_condition": [("no-such-condition",)],
        "trigger.get_conditions_sourced_from_task": [(t_add.task_id,), (w.tasks["noop"].task_id,)],
        "trigger.get_valid_conditions": [()],
        "trigger.get_last_cron_execution": [("no-such-condition",)],
        "client_data_store.deserialize_arguments": [(s,) for s in ser] + [({"x": "__pynenc__client_data__:" + "0" * 64},)],
        "client_data_store.resolve": [(v,) for s in ser for v in s.values()],
        "client_data_store.is_reference": [("abc",), ("__pynenc__client_data__:1",)],
    }
    # existing trigger ids
    try:
        conds = list(w.app.trigger._get_all_conditions())
        for c in conds[:2]:
            cid = getattr(c, "condition_id", None)
            if cid:
                R["trigger.get_condition"].append((cid,))
                R["trigger.get_triggers_for_condition"].append((cid,))
                R["trigger.get_last_cron_execution"].append((cid,))
    except Exception:  # noqa: BLE001
        pass
    return R


def mutator_recipes(w: P.World) -> dict[str, tuple]:
    """one call per mutating method that must visibly change the read-out (sensitivity of the oracle)"""
    from pynenc.invocation.status import InvocationStatus as S

    i0 = w.inv[0]
    r = P.rctx("rSens")
    return {
        "broker.route_invocation": (i0,),
        "broker.route_invocations": ([i0, i0],),
        "broker.retrieve_invocation": (),
        "orchestrator.increment_invocation_retries": (i0,),
        "orchestrator.register_runner_heartbeats": (["rSens"], True),
        "orchestrator.set_invocation_status": (w.inv[-1], S.PENDING, r),
        # (an awaited invocation that is still open: a wait declared on a finished one is, rightly, not recorded)
        "orchestrator.waiting_for_results": (w.inv[-1], [next((i for i in w.inv[:-1] if not w.app.orchestrator.get_invocation_status(i).is_final()), i0)]),
        "state_backend.store_runner_context": (r,),
        "state_backend.set_result": (i0, {"sens": 1}),
        "state_backend.set_workflow_data": (w.invobj[i0].workflow, "sens", 1),
        "state_backend.store_workflow_run": (w.invobj[w.inv[1]].workflow,),
        "state_backend.store_workflow_sub_invocation": (w.invobj[i0].workflow.workflow_id, w.inv[-1]),
        "trigger.emit_event": ("ping", {"a": 1}),
        "client_data_store.serialize_arguments": ({"x": P.BIG + "sens"}, ()),
        "orchestrator.auto_purge": (),
        "broker.purge": (), "orchestrator.purge": (), "state_backend.purge": (), "trigger.purge": (), "client_data_store.purge": (),
    }


def consume(x):
    import inspect
    import types

    if inspect.isgenerator(x) or isinstance(x, types.GeneratorType) or hasattr(x, "__next__"):
        return list(x)
    return x


# ------------------------------------------------------------------------------------------------
# the old handler (before commit 4a8c65f), re-implemented over the real brokers for the refutation replay
# ------------------------------------------------------------------------------------------------


def old_queue_view(app, limit: int) -> str:
    pending = []
    queue_size = app.broker.count_invocations()
    try:
        for _ in range(min(limit, queue_size)):
            if invocation_id := app.broker.retrieve_invocation():
                pending.append(app.state_backend.get_invocation(invocation_id))
    except Exception as e:  # noqa: BLE001
        return f"failed {type(e).__name__}"
    for inv in pending:
        app.broker.route_invocation(inv.invocation_id)
    return f"ok {len(pending)} {queue_size}"


# ------------------------------------------------------------------------------------------------
# run
# ------------------------------------------------------------------------------------------------


def run(ctx: Ctx) -> None:
    warnings.filterwarnings("ignore")
    lean_stage(ctx, tr.gen, THEOREMS)
    table = tr.analyse()
    static = {r["name"]: set(r["calls"]) for r in table}
    value_classes = set(tr.LAST_VALUE_CLASSES)
    routes = tr.route_table()
    get_routes = [r for r in routes if r["method"] == "GET"]
    post_routes = [r for r in routes if r["method"] == "POST"]
    ctx.cov["rule"] = (
        "one evaluation = one HTTP request served by the real FastAPI app with a full before/after read-out of the monitored "
        "app (or one real component call in the classification check); distinct+non-trivial = distinct (backend family, state "
        "family, route, parameter mode, response status) with a non-empty system state")

    # ---- translator sanity ------------------------------------------------------------------------
    norm = lambda p: __import__("re").sub(r"\{(\w+):\w+\}", r"{\1}", p)  # noqa: E731
    mine = {(norm(r["path"]), r["method"]) for r in routes}
    ctx.obligation("translator: walked route table == routes of the app's OpenAPI document", mine == tr.openapi_pairs(),
                   f"only walked {sorted(mine - tr.openapi_pairs())[:4]} only openapi {sorted(tr.openapi_pairs() - mine)[:4]}")
    ctx.obligation("translator: every handler resolved to its source function", all("<unresolved handler>" not in r["calls"] for r in table))
    ctx.notes["routes"] = {"GET": len(get_routes), "POST": len(post_routes)}
    ctx.notes["value_classes"] = sorted(value_classes)

    drv = LeanDriver()
    mon = Monitor()
    try:
        names = sorted({c for r in table for c in r["calls"]})
        kinds = dict(zip(names, drv.ask_many([f"mon.kind {n}" for n in names])))
        hk = dict(zip(static, drv.ask_many([f"mon.handler {n}" for n in static])))
        ctx.notes["handler_kinds"] = {k: sum(1 for v in hk.values() if v == k) for k in set(hk.values())}
        lean_calls = dict(zip(static, drv.ask_many([f"mon.calls {n}" for n in static])))
        mism = [n for n in static if {c.lstrip("?") for c in lean_calls[n].split() if c != "."} != static[n]]
        ctx.obligation("the call sets the harness validates dynamically are the ones in the Lean table the theorems are about", not mism, str(mism[:3]))
        bad_get = [r["name"] for r in table if r["method"] == "GET" and hk[r["name"]] not in ("ro", "exception")]
        ctx.obligation("model table: every GET handler is read-only or the listed exception (driver view of Gen/Handlers)", not bad_get, str(bad_get[:4]))

        _serve_all(ctx, drv, mon, get_routes, static, value_classes)
        _classification(ctx, drv)
        _queue_correspondence(ctx, drv, mon)
        _queue_faults(ctx, drv, mon)
        _overlapping_queue_pages(ctx, mon)
        _slow_broker_queue_page(ctx, mon)
        _get_overlapped_by_a_purge(ctx, mon)
        _post_sensitivity(ctx, mon, post_routes, static)
        _fresh_monitor(ctx, mon, get_routes)
    finally:
        drv.close()
    ctx.assumptions += [
        "the monitored app and the monitor share one process and one app object (as in pynmon's own tests); process-local caches of the monitor (deserialisation LRU, cached status on objects it built, task registry, active-app selection) are not part of the system state",
        "no other actor runs during a request: runners polling the broker while GET /broker/queue drains and re-routes are outside the statement (the drain/re-route is not atomic with respect to them)",
        "handlers whose own URL is captured by an earlier route of the real table (/invocations/table, /workflows/debug) are exercised through a second FastAPI app mounting the same endpoint functions",
        "SQLite read-out = every table of the database file (broker queue as ids in (created_at, id) order; AUTOINCREMENT bookkeeping in sqlite_sequence ignored); in-memory read-out = every attribute of the five component objects except locks, loggers, config and the deserialisation cache; empty defaultdict entries are not observable",
    ]
    if not ctx.quick:
        thorough_rebuild(ctx)


def _worlds(ctx: Ctx):
    """(family name, history) to build on each backend"""
    fams = list(P.scripted_histories().items())
    nrand = 1 if ctx.quick else 10
    for k in range(nrand):
        fams.append((f"random-{k}", P.random_history(ctx.rng, ctx.rng.randrange(8, 22 if ctx.quick else 45))))
    if ctx.quick:
        # quick tier: the families the property names explicitly + the random ones
        keep = {"lifecycle", "state-backend-purged", "ghost-in-queue", "workflows", "cds-purged"}
        fams = [f for f in fams if f[0] in keep or f[0].startswith("random")]
    return fams


def _serve_all(ctx: Ctx, drv: LeanDriver, mon: Monitor, get_routes: list[dict], static: dict, value_classes: set) -> None:
    # which GET handlers cannot be reached at their own URL (captured by an earlier route)?
    nreq = nsub_bad = ntype_bad = 0
    served_by: dict[str, set] = {}
    statuses: dict[int, int] = {}
    variants = 1 if ctx.quick else 2
    extra_existing = 0 if ctx.quick else 1
    qnames = {r["func"]: query_names(r) for r in get_routes}
    unreached: set[str] = {r["module"] + "." + r["func"] for r in get_routes}
    subset_fail: list[str] = []
    type_fail: set[str] = set()
    qv_lines: list[str] = []
    qv_impl: list[str] = []
    for kind in ("mem", "sqlite"):
        for fam, hist in _worlds(ctx):
            w = P.World(kind, ctx.tmp, tag=fam.replace("-", "")[:6])
            for op in hist:
                w.apply(op)
            rec = P.Recorder(w.app)
            mon.point_at(w.app)
            before = P.readout(w)
            nontrivial = bool(w.inv)
            for route in get_routes:
                hname = route["module"] + "." + route["func"]
                takes_inv = any(k in route["path"] for k in ("{invocation_id", "{call_id_key")) or "call_id_key" in qnames[route["func"]]
                plan = []
                for mode in (*MODES, "full"):
                    if mode == "full" and len(qnames[route["func"]]) < 2:
                        continue        # nothing to combine
                    for v in range(variants + 1 if mode == "full" else variants if mode != "existing" else variants + extra_existing):
                        plan.append((mode, v, None))
                # every invocation with an unusual payload (big / medium inline arguments) is asked for by every route that names one
                for sp in (getattr(w, "special", []) if takes_inv else []):
                    plan.append(("existing", f"special-{w.inv.index(sp)}", sp))
                for mode, v, forced in plan:
                    if True:
                        seed = f"{ctx.seed}:{fam}:{route['path']}:{mode}:{v}"
                        w.force_inv = forced
                        built = P.build_url(route, w, random.Random(seed), mode, qnames[route["func"]])
                        w.force_inv = None
                        if built is None:
                            continue
                        url, spec = built
                        rec.start()
                        resp, served = mon.get(url)
                        calls, types = rec.stop()
                        after = P.readout(w)
                        nreq += 1
                        ctx.count()
                        statuses[resp.status_code] = statuses.get(resp.status_code, 0) + 1
                        if nontrivial:
                            ctx.distinct((kind, fam, route["path"], mode, resp.status_code))
                        if served:
                            served_by.setdefault(served, set()).add(route["path"])
                            unreached.discard(served)
                        if nontrivial and mode == "existing" and calls and len(ctx.cov["samples"]) < 6 and nreq % 7 == 0:
                            ctx.sample({"backend": kind, "state": fam, "request": url[:100], "status": resp.status_code,
                                        "served_by": served, "component_calls": sorted(calls)}, cap=6)
                        # -- oracle
                        diffs = judge(before, after)
                        if diffs:
                            sec = section_of(diffs)
                            ctx.report(f"get-mutates:{served or hname}:{sec}",
                                       f"[{kind}] GET {url[:160]} ({served or 'no handler'}, HTTP {resp.status_code}) changed the monitored system: "
                                       + "; ".join(diffs[:3]),
                                       {"kind": kind, "family": fam, "history": hist, "route": route["path"], "mode": mode, "variant": v,
                                        "url_seed": seed, "url": url, "status": resp.status_code, "diff": diffs[:6]})
                            before = after
                        # -- translator validation
                        allowed = static.get(served, set()) if served else set()
                        extra = calls - allowed
                        if extra:
                            nsub_bad += 1
                            if len(subset_fail) < 5:
                                subset_fail.append(f"{served}: invoked {sorted(extra)} not in the extracted set (GET {url[:80]})")
                        unk = {t for t in types if t not in value_classes and _is_value_type(t)}
                        if unk:
                            ntype_bad += 1
                            type_fail |= unk
                        # -- queue page vs model
                        if served == "pynmon.views.broker.queue_view" and resp.status_code in (200, 500):
                            lim = spec["query"].get("limit", 20)
                            q0 = before["queue"] if not diffs else None
                            if q0 is not None and isinstance(lim, int):
                                have = {i for i in q0 if not str(before["api"]["invocations"].get(i, {}).get("record", "!")).startswith("!")}
                                qv_lines += ["mon.reset", *[f"mon.rec {tok(i)}" for i in sorted(have)], *[f"mon.route {tok(i)}" for i in q0],
                                             f"mon.queueview {lim}", "mon.queue"]
                                qv_impl.append((resp.status_code, after["queue"], url, kind))
            # shadowed handlers (reached through a second app)
            shadowed = [r for r in get_routes if (r["module"] + "." + r["func"]) in unreached and r["module"].startswith("pynmon.views")]
            if shadowed:
                sc = mon.shadow_client(shadowed)
                for r in shadowed:
                    hname = r["module"] + "." + r["func"]
                    for mode in MODES:
                        sseed = f"{ctx.seed}:{fam}:sh:{r['path']}:{mode}"
                        built = P.build_url(r, w, random.Random(sseed), mode, qnames[r["func"]])
                        if built is None:
                            continue
                        url, spec = built
                        rec.start()
                        resp = sc.get("/__shadowed__" + url, follow_redirects=False)
                        calls, types = rec.stop()
                        after = P.readout(w)
                        nreq += 1
                        ctx.count()
                        if nontrivial:
                            ctx.distinct((kind, fam, "shadowed" + r["path"], mode, resp.status_code))
                        served_by.setdefault(hname, set()).add("shadowed:" + r["path"])
                        diffs = judge(before, after)
                        if diffs:
                            ctx.report(f"get-mutates:{hname}:{section_of(diffs)}",
                                       f"[{kind}] handler {hname} (GET {url[:120]}, HTTP {resp.status_code}) changed the monitored system: " + "; ".join(diffs[:3]),
                                       {"kind": kind, "family": fam, "history": hist, "route": r["path"], "mode": mode, "shadowed": True,
                                        "url_seed": sseed, "url": url})
                            before = after
                        extra = calls - static.get(hname, set())
                        if extra:
                            nsub_bad += 1
                            if len(subset_fail) < 5:
                                subset_fail.append(f"{hname}: invoked {sorted(extra)} not in the extracted set")
            ctx.notes.setdefault("state_op_errors", {})[f"{kind}:{fam}"] = len(w.errors)
    # queue page correspondence
    nd = 0
    first = ""
    if qv_lines:
        outs = drv.ask_many(qv_lines)
        k = 0
        res = []
        for ln, o in zip(qv_lines, outs):
            if ln.startswith("mon.queueview"):
                res.append([o])
            elif ln == "mon.queue":
                res[-1].append(o)
        for (code, q_after, url, kind), (m_out, m_q) in zip(qv_impl, res):
            i_q = "[]" if not q_after else " ".join(tok(i) for i in q_after)
            ok = (m_out.startswith("ok") and code == 200 or m_out.startswith("failed") and code == 500) and i_q == m_q
            ctx.count()
            if not ok:
                nd += 1
                first = first or f"[{kind}] {url}: impl HTTP {code} queue {i_q[:80]} / model {m_out} queue {m_q[:80]}"
    ctx.obligation(f"correspondence: {len(qv_impl)} served GET /broker/queue requests == Monitor.queueView (outcome and queue afterwards)",
                   nd == 0 and len(qv_impl) > 0, first or "no queue request served")
    ctx.obligation(f"translator validated: component methods entered while serving ⊆ extracted set of the serving handler ({nreq} requests)",
                   nsub_bad == 0, "; ".join(subset_fail))
    ctx.obligation("translator validated: classes of the objects handed out by the components ⊆ classes analysed", ntype_bad == 0, str(sorted(type_fail)[:5]))
    never = sorted(unreached - set(served_by))
    ctx.obligation("every GET handler of the route table was exercised", not never, str(never))
    ctx.notes["requests"] = nreq
    ctx.notes["status_codes"] = {str(k): v for k, v in sorted(statuses.items())}
    ctx.notes["handlers_served"] = len(served_by)


def _is_value_type(t: str) -> bool:
    import importlib

    mod, _, name = t.rpartition(".")
    try:
        c = getattr(importlib.import_module(mod), name)
    except Exception:  # noqa: BLE001
        return False
    return isinstance(c, type) and tr._is_value_class(c)


def _classification(ctx: Ctx, drv: LeanDriver) -> None:
    """the model's classification table against the real methods, both families"""
    import inspect

    from pynenc.broker.base_broker import BaseBroker
    from pynenc.client_data_store.base_client_data_store import BaseClientDataStore
    from pynenc.orchestrator.base_orchestrator import BaseOrchestrator
    from pynenc.state_backend.base_state_backend import BaseStateBackend
    from pynenc.trigger.base_trigger import BaseTrigger

    api = []
    for comp, cls in (("broker", BaseBroker), ("orchestrator", BaseOrchestrator), ("state_backend", BaseStateBackend),
                      ("trigger", BaseTrigger), ("client_data_store", BaseClientDataStore)):
        for n, v in inspect.getmembers(cls, inspect.isfunction):
            if not n.startswith("_"):
                api.append(f"{comp}.{n}")
    kinds = dict(zip(api, drv.ask_many([f"mon.kind {n}" for n in api])))
    ro = [n for n in api if kinds[n] == "ro"]
    mut = [n for n in api if kinds[n] == "mut"]
    ctx.notes["classification"] = {"read_only": len(ro), "mutating": len(mut), "not_modelled": sorted(n for n in api if kinds[n] == "unknown")}
    no_recipe: set[str] = set()
    changed: list[str] = []
    insens: list[str] = []
    ncalls = 0
    hist = P.scripted_histories()
    for kind in ("mem", "sqlite"):
        for fam in (["lifecycle", "workflows"] if ctx.quick else ["lifecycle", "workflows", "triggers", "state-backend-purged", "cds-purged"]):
            w = P.World(kind, ctx.tmp, tag="cls")
            for op in hist[fam]:
                w.apply(op)
            if fam == "lifecycle":
                w.apply(["triggers"])
            if not w.inv:
                continue
            recipes = call_recipes(w)
            before = P.readout(w, with_api=False)
            for name in ro:
                comp, meth = name.split(".")
                if name not in recipes:
                    no_recipe.add(name)
                    continue
                for args in recipes[name]:
                    try:
                        consume(getattr(getattr(w.app, comp), meth)(*args))
                    except Exception:  # noqa: BLE001
                        pass
                    after = P.readout(w, with_api=False)
                    ncalls += 1
                    ctx.count()
                    ctx.distinct(("classify", kind, fam, name, len(args)))
                    if after != before:
                        d = judge(before, after)
                        changed.append(f"[{kind}] {name}{_args_repr(args)}: {d[0][:160]}")
                        ctx.report(f"read-method-mutates:{name}:{section_of(d)}",
                                   f"[{kind}] {name}{_args_repr(args)} is used by monitor GET pages as a read but changed the system: " + "; ".join(d[:2]),
                                   {"kind": kind, "history": hist[fam], "method": name, "args": _args_repr(args)})
                        before = after
        # sensitivity: the mutators change the read-out (each on a fresh state)
        for name in mut:
            w = P.World(kind, ctx.tmp, tag="sens")
            for op in hist["lifecycle"] + [["triggers"]]:
                w.apply(op)
            rec = mutator_recipes(w)
            if name not in rec or (name == "orchestrator.auto_purge" and kind == "sqlite"):
                # SQLiteOrchestrator.auto_purge locks itself out when more than one invocation is due (it calls
                # release_waiters on a second connection while its own DELETE is uncommitted) — not a monitor matter
                continue
            comp, meth = name.split(".")
            before = P.readout(w, with_api=False)
            try:
                consume(getattr(getattr(w.app, comp), meth)(*rec[name]))
            except Exception as e:  # noqa: BLE001
                insens.append(f"[{kind}] {name}: raised {type(e).__name__}")
                continue
            after = P.readout(w, with_api=False)
            ncalls += 1
            ctx.count()
            if after == before:
                insens.append(f"[{kind}] {name}: no change seen")
    ctx.obligation(f"classification: every method the model calls read-only left both backends unchanged ({ncalls} real calls)", not changed, "; ".join(changed[:3]))
    ctx.obligation("classification: every read-only method of the model has an argument recipe", not no_recipe, str(sorted(no_recipe)))
    ctx.obligation("oracle sensitivity: real mutators (route, retrieve, purge x5, status, retries, heartbeat, contexts, results, workflow data, events, "
                   "argument store) are seen by the read-out on both backends", not insens, "; ".join(insens[:4]))


def _args_repr(args) -> str:
    s = repr(args)
    return s if len(s) < 120 else s[:117] + "..."


def _queue_correspondence(ctx: Ctx, drv: LeanDriver, mon: Monitor) -> None:
    """(i) broker / record operations and GET /broker/queue for every limit against the model on generated queues;
    (ii) the pre-repair loop over the real brokers against queueViewOld (both failure modes)"""
    nd = nd_old = n = 0
    first = first_old = ""
    limits = [-3, 0, 1, 2, 3, 5, 20, 10**6]
    cases = 6 if ctx.quick else 30
    old_rot = old_drop = 0
    for kind in ("mem", "sqlite"):
        for c in range(cases):
            rng = random.Random(f"{ctx.seed}:qc:{c}")
            w = P.World(kind, ctx.tmp, tag="qc")
            nmsg = rng.choice([0, 1, 2, 5, 7, 9])
            for j in range(nmsg):
                w.apply(["call", "add", [j, c]])
            extra = rng.choice(["none", "ghost", "dup", "purged"])
            if extra == "ghost" and nmsg:
                w.apply(["ghost", f"ghost-{c}"])
                w.apply(["call", "add", [99, c]])
            elif extra == "dup" and nmsg:
                w.apply(["route", 0])
            elif extra == "purged":
                w.apply(["purge", "state_backend"])
                w.apply(["call", "add", [98, c]])
            mon.point_at(w.app)
            q0 = P.queue_in_order(w.app, kind)
            have = [i for i in dict.fromkeys(q0) if _has_record(w.app, i)]
            lines = ["mon.reset", *[f"mon.rec {tok(i)}" for i in have], *[f"mon.route {tok(i)}" for i in q0], "mon.count"]
            impl = ["ok"] * (1 + len(have) + len(q0)) + [str(w.app.broker.count_invocations())]
            for lim in rng.sample(limits, 4):
                before = P.readout(w)
                resp, served = mon.get(f"/broker/queue?limit={lim}")
                after = P.readout(w)
                ctx.count()
                n += 1
                d = judge(before, after)
                if d:
                    ctx.report(f"get-mutates:pynmon.views.broker.queue_view:{section_of(d)}",
                               f"[{kind}] GET /broker/queue?limit={lim} on a queue of {len(q0)} ({extra}) changed the system: " + "; ".join(d[:2]),
                               {"kind": kind, "history": list(w.history), "url": f"/broker/queue?limit={lim}", "queue_len": len(q0), "extra": extra})
                lines += [f"mon.queueview {lim}", "mon.queue"]
                qa = after["queue"]
                impl += [("ok" if resp.status_code == 200 else "failed" if resp.status_code == 500 else f"http{resp.status_code}"),
                         "[]" if not qa else " ".join(tok(i) for i in qa)]
            # a retrieve and a route at the end, compared too
            got = w.app.broker.retrieve_invocation()
            lines += ["mon.retrieve"]
            impl += [tok(None if got is None else str(got))]
            outs = drv.ask_many(lines)
            for ln, i, m in zip(lines, impl, outs):
                same = (m.split()[0] == i) if ln.startswith("mon.queueview") else (m == i)
                if not same:
                    nd += 1
                    first = first or f"[{kind}] case {c} ({extra}, {len(q0)} queued) {ln}: impl {i[:60]!r} model {m[:60]!r}"
            # ---- the handler before the repair, replayed on the real broker/state backend of this family
            w2 = P.World(kind, ctx.tmp, tag="qo")
            for op in w.history:
                w2.apply(op)
            q2 = P.queue_in_order(w2.app, kind)
            have2 = [i for i in dict.fromkeys(q2) if _has_record(w2.app, i)]
            lim = rng.choice([1, 2, 3, 20])
            out = old_queue_view(w2.app, lim)
            qa2 = P.queue_in_order(w2.app, kind)
            ol = ["mon.reset", *[f"mon.rec {tok(i)}" for i in have2], *[f"mon.route {tok(i)}" for i in q2], f"mon.queueview_old {lim}", "mon.queue"]
            oo = drv.ask_many(ol)
            ctx.count()
            i_q = "[]" if not qa2 else " ".join(tok(i) for i in qa2)
            if oo[-2].split()[0] != out.split()[0] or oo[-1] != i_q:
                nd_old += 1
                first_old = first_old or f"[{kind}] old loop limit={lim} queue {len(q2)} ({extra}): impl {out} {i_q[:60]} / model {oo[-2]} {oo[-1][:60]}"
            if qa2 != q2 and sorted(qa2) == sorted(q2):
                old_rot += 1
            if len(qa2) < len(q2):
                old_drop += 1
        # the two documented failure modes of the pre-repair handler, as fixed inputs on this family
        for hist_old, lim in (([["call", "add", [j, 0]] for j in range(5)], 2),
                              ([["call", "add", [1, 0]], ["ghost", "ghost-old"], ["call", "add", [2, 0]]], 20),
                              ([["call", "add", [1, 0]], ["call", "add", [2, 0]], ["purge", "state_backend"]], 20)):
            w3 = P.World(kind, ctx.tmp, tag="qf")
            for op in hist_old:
                w3.apply(op)
            q3 = P.queue_in_order(w3.app, kind)
            have3 = [i for i in dict.fromkeys(q3) if _has_record(w3.app, i)]
            out = old_queue_view(w3.app, lim)
            qa3 = P.queue_in_order(w3.app, kind)
            oo = drv.ask_many(["mon.reset", *[f"mon.rec {tok(i)}" for i in have3], *[f"mon.route {tok(i)}" for i in q3],
                               f"mon.queueview_old {lim}", "mon.queue"])
            ctx.count()
            i_q = "[]" if not qa3 else " ".join(tok(i) for i in qa3)
            if oo[-2].split()[0] != out.split()[0] or oo[-1] != i_q:
                nd_old += 1
                first_old = first_old or f"[{kind}] old loop limit={lim} on {hist_old}: impl {out} {i_q[:60]} / model {oo[-2]} {oo[-1][:60]}"
            if qa3 != q3 and sorted(qa3) == sorted(q3):
                old_rot += 1
            if len(qa3) < len(q3):
                old_drop += 1
    ctx.obligation(f"correspondence: broker/record operations and GET /broker/queue for limits {limits} == model ({n} requests, mem + sqlite)", nd == 0, first)
    ctx.obligation("correspondence: the pre-repair loop run on the real brokers == Monitor.queueViewOld", nd_old == 0, first_old)
    ctx.obligation("refutations replay on the real brokers: the pre-repair loop rotates long queues and drops messages on a missing record",
                   old_rot > 0 and old_drop > 0, f"rotations {old_rot}, drops {old_drop}")
    ctx.notes["old_handler_replays"] = {"rotated": old_rot, "dropped": old_drop}


def _queue_faults(ctx: Ctx, drv: LeanDriver, mon: Monitor) -> None:
    """GET /broker/queue while the broker fails: the k-th `retrieve_invocation` of the request raises (a locked database, a
    dropped connection).  The page fails; the queue afterwards must hold exactly the messages it held (`queueViewFault`,
    theorem `queueView_fault_keeps_messages`): nothing popped before the fault may be lost."""
    import sqlite3

    nd = n = 0
    first = ""
    for kind in ("mem", "sqlite"):
        for nmsg in ((3, 6) if ctx.quick else (1, 3, 6, 9)):
            for k in range(0, nmsg):       # the handler pops exactly `count_invocations()` times
                w = P.World(kind, ctx.tmp, tag="qx")
                for j in range(nmsg):
                    w.apply(["call", "add", [j, k]])
                mon.point_at(w.app)
                q0 = P.queue_in_order(w.app, kind)
                broker = w.app.broker
                orig = broker.retrieve_invocation
                seen = {"n": 0}

                def failing(orig=orig, seen=seen, k=k):  # type: ignore[no-untyped-def]
                    seen["n"] += 1
                    if seen["n"] == k + 1:
                        raise sqlite3.OperationalError("database is locked")
                    return orig()

                broker.retrieve_invocation = failing  # type: ignore[method-assign]
                try:
                    resp, _served = mon.get("/broker/queue?limit=3")
                finally:
                    del broker.retrieve_invocation
                qa = P.queue_in_order(w.app, kind)
                n += 1
                ctx.count()
                ctx.distinct((kind, "queue-fault", nmsg, k))
                rep = {"kind": kind, "family": "queue-fault", "messages": nmsg, "fault_at_retrieve": k + 1, "status": resp.status_code}
                lost = list((Counter(q0) - Counter(qa)).elements())
                gained = list((Counter(qa) - Counter(q0)).elements())
                if lost or gained:
                    ctx.report("get-mutates:pynmon.views.broker.queue_view:queue-lost-messages-on-broker-fault" if lost else "get-mutates:pynmon.views.broker.queue_view:queue-gained-messages-on-broker-fault",
                               f"[{kind}] GET /broker/queue on {nmsg} queued messages while retrieve_invocation call #{k + 1} raises (HTTP {resp.status_code}): "
                               f"{len(lost)} message(s) lost, {len(gained)} gained", rep)
                outs = drv.ask_many(["mon.reset", *[f"mon.rec {tok(i)}" for i in q0], *[f"mon.route {tok(i)}" for i in q0], f"mon.queueview_fault {k}", "mon.queue"])
                i_q = "[]" if not qa else " ".join(tok(i) for i in qa)
                if outs[-1] != i_q or resp.status_code != 500:
                    nd += 1
                    first = first or f"[{kind}] {nmsg} queued, fault at retrieve #{k + 1}: impl HTTP {resp.status_code} queue {i_q[:80]} / model {outs[-1][:80]}"
    ctx.obligation(f"correspondence: GET /broker/queue with a broker fault after k pops == Monitor.queueViewFault ({n} requests, mem + sqlite)", nd == 0, first)


def _overlapping_queue_pages(ctx: Ctx, mon: Monitor) -> None:
    """two monitor users open the queue page at the same time (one event loop, as uvicorn serves them).  The page drains the
    queue and routes everything back; if two requests could be inside that at once they would re-order it.  A rendezvous in the
    broker's pop waits for a second request to arrive inside the first one's drain - it never does while the handler keeps the
    event loop (the wait then simply times out)."""
    import asyncio
    import threading

    import httpx

    n = 0
    for kind in ("mem", "sqlite"):
        for nmsg, limit in (((6, 3),) if ctx.quick else ((2, 1), (6, 3), (9, 100))):
            w = P.World(kind, ctx.tmp, tag="qo")
            for j in range(nmsg):
                w.apply(["call", "add", [j, 1]])
            mon.point_at(w.app)
            before = P.readout(w)
            broker = w.app.broker
            orig = broker.retrieve_invocation
            lock, other_arrived, st = threading.Lock(), threading.Event(), {"pops": 0}

            def pop(orig=orig, st=st):  # type: ignore[no-untyped-def]
                with lock:
                    st["pops"] += 1
                    k = st["pops"]
                r = orig()
                if k == 1:
                    other_arrived.wait(0.4)        # first pop of the first request: is another request popping too?
                elif k == 2 and not other_arrived.is_set():
                    pass
                if threading.current_thread() is not st.get("first"):
                    other_arrived.set()
                return r

            def pop_marking(orig=pop, st=st):  # type: ignore[no-untyped-def]
                st.setdefault("first", threading.current_thread())
                return orig()

            broker.retrieve_invocation = pop_marking  # type: ignore[method-assign]

            async def both():
                tr_ = httpx.ASGITransport(app=mon.app)
                async with httpx.AsyncClient(transport=tr_, base_url="http://testserver") as c:
                    return await asyncio.gather(c.get(f"/broker/queue?limit={limit}"), c.get(f"/broker/queue?limit={limit}"))

            try:
                resps = asyncio.run(both())
            finally:
                del broker.retrieve_invocation
            after = P.readout(w)
            n += 1
            ctx.count()
            ctx.distinct((kind, "overlapping-queue-pages", nmsg, limit))
            d = judge(before, after)
            if d:
                ctx.report("get-mutates:pynmon.views.broker.queue_view:two-requests-at-once",
                           f"[{kind}] two GET /broker/queue?limit={limit} requests served at the same time on {nmsg} queued messages (HTTP {[r.status_code for r in resps]}) changed the monitored system: "
                           + "; ".join(d[:3]), {"kind": kind, "family": "overlapping-queue-pages", "messages": nmsg, "limit": limit})
    ctx.notes["overlapping_queue_pages"] = n


def _get_overlapped_by_a_purge(ctx: Ctx, mon: Monitor) -> None:
    """a page is being served while an operator purges the state backend (the monitor's own purge button, another process).  The
    request is paused right after the k-th read it makes of the state backend, the purge runs, the system is read out, the request
    is resumed and ends, the system is read out again: the REST of the request only observes as well - nothing the purge removed
    comes back, nothing else moves."""
    import threading

    n = 0
    for kind in ("mem", "sqlite"):
        def world():  # type: ignore[no-untyped-def]
            w = P.World(kind, ctx.tmp, tag="gp")
            for op in (["heartbeat", ["rA"], True], ["call", "add", [1, 2]], ["call", "add", [3, 4]], ["claim", "rA", 2],
                       ["status", 0, "RUNNING", "rA"], ["finish", 0, "rA", 3], ["child", 1, "add", [5]]):
                w.apply(op)
            return w

        for url in ("/invocations/{i}", "/invocations/{i}/api", "/invocations/{i}/family-tree", "/invocations/", "/"):
            k = 0
            while True:
                k += 1
                if k > (3 if ctx.quick else 12):
                    break
                w = world()
                mon.point_at(w.app)
                url_w = url.format(i=w.inv[0])
                sb = w.app.state_backend
                me: dict = {"calls": 0, "paused": threading.Event(), "go": threading.Event(), "main": threading.current_thread()}
                wrapped = []
                for name in dir(sb):
                    if (name.startswith("get") or name.startswith("_get")) and callable(getattr(sb, name, None)) and not isinstance(getattr(type(sb), name, None), property):
                        orig = getattr(sb, name)

                        def wrap(*a, _orig=orig, **kw):  # type: ignore[no-untyped-def]
                            r = _orig(*a, **kw)
                            if threading.current_thread() is not me["main"]:      # the handler runs in a thread of the ASGI portal / pool
                                me["calls"] += 1
                                if me["calls"] == k:
                                    me["paused"].set()
                                    me["go"].wait(20)
                            return r

                        try:
                            setattr(sb, name, wrap)
                            wrapped.append(name)
                        except Exception:  # noqa: BLE001
                            pass
                res: dict = {}

                def request() -> None:
                    try:
                        res["r"], res["name"] = mon.get(url_w)
                    except BaseException as e:  # noqa: BLE001
                        res["err"] = repr(e)

                th = threading.Thread(target=request, daemon=True)
                th.start()
                t_end = __import__("time").time() + 10
                while not me["paused"].is_set() and th.is_alive() and __import__("time").time() < t_end:
                    me["paused"].wait(0.02)
                reached = me["paused"].is_set()
                if not reached:
                    th.join(20)
                    for name in wrapped:
                        try:
                            delattr(sb, name)
                        except Exception:  # noqa: BLE001
                            pass
                    break          # the request makes fewer than k reads
                try:
                    sb.purge()
                    mid = P.readout(w, with_api=False)
                finally:
                    me["go"].set()
                    th.join(30)
                try:
                    after = P.readout(w, with_api=False)      # (both read-outs with the pause wrappers still in place)
                finally:
                    for name in wrapped:
                        try:
                            delattr(sb, name)
                        except Exception:  # noqa: BLE001
                            pass
                n += 1
                ctx.count()
                ctx.distinct((kind, "get-overlapped-by-purge", url.split("/")[-1] or url, k))
                d = judge(mid, after)
                if d:
                    ctx.report(f"get-mutates:{res.get('name')}:overlapped-by-state-backend-purge",
                               f"[{kind}] GET {url_w.replace(w.inv[0], '<id>')} is paused after its read #{k} of the state backend, the state backend is purged, the request resumes "
                               f"(HTTP {getattr(res.get('r'), 'status_code', res.get('err'))}): what the purge had removed is back / the system moved: " + "; ".join(d[:3]),
                               {"kind": kind, "family": "get-overlapped-by-purge", "url": url_w, "read": k})
    ctx.notes["gets_overlapped_by_a_purge"] = n


def _slow_broker_queue_page(ctx: Ctx, mon: Monitor) -> None:
    """the queue page on a broker that STALLS in the middle of the drain (a lock held by another process, a very long queue): the k-th
    `retrieve_invocation` of the request takes 30 s of wall-clock time.  However long it takes, the page only looks."""
    import time as _time_mod

    n = 0
    for kind in ("mem", "sqlite"):
        for k in ((2,) if ctx.quick else (0, 2, 5)):
            w = P.World(kind, ctx.tmp, tag="qs")
            for j in range(6):
                w.apply(["call", "add", [j, 2]])
            mon.point_at(w.app)
            before = P.readout(w)
            broker = w.app.broker
            orig = broker.retrieve_invocation
            real_time = _time_mod.time
            st = {"n": 0, "offset": 0.0}

            def slow(orig=orig, st=st, k=k):  # type: ignore[no-untyped-def]
                if st["n"] == k:
                    st["offset"] += 30.0        # this call took half a minute
                st["n"] += 1
                return orig()

            broker.retrieve_invocation = slow  # type: ignore[method-assign]
            _time_mod.time = lambda: real_time() + st["offset"]  # type: ignore[assignment]
            try:
                resp, _served = mon.get("/broker/queue?limit=3")
            finally:
                _time_mod.time = real_time  # type: ignore[assignment]
                del broker.retrieve_invocation
            after = P.readout(w)
            n += 1
            ctx.count()
            ctx.distinct((kind, "slow-broker-queue-page", k))
            d = judge(before, after)
            if d:
                ctx.report("get-mutates:pynmon.views.broker.queue_view:slow-broker",
                           f"[{kind}] GET /broker/queue?limit=3 on 6 queued messages while retrieve_invocation call #{k + 1} takes 30 s (HTTP {resp.status_code}) changed the monitored system: "
                           + "; ".join(d[:3]), {"kind": kind, "family": "slow-broker-queue-page", "slow_call": k})
    ctx.notes["slow_broker_queue_pages"] = n


def _has_record(app, i: str) -> bool:
    try:
        app.state_backend.get_invocation(i)
        return True
    except Exception:  # noqa: BLE001
        return False


def _post_sensitivity(ctx: Ctx, mon: Monitor, post_routes: list[dict], static: dict) -> None:
    """the same before/after read-out sees what the POST endpoints do (so it would see a GET doing it)"""
    unseen = []
    hist = P.scripted_histories()["lifecycle"] + [["triggers"], ["event", "ping", 1]]
    for kind in ("mem", "sqlite"):
        for r in post_routes:
            w = P.World(kind, ctx.tmp, tag="post")
            for op in hist:
                w.apply(op)
            mon.point_at(w.app)
            url = r["path"].replace("{invocation_id}", w.inv[0])
            before = P.readout(w)
            resp, served = mon.post(url)
            after = P.readout(w)
            ctx.count()
            if before == after:
                unseen.append(f"[{kind}] POST {url} (HTTP {resp.status_code})")
    ctx.obligation(f"oracle sensitivity: every POST endpoint ({len(post_routes)}) visibly changes the read-out on both backends", not unseen, "; ".join(unseen[:4]))


def _fresh_monitor(ctx: Ctx, mon: Monitor, get_routes: list[dict]) -> None:
    """A monitor that has just started: its app object exists (hydrated from the app info) but none of its components
    has been built yet.  The system lives in a SQLite file populated by another app object; every GET route is served
    by a fresh monitor-side app object and the file must not change."""
    from harness.apps import make_app
    from pynenc.app import Pynenc

    fams = ["lifecycle"] if ctx.quick else ["lifecycle", "workflows", "ghost-in-queue"]
    hist = P.scripted_histories()
    n = 0
    for fam in fams:
        w = P.World("sqlite", ctx.tmp, tag="fresh")
        for op in hist[fam]:
            w.apply(op)
        db = w.app.broker.sqlite_db_path
        before = P.readout(w)
        for route in get_routes:
            built = P.build_url(route, w, random.Random(f"{ctx.seed}:fresh:{fam}:{route['path']}"), "existing", query_names(route))
            if built is None:
                continue
            url, _spec = built
            Pynenc._clear_instances()
            b = make_app("sqlite", ctx.tmp, app_id=w.app_id, db=db, auto_final_invocation_purge_hours=0.0,
                         runner_considered_dead_after_minutes=1.0e6)
            for t in w.tasks.values():
                b.task(t.func)
            mon.point_at(b)
            resp, served = mon.get(url)
            after = P.readout(w)
            n += 1
            ctx.count()
            ctx.distinct(("fresh-monitor", fam, route["path"], resp.status_code))
            d = judge(before, after)
            if d:
                ctx.report(f"fresh-monitor-get-mutates:{section_of(d)}",
                           f"[sqlite] first GET {url[:100]} ({served}, HTTP {resp.status_code}) served by a monitor whose app object had not built its "
                           f"components yet changed the monitored system: " + "; ".join(x[:460] for x in d[:2]),
                           {"kind": "sqlite", "fresh_monitor": True, "history": hist[fam], "route": route["path"], "mode": "existing",
                            "url_seed": f"{ctx.seed}:fresh:{fam}:{route['path']}", "url": url})
                before = after
    ctx.notes["fresh_monitor_requests"] = n


# ------------------------------------------------------------------------------------------------
# replay
# ------------------------------------------------------------------------------------------------


def replay(data: dict) -> int:
    import tempfile

    warnings.filterwarnings("ignore")
    r = data["replay"]
    tmp = tempfile.mkdtemp(prefix="verif-c20-replay-")
    w = P.World(r["kind"], tmp, tag="rp")
    for op in r.get("history", []):
        w.apply(op)
    if "method" in r:
        # a component method the monitor uses as a read changed the system
        comp, meth = r["method"].split(".")
        bad = 0
        for args in call_recipes(w).get(r["method"], []):
            before = P.readout(w, with_api=False)
            try:
                consume(getattr(getattr(w.app, comp), meth)(*args))
            except Exception as e:  # noqa: BLE001
                print(f"{r['method']}{_args_repr(args)} raised {type(e).__name__}")
            after = P.readout(w, with_api=False)
            d = judge(before, after)
            if d:
                bad += 1
                print(f"{r['method']}{_args_repr(args)} changed:", "; ".join(d[:3])[:400])
        print("VIOLATION reproduced" if bad else "no change observed")
        return 1 if bad else 0
    mon = Monitor()
    mon.point_at(w.app)
    if r.get("fresh_monitor"):
        from harness.apps import make_app
        from pynenc.app import Pynenc

        Pynenc._clear_instances()
        b = make_app("sqlite", tmp, app_id=w.app_id, db=w.app.broker.sqlite_db_path, auto_final_invocation_purge_hours=0.0,
                     runner_considered_dead_after_minutes=1.0e6)
        for t in w.tasks.values():
            b.task(t.func)
        mon.point_at(b)
    route = None
    if "url_seed" in r:
        route = next(x for x in tr.route_table() if x["path"] == r["route"] and x["method"] == "GET")
        url, _ = P.build_url(route, w, random.Random(r["url_seed"]), r["mode"], query_names(route))
    else:
        url = r["url"]
    before = P.readout(w)
    if r.get("shadowed") and route is not None:
        resp = mon.shadow_client([route]).get("/__shadowed__" + url, follow_redirects=False)
        served = route["module"] + "." + route["func"]
    else:
        resp, served = mon.get(url)
    after = P.readout(w)
    d = judge(before, after)
    print(f"[{r['kind']}] GET {url} -> HTTP {resp.status_code} served by {served}")
    print("queue before:", before["queue"])
    print("queue after: ", after["queue"])
    for x in d:
        print("  changed:", x[:400])
    print("VIOLATION reproduced" if d else "no change observed")
    return 1 if d else 0
