"""C11 — stopping a runner leaves none of its invocations owned or unqueued.

Lean: Props/C11.lean over Model/Stop.lean — the per-invocation system (task thread x stop procedure) is finite; EVERY interleaving,
      for every program point at which the stop request can find the task thread and every body outcome, is enumerated by the
      kernel: the stop completes and the invocation ends final or available + queued + un-owned (independent and retrying
      workloads); refutation for a parent waiting on a sub-task nobody runs: `run()` never returns (known finding).
Tie:  the REAL `ThreadRunner._on_stop` and the REAL `DistributedInvocation.run` as two scheduled actors (in-memory: source-line yield
      points in the status transition / broker; SQLite: every SQL statement), the tracked thread being a cooperative stand-in whose
      `is_alive` / `join` follow the scheduled task thread — all schedules up to a pre-emption bound, for every body outcome and for a
      task thread that has not started / is in its body / has finished; the terminal (status, owner, queued) of every real run must
      be one of the terminal states of the Lean model for that start state (`stop.terminals`).  Plus real-time runs of the whole
      runner (`run()` + stop request) on generated workloads, incl. the waiting-parent workload with a watchdog.
Oracle: after the stop completes every claimed invocation is final, or in an available status, in the queue and owned by nobody.
"""
from __future__ import annotations

import threading
import time as _time
from typing import Any, Callable

from harness import tasks as T
from harness.apps import flush, inject_status, make_app, rctx
from harness.common import Ctx, LeanDriver, lean_stage, thorough_rebuild
from harness.sched_line import DeferredThreads, LineSched
from harness.sched_sql import SqlSched, explore
from harness.translate import programs as trp
from harness.translate import status as trs

THEOREMS = ["stop_postcondition_partial", "fuel_suffices", "stop_postcondition_ended_threads", "pruning_ended_threads_strands_them",
            "stop_hangs_on_waiting_parent", "kill_program_matches"]

SQL_PATCH = [
    ("pynenc.util.sqlite_utils", "create_sqlite_connection"),
    ("pynenc.broker.sqlite_broker", "sqlite_conn"),
    ("pynenc.orchestrator.sqlite_orchestrator", "sqlite_conn"),
    ("pynenc.state_backend.sqlite_state_backend", "sqlite_conn"),
    ("pynenc.trigger.sqlite_trigger", "sqlite_conn"),
]


class ShimThread:
    """stand-in for the tracked `threading.Thread`: alive until the scheduled task actor has finished; join cooperates"""

    def __init__(self, sched: SqlSched, state: dict):
        self.sched, self.state, self.name = sched, state, "scheduled-task-thread"

    def is_alive(self) -> bool:
        return not self.state["done"]

    def join(self, timeout: float | None = None) -> None:
        while not self.state["done"]:
            self.sched._block_on_lock() if hasattr(self.sched, "_block_on_lock") else self.sched._on_backoff(0)


def queue_of(app) -> list[str]:
    b = app.broker
    out = []
    while (i := b.retrieve_invocation()) is not None:
        out.append(i)
    for i in out:
        b.route_invocation(i)
    return out


def scheduled(ctx: Ctx, kind: str, drv: LeanDriver) -> None:
    from pynenc.broker.mem_broker import MemBroker
    from pynenc.invocation.status import InvocationStatus as S
    from pynenc.orchestrator.mem_orchestrator import MemOrchestrator
    from pynenc.runner.thread_runner import ThreadInfo

    app = make_app(kind, ctx.tmp, app_id=f"c11{kind}", runner_cls="ThreadRunner")
    task = app.task(T.c11_body, max_retries=2)
    runner = app.runner
    runner._on_start()
    defer = DeferredThreads().install()
    if kind == "mem":
        sched: SqlSched = LineSched(line_targets=[MemOrchestrator._atomic_status_transition, MemOrchestrator.increment_invocation_retries,
                                                  MemBroker.route_invocation, T.c11_body],
                                    lock_modules=["pynenc.orchestrator.mem_orchestrator"])
    else:
        sched = SqlSched(patch=SQL_PATCH, max_steps=20000)
    sched.install()
    ctxR = runner.runner_context
    total = nd = 0
    try:
        for script in ("ok", "fail", "retry", "pause"):      # pause: the thread ends and leaves the invocation RUNNING
            for start in ("pending", "finished"):
                model_line = drv.ask(f"stop.terminals {script} {start}")
                model_terms = set(model_line.split())

                def run_one(chooser, script=script, start=start):
                    defer.pending.clear()
                    app.purge()
                    runner.threads = {}
                    inv0 = task(script)
                    got = list(app.orchestrator.get_invocations_to_run(1, ctxR))
                    inv = got[0]
                    state = {"done": False}
                    if start == "finished":
                        try:
                            inv.run(ctxR)          # the task thread ran to completion before the stop request
                        except BaseException:  # noqa: BLE001
                            pass
                        state["done"] = True
                    runner.threads = {inv.invocation_id: ThreadInfo(ShimThread(sched, state), inv)}

                    def task_thread() -> None:
                        if start == "finished":
                            return
                        try:
                            inv.run(ctxR)
                        except BaseException:  # noqa: BLE001
                            pass
                        finally:
                            state["done"] = True
                            sched._released()

                    def stop_thread() -> None:
                        runner._on_stop()

                    run = sched.run([task_thread, stop_thread], chooser)
                    rec = app.orchestrator.get_invocation_status_record(inv.invocation_id)
                    q = queue_of(app).count(inv.invocation_id)
                    run.meta = (inv.invocation_id, rec.status.value, rec.runner_id, q)  # type: ignore[attr-defined]
                    return run

                runs = explore(run_one, 2 if ctx.quick else 3, 60 if ctx.quick else 700)
                for run in runs:
                    total += 1
                    ctx.count()
                    ctx.distinct((kind, script, start, tuple(run.choices)))
                    i, st, owner, q = run.meta  # type: ignore[attr-defined]
                    rep = {"backend": kind, "script": script, "task_thread": start, "schedule": run.choices, "status": st, "owner": owner, "queued": q}
                    if run.aborted:
                        ctx.report(f"stop-did-not-complete[{kind}]:{script}", f"[{kind}] stop procedure did not complete for a {script} task (schedule {run.choices[:50]})", rep)
                        continue
                    if any(e is not None for e in run.errors):
                        ctx.report(f"stop-raised[{kind}]:{script}", f"[{kind}] _on_stop / run raised {run.errors}", rep)
                        continue
                    final = st in ("success", "failed", "concurrency_controlled_final")
                    available = st in ("registered", "rerouted", "retry")
                    if not (final or (available and q >= 1 and owner is None)):
                        ctx.report(f"stop-leaves[{kind}]:{st}", f"[{kind}] after the stop completed a claimed invocation is {st} (owner {owner}, queued {q}x): neither final nor available+queued+un-owned "
                                                               f"(body outcome {script}, task thread {start}, schedule {run.choices})", rep)
                    term = f"{st}/{'self' if owner else '-'}/{q}"
                    if term not in model_terms:
                        nd += 1
                        if nd <= 4:
                            ctx.obligation(f"correspondence stop terminals [{kind}] {script}/{start}", False, f"real run ended {term}, model terminals {sorted(model_terms)}")
                ctx.sample({"backend": kind, "script": script, "task_thread": start, "model_terminals": sorted(model_terms)})
        ctx.obligation(f"correspondence: terminal (status, owner, queued) of every scheduled real stop on {kind} ∈ model terminals ({total} schedules)", nd == 0, f"{nd} outside")
    finally:
        sched.uninstall()
        defer.uninstall()


def poller_during_stop(ctx: Ctx, kind: str) -> None:
    """a second runner polls the shared broker while the first one stops: the REAL `_on_stop` (kill and re-route of a claimed
    invocation), the REAL `get_invocations_to_run` of runner B inserted as one block after every scheduling step of the stop, then
    the task thread.  Afterwards the invocation is final, or available + queued + un-owned, or has been taken over by B — never
    available but in no queue (a message consumed while the status was not yet available is lost for good)."""
    from pynenc.broker.mem_broker import MemBroker
    from pynenc.orchestrator.base_orchestrator import BaseOrchestrator
    from pynenc.orchestrator.mem_orchestrator import MemOrchestrator
    from pynenc.runner.thread_runner import ThreadInfo
    from harness.sched_sql import PrefixChooser

    app = make_app(kind, ctx.tmp, app_id=f"c11p{kind}", runner_cls="ThreadRunner")
    task = app.task(T.c11_body, max_retries=2)
    runner = app.runner
    runner._on_start()
    defer = DeferredThreads().install()
    if kind == "mem":
        sched: SqlSched = LineSched(line_targets=[MemOrchestrator._atomic_status_transition, MemBroker.route_invocation, MemBroker.retrieve_invocation,
                                                  BaseOrchestrator.reroute_invocations],
                                    lock_modules=["pynenc.orchestrator.mem_orchestrator"])
    else:
        sched = SqlSched(patch=SQL_PATCH, max_steps=20000)
    sched.install()
    ctxA, ctxB = runner.runner_context, rctx("c11-runner-B")
    app.state_backend.store_runner_context(ctxB) if hasattr(app.state_backend, "store_runner_context") else None
    n = 0
    try:
        for start in ("pending", "finished"):
            def run_one(chooser, start=start):
                defer.pending.clear()
                app.purge()
                runner.threads = {}
                task("ok")
                inv = list(app.orchestrator.get_invocations_to_run(1, ctxA))[0]
                state = {"done": False, "b": []}
                if start == "finished":
                    try:
                        inv.run(ctxA)
                    except BaseException:  # noqa: BLE001
                        pass
                    state["done"] = True
                runner.threads = {inv.invocation_id: ThreadInfo(ShimThread(sched, state), inv)}

                def stop_thread() -> None:
                    runner._on_stop()

                def poller() -> None:
                    state["b"] += [i.invocation_id for i in app.orchestrator.get_invocations_to_run(1, ctxB)]

                def task_thread() -> None:
                    if start == "finished":
                        return
                    try:
                        inv.run(ctxA)
                    except BaseException:  # noqa: BLE001
                        pass
                    finally:
                        state["done"] = True
                        sched._released()

                run = sched.run([stop_thread, poller, task_thread], chooser)
                rec = app.orchestrator.get_invocation_status_record(inv.invocation_id)
                run.meta = (rec.status.value, rec.runner_id, queue_of(app).count(inv.invocation_id), state["b"])  # type: ignore[attr-defined]
                return run

            steps = len(run_one(PrefixChooser([0] * 5000)).choices)
            for k in range(0, steps + 1):
                run = run_one(PrefixChooser([0] * k + [1] * 5000))
                n += 1
                ctx.count()
                ctx.distinct((kind, "poller", start, k))
                st, owner, q, took = run.meta  # type: ignore[attr-defined]
                rep = {"kind": "poller-during-stop", "backend": kind, "task_thread": start, "poll_after_step": k, "schedule": run.choices, "status": st, "owner": owner, "queued": q}
                if run.aborted:
                    ctx.report(f"stop-did-not-complete[{kind}]:poller", f"[{kind}] the stop did not complete with a second runner polling after step {k}", rep)
                    continue
                final = st in ("success", "failed", "concurrency_controlled_final")
                available = st in ("registered", "rerouted", "retry")
                taken_over = owner == ctxB.runner_id and st in ("pending", "running")
                if not (final or taken_over or (available and q >= 1 and owner is None)):
                    ctx.report(f"stop-leaves[{kind}]:{st}:second-runner-polls", f"[{kind}] runner A stops while runner B polls the broker once (after scheduling step {k} of A's stop, task thread {start}): afterwards the "
                                                                                f"invocation A had claimed is {st}, owner {owner}, in the queue {q}x, B got {took}: neither final, nor queued and un-owned, nor taken over by B", rep)
            ctx.sample({"kind": "poller-during-stop", "backend": kind, "task_thread": start, "stop_steps": steps})
        ctx.notes[f"poller_runs_{kind}"] = n
    finally:
        sched.uninstall()
        defer.uninstall()


def stale_entry_then_live(ctx: Ctx, kind: str) -> None:
    """the runner's thread table holds, first, the finished thread of an invocation that was retried and has meanwhile been
    claimed by ANOTHER runner (the loop has not pruned it yet) and, second, a live RUNNING one: the stop must get past the
    first (it is not this runner's any more) and still release the second"""
    from pynenc.runner.thread_runner import ThreadInfo

    app = make_app(kind, ctx.tmp, app_id=f"c11stale{kind}", runner_cls="ThreadRunner")
    task = app.task(T.c11_slow, max_retries=2)
    runner = app.runner
    runner._on_start()
    ctxA, ctxB = runner.runner_context, rctx("c11-runner-B")
    o = app.orchestrator
    for other in ("pending", "running"):
        app.purge()
        x = task("retry", 0.0)
        invx = list(o.get_invocations_to_run(1, ctxA))[0]
        tx = threading.Thread(target=lambda: invx.run(ctxA), daemon=True)
        tx.start()
        tx.join(10)                                  # X: RETRY, re-queued; its thread is dead but still in A's table
        gotb = list(o.get_invocations_to_run(1, ctxB))           # runner B claims the retry
        if other == "running" and gotb:
            o.set_invocation_status(x.invocation_id, trs_status("running"), ctxB)
        y = task("ok", 0.6)
        invy = list(o.get_invocations_to_run(1, ctxA))[0]
        ty = threading.Thread(target=lambda: invy.run(ctxA), daemon=True)
        ty.start()
        t0 = _time.time()
        while _time.time() - t0 < 5 and o.get_invocation_status(y.invocation_id).value != "running":
            _time.sleep(0.001)
        runner.threads = {x.invocation_id: ThreadInfo(tx, invx), y.invocation_id: ThreadInfo(ty, invy)}
        err = None
        try:
            runner._on_stop()
        except BaseException as e:  # noqa: BLE001
            err = f"{type(e).__name__}: {e}"
        ty.join(5)
        flush(app)
        q = queue_of(app)
        rx, ry = o.get_invocation_status_record(x.invocation_id), o.get_invocation_status_record(y.invocation_id)
        ctx.count()
        ctx.distinct((kind, "stale-entry", other, ry.status.value))
        rep = {"kind": "stale-entry-then-live", "backend": kind, "other_runner_has_it": other, "x": [rx.status.value, rx.runner_id], "y": [ry.status.value, ry.runner_id]}
        sty = ry.status.value
        ok_y = sty in ("success", "failed", "concurrency_controlled_final") or (sty in ("registered", "rerouted", "retry") and ry.runner_id is None and y.invocation_id in q)
        if err is not None or not ok_y:
            ctx.report(f"stop-leaves[{kind}]:{sty}:after-stale-entry",
                       f"[{kind}] runner A stops with [a finished thread of an invocation now {rx.status.value} under runner B, a live RUNNING invocation] in its table: _on_stop "
                       f"{'raised ' + err if err else 'returned'}; the live invocation is {sty}, owner {ry.runner_id}, queued {y.invocation_id in q}", rep)
        if rx.runner_id != ctxB.runner_id:
            ctx.report(f"stop-touches-foreign[{kind}]", f"[{kind}] the stop of runner A changed an invocation held by runner B: now {rx.status.value}, owner {rx.runner_id}", rep)


def ended_thread_not_final(ctx: Ctx, kind: str) -> None:
    """the stop request arrives when a task thread has ENDED but its invocation is not final and still the runner's: the body asked
    for a pause (the run handler only logs it: RUNNING), or the store failed at the PENDING -> RUNNING write (the thread dies:
    PENDING).  The loop has not pruned the thread yet (the stop comes within the same iteration).  Also a live invocation next to it."""
    import sqlite3

    for how in ("pause", "fault-at-running"):
        app = make_app(kind, ctx.tmp, app_id=f"c11ended{kind}{how[:2]}", runner_cls="ThreadRunner", runner_loop_sleep_time_sec=0.002, min_parallel_slots=2, max_threads=2)
        task = app.task(T.c11_slow)
        runner = app.runner
        o = app.orchestrator
        runner._on_start()
        x = task("pause" if how == "pause" else "ok", 0.0)
        y = task("ok", 0.5)
        real = type(o)._atomic_status_transition
        hit = []

        def faulty(self, inv_id, status, owner=None, _real=real, _x=x.invocation_id):  # type: ignore[no-untyped-def]
            if how == "fault-at-running" and inv_id == _x and status.value == "running" and not hit:
                hit.append(1)
                raise sqlite3.OperationalError("disk I/O error") if kind == "sqlite" else OSError("store unreachable")
            return _real(self, inv_id, status, owner)

        type(o)._atomic_status_transition = faulty  # type: ignore[method-assign]
        err = None
        try:
            runner.runner_loop_iteration()                 # claims both, starts both threads
            t0 = _time.time()
            while _time.time() - t0 < 5:
                tx = runner.threads.get(x.invocation_id)
                if tx is not None and not tx.thread.is_alive() and o.get_invocation_status(y.invocation_id).value == "running":
                    break
                _time.sleep(0.001)
            before = o.get_invocation_status_record(x.invocation_id)
            try:
                runner._on_stop()                           # the stop request, honoured before the next iteration
            except BaseException as e:  # noqa: BLE001
                err = f"{type(e).__name__}: {e}"
        finally:
            type(o)._atomic_status_transition = real  # type: ignore[method-assign]
        flush(app)
        q = queue_of(app)
        ctx.count()
        ctx.distinct((kind, "ended-thread-not-final", how))
        for lab, inv in (("ended", x), ("live", y)):
            r = o.get_invocation_status_record(inv.invocation_id)
            st = r.status.value
            ok = st in ("success", "failed", "concurrency_controlled_final") or (st in ("registered", "rerouted", "retry") and r.runner_id is None and inv.invocation_id in q)
            if err is not None or not ok:
                ctx.report(f"stop-leaves[{kind}]:{st}:ended-thread:{how}:{lab}",
                           f"[{kind}] the runner stops while its table holds the ended thread of an invocation that is {before.status.value} (not final: {how}) and a live RUNNING one: _on_stop "
                           f"{'raised ' + err if err else 'returned'}; afterwards the {lab} invocation is {st}, owner {r.runner_id}, queued {inv.invocation_id in q}",
                           {"kind": "ended-thread-not-final", "backend": kind, "how": how})


def loop_iteration_corner_cases(ctx: Ctx, kind: str) -> None:
    """what the loop iteration leaves in the runner's thread table decides what the stop can release:
    (a) the operating system refuses to start a task thread (RuntimeError: can't start new thread) while other invocations of the same
        iteration do start - every slot taken; then the stop request;
    (b) the thread of a first attempt is still winding down (it has published RETRY and re-queued the invocation) when the loop claims
        the invocation again; the old thread ends, the loop iterates, then the stop request.
    Afterwards every claimed invocation is final or back in the queue, available and nobody's, and the stop did not raise."""
    import importlib
    import threading as real_threading

    from pynenc.runner.thread_runner import ThreadInfo

    trmod = importlib.import_module("pynenc.runner.thread_runner")

    def judge(app, runner, invs, what: str, err) -> None:
        try:
            flush(app)
        except BaseException as e:  # noqa: BLE001   (a stop that blew up can leave a history writer that was never started)
            err = err or f"(flush) {type(e).__name__}: {e}"
        q = queue_of(app)
        o = app.orchestrator
        for inv in invs:
            r = o.get_invocation_status_record(inv.invocation_id)
            st = r.status.value
            ok = st in ("success", "failed", "concurrency_controlled_final") or (st in ("registered", "rerouted", "retry") and r.runner_id is None and inv.invocation_id in q)
            if err is not None or not ok:
                ctx.report(f"stop-leaves[{kind}]:{st}:{what}",
                           f"[{kind}] {what}: the stop {'raised ' + err if err else 'returned'}; afterwards a claimed invocation is {st}, owner {r.runner_id}, queued {inv.invocation_id in q}",
                           {"kind": "loop-corner-case", "backend": kind, "case": what})
                return

    # ---- (a)
    app = make_app(kind, ctx.tmp, app_id=f"c11startfault{kind}", runner_cls="ThreadRunner", runner_loop_sleep_time_sec=0.0, min_parallel_slots=3, max_threads=3)
    task = app.task(T.c11_slow)
    runner = app.runner
    runner._on_start()
    invs = [task("ok", 0.4) for _ in range(3)]
    state = {"n": 0}

    class Flaky(real_threading.Thread):
        def start(self) -> None:
            state["n"] += 1
            if state["n"] == 1:
                raise RuntimeError("can't start new thread")
            super().start()

    class Shim:
        Thread = Flaky

        def __getattr__(self, name):  # type: ignore[no-untyped-def]
            return getattr(real_threading, name)

    saved = trmod.threading
    trmod.threading = Shim()
    err = None
    try:
        runner.runner_loop_iteration()
        trmod.threading = saved
        t0 = _time.time()
        while _time.time() - t0 < 5 and sum(1 for i in invs if app.orchestrator.get_invocation_status(i.invocation_id).value == "running") < 2:
            _time.sleep(0.002)
        try:
            runner._on_stop()
        except BaseException as e:  # noqa: BLE001
            err = f"{type(e).__name__}: {e}"
    finally:
        trmod.threading = saved
    ctx.count()
    ctx.distinct((kind, "thread-start-refused"))
    judge(app, runner, invs, "a task thread could not be started (every slot taken) and the stop request follows", err)

    # ---- (b)
    app = make_app(kind, ctx.tmp, app_id=f"c11winding{kind}", runner_cls="ThreadRunner", runner_loop_sleep_time_sec=0.0, min_parallel_slots=2, max_threads=2)
    task = app.task(T.c11_slow, max_retries=2)
    runner = app.runner
    runner._on_start()
    inv = task("ok", 0.0)
    ctxR = runner.runner_context
    got = list(app.orchestrator.get_invocations_to_run(1, ctxR))
    app.orchestrator.set_invocation_status(inv.invocation_id, trs_status("running"), ctxR)
    app.orchestrator.set_invocation_retry(inv.invocation_id, RuntimeError("first attempt failed"), ctxR) if hasattr(app.orchestrator, "set_invocation_retry") else None
    winding = real_threading.Event()
    old = real_threading.Thread(target=winding.wait, args=[10], daemon=True)      # the first attempt's thread: RETRY published, not yet out of run()
    old.start()
    runner.threads = {inv.invocation_id: ThreadInfo(old, got[0])}
    err = None
    try:
        runner.runner_loop_iteration()          # the loop claims the retried invocation again
        winding.set()
        old.join(5)
        t0 = _time.time()
        while _time.time() - t0 < 3 and not app.orchestrator.get_invocation_status(inv.invocation_id).is_final():
            runner.runner_loop_iteration()
            _time.sleep(0.005)
        try:
            runner._on_stop()
        except BaseException as e:  # noqa: BLE001
            err = f"{type(e).__name__}: {e}"
    finally:
        winding.set()
    ctx.count()
    ctx.distinct((kind, "first-attempt-still-winding-down"))
    judge(app, runner, [inv], "the loop claims a retried invocation while the thread of its first attempt is still winding down", err)


def main_thread_signals(ctx: Ctx, for_prop: str = "C11") -> list[dict]:
    """the runner loop in the MAIN thread of a fresh interpreter (real signal handlers) and a real SIGINT / SIGTERM that lands right
    after the broker handed a message to the loop (before the claim), or while the loop looks at the waiting marks with a task RUNNING.
    C11: the stop completes and leaves the invocation final or re-queued, available and nobody's.  (C03 re-uses the runs: with a
    surviving runner and the recovery services the accepted invocation still reaches a final status.)"""
    import json
    import os
    import subprocess
    import sys
    from concurrent.futures import ThreadPoolExecutor

    envv = dict(os.environ)
    envv["PYTHONPATH"] = os.pathsep.join(p for p in sys.path if p)
    modes = ["sigint-after-pop", "sigterm-after-pop", "sigterm-in-reclaim"] + (["sigint-twice", "sigterm-twice"] if for_prop == "C11" else [])

    def one(k: int, mode: str) -> dict:
        arg = {"tmp": ctx.tmp, "app_id": f"c11main{for_prop}{k}", "mode": mode}
        p = subprocess.run([sys.executable, "-m", "harness.c11_child2", json.dumps(arg)], capture_output=True, text=True, env=envv, timeout=120)
        lines = [ln for ln in p.stdout.strip().splitlines() if ln.startswith("{")]
        d = json.loads(lines[-1]) if lines else {"crashed": (p.stderr or p.stdout)[-300:], "rc": p.returncode}
        d["mode"] = mode
        return d

    with ThreadPoolExecutor(max_workers=5) as ex:
        res = list(ex.map(lambda km: one(*km), enumerate(modes)))
    if for_prop != "C11":
        return res
    for d in res:
        ctx.count()
        ctx.distinct(("main-thread-signal", d["mode"], d.get("status_after_stop")))
        rep = {"kind": "main-thread-signal", "mode": d["mode"], "result": d}
        if "crashed" in d and d["mode"].endswith("-twice") and d.get("rc") in (-15, -2, 143, 130):
            ctx.report(f"stop-killed-by-repeated-signal:{d['mode']}", f"a ThreadRunner whose loop is the main thread receives its stop signal twice ({d['mode']}): the process was KILLED by the second one "
                                                                      f"(rc {d.get('rc')}) in the middle of the stop - whatever was still RUNNING stays owned by a dead runner", rep)
            continue
        if "crashed" in d:
            ctx.obligation("the main-thread signal probe of C11 ran", False, str(d)[:300])
            continue
        st = d.get("status_after_stop")
        ok = d.get("stop_completed") and (st in ("success", "failed", "concurrency_controlled_final") or (st in ("registered", "rerouted", "retry") and d.get("owner_after_stop") is None and (d.get("queued_after_stop") or 0) >= 1))
        if not ok:
            ctx.report(f"stop-leaves:{st}:real-signal:{d['mode']}",
                       f"a ThreadRunner whose loop is the main thread receives a real signal ({d['mode']}): the stop {'completed' if d.get('stop_completed') else 'did NOT complete within 12 s'}"
                       f"{' raising ' + d['raised'] if d.get('raised') else ''}; the invocation is {st}, owner {d.get('owner_after_stop')}, queued {d.get('queued_after_stop')}x", rep)
    return res


def trs_status(name: str):  # type: ignore[no-untyped-def]
    from pynenc.invocation.status import InvocationStatus

    return InvocationStatus(name)


def running_child_on_same_runner(ctx: Ctx, kind: str) -> None:
    """a parent waiting on a sub-task that is RUNNING on the same runner (two slots) when the stop request arrives: the stop
    completes (the child ends, the parent's wait ends) - unlike the listed finding, where the awaited child is run by nobody"""
    app = make_app(kind, ctx.tmp, app_id=f"c11pc{kind}", runner_cls="ThreadRunner", runner_loop_sleep_time_sec=0.002,
                   invocation_wait_results_sleep_time_sec=0.002, min_parallel_slots=2, max_threads=2)
    parent = app.task(T.c11_parent)
    slow = app.task(T.c11_slow)
    inv = parent()
    runner = app.runner
    th = threading.Thread(target=runner.run, daemon=True)
    th.start()
    o = app.orchestrator
    t0 = _time.time()
    child_running = False
    while _time.time() - t0 < 8 and not child_running:
        # the CHILD: the invocation of the sub-task (the runner's own housekeeping tasks - recovery, triggers - are invocations too, and
        # may well be RUNNING at this moment)
        ids = list(o.get_task_invocation_ids(slow.task_id))
        child_running = inv.status.value == "running" and any(o.get_invocation_status(i).value == "running" for i in ids)
        _time.sleep(0.002)
    runner.stop_runner_loop()
    th.join(6)
    if th.is_alive():
        th.join(40)          # (a loaded machine: every status poll of the waiting parent is a SQLite round trip; a real hang lasts for ever)
    ctx.count()
    ctx.distinct((kind, "parent-child-both-running", child_running))
    if child_running and th.is_alive():
        import sys as _sys
        import traceback as _tb

        stacks = {}
        for tid, fr in _sys._current_frames().items():
            name = next((t.name for t in threading.enumerate() if t.ident == tid), str(tid))
            stacks[name] = [ln.strip()[:160] for ln in _tb.format_stack(fr)[-6:]]
        others = {i[:8]: o.get_invocation_status(i).value for i in o.get_invocation_ids_paginated(limit=10)}
        try:
            flush(app)
            stacks["histories"] = {i[:8]: [(h.status_record.status.value, h.status_record.runner_id, str(h.status_record.timestamp)[11:23]) for h in sorted(app.state_backend.get_history(i), key=lambda h: h.status_record.timestamp)]
                                   for i in o.get_invocation_ids_paginated(limit=10)}
            stacks["parents"] = {i[:8]: str(getattr(app.state_backend.get_invocation(i), "parent_invocation_id", None))[:8] for i in o.get_invocation_ids_paginated(limit=10)}
        except Exception as e:  # noqa: BLE001
            stacks["histories"] = repr(e)
        ctx.report(f"stop-hangs[{kind}]:parent-and-running-child", f"[{kind}] run() does not return 46 s after the stop request although the awaited sub-task was RUNNING on the same runner "
                                                                  f"(0.4 s body): parent {inv.status.value}, invocations {others}", {"kind": "parent-child-both-running", "backend": kind, "stacks": stacks})
        T.C11_RELEASE.set()
        # end the wait of the thread the stop is stuck on (it polls the child for ever and would slow down everything that follows):
        # below the API the child is given a final status
        try:
            from pynenc.invocation.status import InvocationStatus as _S

            for i in o.get_task_invocation_ids(slow.task_id):
                if not o.get_invocation_status(i).is_final():
                    inject_status(app, i, _S.FAILED, None, 0)
            th.join(20)
        except Exception:  # noqa: BLE001
            pass


def worker_signal_during_cleanup(ctx: Ctx) -> None:
    """a MultiThreadRunner WORKER PROCESS main in the main thread of a fresh interpreter (real signal handlers): a task is RUNNING,
    the worker enters its clean-up because the parent is gone / Ctrl-C / SIGTERM, and a further SIGTERM (the parent's, the
    supervisor's) arrives before the kill, between KILLED and REROUTED, or between REROUTED and the queue push"""
    import json
    import os
    import subprocess
    import sys
    from concurrent.futures import ThreadPoolExecutor

    cases = [(r, p) for r in ("parent-gone", "ctrl-c", "sigterm") for p in ("none", "before-kill", "after-killed", "before-push")]
    if ctx.quick:
        cases = [c for c in cases if c[1] != "none" or c[0] in ("sigterm", "parent-gone")]
    envv = dict(os.environ)
    envv["PYTHONPATH"] = os.pathsep.join(p for p in sys.path if p)

    def one(k: int, reason: str, point: str) -> dict:
        arg = {"db": os.path.join(ctx.tmp, f"c11w{k}.db"), "tmp": ctx.tmp, "app_id": f"c11w{k}", "reason": reason, "point": point}
        p = subprocess.run([sys.executable, "-m", "harness.c11_child", json.dumps(arg)], capture_output=True, text=True, env=envv, timeout=120)
        lines = [ln for ln in p.stdout.strip().splitlines() if ln.startswith("{")]
        if not lines:
            return {"crashed": (p.stderr or p.stdout)[-300:], "rc": p.returncode}
        return json.loads(lines[-1])

    with ThreadPoolExecutor(max_workers=6) as ex:
        futs = [(r, pt, ex.submit(one, k, r, pt)) for k, (r, pt) in enumerate(cases)]
        res = [(r, pt, f.result()) for r, pt, f in futs]
    for reason, point, d in res:
        ctx.count()
        ctx.distinct(("worker-signal", reason, point, d.get("status")))
        rep = {"kind": "worker-signal-during-cleanup", "reason": reason, "second_sigterm": point, "result": d}
        if "crashed" in d:
            # the interpreter died of the signal before it could report: with SIGTERM ignored during clean-up it never does
            ctx.report(f"worker-cleanup-killed-by-signal:{point}", f"worker process (clean-up because {reason}) did not survive a SIGTERM {point}: rc {d.get('rc')} {d['crashed'][-120:]}", rep)
            continue
        st = d["status"]
        ok = st in ("success", "failed", "concurrency_controlled_final") or (st in ("registered", "rerouted", "retry") and d["owner"] is None and d["queued"] >= 1)
        st0 = d.get("status_at_exit", st)
        ok0 = st0 in ("success", "failed", "concurrency_controlled_final") or (st0 in ("registered", "rerouted", "retry") and d.get("owner_at_exit") is None and d["queued"] >= 1)
        if ok and not ok0:
            # the task thread finished the invocation AFTER the worker main had ended - in a real worker process it dies with the process
            ctx.report(f"stop-leaves[worker-process]:{st0}:at-process-exit:{reason}",
                       f"MultiThreadRunner worker process main ends because {reason} ({'returned' if d['returned'] else 'raised ' + str(d['error'])}) and leaves its RUNNING invocation {st0} under "
                       f"{d.get('owner_at_exit')} (queued {d['queued']}x): the clean-up did not run; the task thread dies with the process", rep)
            continue
        if not ok:
            ctx.report(f"stop-leaves[worker-process]:{st}:sigterm-{point}",
                       f"MultiThreadRunner worker process cleaning up because {reason}, a further SIGTERM arrives {point}: the RUNNING invocation ends {st}, owner {d['owner']}, queued {d['queued']}x "
                       f"(clean-up {'returned' if d['returned'] else 'was interrupted: ' + str(d['error'])})", rep)
    ctx.notes["worker_signal_cases"] = len(res)


def realtime(ctx: Ctx, kind: str) -> None:
    """the whole runner in real time: workloads of independent / retrying tasks, stop requested at random moments"""
    from pynenc.invocation.status import InvocationStatus as S

    for rnd in range(2 if ctx.quick else 8):
        app = make_app(kind, ctx.tmp, app_id=f"c11rt{kind}{rnd}", runner_cls="ThreadRunner", runner_loop_sleep_time_sec=0.002,
                       invocation_wait_results_sleep_time_sec=0.002, min_parallel_slots=2, max_threads=2)
        task = app.task(T.c11_slow, max_retries=1)
        invs = [task(ctx.rng.choice(["ok", "retry", "fail"]), ctx.rng.choice([0.0, 0.01, 0.03])) for _ in range(6)]
        runner = app.runner
        th = threading.Thread(target=runner.run, daemon=True)
        th.start()
        # the property speaks of a stop request "at any moment of its loop": a request that arrives before on_start() has set
        # `running = True` is overwritten by on_start and is outside the statement (DESIGN 11.4) - wait for the loop to begin
        t0 = _time.time()
        while not runner.running and _time.time() - t0 < 10:
            _time.sleep(0.0005)
        _time.sleep(ctx.rng.choice([0.0, 0.01, 0.03, 0.06]))
        runner.stop_runner_loop()
        th.join(20)
        ctx.count()
        rep = {"backend": kind, "round": rnd}
        if th.is_alive():
            ctx.report(f"run-did-not-return[{kind}]", f"[{kind}] run() did not return 20 s after the stop request (independent / retrying tasks)", rep)
            continue
        flush(app)
        q = queue_of(app)
        for inv in invs:
            rec = app.orchestrator.get_invocation_status_record(inv.invocation_id)
            st = rec.status.value
            ctx.distinct((kind, "rt", st, rec.runner_id is None, inv.invocation_id in q))
            ok = st in ("success", "failed", "concurrency_controlled_final") or (st in ("registered", "rerouted", "retry") and inv.invocation_id in q and (rec.runner_id is None or st == "registered"))
            if not ok:
                ctx.report(f"stop-leaves[{kind}]:{st}", f"[{kind}] after run() returned an invocation is {st} (owner {rec.runner_id}, queued {inv.invocation_id in q})", rep)


def waiting_parent(ctx: Ctx, kind: str) -> None:
    """known-finding probe: parent waiting on a child that is still running when the stop request arrives: both are killed and
    re-routed, the child's thread ends, the parent's thread keeps waiting for a child nobody runs any more"""
    # a slow loop (0.3 s per iteration): the parent launches its child and starts waiting while the loop sleeps; the stop request
    # arrives before the loop ever claims the child
    app = make_app(kind, ctx.tmp, app_id=f"c11wp{kind}", runner_cls="ThreadRunner", runner_loop_sleep_time_sec=0.3,
                   invocation_wait_results_sleep_time_sec=0.002, min_parallel_slots=1, max_threads=1)
    parent = app.task(T.c11_parent)
    slow = app.task(T.c11_slow)
    inv = parent()
    runner = app.runner
    th = threading.Thread(target=runner.run, daemon=True)
    th.start()
    t0 = _time.time()
    while _time.time() - t0 < 5 and inv.status.value != "running":
        _time.sleep(0.002)
    _time.sleep(0.1)          # the child has been launched (queued) and the parent is waiting for it
    runner.stop_runner_loop()
    th.join(3 if ctx.quick else 8)
    ctx.count()
    if th.is_alive():
        ctx.report(f"stop-hangs-on-waiting-parent[{kind}]", f"[{kind}] run() does not return after the stop request: the parent's thread waits for a sub-task that nobody runs and _on_stop joins it "
                                                           f"(parent is {inv.status.value})", {"backend": kind})
        T.C11_RELEASE.set()      # let the stuck thread go so the process can exit


def run(ctx: Ctx) -> None:
    threading.excepthook = lambda a: None       # task bodies raise on purpose; keep stderr clean

    def gen() -> dict[str, str]:
        g = trs.gen()
        g.update(trp.gen(ctx.tmp))
        return g

    lean_stage(ctx, gen, THEOREMS)
    ctx.cov["rule"] = ("scheduled: (backend, body outcome, task thread not started / finished) x all schedules of the real _on_stop vs the real run up to a "
                       "pre-emption bound; real time: whole-runner rounds with the stop request at random moments; distinct = distinct schedules / end states")
    drv = LeanDriver()
    try:
        for kind in ("mem", "sqlite"):
            scheduled(ctx, kind, drv)
            poller_during_stop(ctx, kind)
            stale_entry_then_live(ctx, kind)
            ended_thread_not_final(ctx, kind)
            loop_iteration_corner_cases(ctx, kind)
            running_child_on_same_runner(ctx, kind)
            realtime(ctx, kind)
        waiting_parent(ctx, "mem")
        worker_signal_during_cleanup(ctx)
        main_thread_signals(ctx)
    finally:
        drv.close()
    ctx.assumptions += [
        "invocations of one runner are independent for this property (disjoint records, commuting queue pushes): the per-invocation model is the whole system",
        "persistent-process and multi-thread runners' OS-signal paths are outside the model; only the thread runner is exercised",
    ]
    if not ctx.quick:
        thorough_rebuild(ctx)


def replay(data: dict) -> int:
    from harness.common import replay_by_rerun

    return replay_by_rerun("C11", run, data)
