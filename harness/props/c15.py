"""C15 — arguments and results round-trip unchanged; call identity is canonical.

Lean: Props/C15.lean over Model/CallId.lean (compute_args_id pre-hash text, CallId/TaskId keys, signature
      binding), Model/CDS.lean (client data store) and Model/Json.lean (JSON envelopes); Gen/ReservedKeys.lean is
      regenerated from pynenc/serializer/constants.py here.
Tie:  differential of the real functions against the Lean driver:
      (i)   json.dumps(s, ensure_ascii=False) vs encStr; compute_args_id vs SHA-256 of the model's pre-hash bytes;
            TaskId/CallId key and from_key; Arguments.from_call vs bindArgs on generated signatures and calls
            (valid and invalid); spellings through real tasks; PreSerializedCall vs batchDict;
      (ii)  ClientDataStore.serialize/resolve/purge operation sequences (with mutation of the caller's objects) on the
            in-memory and the SQLite store, three serializers, thresholds placed at size-1/size/size+1, LRU capacities
            0..3, disable options;
      (iii) JsonSerializer: tree emitted, reconstruction of hand-made and adversarial envelopes, round trip, and the
            domain predicate `wf` (wf ⇒ the real round trip is the identity).
Search: the property's own statement evaluated on the implementation, independently of the model: full trip
      client → state backend → (second process) worker view for every serializer × store × threshold × disable
      option; results through set_result/get_result; identity across spellings and across pairs of dictionaries;
      content addressing; mutation after serialize; reserved-prefix strings; batch path vs direct call.
"""
from __future__ import annotations

import base64
import copy
import hashlib
import inspect
import itertools
import json
import pickle
import re
import traceback
from typing import Any

from harness import c15_gen as G
from harness import c15_types as CT
from harness import tasks as T
from harness.apps import make_app
from harness.common import Ctx, LeanDriver, lean_stage, thorough_rebuild, tok
from harness.translate import reserved as tr

THEOREMS = [
    "escape_injective", "parse_encStr", "preimage_parses", "enc_injective", "enc_perm_invariant", "utf8_injective",
    "no_args_distinct", "callId_eq_iff", "taskId_key_roundtrip", "callId_key_roundtrip",
    "callId_key_roundtrip_computed", "taskId_dotted_func_refutation", "taskSep_matches", "spellings_same_arguments",
    "spellings_same_identity", "batch_is_spelling", "batch_same_identity", "batch_override_fixed",
    "batch_identity_refutation_old", "batch_override_refutation_old", "external_iff",
    "serialize_routing", "store_invariant", "cds_roundtrip", "cds_roundtrip_history", "reference_content_addressed", "fresh_process_resolves", "fresh_process_resolves_after_foreign_purge", "fault_never_changes_representation",
    "reserved_prefix_refutation", "lru_alias_refutation", "reference_stable_refutation", "reference_stable_partial", "cache_size_zero_refutation", "json_roundtrip",
    "reserved_keys_distinct", "json_tuple_refutation", "json_reserved_key_refutation",
    "json_nested_special_refutation",
]

SERIALIZERS = ["JsonSerializer", "PickleSerializer", "JsonPickleSerializer"]
_APP_N = [0]


def mk(ctx: Ctx, kind: str, ser: str, app_id: str | None = None, **conf: Any):
    _APP_N[0] += 1
    return make_app(kind, ctx.tmp, app_id=app_id or f"c15x{_APP_N[0]}", serializer_cls=ser, **conf)


def untok(t: str) -> str | None:
    if t == "-":
        return None
    if t == "e":
        return ""
    return bytes.fromhex(t[1:]).decode("utf-8")


def pkl(v: Any) -> str:
    try:
        return base64.b64encode(pickle.dumps(v)).decode()
    except Exception:  # noqa: BLE001
        return ""


def unpkl(s: str) -> Any:
    return pickle.loads(base64.b64decode(s))


def diff(ctx: Ctx, name: str, lines: list[str], impl: list[str], outs: list[str], skip=lambda m: False) -> int:
    nd, first, nskip = 0, None, 0
    for ln, i, m in zip(lines, impl, outs):
        ctx.count()
        if skip(m):
            nskip += 1
            continue
        if i.strip() != m.strip():
            nd += 1
            first = first or (ln[:200], i[:200], m[:200])
    ctx.obligation(name, nd == 0, f"{nd} disagreements, first (op, impl, model) = {first}")
    if nskip:
        ctx.notes[f"unmodelled:{name[:40]}"] = nskip
    return nd


# ================================================================================================
# (i) identity
# ================================================================================================

def dict_pairs(rng, n: int) -> list[tuple[str, dict, dict]]:
    out: list[tuple[str, dict, dict]] = [
        ("adv", {"a": '1";"b"="2'}, {"a": "1", "b": "2"}),
        ("adv", {"a=b": "c"}, {"a": "b=c"}),
        ("adv", {"a": "1;b=2"}, {"a": "1", "b": "2"}),
        ("adv", {"a": "1", "b": "2"}, {"a": "1;b=2;"}),
        ("adv", {"a": "1;", "b": "2"}, {"a": "1", ";b": "2"}),
        ("adv", {'a"': "b"}, {"a": '"b'}),
        ("adv", {"a": "b;"}, {"a": "b", "": ""}),
        ("adv", {"a": "b", "c": "d"}, {"a": 'b";"c"="d'}),
        ("adv", {"a\\": "b"}, {"a": "\\b"}),
        ("adv", {"a": "\n"}, {"a": "\\n"}),
        ("adv", {"a": "\x01"}, {"a": "\\u0001"}),
        ("adv", {"é": "x"}, {"é": "x"}),
        ("adv", {"a": " "}, {"a": "\\u2028"}),
        ("adv", {"k": "\U0001f600"}, {"k": "\\ud83d\\ude00"}),
        ("adv", {"a": ""}, {"a": '""'}),
        ("adv", {"": "a"}, {"a": ""}),
        ("adv", {"ab": "c"}, {"a": "bc"}),
        ("adv", {"a": "1", "b": "2"}, {"b": "1", "a": "2"}),
        ("adv", {"no_args": ""}, {}),
        ("adv", {"a": "x" * 1200}, {"a": "x" * 1201}),
        ("equal", {}, {}),
    ]
    for _ in range(n):
        ks: list[str] = []
        while len(ks) < rng.randint(1, 4):
            k = G.gen_str(rng)
            if k not in ks:
                ks.append(k)
        d = {k: G.gen_str(rng) for k in ks}
        items = list(d.items())
        out.append(("equal", d, dict(items)))
        sh = items[:]
        rng.shuffle(sh)
        out.append(("permuted", d, dict(sh)))
        out.append(("permuted", d, dict(reversed(items))))
        k0 = rng.choice(ks)
        dv = dict(items)
        dv[k0] = dv[k0] + rng.choice(["x", ";", "=", '"', "\\", " "])
        out.append(("value-changed", d, dv))
        dk = {(k + rng.choice(["x", "=", ";", '"'])) if k == k0 else k: v for k, v in items}
        out.append(("key-changed", d, dk))
        dd = dict(items)
        dd.pop(k0)
        out.append(("dropped", d, dd))
        if len(items) >= 2:  # merge two entries into one value using the separators
            (k1, v1), (k2, v2) = items[0], items[1]
            merged = dict(items[2:])
            merged[k1] = v1 + '";' + json.dumps(k2, ensure_ascii=False) + "=" + json.dumps(v2, ensure_ascii=False)[:-1]
            out.append(("merged", d, merged))
            raw = dict(items[2:])
            raw[k1] = v1 + ";" + k2 + "=" + v2
            out.append(("merged-raw", d, raw))
    return out


def corr_identity(ctx: Ctx, drv: LeanDriver) -> None:
    from pynenc.call import compute_args_id
    from pynenc.identifiers.call_id import CallId
    from pynenc.identifiers.task_id import TaskId

    rng = ctx.rng
    # --- string escaping
    strs = list(G.STR_POOL) + [G.gen_str(rng, 12) for _ in range(800 if ctx.quick else 12000)]
    strs += [chr(c) for c in range(0, 0x30)] + [chr(0x7F), chr(0x80), chr(0xD7FF), chr(0xE000), chr(0xFFFF), chr(0x10000)]
    lines = [f"cid.esc {tok(s)}" for s in strs]
    impl = [tok(json.dumps(s, ensure_ascii=False)) for s in strs]
    diff(ctx, "correspondence (i.a): json.dumps(s, ensure_ascii=False) == encStr on generated strings", lines, impl, drv.ask_many(lines))
    for s in strs:
        ctx.distinct(("esc", s))

    # --- compute_args_id vs the model's pre-hash bytes; the property on pairs
    pairs = dict_pairs(rng, 300 if ctx.quick else 6000)
    lines, impl, meta = [], [], []
    for kind, d1, d2 in pairs:
        for d in (d1, d2):
            lines.append("cid.pre " + " ".join(f"{tok(k)} {tok(v)}" for k, v in d.items()))
            impl.append(compute_args_id(d))
            meta.append(d)
        i1, i2 = compute_args_id(d1), compute_args_id(d2)
        ctx.distinct(("pair", kind, json.dumps(sorted(d1.items())), json.dumps(sorted(d2.items()))))
        if (i1 == i2) != (d1 == d2):
            sig = "identity:order-or-copy-dependent" if d1 == d2 else f"identity:collision:{kind}"
            ctx.report(sig, f"compute_args_id gives {'different' if d1 == d2 else 'the same'} identity for "
                            f"{'equal' if d1 == d2 else 'different'} argument dictionaries {d1!r} / {d2!r}",
                       {"kind": "pair", "d1": list(d1.items()), "d2": list(d2.items())})
    outs = drv.ask_many(lines)
    model_ids = []
    for o in outs:
        if o == "noargs":
            model_ids.append("no_args")
        elif o.startswith("x"):
            model_ids.append(hashlib.sha256(bytes.fromhex(o[1:])).hexdigest())
        else:
            model_ids.append(o)
    diff(ctx, "correspondence (i.b): compute_args_id == SHA-256(utf-8(model pre-hash text)) on generated dictionaries", lines, impl, model_ids)
    # the model's text parses back to the sorted dictionary (self-delimiting encoding, executable check)
    plines = [f"cid.parse {o}" for o in outs if o.startswith("x")]
    pimpl = ["ok " + " ".join(f"{tok(k)} {tok(v)}" for k, v in sorted(d.items())) for d, o in zip(meta, outs) if o.startswith("x")]
    diff(ctx, "model check: the pre-hash text parses back to sorted(dictionary)", plines, pimpl, drv.ask_many(plines))
    ctx.sample({"op": lines[0][:120], "impl": impl[0], "model_sha256": model_ids[0]})

    # --- keys
    alpha = ["a", ".", ":"]
    keys = ["".join(p) for n in range(0, 6 if ctx.quick else 8) for p in itertools.product(alpha, repeat=n)]
    keys += [G.gen_str(rng) for _ in range(50)]
    lines, impl = [], []

    def call(f) -> str:
        try:
            return f()
        except ValueError:
            return "err valueerror"
        except Exception as e:  # noqa: BLE001
            return f"err {type(e).__name__}"

    for k in keys:
        lines.append(f"cid.tfrom {tok(k)}")
        impl.append(call(lambda: (lambda t: f"ok {tok(t.module)} {tok(t.func_name)}")(TaskId.from_key(k))))
        lines.append(f"cid.cfrom {tok(k)}")
        impl.append(call(lambda: (lambda c: f"ok {tok(c.task_id.module)} {tok(c.task_id.func_name)} {tok(c.args_id)}")(CallId.from_key(k))))
    parts = ["", "a", "m", "pkg.mod", "a.b.c", "f", "g.h", ":", "x:y", "no_args", "0" * 64] + [G.gen_str(rng) for _ in range(20)]
    for _ in range(200 if ctx.quick else 2000):
        m, f, a = rng.choice(parts), rng.choice(parts), rng.choice(parts)
        lines.append(f"cid.tkey {tok(m)} {tok(f)}")
        impl.append(tok(TaskId(m, f).key))
        lines.append(f"cid.ckey {tok(m)} {tok(f)} {tok(a)}")
        impl.append(tok(CallId(TaskId(m, f), a).key))
        # property: keys round-trip under the stated guards
        if m and f and "." not in f:
            if TaskId.from_key(TaskId(m, f).key) != TaskId(m, f):
                ctx.report("taskid-key-roundtrip", f"TaskId({m!r},{f!r}) does not round-trip through its key", {"kind": "tkey", "m": m, "f": f})
            if ":" not in a:
                c = CallId(TaskId(m, f), a)
                if CallId.from_key(c.key) != c:
                    ctx.report("callid-key-roundtrip", f"{c!r} does not round-trip through its key", {"kind": "ckey", "m": m, "f": f, "a": a})
    diff(ctx, "correspondence (i.c): TaskId/CallId key and from_key (all strings over {a . :} up to length 5, generated parts)", lines, impl, drv.ask_many(lines))
    ctx.notes["identity_pairs"] = len(pairs)


def mk_func(names: list[str], defaults: list[str | None]):
    src = "def f(" + ", ".join(n if d is None else f"{n}={d!r}" for n, d in zip(names, defaults)) + "):\n    pass\n"
    # every generated function is `f` of the SAME module (what a reloaded task module or a factory of task bodies produces): binding
    # goes by the function that is called, not by its qualified name
    ns: dict = {"__name__": "harness.generated_signatures"}
    exec(src, ns)  # noqa: S102 - generated signature, no user input
    return ns["f"]


def bind_line(names, defaults, pos, kw) -> str:
    return (f"cid.bind {len(names)} " + " ".join(f"{tok(n)} {tok(d)}" for n, d in zip(names, defaults))
            + f" {len(pos)} " + " ".join(tok(v) for v in pos) + f" {len(kw)} " + " ".join(f"{tok(k)} {tok(v)}" for k, v in kw.items())).replace("  ", " ")


def real_bind(func, pos, kw) -> str:
    from pynenc.arguments import Arguments

    try:
        a = Arguments.from_call(func, *pos, **kw)
    except TypeError:
        return "err typeerror"
    return ("ok " + " ".join(f"{tok(k)} {tok(v)}" for k, v in a.kwargs.items())).strip()


def spellings(names: list[str], defaults: list[str | None], vals: list[str], rng, cap: int):
    """all ways of writing the call that assigns `vals`: k positional, the rest by keyword in some order, parameters
    whose value is the default optionally omitted"""
    n = len(names)
    out = []
    for k in range(n + 1):
        rest = list(range(k, n))
        omittable = [i for i in rest if defaults[i] is not None and defaults[i] == vals[i]]
        for r in range(len(omittable) + 1):
            for om in itertools.combinations(omittable, r):
                kept = [i for i in rest if i not in om]
                orders = list(itertools.permutations(kept)) if len(kept) <= 3 else [tuple(kept), tuple(reversed(kept)), tuple(rng.sample(kept, len(kept)))]
                for order in orders:
                    out.append((vals[:k], {names[i]: vals[i] for i in order}))
    if len(out) > cap:
        out = rng.sample(out, cap)
    return out


def corr_bind(ctx: Ctx, drv: LeanDriver) -> None:
    from pynenc.call import Call
    from pynenc.arguments import Arguments

    rng = ctx.rng
    lines, impl = [], []
    nsig = 120 if ctx.quick else 1500
    for _ in range(nsig):
        n = rng.randint(0, 5)
        names: list[str] = []
        while len(names) < n:
            c = G.gen_ident(rng)
            if c not in names and c.isidentifier():
                names.append(c)
        nreq = rng.randint(0, n)
        defaults = [None] * nreq + [rng.choice(["d", "", "x", G.gen_str(rng)]) for _ in range(n - nreq)]
        f = mk_func(names, defaults)
        for _ in range(12):
            pos = [rng.choice(["p", "d", "", G.gen_str(rng)]) for _ in range(rng.choice([0, 0, 1, 2, n, n + 1]))]
            pool = names + [G.gen_ident(rng)]
            kw = {k: rng.choice(["k", "d", G.gen_str(rng)]) for k in rng.sample(pool, rng.randint(0, len(pool))) if k.isidentifier()}
            lines.append(bind_line(names, defaults, pos, kw))
            impl.append(real_bind(f, pos, kw))
            ctx.distinct(("bind", tuple(names), tuple(defaults), tuple(pos), tuple(kw.items())))
        # every spelling of one full assignment
        vals = [rng.choice([d, "v"]) if d is not None else rng.choice(["v", "w", G.gen_str(rng)]) for d in defaults]
        full = "ok " + " ".join(f"{tok(k)} {tok(v)}" for k, v in zip(names, vals))
        for pos, kw in spellings(names, defaults, vals, rng, 40):
            lines.append(bind_line(names, defaults, pos, kw))
            r = real_bind(f, pos, kw)
            impl.append(r)
            if r != full.strip():
                ctx.report("spelling:from_call", f"Arguments.from_call binds {pos!r} {kw!r} of f({names},{defaults}) to {r!r}, expected the assignment {vals!r}",
                           {"kind": "spelling-synth", "names": names, "defaults": defaults, "pos": pos, "kw": kw, "vals": vals})
    diff(ctx, f"correspondence (i.d): Arguments.from_call == bindArgs on {nsig} generated signatures (valid and invalid calls, all spellings)", lines, impl, drv.ask_many(lines))

    # --- spellings through real tasks: Task.__call__ -> call.arguments.kwargs / call.call_id (mem + sqlite)
    funcs = [T.keyed, T.c15_sig3, T.c15_sig5]
    lines, impl = [], []
    for kind in ("mem", "sqlite"):
      # second variant: a low externalisation threshold and the first parameter listed in disable_cache_args - the same call must
      # have the same identity (and the same serialized arguments) whichever path submits it
      for app, dis_first in ((mk(ctx, kind, rng.choice(SERIALIZERS)), False), (mk(ctx, kind, rng.choice(SERIALIZERS), min_size_to_cache=8), True)):
        for func in funcs:
            sig = inspect.signature(func)
            names = list(sig.parameters)
            task = app.task(func, disable_cache_args=(names[0],)) if dis_first else app.task(func)
            defaults = [None if p.default is inspect.Parameter.empty else p.default for p in sig.parameters.values()]
            for _ in range(5 if ctx.quick else 40):
                vals = [rng.choice([d, d, "v" + G.gen_str(rng)]) if d is not None else "r" + G.gen_str(rng) for d in defaults]
                full = dict(zip(names, vals))
                ref_id = None
                for pos, kw in spellings(names, defaults, vals, rng, 12 if kind == "sqlite" else 60):
                    inv = task(*pos, **kw)
                    got = dict(inv.call.arguments.kwargs)
                    cid = inv.call.call_id
                    ctx.count()
                    ctx.distinct(("spell", kind, func.__name__, tuple(vals), tuple(pos), tuple(kw.items())))
                    lines.append(bind_line(names, defaults, pos, kw))
                    impl.append("ok " + " ".join(f"{tok(k)} {tok(v)}" for k, v in inv.call.arguments.kwargs.items()))
                    rep = {"kind": "spelling", "task": func.__name__, "backend": kind, "pos": pos, "kw": kw, "vals": vals}
                    if got != full:
                        ctx.report(f"spelling:arguments:{func.__name__}", f"[{kind}] {func.__name__}(*{pos!r}, **{kw!r}) has arguments {got!r}, the call means {full!r}", rep)
                    ref_id = ref_id or cid
                    if cid != ref_id:
                        ctx.report(f"spelling:identity:{func.__name__}", f"[{kind}] {func.__name__}(*{pos!r}, **{kw!r}) has call id {cid.key}, another spelling of the same call has {ref_id.key}", rep)
                    try:
                        stored = app.state_backend.get_invocation(inv.invocation_id).call
                        if stored.call_id != cid or canon_kwargs(stored.arguments.kwargs) != canon_kwargs(full):
                            ctx.report(f"spelling:stored:{func.__name__}", f"[{kind}] stored call of {func.__name__}(*{pos!r}, **{kw!r}) differs: {stored.call_id.key} {stored.arguments.kwargs!r}", rep)
                    except Exception as e:  # noqa: BLE001
                        ctx.report(f"spelling:stored-raises:{type(e).__name__}", f"[{kind}] reading back the stored call of {func.__name__}(*{pos!r}, **{kw!r}) raises {type(e).__name__}: {e}", rep)
                # a different task with the same arguments must get a different identity
                other = app.task(T.ident)
                if Call(other, Arguments(full)).call_id == ref_id:
                    ctx.report("identity:task-ignored", "two different tasks with equal arguments share a call id", {"kind": "task-ignored"})
    diff(ctx, "correspondence (i.e): Task.__call__ -> call.arguments.kwargs == bindArgs for every spelling (real task signatures, mem and sqlite apps)", lines, impl, drv.ask_many(lines))

    # --- PreSerializedCall dictionary vs batchDict
    from pynenc.call import PreSerializedCall

    app = mk(ctx, "mem", "JsonSerializer", disable_client_data_store=True)
    task = app.task(T.c15_sig3)
    lines, impl = [], []
    for _ in range(100 if ctx.quick else 1500):
        keys = ["big", "idx", "opt", "zz"]
        common = {k: G.gen_str(rng) for k in rng.sample(keys, rng.randint(0, 3))}
        other = {k: G.gen_str(rng) for k in rng.sample(keys, rng.randint(0, 3))}
        cser = app.client_data_store.serialize_arguments(common, ())
        oser = app.client_data_store.serialize_arguments(other, ())
        psc = PreSerializedCall(task, common_args=common, common_serialized_args=cser, other_args=other)
        lines.append(f"cid.batch {len(cser)} " + " ".join(f"{tok(k)} {tok(v)}" for k, v in cser.items()) + f" {len(oser)} " + " ".join(f"{tok(k)} {tok(v)}" for k, v in oser.items()))
        lines[-1] = " ".join(lines[-1].split())
        impl.append(("ok " + " ".join(f"{tok(k)} {tok(v)}" for k, v in psc.serialized_arguments.items())).strip())
    diff(ctx, "correspondence (i.f): PreSerializedCall.serialized_arguments == batchDict ({**common, **per-call})", lines, impl, drv.ask_many(lines))

    # --- the whole batch path: task.parallelize([params, params], common_args=common) -> stored call arguments
    def sorted_pairs(out: str) -> str:
        t = out.split()
        if not t or t[0] != "ok":
            return out.strip()
        return "ok " + " ".join(f"{k} {v}" for k, v in sorted(zip(t[1::2], t[2::2])))

    def sval() -> str:
        # strings with the reserved prefix are the known finding `reserved-prefix-string` (covered by its own oracle)
        v = G.gen_str(rng)
        return "v" + v if v.startswith(G.PREFIX) else v

    lines, impl = [], []
    for kind in ("mem", "sqlite"):
      # second variant: low externalisation threshold, the first parameter in disable_cache_args, long values: the same call
      # must carry the same serialized arguments and identity whether it is submitted directly or through the batch path
      for app, dis_first in ((mk(ctx, kind, "JsonSerializer"), False), (mk(ctx, kind, "JsonSerializer", min_size_to_cache=8), True)):
        for func in funcs:
            sig = inspect.signature(func)
            names = list(sig.parameters)
            task = app.task(func, disable_cache_args=(names[0],)) if dis_first else app.task(func)
            defaults = [None if p.default is inspect.Parameter.empty else p.default for p in sig.parameters.values()]
            for _ in range(((6 if kind == "sqlite" else 25) if ctx.quick else (40 if kind == "sqlite" else 300)) // (2 if dis_first else 1)):
                pool = names + (["zz"] if rng.random() < 0.15 else [])
                common = {k: rng.choice(["C", "d", sval()] + (["L" * 24, "M" * 40] if dis_first else [])) for k in rng.sample(pool, rng.randint(0, min(3, len(pool))))}
                required = [n for n, d in zip(names, defaults) if d is None and n not in common]
                if rng.random() < 0.85:  # mostly valid calls
                    keys = required + [k for k in pool if k not in required and rng.random() < 0.4]
                else:
                    keys = rng.sample(pool, rng.randint(0, len(pool)))
                rng.shuffle(keys)
                params = {k: rng.choice(["P", "d", "e0", sval()]) for k in keys}
                lines.append(" ".join((f"cid.batchcall {len(names)} " + " ".join(f"{tok(n)} {tok(d)}" for n, d in zip(names, defaults))
                                       + f" {len(common)} " + " ".join(f"{tok(k)} {tok(v)}" for k, v in common.items())
                                       + f" {len(params)} " + " ".join(f"{tok(k)} {tok(v)}" for k, v in params.items())).split()))
                ctx.distinct(("batchcall", kind, func.__name__, tuple(common.items()), tuple(params.items())))
                try:
                    grp = task.parallelize([dict(params), dict(params)], common_args=dict(common))
                    invs = list(grp.invocations)
                    stored = app.state_backend.get_invocation(invs[0].invocation_id).call.arguments.kwargs
                    impl.append(sorted_pairs("ok " + " ".join(f"{tok(k)} {tok(v)}" for k, v in stored.items())))
                    # property: the batch call is the direct call
                    try:
                        direct = task(**{**common, **params})
                        if direct.call.call_id != invs[0].call.call_id:
                            ctx.report("batch-common-args-identity", f"[{kind}] {func.__name__}(**{{**{common!r}, **{params!r}}}) has call id {direct.call.call_id.key} but the same call through "
                                                                     f"parallelize(..., common_args=...) has {invs[0].call.call_id.key} (stored arguments {stored!r})",
                                       {"kind": "batch", "backend": kind, "task": func.__name__, "common": common, "params": params})
                    except TypeError:
                        pass
                except TypeError:
                    impl.append("err typeerror")
    outs = [sorted_pairs(o) for o in drv.ask_many(lines)]
    diff(ctx, "correspondence (i.g): task.parallelize(params, common_args) -> stored arguments == batchCall (bind, split, merge) on mem and sqlite apps", lines, impl, outs)


def canon_kwargs(d: dict) -> Any:
    return tuple(sorted((k, G.canon(v)) for k, v in d.items()))


# ================================================================================================
# (ii) client data store
# ================================================================================================

def cds_confs(ctx: Ctx, rng, lengths: list[int]) -> list[dict]:
    L = sorted(set(lengths))
    mid = L[len(L) // 2]
    hi = L[-1]
    confs = [
        dict(min_size_to_cache=mid, local_cache_size=2),
        dict(min_size_to_cache=mid + 1, local_cache_size=1),
        dict(min_size_to_cache=max(mid - 1, 0), max_size_to_cache=hi - 1, local_cache_size=3),
        dict(min_size_to_cache=0, max_size_to_cache=mid, local_cache_size=2),
        dict(min_size_to_cache=1, local_cache_size=1024),
        dict(min_size_to_cache=1, disable_client_data_store=True, local_cache_size=2),
        dict(min_size_to_cache=mid, local_cache_size=0),
    ]
    if not ctx.quick:
        for _ in range(6):
            a = rng.choice(L) + rng.choice([-1, 0, 1])
            b = rng.choice([0, rng.choice(L) + rng.choice([-1, 0, 1])])
            confs.append(dict(min_size_to_cache=max(a, 0), max_size_to_cache=max(b, 0), local_cache_size=rng.choice([1, 2, 3, 5])))
    return confs


def other_process(app):  # type: ignore[no-untyped-def]
    """a fresh app object with the configuration of `app` (same SQLite file, same app id): what another process sees"""
    from pynenc.app import Pynenc

    Pynenc._clear_instances()
    app2 = Pynenc(config_values=copy.deepcopy(app.config_values))
    Pynenc._clear_instances()
    return app2


def corr_cds(ctx: Ctx, drv: LeanDriver) -> None:
    rng = ctx.rng
    total_nd = 0
    nworlds = 0
    hist: dict[str, int] = {}
    for ser_name in SERIALIZERS:
        probe_app = mk(ctx, "mem", ser_name)
        ser = probe_app.serializer
        base_objs = []
        for _ in range(10):
            base_objs.append(G.sized_value(rng, ser.serialize, rng.choice([5, 20, 40, 60, 90])))
        base_objs += [{"k": [1, 2]}, "plain string", G.PREFIX + ":deadbeef", G.PREFIX, "x" * 70, 12345, None]
        lengths = [len(ser.serialize(o)) for o in base_objs]
        for conf in cds_confs(ctx, rng, lengths):
            for kind in ("mem", "sqlite"):
                nworlds += 1
                app = mk(ctx, kind, ser_name, **conf)
                cds = app.client_data_store
                objs = [copy.deepcopy(o) for o in base_objs]
                lines = [f"cds.new {1 if conf.get('disable_client_data_store') else 0} {conf.get('min_size_to_cache', 1024)} "
                         f"{conf.get('max_size_to_cache', 0)} {conf.get('local_cache_size', 1024)}"]
                impl = ["ok"]

                def announce(a: int) -> None:
                    s = ser.serialize(objs[a])
                    lines.append(f"cds.obj {a} {tok(s)} {tok(hashlib.sha256(s.encode()).hexdigest())} {tok(objs[a] if isinstance(objs[a], str) else None)}")
                    impl.append("ok")

                for a in range(len(objs)):
                    announce(a)
                datas: list[str] = [G.PREFIX + ":" + "0" * 64]
                nops = 120 if ctx.quick else 700
                forced: list[tuple[str, int]] = []  # directed continuation after a foreign purge
                last_ref: int | None = None
                for _ in range(nops):
                    r = rng.random()
                    directed = forced.pop(0) if forced else None
                    if directed:
                        r = 0.0 if directed[0] == "ser" else 0.99
                    if r < 0.45:
                        a = rng.randrange(len(objs))
                        dis = rng.random() < 0.2
                        if directed:
                            # re-serialise, unchanged, the value whose key this process still holds in its LRU
                            a, dis = directed[1], False
                        lines.append(f"cds.ser {a} {1 if dis else 0}")
                        try:
                            d = cds.serialize(objs[a], disable_cache=dis)
                            impl.append("ok " + tok(d))
                            datas.append(d)
                            op = "ser-ref" if d.startswith(G.PREFIX) else "ser-inline"
                            if op == "ser-ref":
                                last_ref = a
                        except KeyError:
                            impl.append("err keyerror")
                            op = "ser-keyerror"
                    elif r < 0.49:
                        # serialize while the backend write fails once (locked database, dropped connection)
                        import sqlite3 as _sq
                        a = rng.randrange(len(objs))
                        lines.append(f"cds.serf {a}")
                        real_store = cds._store
                        hit = {"n": 0}

                        def failing_store(key, value, real_store=real_store, hit=hit):  # type: ignore[no-untyped-def]
                            hit["n"] += 1
                            raise _sq.OperationalError("database is locked")

                        cds._store = failing_store  # type: ignore[method-assign]
                        try:
                            d = cds.serialize(objs[a])
                            impl.append("ok " + tok(d))
                            datas.append(d)
                            op = "serf-ok-after-failed-write" if hit["n"] else "serf-no-write"
                        except _sq.OperationalError:
                            impl.append("err storefault")
                            op = "serf-raises"
                        except KeyError:
                            impl.append("err keyerror")
                            op = "serf-keyerror"
                        finally:
                            del cds._store
                        if op == "serf-ok-after-failed-write":
                            # oracle: what comes back when the write failed must be what comes back when it does not
                            clean = cds.serialize(objs[a])
                            lines.append(f"cds.ser {a} 0")
                            impl.append("ok " + tok(clean))
                            datas.append(clean)
                            if clean != d:
                                ctx.report(f"representation-depends-on-storage-fault:{ser_name}",
                                           f"[{kind}/{ser_name}/{conf}] serialize() of the same value gives {d[:50]!r} while the backend write fails and {clean[:50]!r} when it works: the serialized "
                                           f"argument, and with it the call identity, depends on a transient storage fault",
                                           {"kind": "store-fault", "serializer": ser_name, "backend": kind, "conf": conf, "value": pkl(objs[a])})
                    elif r < 0.8:
                        d = rng.choice(datas)
                        lines.append(f"cds.res {tok(d)}")
                        try:
                            o = cds.resolve(d)
                            impl.append("ok " + tok(ser.serialize(o)))
                            op = "res-ok"
                        except KeyError:
                            impl.append("err keyerror")
                            op = "res-keyerror"
                        except Exception as e:  # noqa: BLE001
                            impl.append(f"err {type(e).__name__}")
                            op = "res-other"
                    elif r < 0.96:
                        cand = [i for i, o in enumerate(objs) if isinstance(o, (list, dict))]
                        a = rng.choice(cand)
                        if isinstance(objs[a], list):
                            objs[a].append(rng.choice(["m", "mm", 7]))
                        else:
                            objs[a]["m%d" % rng.randint(0, 3)] = rng.randint(0, 9)
                        announce(a)
                        op = "mutate"
                    elif r < 0.975 or kind != "sqlite":
                        lines.append("cds.purge")
                        cds.purge()
                        impl.append("ok")
                        op = "purge"
                    elif r < 0.985:
                        # another process (a second app object on the same database, its own empty LRU) purges the store
                        lines.append("cds.fpurge")
                        other_process(app).client_data_store.purge()
                        impl.append("ok")
                        op = "foreign-purge"
                        if last_ref is not None:
                            forced = [("ser", last_ref), ("fres", last_ref)]
                    else:
                        # a process that never saw the key resolves it from the shared backend
                        d = datas[-1] if directed or rng.random() < 0.7 else rng.choice(datas)
                        lines.append(f"cds.fres {tok(d)}")
                        try:
                            o = other_process(app).client_data_store.resolve(d)
                            impl.append("ok " + tok(ser.serialize(o)))
                            op = "fresh-res-ok"
                        except KeyError:
                            impl.append("err keyerror")
                            op = "fresh-res-keyerror"
                        except Exception as e:  # noqa: BLE001
                            impl.append(f"err {type(e).__name__}")
                            op = "fresh-res-other"
                    hist[op] = hist.get(op, 0) + 1
                    ctx.distinct(("cds", ser_name, kind, json.dumps(conf, sort_keys=True), lines[-1]))
                outs = drv.ask_many(lines)
                nd, first = 0, None
                for ln, i, m in zip(lines, impl, outs):
                    ctx.count()
                    if i != m:
                        nd += 1
                        first = first or (ln[:160], i[:120], m[:120])
                total_nd += nd
                if nd:
                    ctx.obligation(f"correspondence (ii) client data store [{ser_name}/{kind}/{conf}]", False, f"{nd} disagreements, first {first}")
        # serialize_arguments: which arguments stay inline
        lines, impl = [], []
        for _ in range(30):
            names = [G.gen_ident(rng) for _ in range(rng.randint(0, 3))] + (["*"] if rng.random() < 0.3 else [])
            key = rng.choice(names + [G.gen_ident(rng)]) if names else G.gen_ident(rng)
            app2 = mk(ctx, "mem", ser_name, min_size_to_cache=1)
            big = "y" * 50
            res = app2.client_data_store.serialize_arguments({key: big}, tuple(names))
            lines.append(f"cds.dis {tok(key)} " + " ".join(tok(n) for n in names))
            lines[-1] = lines[-1].strip()
            impl.append("false" if res[key].startswith(G.PREFIX) else "true")
        total_nd += diff(ctx, f"correspondence (ii.b): serialize_arguments disable_cache_args routing [{ser_name}]", lines, impl, drv.ask_many(lines))
    ctx.obligation(f"correspondence (ii): serialize/resolve/purge/mutation sequences == Model.CDS on {nworlds} (serializer, store, thresholds, capacity) worlds", total_nd == 0,
                   f"{total_nd} disagreements")
    ctx.notes["cds_ops"] = hist
    ctx.notes["cds_worlds"] = nworlds


# ================================================================================================
# (iii) json envelopes
# ================================================================================================

def adversarial_envelopes(rng, n: int) -> list[Any]:
    """JSON trees around the reserved keys: falsy / truthy non-dict / incomplete / consistent / unknown-class payloads"""
    E, C, J, N = G.RESERVED
    mod = CT.__name__
    out: list[Any] = []
    junk = [None, 0, "", [], {}, False, 5, "abc", [1], True, 1.5, {"x": 1}]
    for key in G.RESERVED:
        for p in junk:
            out.append({key: p})
            out.append({"a": 1, key: p})
    def exc_payload(cls, args):
        try:
            msg = str(cls(*args)) if isinstance(args, (list, str, dict)) else "m"
        except Exception:  # noqa: BLE001
            msg = "m"
        return msg
    for cls in CT.BUILTIN_EXCS:
        for args in ([], ["x"], ["x", 1], [[1, 2]], "ab", {"k": 1}, None, 7, [{"__pynenc__enum__": {"module": mod, "qualname": "Color", "value": 1}}]):
            out.append({E: {"type": cls.__name__, "args": args, "message": exc_payload(cls, args)}})
    out += [{E: {"type": "NoSuchErrorC15", "args": [1], "message": "boom"}}, {E: {"type": "NoSuchErrorC15", "args": None, "message": ""}},
            {E: {"type": "ValueError"}}, {E: {"args": []}}, {E: {"type": 5, "args": []}}, {E: {"type": None, "args": [], "message": "m"}},
            {E: {"type": "ValueError", "args": ["x"], "message": "x"}, C: {"module": mod, "qualname": "AppError", "args": [], "message": ""}}]
    for cls in CT.EXCS:
        for args in ([], ["x"], [1, "y"], "ab", {"k": 1}, None):
            out.append({C: {"module": cls.__module__, "qualname": cls.__qualname__, "args": args, "message": exc_payload(cls, args)}})
    out += [{C: {"module": "no_such_mod_c15", "qualname": "Q", "args": [], "message": "lost"}},
            {C: {"module": mod, "qualname": "Nope", "args": [1], "message": "lost2"}},
            {C: {"module": mod, "qualname": "AppError", "message": "no args key"}},
            {C: {"module": mod, "args": [], "message": "m"}}, {C: {"qualname": "AppError", "message": "m"}},
            {C: {"module": 5, "qualname": "AppError", "args": [], "message": "m"}}, {C: {"module": mod, "qualname": "AppError", "args": []}},
            {C: [1]}, {C: "str"}]
    for cls in CT.OBJS:
        for data in (None, 0, {"amount": 1}, [1, {N: {"module": mod, "qualname": "Color", "value": 1}}], "s"):
            out.append({J: {"module": cls.__module__, "qualname": cls.__qualname__, "data": data}})
    out += [{J: {"module": mod, "qualname": "Money"}}, {J: {"module": "no_such_mod_c15", "qualname": "Money", "data": 1}},
            {J: {"module": mod, "qualname": "Nope", "data": 1}}, {J: {"qualname": "Money", "data": 1}}, {J: [1, 2]}, {J: "x"}]
    for e in CT.ENUMS:
        for m in e:
            out.append({N: {"module": e.__module__, "qualname": e.__qualname__, "value": m.value}})
        for bad in ("zz", 99, [1], {"a": 1}):
            out.append({N: {"module": e.__module__, "qualname": e.__qualname__, "value": bad}})
        out.append({N: {"module": e.__module__, "qualname": e.__qualname__}})
    out += [{N: {"module": "no_such_mod_c15", "qualname": "Color", "value": 1}}, {N: {"module": mod, "qualname": "Nope", "value": 1}},
            {N: {"qualname": "Color", "value": 1}}, {N: 3}, {N: "Color"}]
    # nested and random
    base = out[:]
    for _ in range(n):
        t = rng.choice(base)
        r = rng.random()
        if r < 0.3:
            out.append([t, G.gen_plain(rng, 1)])
        elif r < 0.6:
            out.append({"outer": t, G.gen_key(rng): G.gen_plain(rng, 1)})
        else:
            out.append({"l": [rng.choice(base), {"d": rng.choice(base)}]})
    return out


_MSG = re.compile(r"X(S[^;]*;)(S[^;]*;)S[^;]*;")


def blank_msgs(token: str) -> str:
    return _MSG.sub(r"X\1\2Se;", token)


def corr_json(ctx: Ctx, drv: LeanDriver) -> None:
    from pynenc.serializer.json_serializer import JsonSerializer, _reconstruct_from_json

    rng = ctx.rng
    reg = G.registry_lines()
    drv.ask_many(reg)
    nvals = 800 if ctx.quick else 15000
    vals = [G.gen_wf(rng, 3) for _ in range(nvals)] + [G.gen_any(rng, 3) for _ in range(nvals)]
    vals += [(1, 2), {G.RESERVED[0]: {"type": "ValueError", "args": [], "message": ""}}, ValueError(CT.Color.RED), CT.Money(CT.Color.RED),
             CT.Money((1, 2)), [CT.Level.HIGH, CT.Tag.Q], ValueError(CT.Level.HIGH), {"a": CT.Outer.Inner.Y}, CT.Outer3.Box({"q": [1.5, None]})]
    lines_enc, impl_enc, lines_rt, impl_rt, lines_wf, real_same = [], [], [], [], [], []
    ntext = 0
    for v in vals:
        try:
            t = G.to_tree(v)
        except (G.Unrepresentable, UnicodeEncodeError):
            continue
        try:
            s = JsonSerializer.serialize(v)
        except Exception as e:  # noqa: BLE001
            ctx.notes.setdefault("json_serialize_errors", []).append(type(e).__name__)
            continue
        loaded = json.loads(s)
        # text layer assumption: json.loads(json.dumps(tree)) == tree (bitwise floats, key order)
        if G.to_tree(json.loads(json.dumps(loaded))) != G.to_tree(loaded):
            ntext += 1
        lines_enc.append(f"json.enc {t}")
        impl_enc.append(G.to_tree(loaded))
        try:
            back = JsonSerializer.deserialize(s)
            rt = "ok " + G.to_tree(back)
            same = G.canon(back) == G.canon(v)
        except G.Unrepresentable:
            rt, same = "unrepresentable", False
        except Exception:  # noqa: BLE001
            rt, same = "err raises", False
        lines_rt.append(f"json.rt {t}")
        impl_rt.append(rt)
        lines_wf.append(f"json.wf {t}")
        real_same.append((same, v, rt))
        ctx.distinct(("json", t))
    diff(ctx, "correspondence (iii.a): json.loads(JsonSerializer.serialize(v)) == encode v (tree emitted, values inside and outside the domain)", lines_enc, impl_enc, drv.ask_many(lines_enc))
    wf = drv.ask_many(lines_wf)
    # outside the domain the arguments of a rebuilt exception change, and with them str(e), which the model does not
    # compute: there the message is not compared
    outs_rt = drv.ask_many(lines_rt)
    impl_rt = [i if w == "true" else blank_msgs(i) for i, w in zip(impl_rt, wf)]
    outs_rt = [m if w == "true" else blank_msgs(m) for m, w in zip(outs_rt, wf)]
    diff(ctx, "correspondence (iii.b): JsonSerializer.deserialize(serialize(v)) == roundtrip v", lines_rt, impl_rt, outs_rt, skip=lambda m: m == "unmodelled")
    nwf = sum(1 for w in wf if w == "true")
    bad = [(v, rt) for w, (same, v, rt) in zip(wf, real_same) if w == "true" and not same]
    ctx.obligation(f"theorem json_roundtrip predicts the implementation: every generated value with wf = true ({nwf}) round-trips through the real serializer", not bad,
                   f"{len(bad)} wf values do not round-trip, first {bad[:1]!r}")
    for v, rt in bad[:3]:
        ctx.report("json:roundtrip-in-domain", f"JsonSerializer does not round-trip {v!r} (a value of its stated domain): got {rt[:120]}", {"kind": "json", "value": pkl(v)})
    ctx.obligation("assumption check: json.loads(json.dumps(t)) == t on every JSON tree produced (text layer)", ntext == 0, f"{ntext} trees changed")
    ctx.notes["json_values"] = len(lines_enc)
    ctx.notes["json_wf_true"] = nwf
    # reconstruction of hand-made / adversarial envelopes
    trees = adversarial_envelopes(rng, 500 if ctx.quick else 8000)
    lines, impl = [], []
    for t in trees:
        try:
            tt = G.to_tree(t)
        except G.Unrepresentable:
            continue
        lines.append(f"json.recon {tt}")
        try:
            impl.append("ok " + G.to_tree(_reconstruct_from_json(copy.deepcopy(t))))
        except G.Unrepresentable:
            impl.append("unrepresentable")
        except Exception:  # noqa: BLE001
            impl.append("err raises")
        ctx.distinct(("recon", tt))
    outs = drv.ask_many(lines)
    diff(ctx, "correspondence (iii.c): _reconstruct_from_json == recon on hand-made and adversarial envelopes", lines, impl, outs, skip=lambda m: m == "unmodelled")
    ctx.notes["recon_outcomes"] = {k: sum(1 for o in outs if o.startswith(k)) for k in ("ok", "err", "unmodelled")}
    ctx.sample({"op": lines_rt[3][:100], "impl": impl_rt[3][:100]})


# ================================================================================================
# property oracles on the implementation (independent of the model)
# ================================================================================================

def trip_confs(ser: str, lengths: list[int]) -> list[tuple[dict, dict]]:
    """(app configuration, task options)"""
    L = sorted(lengths)
    mid = L[len(L) // 2]
    return [
        ({"min_size_to_cache": mid, "local_cache_size": 2}, {}),
        ({"min_size_to_cache": 0, "local_cache_size": 1}, {}),
        ({"min_size_to_cache": mid, "max_size_to_cache": L[-2] if len(L) > 1 else 0}, {}),
        ({}, {}),
        ({"min_size_to_cache": 1, "disable_client_data_store": True}, {}),
        ({"min_size_to_cache": 1}, {"disable_cache_args": ("*",)}),
        ({"min_size_to_cache": 1}, {"disable_cache_args": ("x",)}),
    ]


def oracle_trip(ctx: Ctx) -> None:
    from pynenc.app import Pynenc

    rng = ctx.rng
    ntrip = 0
    routes: dict[str, int] = {}
    for ser_name in SERIALIZERS:
        gen = G.DOMAIN[ser_name]
        nvals = 60 if ctx.quick else 350
        values = [gen(rng, 3) for _ in range(nvals)]
        probe = mk(ctx, "mem", ser_name)
        values += [G.sized_value(rng, probe.serializer.serialize, n) for n in (30, 31, 32, 200, 1023, 1024, 1025, 3000)]
        values += ["", "x" * 2000, [], {}, 0, None, "café \U0001f600", [CT.Color.RED, CT.Level.HIGH, CT.Tag.A], CT.Sev.ERROR, {"k": [CT.Slot.TWO, CT.Weight.HEAVY]}, CT.Perm.R, [CT.Perm.R | CT.Perm.W], ValueError("boom", 1),
                   CT.AppError("a"), CT.Money({"amount": 1.5}), G.PREFIX[:-1], "_" + G.PREFIX,
                   # text Python itself hands out (PEP 383: os.fsdecode(b"caf\xe9.txt")): lone surrogates, bare, nested, as a key, externalised
                   "caf\udce9.txt", ["\ud800", {"k\udfff": "v\udc80"}], "\udce9" * 700, {"names": ["a\udcff" * 300, "b"]}]
        lengths = []
        for v in values:
            try:
                lengths.append(len(probe.serializer.serialize(v)))
            except Exception:  # noqa: BLE001
                lengths.append(0)
        for conf, topts in trip_confs(ser_name, lengths):
            for kind in ("mem", "sqlite"):
                app = mk(ctx, kind, ser_name, **conf)
                app_id = app.app_id
                task = app.task(T.ident, **topts)
                sent = []
                use = values if kind == "mem" else values[:: 2]  # SQLite commits dominate the wall time
                for v in use:
                    snap = G.canon(v)
                    rep = {"kind": "trip", "serializer": ser_name, "backend": kind, "conf": conf, "task_options": {k: list(x) for k, x in topts.items()}, "value": pkl(v), "value_repr": repr(v)[:200],
                           "prefix": isinstance(v, str) and v.startswith(G.PREFIX)}
                    try:
                        inv = task(copy.deepcopy(v))
                    except Exception as e:  # noqa: BLE001
                        ctx.report(sig_for(v, f"trip:call-raises:{ser_name}:{type(e).__name__}"), f"[{kind}/{ser_name}/{conf}] calling ident({v!r:.120}) raises {type(e).__name__}: {e}", rep)
                        continue
                    ref = inv.call.serialized_arguments["x"].startswith(G.PREFIX)
                    routes["external" if ref else "inline"] = routes.get("external" if ref else "inline", 0) + 1
                    sent.append((inv.invocation_id, snap, rep, inv.call.call_id))
                    ntrip += 1
                    ctx.count()
                    ctx.distinct(("trip", ser_name, kind, json.dumps(conf, sort_keys=True), json.dumps(topts), repr(snap)))
                    # same process (cache hit path)
                    check_trip(ctx, app, inv.invocation_id, snap, rep, inv.call.call_id, "same-process")
                    # result channel
                    try:
                        app.state_backend.set_result(inv.invocation_id, copy.deepcopy(v))
                        got = app.state_backend.get_result(inv.invocation_id)
                        if G.canon(got) != snap:
                            ctx.report(sig_for(v, f"trip:result:{ser_name}"), f"[{kind}/{ser_name}/{conf}] result {v!r:.120} comes back as {got!r:.120}", rep)
                    except Exception as e:  # noqa: BLE001
                        ctx.report(sig_for(v, f"trip:result-raises:{ser_name}:{type(e).__name__}"), f"[{kind}/{ser_name}/{conf}] storing/reading the result {v!r:.120} raises {type(e).__name__}: {e}", rep)
                if kind == "sqlite":
                    # a second process: fresh app object on the same database, empty caches
                    Pynenc._clear_instances()
                    app2 = make_app("sqlite", ctx.tmp, app_id=app_id, serializer_cls=ser_name, **conf)
                    app2.task(T.ident, **topts)
                    for inv_id, snap, rep, cid in sent:
                        check_trip(ctx, app2, inv_id, snap, rep, cid, "second-process")
                        try:
                            got = app2.state_backend.get_result(inv_id)
                            if G.canon(got) != snap:
                                ctx.report("reserved-prefix-string" if rep["prefix"] else f"trip:result:{ser_name}", f"[second process/{ser_name}/{conf}] result comes back as {got!r:.120}", rep)
                        except Exception as e:  # noqa: BLE001
                            ctx.report("reserved-prefix-string" if rep["prefix"] else f"trip:result-raises:{ser_name}:{type(e).__name__}", f"[second process] reading the result raises {type(e).__name__}: {e}", rep)
    ctx.notes["trips"] = ntrip
    ctx.notes["trip_routes"] = routes


def sig_for(v: Any, default: str) -> str:
    """one stable signature for the reserved-prefix class, whatever channel shows it"""
    return "reserved-prefix-string" if isinstance(v, str) and v.startswith(G.PREFIX) else default


def check_trip(ctx: Ctx, app, inv_id: str, snap, rep: dict, cid, where: str) -> None:
    try:
        call = app.state_backend.get_invocation(inv_id).call
        got = call.arguments.kwargs["x"]
    except Exception as e:  # noqa: BLE001
        ctx.report("reserved-prefix-string" if rep.get("prefix") else f"trip:worker-raises:{rep['serializer']}:{type(e).__name__}", f"[{where}/{rep['backend']}/{rep['serializer']}/{rep['conf']}] reading back the argument {rep['value_repr']} raises {type(e).__name__}: {e}", rep)
        return
    if G.canon(got) != snap:
        ctx.report("reserved-prefix-string" if rep.get("prefix") else f"trip:argument:{rep['serializer']}", f"[{where}/{rep['backend']}/{rep['serializer']}/{rep['conf']}] argument {rep['value_repr']} arrives as {got!r:.160}", rep)
    if call.call_id != cid:
        ctx.report("trip:identity-changed", f"[{where}] stored call has id {call.call_id.key}, the client computed {cid.key}", rep)


def oracle_graphs(ctx: Ctx) -> None:
    """values that are not trees: a child that knows its parent, a list that contains itself, one object reachable twice.  The
    pickle-based serializers support them; what arrives must have the same SHAPE (who points at whom), as argument and as result,
    inline and externalised, read by another process"""
    def build() -> dict[str, Any]:
        root = CT.Node("root")
        kid = CT.Node("kid", root)
        CT.Node("leaf", kid)
        ring: list = ["head"]
        ring.append(ring)
        shared = ["s"]
        settings, meta = {"mode": "fast"}, {"who": "me"}
        # (keys NOT in alphabetical order, one sub-object reachable from several places: reference numbering follows the traversal)
        table = {"settings": settings, "meta": meta, "rows": [{"id": 1, "settings": settings}, {"id": 2, "settings": settings}], "again": meta}
        return {"tree": root, "ring": ring, "twice": [shared, shared, {"again": shared}], "table": table}

    def shape(name: str, v: Any) -> str:
        try:
            if name == "tree":
                k = v.children[0]
                return f"{type(v).__name__}:{v.name}/{k.name}/{k.children[0].name} parent-is-root={k.parent is v} grandparent={k.children[0].parent.parent is v}"
            if name == "ring":
                return f"len={len(v)} head={v[0]!r} self={v[1] is v}"
            if name == "table":
                return (f"keys={sorted(v)} settings={v['settings']} meta={v['meta']} rows={[(r['id'], r['settings']) for r in v['rows']]} again={v['again']} "
                        f"shared={v['rows'][0]['settings'] is v['settings'] and v['again'] is v['meta']}")
            return f"same={v[0] is v[1] and v[2]['again'] is v[0]} content={v[0]!r}"
        except BaseException as e:  # noqa: BLE001
            return f"broken ({type(e).__name__}: {str(e)[:60]}) {str(type(v))}"

    want = {n: shape(n, v) for n, v in build().items()}
    for ser_name in ("JsonPickleSerializer", "PickleSerializer"):
        for kind in ("mem", "sqlite"):
            for thr in (1, 100000):
                app = mk(ctx, kind, ser_name, min_size_to_cache=thr)
                task = app.task(T.ident)
                for name, v in build().items():
                    rep = {"kind": "graph", "serializer": ser_name, "backend": kind, "threshold": thr, "value": name}
                    ctx.count()
                    ctx.distinct(("graph", ser_name, kind, thr, name))
                    got: dict[str, str] = {}
                    try:
                        inv = task(v)
                        app.state_backend.set_result(inv.invocation_id, build()[name])
                        reader = other_process(app) if kind == "sqlite" else app
                        if kind == "mem":
                            app.client_data_store._deserialized_cache.clear()
                        reader.task(T.ident)
                        got["argument"] = shape(name, reader.state_backend.get_invocation(inv.invocation_id).call.arguments.kwargs["x"])
                        got["result"] = shape(name, reader.state_backend.get_result(inv.invocation_id))
                    except BaseException as e:  # noqa: BLE001
                        got["error"] = f"{type(e).__name__}: {str(e)[:100]}"
                    bad = {k: g for k, g in got.items() if g != want[name]}
                    if bad:
                        ctx.report(f"trip:graph-shape:{ser_name}:{name}", f"[{kind}/{ser_name}/threshold {thr}] the value `{name}` ({want[name]}) comes back as {bad}", rep)


def oracle_local_copies(ctx: Ctx) -> None:
    """what the process-local cache of the client data store may and may not do:
    (a) an INLINE value (below the threshold, or opted out) resolved twice gives two independent objects - a consumer that edits
        its argument in place must not change what the next equal call receives;
    (b) after a consumer edited a resolved large value in place, serializing the ORIGINAL content again and resolving the reference
        gives the original content;
    (c) a deeply nested value (40 levels) arrives whole, for every serializer."""
    deep: Any = {"label": 0, "next": None}
    for k in range(1, 40):
        deep = {"label": k, "next": deep}

    def depth(v: Any) -> int:
        n = 0
        while isinstance(v, dict) and "next" in v:
            n += 1
            v = v["next"]
        return n

    for ser_name in SERIALIZERS:
        for kind in ("mem", "sqlite"):
            app = mk(ctx, kind, ser_name, min_size_to_cache=1024, local_cache_size=8)
            cds = app.client_data_store
            rep = {"kind": "local-copies", "serializer": ser_name, "backend": kind}
            # (a) inline, 300-900 characters
            for n in (60, 150):
                v = list(range(n))
                data = cds.serialize(v)
                ctx.count()
                ctx.distinct(("inline-twice", ser_name, kind, n))
                if cds.is_reference(data):
                    continue
                first = cds.resolve(data)
                first.reverse()
                second = cds.resolve(data)
                if second != list(range(n)):
                    ctx.report(f"inline-value-shared-between-resolves:{ser_name}", f"[{kind}/{ser_name}] an inline value ({len(data)} characters) was resolved, reversed in place by its consumer and resolved again: "
                                                                                   f"the second consumer receives {second[:4]}… instead of {list(range(4))}…", rep)
            # (b) large value edited in place, then the original content again
            big = list(range(400))
            ref = cds.serialize(list(big))
            if cds.is_reference(ref):
                cds._deserialized_cache.clear()
                got = cds.resolve(ref)
                got.reverse()
                ref2 = cds.serialize(list(big))
                again = cds.resolve(ref2)
                ctx.count()
                ctx.distinct(("edited-then-original", ser_name, kind))
                if ref2 != ref or again != big:
                    ctx.report(f"edited-copy-outlives-fresh-content:{ser_name}", f"[{kind}/{ser_name}] a large value was resolved and reversed in place by its consumer; the original content was then "
                                                                                 f"serialized again (same reference: {ref2 == ref}) and resolved: {again[:3]}… instead of {big[:3]}…", rep)
            # (d) content addressing over the WHOLE content: values of ~70 and ~200 thousand characters that differ only in their last
            #     characters (a series with different last samples, a log a few entries longer) get different references, each its own content
            if kind == "mem" or ser_name == "JsonSerializer":
                for size in (70_000, 200_003, 3_100_000):
                    if size > 1_000_000:
                        if ser_name != "JsonSerializer" or kind != "mem":
                            continue
                        # several MiB, equal length, equal beginning and end: the difference sits in the MIDDLE
                        half = size // 2
                        va, vb = "s" * half + "-mid-A" + "t" * half, "s" * half + "-mid-B" + "t" * half
                    else:
                        va, vb = "s" * size + "-tail-A", "s" * size + "-tail-B"
                    ra, rb = cds.serialize(va), cds.serialize(vb)
                    cds._deserialized_cache.clear()
                    ga, gb = cds.resolve(ra), cds.resolve(rb)
                    ctx.count()
                    ctx.distinct(("tail-differs", ser_name, kind, size))
                    if ra == rb or ga != va or gb != vb:
                        ctx.report(f"different-content-same-reference:{ser_name}", f"[{kind}/{ser_name}] two values of {size + 7} characters that differ in {'their last character' if size < 1_000_000 else 'one character in the middle'} only: references "
                                                                                   f"{'EQUAL' if ra == rb else 'differ'}; the first resolves to …{str(ga)[-8:]!r}, the second to …{str(gb)[-8:]!r}", rep)
            # (c) 40 levels of nesting through arguments and results
            task = app.task(T.ident)
            try:
                inv = task(deep)
                app.state_backend.set_result(inv.invocation_id, deep)
                reader = other_process(app) if kind == "sqlite" else app
                if kind == "mem":
                    cds._deserialized_cache.clear()
                reader.task(T.ident)
                d_arg = depth(reader.state_backend.get_invocation(inv.invocation_id).call.arguments.kwargs["x"])
                d_res = depth(reader.state_backend.get_result(inv.invocation_id))
            except BaseException as e:  # noqa: BLE001
                d_arg = d_res = f"{type(e).__name__}: {str(e)[:80]}"  # type: ignore[assignment]
            ctx.count()
            ctx.distinct(("deep-value", ser_name, kind))
            if (d_arg, d_res) != (40, 40):
                ctx.report(f"trip:deep-value:{ser_name}", f"[{kind}/{ser_name}] a value nested 40 levels deep arrives with depth {d_arg} as argument and {d_res} as result", rep)


def oracle_same_content_two_writers(ctx: Ctx) -> None:
    """two workers externalise EQUAL content at the same time on one SQLite file (two results of the same large value).  The store talks
    to sqlite3 directly, so the interleaving is forced there: both writers meet right before their first writing statement (whatever
    each has read before is then stale).  Neither may fail, both get the same reference, the content is there."""
    import importlib
    import sqlite3 as real_sqlite3
    import threading

    mod = importlib.import_module("pynenc.client_data_store.sqlite_client_data_store")
    n = 0
    for ser_name in ("JsonSerializer", "PickleSerializer"):
        apps = [mk(ctx, "sqlite", ser_name, min_size_to_cache=64)]
        apps.append(other_process(apps[0]))
        for a in apps:
            _ = a.client_data_store, a.state_backend
        for rnd in range(3 if ctx.quick else 12):
            barrier = threading.Barrier(2)

            class MeetBeforeWrite(real_sqlite3.Connection):
                def execute(self, sql, *a):  # type: ignore[no-untyped-def]
                    if sql.lstrip().upper().startswith(("INSERT", "UPDATE", "REPLACE", "DELETE")):
                        try:
                            barrier.wait(0.5)
                        except threading.BrokenBarrierError:
                            pass
                    return super().execute(sql, *a)

            class Shim:
                def connect(self, *a, **k):  # type: ignore[no-untyped-def]
                    k.setdefault("factory", MeetBeforeWrite)
                    return real_sqlite3.connect(*a, **k)

                def __getattr__(self, name):  # type: ignore[no-untyped-def]
                    return getattr(real_sqlite3, name)

            payload = {"round": f"{ser_name}-{rnd}-{ctx.rng.randrange(10**9)}", "rows": ["r" * 30] * 10}
            out: dict = {}

            def body(k: int):
                def f() -> None:
                    try:
                        out[k] = apps[k].client_data_store.serialize(payload)
                    except BaseException as e:  # noqa: BLE001
                        out[k] = f"raised {type(e).__name__}: {str(e)[:80]}"
                return f

            saved = mod.sqlite3
            mod.sqlite3 = Shim()
            try:
                ths = [threading.Thread(target=body(k)) for k in (0, 1)]
                for t in ths:
                    t.start()
                for t in ths:
                    t.join(20)
            finally:
                mod.sqlite3 = saved
            n += 1
            ctx.count()
            ctx.distinct(("same-content-two-writers", ser_name, rnd))
            ok = out.get(0) == out.get(1) and isinstance(out.get(0), str) and not str(out.get(0)).startswith("raised")
            if ok:
                ok = other_process(apps[0]).client_data_store.resolve(out[0]) == payload
            if not ok:
                ctx.report("same-content-two-writers:sqlite", f"[sqlite/{ser_name}] two workers externalise equal content at the same time (each reaches its first writing statement before "
                                                              f"the other has written): {out}", {"kind": "two-writers", "serializer": ser_name})
                break
    ctx.notes["same_content_two_writer_rounds"] = n


def _has_attr(p: tuple[str, str]) -> bool:
    import importlib

    try:
        return hasattr(importlib.import_module(p[0]), p[1])
    except Exception:  # noqa: BLE001
        return False


def oracle_known_classes(ctx: Ctx) -> None:
    """reserved-prefix strings, aliasing of the caller's object, content addressing, batch path"""
    from pynenc.app import Pynenc

    rng = ctx.rng
    for ser_name in SERIALIZERS:
        for kind in ("mem", "sqlite"):
            app = mk(ctx, kind, ser_name, min_size_to_cache=40, local_cache_size=8)
            cds = app.client_data_store
            ser = app.serializer
            task = app.task(T.ident)
            # --- (1) strings that begin with the reserved prefix, as argument, as result, directly
            for s in [G.PREFIX + ":x", G.PREFIX, G.PREFIX + ":" + "0" * 64, G.PREFIX + " tail é"]:
                rep = {"kind": "prefix", "serializer": ser_name, "backend": kind, "value": s}
                ctx.count()
                ctx.distinct(("prefix", ser_name, kind, s))
                try:
                    back = cds.resolve(cds.serialize(s))
                    ok = back == s
                    how = f"comes back as {back!r}"
                except Exception as e:  # noqa: BLE001
                    ok, how = False, f"resolve raises {type(e).__name__}: {e}"
                if not ok:
                    ctx.report("reserved-prefix-string", f"[{kind}/{ser_name}] the string {s!r} does not survive serialize/resolve: {how} (taken for a client-data reference)", rep)
                try:
                    inv = task(s)
                    got = app.state_backend.get_invocation(inv.invocation_id).call.arguments.kwargs["x"]
                    if got != s:
                        ctx.report("reserved-prefix-string", f"[{kind}/{ser_name}] argument {s!r} arrives as {got!r}", rep)
                except Exception as e:  # noqa: BLE001
                    ctx.report("reserved-prefix-string", f"[{kind}/{ser_name}] argument {s!r}: {type(e).__name__}: {e}", rep)
            # --- (2) content addressing + the reference resolves to the content it was created from
            for _ in range(6 if ctx.quick else 60):
                v1 = G.sized_value(rng, ser.serialize, rng.choice([60, 200]))
                v2 = copy.deepcopy(v1)
                v3 = v1 + ["other"]
                r1, r2, r3 = cds.serialize(v1), cds.serialize(v2), cds.serialize(v3)
                rep = {"kind": "content", "serializer": ser_name, "backend": kind, "value": pkl(v1)}
                ctx.count()
                ctx.distinct(("content", ser_name, kind, repr(v1)))
                if not (r1.startswith(G.PREFIX) and r3.startswith(G.PREFIX)):
                    continue
                if r1 != r2:
                    ctx.report("content-address:equal-content-different-reference", f"[{kind}/{ser_name}] equal contents get references {r1} / {r2}", rep)
                if r1 == r3:
                    ctx.report("content-address:different-content-same-reference", f"[{kind}/{ser_name}] different contents share the reference {r1}", rep)
                created_from = G.canon(v1)
                # (a) the caller mutates its object after serialize; in-process resolve
                w = G.sized_value(rng, ser.serialize, rng.choice([60, 200])) + ["w"]
                w_from = G.canon(w)
                rw = cds.serialize(w)
                w.append("mutated-after-serialize")
                got = cds.resolve(rw)
                if G.canon(got) != w_from:
                    ctx.report("lru-alias-mutation", f"[{kind}/{ser_name}] a reference created from a {len(w) - 1}-element list resolves, in the same process, to the caller's "
                                                     f"object as mutated afterwards ({len(got)} elements): the local cache holds the caller's object, not its content", rep)
                # (b) two consumers of one reference in one process (e.g. two invocations on a thread runner)
                v3_from = G.canon(v3)
                first = cds.resolve(r3)
                first.append("mutated-by-consumer")
                second = cds.resolve(r3)
                if G.canon(second) != v3_from:
                    ctx.report("lru-shared-object", f"[{kind}/{ser_name}] two resolves of one reference hand out one shared mutable object: a consumer that mutates its "
                                                    f"argument changes what the next resolve of the same reference returns ({len(second)} elements instead of {len(v3_from[1])})", rep)
            # through a call: mutate the argument after calling, read the invocation back in-process
            big = G.sized_value(rng, ser.serialize, 300)
            snap = G.canon(big)
            inv = task(big)
            big.append("late")
            got = app.state_backend.get_invocation(inv.invocation_id).call.arguments.kwargs["x"]
            if G.canon(got) != snap:
                ctx.report("lru-alias-mutation", f"[{kind}/{ser_name}] ident(big) then big.append(...): the stored invocation's argument, read in the client process, has {len(got)} elements instead of {len(big) - 1}",
                           {"kind": "alias-call", "serializer": ser_name, "backend": kind})
    # --- (3) batch path vs direct call
    for kind in ("mem", "sqlite"):
        app = mk(ctx, kind, "JsonSerializer", min_size_to_cache=1024)
        task = app.task(T.c15_sig3)
        direct = [task("B", str(i)) for i in range(3)]
        grp = task.parallelize([{"idx": str(i)} for i in range(3)], common_args={"big": "B"})
        batch = list(grp.invocations)
        rep = {"kind": "batch", "backend": kind}
        ctx.count()
        ctx.distinct(("batch", kind))
        d_ids = sorted(i.call.call_id.key for i in direct)
        b_ids = sorted(i.call.call_id.key for i in batch)
        if d_ids != b_ids:
            b_args = app.state_backend.get_invocation(batch[0].invocation_id).call.arguments.kwargs
            d_args = app.state_backend.get_invocation(direct[0].invocation_id).call.arguments.kwargs
            ctx.report("batch-common-args-identity", f"[{kind}] c15_sig3('B', i) and c15_sig3.parallelize([{{'idx': i}}…], common_args={{'big': 'B'}}) are the same calls but get "
                                                     f"different call ids: stored arguments {sorted(d_args)} vs {sorted(b_args)} (the batch path never binds the signature, default 'opt' is missing)", rep)
        # without common_args the batch path binds (prepare_arguments): must agree
        grp2 = task.parallelize([("B", str(i)) for i in range(3)])
        if sorted(i.call.call_id.key for i in grp2.invocations) != d_ids:
            ctx.report("batch-identity-no-common", f"[{kind}] parallelize([('B', i)…]) gets different call ids than direct calls", rep)
        # a key present in both dictionaries
        grp3 = task.parallelize([{"idx": "1", "big": "X"}, {"idx": "2"}], common_args={"big": "B"})
        i3 = list(grp3.invocations)[0]
        client_view = dict(i3.call.arguments.kwargs)
        worker_view = dict(app.state_backend.get_invocation(i3.invocation_id).call.arguments.kwargs)
        if canon_kwargs({k: v for k, v in client_view.items() if k in worker_view}) != canon_kwargs(worker_view):
            ctx.report("batch-common-args-override", f"[{kind}] parallelize([{{'idx': '1', 'big': 'X'}}…], common_args={{'big': 'B'}}): the client-side call has arguments {client_view} "
                                                     f"but the stored call (what a worker runs) has {worker_view}; the non-batch path uses the per-call value", rep)
    # observation outside the property's quantifier (not reported as a violation): LRU capacity 0
    try:
        app = mk(ctx, "mem", "JsonSerializer", min_size_to_cache=1, local_cache_size=0)
        app.client_data_store.serialize("abcdef")
        ctx.notes["local_cache_size_0"] = "serialize works"
    except KeyError as e:
        ctx.notes["local_cache_size_0"] = f"serialize of any externalised value raises KeyError({e}) (popitem on the empty cache)"


# ================================================================================================

def oracle_foreign_purge(ctx: Ctx) -> None:
    """"a reference always resolves to the content it was created from", also when the process that creates it has seen
    the content before and the shared backend was emptied in between by another process (`app.purge()` elsewhere):
    serialize, other process purges, serialize again -> a third process (empty cache) resolves the new reference."""
    rng = ctx.rng
    n = 0
    for ser_name in SERIALIZERS:
        for local in (1, 3, 1024):
            app = mk(ctx, "sqlite", ser_name, min_size_to_cache=16, local_cache_size=local)
            cds = app.client_data_store
            vals = [G.sized_value(rng, app.serializer.serialize, k) for k in (40, 90, 300)] + ["y" * 64, list(range(30))]
            for v in vals:
                snap = G.canon(v)
                rep = {"kind": "foreign-purge", "serializer": ser_name, "local_cache_size": local, "value": pkl(v)}
                r1 = cds.serialize(copy.deepcopy(v))
                other_process(app).client_data_store.purge()
                r2 = cds.serialize(copy.deepcopy(v))
                ctx.count()
                ctx.distinct(("fpurge", ser_name, local, repr(snap)))
                n += 1
                if r1 != r2:
                    ctx.report(f"foreign-purge:reference-changed:{ser_name}", f"[sqlite/{ser_name}] equal content gives {r1[:60]} then {r2[:60]}", rep)
                try:
                    got = other_process(app).client_data_store.resolve(r2)
                    if G.canon(got) != snap:
                        ctx.report(f"foreign-purge:wrong-content:{ser_name}", f"[sqlite/{ser_name}/cache {local}] the reference created after another process purged the store resolves to {got!r:.100}", rep)
                except KeyError as e:
                    ctx.report(f"foreign-purge:dangling-reference:{ser_name}", f"[sqlite/{ser_name}/cache {local}] serialize() handed out {r2[:50]}… after another process purged the store, and no other process can resolve it: KeyError {e}", rep)
    ctx.notes["foreign_purge_cases"] = n


def run(ctx: Ctx) -> None:
    lean_stage(ctx, tr.gen, THEOREMS)
    ctx.cov["rule"] = (
        "identity: distinct strings / (kind, dict, dict) pairs / (signature, call) tuples / (task, assignment, spelling) tuples; "
        "store: distinct (serializer, backend, configuration, operation) tuples of the operation sequences; json: distinct "
        "value trees; trips: distinct (serializer, backend, configuration, task options, value) tuples — trivial cases (empty "
        "dictionaries, None) are a handful of the total")
    drv = LeanDriver()

    def phase(name, f, *a) -> None:
        # an exception escaping the real code in the middle of a phase is a broken obligation (with its traceback),
        # never an infrastructure error: the other phases still run and look for the concrete failing input
        try:
            f(ctx, *a)
        except Exception as e:  # noqa: BLE001
            tb = traceback.format_exc().strip().splitlines()
            ctx.obligation(f"phase {name} ran to completion", False, f"{type(e).__name__}: {e} @ {' | '.join(x.strip() for x in tb[-6:-1])}"[:900])

    try:
        phase("identity", corr_identity, drv)
        phase("binding", corr_bind, drv)
        phase("client data store", corr_cds, drv)
        phase("json", corr_json, drv)
    finally:
        drv.close()
    phase("trip oracle", oracle_trip)
    phase("known classes oracle", oracle_known_classes)
    phase("graph values oracle", oracle_graphs)
    phase("local copies oracle", oracle_local_copies)
    phase("same content, two writers", oracle_same_content_two_writers)
    phase("foreign purge oracle", oracle_foreign_purge)
    ctx.assumptions += [
        "SHA-256 is a parameter of the model: callId_eq_iff (⇒) assumes no collision on the two pre-hash byte strings, the store theorems no collision on the texts that occur; digests are 64 hex characters",
        "pickle and jsonpickle are black boxes: deser(ser v) = v is a hypothesis of cds_roundtrip, sampled by the trip oracle on generated values of a conservative domain",
        "the text layer of the json module (loads∘dumps = id on JSON trees, floats by bits, key order) is assumed and checked on every generated tree",
        "class resolution (_resolve_class), Enum(value) lookup, exception constructors taking their own args and from_json∘to_json = id are assumptions recorded in the model's registry",
        "strings with lone surrogates cannot cross the utf-8 pipe to the model: they are covered by the trip oracle on the real code only (all serializers, inline and externalised)",
        "LRU capacity ≥ 1 is a hypothesis of the store theorems (local_cache_size = 0 makes serialize raise: cache_size_zero_refutation; noted, outside the property's quantifier)",
    ]
    if not ctx.quick:
        thorough_rebuild(ctx)


def replay(data: dict) -> int:
    import tempfile

    r = data.get("replay", {})
    kind = r.get("kind")
    tmp = tempfile.mkdtemp(prefix="verif-C15-replay-")
    print("replaying", data.get("signature"), "-", data.get("what", "")[:200])
    if kind == "prefix":
        app = make_app(r["backend"], tmp, app_id="c15replay", serializer_cls=r["serializer"], min_size_to_cache=40)
        cds = app.client_data_store
        try:
            back = cds.resolve(cds.serialize(r["value"]))
            print("resolve(serialize(s)) =", repr(back))
            return 0 if back == r["value"] else 1
        except Exception as e:  # noqa: BLE001
            print("raises", type(e).__name__, e)
            return 1
    sig = data.get("signature", "")
    if kind in ("content", "alias-call"):
        app = make_app(r["backend"], tmp, app_id="c15replay", serializer_cls=r["serializer"], min_size_to_cache=40)
        cds = app.client_data_store
        v = unpkl(r["value"]) if r.get("value") else ["x"] * 200
        before = G.canon(v)
        ref = cds.serialize(v)
        if sig == "lru-shared-object":
            first = cds.resolve(ref)
            first.append("mutated-by-consumer")
            got = cds.resolve(ref)
            print("second resolve of", ref[:48], "has", len(got), "elements; the reference was created from", len(before[1]))
        else:
            v.append("mutated-after-serialize")
            got = cds.resolve(ref)
            print("reference", ref[:48], "resolves to", len(got), "elements; created from", len(before[1]))
        return 0 if G.canon(got) == before else 1
    if kind == "foreign-purge":
        app = make_app("sqlite", tmp, app_id="c15replay", serializer_cls=r["serializer"], min_size_to_cache=16, local_cache_size=r["local_cache_size"])
        v = unpkl(r["value"])
        app.client_data_store.serialize(copy.deepcopy(v))
        other_process(app).client_data_store.purge()
        ref = app.client_data_store.serialize(copy.deepcopy(v))
        try:
            got = other_process(app).client_data_store.resolve(ref)
        except KeyError as e:
            print(f"reproduced: {ref[:50]}… does not resolve in another process: KeyError {e}")
            return 1
        print("resolved to", repr(got)[:100])
        return 0 if G.canon(got) == G.canon(v) else 1
    if kind == "batch":
        app = make_app(r["backend"], tmp, app_id="c15replay", serializer_cls="JsonSerializer")
        task = app.task(T.c15_sig3)
        d = task("B", "1").call.call_id.key
        b = [i.call.call_id.key for i in task.parallelize([{"idx": "1"}, {"idx": "2"}], common_args={"big": "B"}).invocations][0]
        print("direct", d, "\nbatch ", b)
        grp3 = task.parallelize([{"idx": "1", "big": "X"}, {"idx": "2"}], common_args={"big": "B"})
        i3 = list(grp3.invocations)[0]
        client = dict(i3.call.arguments.kwargs)
        stored = dict(app.state_backend.get_invocation(i3.invocation_id).call.arguments.kwargs)
        print("override: client", client, "stored", stored)
        if sig == "batch-common-args-override":
            return 0 if all(stored.get(k) == v for k, v in client.items()) else 1
        return 0 if d == b else 1
    if kind == "trip":
        conf = r["conf"]
        topts = {k: tuple(x) for k, x in r.get("task_options", {}).items()}
        app = make_app(r["backend"], tmp, app_id="c15replay", serializer_cls=r["serializer"], **conf)
        task = app.task(T.ident, **topts)
        v = unpkl(r["value"])
        inv = task(copy.deepcopy(v))
        got = app.state_backend.get_invocation(inv.invocation_id).call.arguments.kwargs["x"]
        print("sent", repr(v)[:200], "\ngot ", repr(got)[:200])
        return 0 if G.canon(got) == G.canon(v) else 1
    if kind == "pair":
        from pynenc.call import compute_args_id

        d1, d2 = dict(map(tuple, r["d1"])), dict(map(tuple, r["d2"]))
        print(compute_args_id(d1), compute_args_id(d2))
        return 0 if (compute_args_id(d1) == compute_args_id(d2)) == (d1 == d2) else 1
    if kind == "json":
        from pynenc.serializer.json_serializer import JsonSerializer

        v = unpkl(r["value"])
        back = JsonSerializer.deserialize(JsonSerializer.serialize(v))
        print(repr(v)[:200], "->", repr(back)[:200])
        return 0 if G.canon(back) == G.canon(v) else 1
    print(json.dumps(r, indent=1)[:2000])
    return 0
