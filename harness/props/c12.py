"""C12 — global services authorised for at most one runner at any instant.

Lean: Props/C12.lean (mutual exclusion for every admissible rounding function; exact theorems over ℚ).
Tie:  bit-exact differential of calculate_time_slot / can_run_atomic_service vs the Lean model evaluated with the
      executable binary64 rounding `rne` (floats cross the pipe as integer ratios, nothing is compared as a float);
      Python's `%` on the instants used is checked to be exact (the `fmod` assumption of the model).
Search: the property itself is evaluated on the real functions for every instant of the grid: number of
      authorised runners ≤ 1; every runner authorised at the start of its window; separation ≥ margin.
"""
from __future__ import annotations

import math
from datetime import UTC, datetime
from fractions import Fraction

from harness.common import Ctx, LeanDriver, lean_stage, thorough_rebuild

THEOREMS = [
    "flOK_id", "slotStart_mono", "slotEnd_le_next_start", "mutual_exclusion_fl", "at_most_one_authorised",
    "unknown_runner_never", "single_runner_always", "halfSlotOK_id", "mutual_exclusion", "margin_separation",
    "every_runner_has_window", "fmod_shift", "authorised_in_every_cycle", "halfSlot_le_next_of_relErr",
    # Props/C12Gen.lean: Gen/Slot.lean (the arithmetic re-expressed from the Python AST by translate/slot.py) IS the model
    "gen_slot_is_the_model", "translated_source_excludes",
]


def fr(x: float) -> str:
    a, b = x.as_integer_ratio()
    return f"{a}/{b}"


def runners(n: int, slot_s: float | None = None):
    """the active runners as the orchestrator lists them; with `slot_s` each one carries a recorded last execution of the services
    (none, short, nearly a window, longer than its slot, longer than the cycle): what a run NEEDED says nothing about when one may START,
    the windows of the model do not depend on it"""
    from datetime import timedelta

    from pynenc.orchestrator.atomic_service import ActiveRunnerInfo

    t0 = datetime(2024, 1, 1, tzinfo=UTC)
    if slot_s is None:
        return [ActiveRunnerInfo(f"r{i}", t0, t0, True) for i in range(n)]
    factors = [None, 0.1, 0.9, 1.07, 1.7, 3.0 * n]
    out = []
    for i in range(n):
        f = factors[(i + n) % len(factors)]
        out.append(ActiveRunnerInfo(f"r{i}", t0, t0, True) if f is None else ActiveRunnerInfo(f"r{i}", t0, t0, True, t0, t0 + timedelta(seconds=slot_s * f)))
    return out


def instants(ctx: Ctx, imin: float, mmin: float, n: int, cst) -> list[float]:
    """dense grid + every slot boundary and its float neighbours, in several cycles and at large epoch offsets"""
    interval = imin * 60
    pts: set[float] = set()
    bounds = []
    for p in range(n):
        s, e = cst(p, n, imin, mmin)
        bounds += [s, e]
    bounds += [0.0, interval]
    offs = [0.0, interval, 7 * interval, math.floor(1.7e9 / interval) * interval, math.floor(2.0e9 / interval) * interval]
    for b in bounds:
        for o in offs:
            x = o + b
            for y in (x, math.nextafter(x, -math.inf), math.nextafter(x, math.inf), math.nextafter(math.nextafter(x, math.inf), math.inf)):
                if y >= 0:
                    pts.add(y)
    g = 24 if ctx.quick else 96
    for k in range(g):
        pts.add(interval * k / g)
        pts.add(1.7e9 + interval * k / g)
    for _ in range(10 if ctx.quick else 60):
        pts.add(ctx.rng.uniform(0, 2.1e9))
    return sorted(pts)


def system_level(ctx: Ctx) -> None:
    """the property at the level where it is used: `orchestrator.should_run_atomic_service` and the runner's
    `_check_atomic_services` on real backends under a controlled clock.
    (a) churn: three runners poll every 5 s; one disappears, another one joins, so the NUMBER of active runners is the same while
        the positions change: at every instant at most one runner is authorised and every live runner is once per cycle;
    (b) a storage stall inside a check: the clock moves by 15 s during the runner's own heartbeat write near the end of its window;
        a runner that executes the services does so at the time the check RETURNS - nobody else may execute then."""
    import importlib
    import threading

    from harness.apps import VirtualClock, make_app, rctx

    clock = VirtualClock(start_us=(1_700_000_100 - 3) * 1_000_000).install()      # 3 s before a multiple of the 300 s cycle
    rb = importlib.import_module("pynenc.runner.base_runner")
    real_time_mod = rb.time

    class _T:
        def time(self_inner) -> float:  # noqa: N805
            return clock.time()

        def sleep(self_inner, s: float) -> None:  # noqa: N805
            clock.advance(int(s * 1e6))

        def __getattr__(self_inner, n):  # noqa: N805
            return getattr(real_time_mod, n)

    rb.time = _T()
    try:
        for kind in ("mem", "sqlite"):
            # ---- (a) churn
            app = make_app(kind, ctx.tmp, app_id=f"c12sys{kind}", atomic_service_interval_minutes=5.0, atomic_service_spread_margin_minutes=0.1,
                           runner_considered_dead_after_minutes=1.0, atomic_service_check_interval_minutes=0.0)
            o = app.orchestrator
            live = ["rA", "rB", "rC"]
            # membership changes happen BETWEEN polling instants (a runner's first heartbeat precedes its first check by a moment):
            # within one instant every poller sees the same set of runners
            clock.advance((297 - clock.us // 1_000_000 % 300) % 300 * 1_000_000)       # 3 s before a cycle boundary
            for r in live:
                o.register_runner_heartbeats([r], can_run_atomic_service=True)
                clock.advance(1_000_000)                                                # polls start at the boundary
            seen: dict[str, set[int]] = {}
            worst = None
            for step in range(0, 4 * 60 + 30):           # 4.5 cycles of 5-second polls
                t = step * 5
                if t == 610:
                    live = ["rB", "rC"]                   # rA goes silent ...
                if t == 690:
                    clock.advance(-2_000_000)
                    o.register_runner_heartbeats(["rD"], can_run_atomic_service=True)
                    clock.advance(2_000_000)
                    live = ["rB", "rC", "rD"]             # ... is forgotten after a minute, and rD joins: three runners again
                auth = [r for r in live if o.should_run_atomic_service(rctx(r))]
                ctx.count()
                for r in auth:
                    seen.setdefault(r, set()).add(t // 300)
                if len(auth) > 1 and worst is None:
                    worst = (t, auth, list(live))
                clock.advance(5_000_000)
            ctx.distinct((kind, "churn", worst is None))
            if worst:
                ctx.report(f"two-authorised[{kind}]:runner-churn", f"[{kind}] runners {worst[2]} polling every 5 s (rA silent from t=610 s, rD joins at t=690 s; cycle 300 s, margin 6 s): at t={worst[0]} s "
                                                                 f"should_run_atomic_service authorises {worst[1]} at the same instant", {"kind": "system-churn", "backend": kind, "t": worst[0], "authorised": worst[1]})
            for r, cycles in (("rB", {0, 1, 3}), ("rC", {0, 1, 3}), ("rD", {3})):
                if not cycles <= seen.get(r, set()):
                    ctx.report(f"runner-without-window[{kind}]:runner-churn", f"[{kind}] runner {r} polled every 5 s but was not authorised in cycle(s) {sorted(cycles - seen.get(r, set()))} (authorised in {sorted(seen.get(r, set()))})",
                               {"kind": "system-churn", "backend": kind, "runner": r})
            # ---- (b) stall inside the check
            app2 = make_app(kind, ctx.tmp, app_id=f"c12stall{kind}", runner_cls="ThreadRunner", atomic_service_interval_minutes=5.0,
                            atomic_service_spread_margin_minutes=0.1, atomic_service_check_interval_minutes=0.0)
            r1 = app2.runner
            r2 = type(r1)(app2)
            cur = {"r": None}
            executed: list[tuple[str, int]] = []
            app2.trigger.trigger_loop_iteration = lambda: executed.append((cur["r"], clock.us // 1_000_000 % 300))  # type: ignore[method-assign]
            o2 = app2.orchestrator
            real_hb = o2.register_runner_heartbeats
            stall = {"for": None}

            def hb(runner_ids, *a, **k):  # type: ignore[no-untyped-def]
                out = real_hb(runner_ids, *a, **k)
                if stall["for"] is not None and stall["for"] in runner_ids:
                    stall["for"] = None
                    clock.advance(15_000_000)         # the write took 15 s (a locked database, a slow network)
                return out

            o2.register_runner_heartbeats = hb  # type: ignore[method-assign]
            base = clock.us // 1_000_000 % 300
            clock.advance((300 - base) * 1_000_000 + 10_000_000)       # second 10 of a cycle
            for r, name in ((r1, "r1"), (r2, "r2")):
                cur["r"] = name
                r._check_atomic_services()
            first = [n for n, _ in executed]
            order = ("r1", "r2") if first == ["r1"] else ("r2", "r1") if first == ["r2"] else None
            if order is None:
                ctx.obligation(f"system level (b) set-up [{kind}]: exactly one of two runners executes at second 10 of the cycle", False, f"executed {executed}")
                continue
            a, b = (r1, r2) if order[0] == "r1" else (r2, r1)
            clock.advance(130_000_000)                                    # second 140: 4 s before the end of the first window [0,144)
            executed.clear()
            stall["for"] = a.runner_context.runner_id
            cur["r"] = "first-window-runner"
            a._check_atomic_services()                                    # returns at second 155
            cur["r"] = "second-window-runner"
            b._check_atomic_services()                                    # second 155: inside the second window [150,294)
            ctx.count()
            ctx.distinct((kind, "stall", len(executed)))
            if len({n for n, _ in executed}) > 1:
                ctx.report(f"two-executing[{kind}]:stall-inside-check", f"[{kind}] two runners, cycle 300 s, margin 6 s: the first-window runner checks at second 140 and its heartbeat write takes 15 s; "
                                                                        f"at second 155 BOTH runners execute the global services: {executed}", {"kind": "system-stall", "backend": kind, "executed": executed})
            if ("second-window-runner", 155) not in executed:
                ctx.obligation(f"system level (b) [{kind}]: the second-window runner executes at second 155", False, f"executed {executed}")
            # ---- (c) runners WITH worker processes (process, persistent-process and multi-thread runners report their children's
            #      heartbeats on every loop iteration): the steps of `run()` in their order - children's heartbeats, the check of the
            #      global services, a plain iteration - for two such runners, every 5 s over two and a half cycles
            app3 = make_app(kind, ctx.tmp, app_id=f"c12kids{kind}", runner_cls="ThreadRunner", atomic_service_interval_minutes=5.0,
                            atomic_service_spread_margin_minutes=0.1, atomic_service_check_interval_minutes=0.5)
            p1 = app3.runner
            p2 = type(p1)(app3)
            for pr, nm in ((p1, "p1"), (p2, "p2")):
                pr.get_active_child_runner_ids = (lambda nm=nm: [f"{nm}-worker"])  # type: ignore[method-assign]
            cur3 = {"r": None}
            ran: list[tuple[str, int]] = []
            app3.trigger.trigger_loop_iteration = lambda: ran.append((cur3["r"], clock.us // 1_000_000))  # type: ignore[method-assign]
            base = clock.us // 1_000_000 % 300
            clock.advance((300 - base) * 1_000_000)
            t_start = clock.us // 1_000_000
            for step in range(150):
                for pr, nm in ((p1, "p1"), (p2, "p2")):
                    cur3["r"] = nm
                    pr._report_child_runner_heartbeats()
                    pr._check_atomic_services()
                    pr._report_child_runner_heartbeats()     # the following plain iterations of the loop
                clock.advance(5_000_000)
                ctx.count()
            by_t: dict[int, set] = {}
            for nm, t in ran:
                by_t.setdefault(t, set()).add(nm)
            both = sorted(t - t_start for t, who in by_t.items() if len(who) > 1)
            cycles = {nm: {(t - t_start) // 300 for n2, t in ran if n2 == nm} for nm in ("p1", "p2")}
            ctx.distinct((kind, "parents-with-workers", not both))
            if both:
                ctx.report(f"two-executing[{kind}]:runners-with-workers",
                           f"[{kind}] two runners that report the heartbeats of their worker processes on every iteration (cycle 300 s, margin 6 s, checks every 30 s): BOTH execute the "
                           f"global services at the same instants, first at +{both[0]} s ({len(both)} instants)", {"kind": "system-parents", "backend": kind, "first": both[0]})
            for nm in ("p1", "p2"):
                if not {0, 1} <= cycles[nm]:
                    ctx.report(f"runner-without-window[{kind}]:runners-with-workers", f"[{kind}] runner {nm} (with a worker process) executed the global services in cycles {sorted(cycles[nm])} only",
                               {"kind": "system-parents", "backend": kind, "runner": nm})
            # ---- (d) the heartbeat write of one runner fails (a locked database): that runner is not authorised (its check fails or says
            #      no) - and the OTHER runner's authorisation is not doubled by it; and (e) the configured margin, as the application
            #      reads it from its configuration (a fraction of a minute), separates consecutive windows seen through the orchestrator
            import sqlite3

            app4 = make_app(kind, ctx.tmp, app_id=f"c12hbfault{kind}", atomic_service_interval_minutes=4.0, atomic_service_spread_margin_minutes=0.5,
                            runner_considered_dead_after_minutes=10.0, atomic_service_check_interval_minutes=0.0)
            o4 = app4.orchestrator
            o4.register_runner_heartbeats(["rA"], can_run_atomic_service=True)
            real_hb4 = o4.register_runner_heartbeats

            def hb4(runner_ids, *a, **k):  # type: ignore[no-untyped-def]
                if "rB" in runner_ids:
                    raise sqlite3.OperationalError("database is locked")
                return real_hb4(runner_ids, *a, **k)

            o4.register_runner_heartbeats = hb4  # type: ignore[method-assign]
            both_at = None
            for step in range(0, 2 * 240, 5):
                auth = []
                for r in ("rA", "rB"):
                    try:
                        if o4.should_run_atomic_service(rctx(r)):
                            auth.append(r)
                    except Exception:  # noqa: BLE001
                        pass
                ctx.count()
                if len(auth) > 1 and both_at is None:
                    both_at = step
                clock.advance(5_000_000)
            del o4.register_runner_heartbeats
            ctx.distinct((kind, "heartbeat-write-fails", both_at is None))
            if both_at is not None:
                ctx.report(f"two-authorised[{kind}]:heartbeat-write-fails", f"[{kind}] runner rB's heartbeat write fails with 'database is locked' (it has no record); rA is alive: at +{both_at} s BOTH are authorised",
                           {"kind": "system-hb-fault", "backend": kind, "t": both_at})
            # (e)
            for r in ("rA", "rB", "rC"):
                o4.register_runner_heartbeats([r], can_run_atomic_service=True)
                clock.advance(1_000)
            from datetime import timedelta as _td

            for recorded in (False, True):
                if recorded:
                    # the runners have executed the services before: one run took longer than its window, one longer than its whole slot
                    now = datetime.fromtimestamp(clock.us / 1e6, tz=UTC)
                    for r, dur in (("rA", 85.0), ("rB", 60.0), ("rC", 10.0)):
                        o4.record_atomic_service_execution(r, now - _td(seconds=dur), now)
                base = clock.us // 1_000_000 % 240
                clock.advance((240 - base) * 1_000_000)
                owner_at: list[str | None] = []
                for sec in range(480 if recorded else 240):
                    if sec % 20 == 0:
                        o4.register_runner_heartbeats(["rA", "rB", "rC"], can_run_atomic_service=True)
                    auth = [r for r in ("rA", "rB", "rC") if o4.should_run_atomic_service(rctx(r))]
                    owner_at.append(auth[0] if len(auth) == 1 else ("+".join(auth) if auth else None))
                    clock.advance(1_000_000)
                    ctx.count()
                gaps = []
                last_owner, last_t = None, None
                for sec, w in enumerate(owner_at):
                    if w is not None:
                        if last_owner is not None and w != last_owner:
                            gaps.append((sec - last_t, last_owner, w, last_t, sec))
                        last_owner, last_t = w, sec
                conf_margin = app4.conf.atomic_service_spread_margin_minutes
                ctx.distinct((kind, "configured-margin", recorded, tuple(g[0] for g in gaps)))
                small = [g for g in gaps if g[0] < 30]
                if small or any(w and "+" in w for w in owner_at):
                    g = small[0] if small else None
                    ctx.report(f"margin-not-kept[{kind}]:{'recorded-executions' if recorded else 'configured-fraction'}",
                               f"[{kind}] interval 4 min, margin configured 0.5 min (the application reads {conf_margin!r}), three runners"
                               + (" whose last recorded executions took 85 s, 60 s and 10 s" if recorded else "") + ", asked every second: "
                               + (f"{g[1]} is still authorised at +{g[3]} s and {g[2]} already at +{g[4]} s (gap {g[0]} s < 30 s)" if g else "two runners authorised at once"),
                               {"kind": "system-margin", "backend": kind, "recorded": recorded, "gaps": [x[0] for x in gaps]})
            # (f) the configuration every application starts with (cycle 5 min, margin 1 min, the runners ask every 30 s), four and
            #     twelve runners: how often a runner ASKS has no say in when it may run
            for nr in ((4,) if ctx.quick else (4, 7, 12)):
                app6 = make_app(kind, ctx.tmp, app_id=f"c12dflt{kind}{nr}", atomic_service_interval_minutes=5.0, atomic_service_spread_margin_minutes=1.0,
                                atomic_service_check_interval_minutes=0.5, runner_considered_dead_after_minutes=10.0)
                o6 = app6.orchestrator
                names = [f"r{j:02d}" for j in range(nr)]
                for r in names:
                    o6.register_runner_heartbeats([r], can_run_atomic_service=True)
                    clock.advance(1_000)
                base = clock.us // 1_000_000 % 300
                clock.advance((300 - base) * 1_000_000)
                owner6: list = []
                for sec in range(300):
                    if sec % 60 == 0:
                        o6.register_runner_heartbeats(names, can_run_atomic_service=True)
                    auth = [r for r in names if o6.should_run_atomic_service(rctx(r))]
                    owner6.append(auth)
                    clock.advance(1_000_000)
                    ctx.count()
                both = next(((sec, a) for sec, a in enumerate(owner6) if len(a) > 1), None)
                gaps6 = []
                last_owner, last_t = None, None
                for sec, a in enumerate(owner6):
                    if len(a) == 1:
                        if last_owner is not None and a[0] != last_owner:
                            gaps6.append((sec - last_t, last_owner, a[0], last_t, sec))
                        last_owner, last_t = a[0], sec
                slot = 300.0 / nr
                need = 60.0 if slot > 60.0 else 0.0          # the margin fits into a slot only then
                ctx.distinct((kind, "default-configuration", nr, tuple(g[0] for g in gaps6)))
                small = [g for g in gaps6 if g[0] < need - 1]
                if both or small:
                    ctx.report(f"{'two-authorised' if both else 'margin-not-kept'}[{kind}]:default-configuration",
                               f"[{kind}] cycle 5 min, margin 1 min, runners asking every 30 s (the defaults), {nr} runners, asked every second over one cycle: "
                               + (f"{both[1]} are authorised together at +{both[0]} s" if both else f"{small[0][1]} is still authorised at +{small[0][3]} s and {small[0][2]} already at +{small[0][4]} s (gap {small[0][0]} s < 60 s)"),
                               {"kind": "system-default-config", "backend": kind, "runners": nr})
    finally:
        rb.time = real_time_mod
        clock.uninstall()
    _ = threading


def run(ctx: Ctx) -> None:
    from pynenc.orchestrator import atomic_service as A

    from harness.translate import slot as trslot

    lean_stage(ctx, trslot.gen, THEOREMS)
    drv = LeanDriver()
    ctx.cov["rule"] = ("configurations (n, interval, margin) from a grid + seeded random; instants = dense grid + every slot "
                       "boundary ±1,2 ulp over several cycles and epoch offsets to 2e9 s; distinct+non-trivial = distinct "
                       "(config, instant) pairs with n ≥ 2")
    cfgs: list[tuple[int, float, float]] = []
    ns = [1, 2, 3, 5, 7, 9, 10, 16] if ctx.quick else [1, 2, 3, 4, 5, 6, 7, 9, 10, 11, 13, 16, 23, 32, 49, 64]
    ivals = [5.0, 1.0, 0.5, 7.0] if ctx.quick else [5.0, 1.0, 0.5, 7.0, 0.1, 3.3, 60.0, 1 / 3]
    for n in ns:
        for iv in ivals:
            slot_min = iv / n
            for mg in ([0.0, slot_min / 10, slot_min, slot_min * 2] if ctx.quick else [0.0, slot_min / 10, slot_min / 3, slot_min * 0.999, slot_min, slot_min * 2, iv]):
                cfgs.append((n, iv, mg))
    for _ in range(10 if ctx.quick else 80):
        n = ctx.rng.randint(2, 64)
        iv = ctx.rng.choice([ctx.rng.uniform(0.05, 120), float(ctx.rng.randint(1, 60))])
        cfgs.append((n, iv, ctx.rng.choice([0.0, ctx.rng.uniform(0, iv / n), ctx.rng.uniform(0, iv)])))

    nd_slot = nd_can = nfmod = 0
    lines, impl = [], []
    for ci, (n, iv, mg) in enumerate(cfgs):
        act = runners(n, iv * 60 / n if ci % 2 else None)      # every other configuration: runners with recorded executions
        cst = lambda p, n_, i_, m_: A.calculate_time_slot(p, n_, i_, m_, None)
        # --- slots
        slots = []
        for p in range(n):
            s, e = A.calculate_time_slot(p, n, iv, mg, act)
            slots.append((s, e))
            lines.append(f"as.slot {fr(iv)} {fr(mg)} {n} {p}")
            impl.append(f"{fr(s)} {fr(e)}")
        # --- property on the implementation: windows
        interval = iv * 60
        for p in range(n):
            s, e = slots[p]
            if not (0 <= s < e):
                ctx.report(f"empty-window:n={n}", f"runner {p} of {n} has an empty window [{s},{e}) (interval {iv} min, margin {mg} min)",
                           {"n": n, "interval_min": iv, "margin_min": mg, "position": p})
            if n > 1 and not A.can_run_atomic_service(f"r{p}", act, s, iv, mg):
                ctx.report(f"never-authorised:n={n}", f"runner {p} of {n} is not authorised at the start of its own window t={s!r}",
                           {"n": n, "interval_min": iv, "margin_min": mg, "position": p, "t": s})
            if p + 1 < n and Fraction(e) > Fraction(slots[p + 1][0]):
                ctx.report("window-overlap", f"window of runner {p} ends at {e!r} after runner {p + 1} starts at {slots[p + 1][0]!r} (n={n}, interval {iv} min, margin {mg} min)",
                           {"n": n, "interval_min": iv, "margin_min": mg, "position": p})
            m_s = mg * 60
            if n > 1 and m_s < (interval / n) * (1 - 1e-9):  # margin fits into a slot (guard band: an exact tie is decided by rounding)
                nxt = Fraction(slots[p + 1][0]) if p + 1 < n else Fraction(interval) + Fraction(slots[0][0])
                gap = nxt - Fraction(e)
                if gap < Fraction(m_s) * (1 - Fraction(1, 10**9)) - Fraction(1, 10**9):
                    ctx.report("margin-separation", f"windows {p} and {(p + 1) % n} are {float(gap)} s apart, margin is {m_s} s (n={n}, interval {iv} min)",
                               {"n": n, "interval_min": iv, "margin_min": mg, "position": p})
        # --- instants
        for t in instants(ctx, iv, mg, n, cst):
            auth = [p for p in range(n) if A.can_run_atomic_service(f"r{p}", act, t, iv, mg)]
            ctx.count()
            if n >= 2:
                ctx.distinct((n, iv, mg, t))
            if len(auth) > 1:
                ctx.report("two-authorised", f"runners {auth} are all authorised at t={t!r} (n={n}, interval {iv} min, margin {mg} min)",
                           {"n": n, "interval_min": iv, "margin_min": mg, "t": t, "authorised": auth})
            if n == 1 and auth != [0]:
                ctx.report("single-runner", f"single active runner not authorised at t={t!r}", {"interval_min": iv, "margin_min": mg, "t": t})
            if A.can_run_atomic_service("stranger", act, t, iv, mg) and n != 1:
                ctx.report("stranger", f"a runner that is not in the active list is authorised at t={t!r} (n={n})", {"n": n, "t": t})
            if Fraction(t % interval) != Fraction(t) % Fraction(interval):
                nfmod += 1
            for p in range(n) if n <= 5 else ([0, n - 1] + auth + [ctx.rng.randrange(n)]):
                lines.append(f"as.can {fr(iv)} {fr(mg)} {n} {p} {fr(t)}")
                impl.append("true" if p in auth else "false")
    outs = drv.ask_many(lines)
    drv.close()
    system_level(ctx)
    first = None
    for ln, i, m in zip(lines, impl, outs):
        if i != m:
            if ln.startswith("as.slot"):
                nd_slot += 1
            else:
                nd_can += 1
            first = first or (ln, i, m)
    ctx.cov["evaluations"] += len(lines)
    ctx.obligation("correspondence: calculate_time_slot == slotStart/slotEnd under binary64 rounding (bit-exact)", nd_slot == 0,
                   f"{nd_slot} disagreements, first {first}")
    ctx.obligation("correspondence: can_run_atomic_service == canRun under binary64 rounding", nd_can == 0,
                   f"{nd_can} disagreements, first {first}")
    ctx.obligation("assumption check: Python float % is exact on every instant used (fmod)", nfmod == 0, f"{nfmod} inexact")
    ctx.notes["configs"] = len(cfgs)
    ctx.sample({"op": lines[0], "impl": impl[0], "model": outs[0]})
    ctx.sample({"op": lines[-1], "impl": impl[-1], "model": outs[-1]})
    ctx.assumptions += [
        "IEEE-754 binary64 round-to-nearest-even is monotone, idempotent and fixes 0 (hypothesis FlOK of the theorems); the executable rne is compared bit-for-bit with CPython on every run",
        "margin-separation on floats is judged up to a relative 1e-9 (one subtraction rounds); exact over ℚ in the theorem",
        "the half-slot fallback (margin ≥ slot) is covered for binary64 by halfSlot_le_next_of_relErr under the relative-error bound 2^-53 and exact halving",
    ]
    if not ctx.quick:
        thorough_rebuild(ctx)


def replay(data: dict) -> int:
    from pynenc.orchestrator import atomic_service as A

    r = data["replay"]
    n, iv, mg = r["n"], r["interval_min"], r["margin_min"]
    act = runners(n)
    if "t" in r:
        auth = [p for p in range(n) if A.can_run_atomic_service(f"r{p}", act, r["t"], iv, mg)]
        print("authorised at", r["t"], ":", auth)
        return 1 if len(auth) > 1 else 0
    print([A.calculate_time_slot(p, n, iv, mg, act) for p in range(n)])
    return 0
