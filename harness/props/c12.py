"""C12 — global services authorised for at most one runner at any instant.

Lean: Props/C12.lean (mutual exclusion for every admissible rounding function; exact theorems over ℚ).
Tie:  bit-exact differential of calculate_time_slot / can_run_atomic_service vs the Lean model evaluated with the
      executable binary64 rounding `rne` (floats cross the pipe as integer ratios, nothing is compared as a float);
      Python's `%` on the instants used is checked to be exact (the `fmod` assumption of the model).
Search: the property itself is evaluated on the real functions for every instant of the grid: number of
      authorised runners ≤ 1; every runner authorised at the start of its window; separation ≥ margin.
"""
from __future__ import annotations

import math
from datetime import UTC, datetime
from fractions import Fraction

from harness.common import Ctx, LeanDriver, lean_stage, thorough_rebuild

THEOREMS = [
    "flOK_id", "slotStart_mono", "slotEnd_le_next_start", "mutual_exclusion_fl", "at_most_one_authorised",
    "unknown_runner_never", "single_runner_always", "halfSlotOK_id", "mutual_exclusion", "margin_separation",
    "every_runner_has_window", "fmod_shift", "authorised_in_every_cycle", "halfSlot_le_next_of_relErr",
]


def fr(x: float) -> str:
    a, b = x.as_integer_ratio()
    return f"{a}/{b}"


def runners(n: int):
    from pynenc.orchestrator.atomic_service import ActiveRunnerInfo

    t0 = datetime(2024, 1, 1, tzinfo=UTC)
    return [ActiveRunnerInfo(f"r{i}", t0, t0, True) for i in range(n)]


def instants(ctx: Ctx, imin: float, mmin: float, n: int, cst) -> list[float]:
    """dense grid + every slot boundary and its float neighbours, in several cycles and at large epoch offsets"""
    interval = imin * 60
    pts: set[float] = set()
    bounds = []
    for p in range(n):
        s, e = cst(p, n, imin, mmin)
        bounds += [s, e]
    bounds += [0.0, interval]
    offs = [0.0, interval, 7 * interval, math.floor(1.7e9 / interval) * interval, math.floor(2.0e9 / interval) * interval]
    for b in bounds:
        for o in offs:
            x = o + b
            for y in (x, math.nextafter(x, -math.inf), math.nextafter(x, math.inf), math.nextafter(math.nextafter(x, math.inf), math.inf)):
                if y >= 0:
                    pts.add(y)
    g = 24 if ctx.quick else 96
    for k in range(g):
        pts.add(interval * k / g)
        pts.add(1.7e9 + interval * k / g)
    for _ in range(10 if ctx.quick else 60):
        pts.add(ctx.rng.uniform(0, 2.1e9))
    return sorted(pts)


def run(ctx: Ctx) -> None:
    from pynenc.orchestrator import atomic_service as A

    lean_stage(ctx, None, THEOREMS)
    drv = LeanDriver()
    ctx.cov["rule"] = ("configurations (n, interval, margin) from a grid + seeded random; instants = dense grid + every slot "
                       "boundary ±1,2 ulp over several cycles and epoch offsets to 2e9 s; distinct+non-trivial = distinct "
                       "(config, instant) pairs with n ≥ 2")
    cfgs: list[tuple[int, float, float]] = []
    ns = [1, 2, 3, 5, 7, 9, 10, 16] if ctx.quick else [1, 2, 3, 4, 5, 6, 7, 9, 10, 11, 13, 16, 23, 32, 49, 64]
    ivals = [5.0, 1.0, 0.5, 7.0] if ctx.quick else [5.0, 1.0, 0.5, 7.0, 0.1, 3.3, 60.0, 1 / 3]
    for n in ns:
        for iv in ivals:
            slot_min = iv / n
            for mg in ([0.0, slot_min / 10, slot_min, slot_min * 2] if ctx.quick else [0.0, slot_min / 10, slot_min / 3, slot_min * 0.999, slot_min, slot_min * 2, iv]):
                cfgs.append((n, iv, mg))
    for _ in range(10 if ctx.quick else 80):
        n = ctx.rng.randint(2, 64)
        iv = ctx.rng.choice([ctx.rng.uniform(0.05, 120), float(ctx.rng.randint(1, 60))])
        cfgs.append((n, iv, ctx.rng.choice([0.0, ctx.rng.uniform(0, iv / n), ctx.rng.uniform(0, iv)])))

    nd_slot = nd_can = nfmod = 0
    lines, impl = [], []
    for (n, iv, mg) in cfgs:
        act = runners(n)
        cst = lambda p, n_, i_, m_: A.calculate_time_slot(p, n_, i_, m_, None)
        # --- slots
        slots = []
        for p in range(n):
            s, e = A.calculate_time_slot(p, n, iv, mg, act)
            slots.append((s, e))
            lines.append(f"as.slot {fr(iv)} {fr(mg)} {n} {p}")
            impl.append(f"{fr(s)} {fr(e)}")
        # --- property on the implementation: windows
        interval = iv * 60
        for p in range(n):
            s, e = slots[p]
            if not (0 <= s < e):
                ctx.report(f"empty-window:n={n}", f"runner {p} of {n} has an empty window [{s},{e}) (interval {iv} min, margin {mg} min)",
                           {"n": n, "interval_min": iv, "margin_min": mg, "position": p})
            if n > 1 and not A.can_run_atomic_service(f"r{p}", act, s, iv, mg):
                ctx.report(f"never-authorised:n={n}", f"runner {p} of {n} is not authorised at the start of its own window t={s!r}",
                           {"n": n, "interval_min": iv, "margin_min": mg, "position": p, "t": s})
            if p + 1 < n and Fraction(e) > Fraction(slots[p + 1][0]):
                ctx.report("window-overlap", f"window of runner {p} ends at {e!r} after runner {p + 1} starts at {slots[p + 1][0]!r} (n={n}, interval {iv} min, margin {mg} min)",
                           {"n": n, "interval_min": iv, "margin_min": mg, "position": p})
            m_s = mg * 60
            if n > 1 and m_s < (interval / n) * (1 - 1e-9):  # margin fits into a slot (guard band: an exact tie is decided by rounding)
                nxt = Fraction(slots[p + 1][0]) if p + 1 < n else Fraction(interval) + Fraction(slots[0][0])
                gap = nxt - Fraction(e)
                if gap < Fraction(m_s) * (1 - Fraction(1, 10**9)) - Fraction(1, 10**9):
                    ctx.report("margin-separation", f"windows {p} and {(p + 1) % n} are {float(gap)} s apart, margin is {m_s} s (n={n}, interval {iv} min)",
                               {"n": n, "interval_min": iv, "margin_min": mg, "position": p})
        # --- instants
        for t in instants(ctx, iv, mg, n, cst):
            auth = [p for p in range(n) if A.can_run_atomic_service(f"r{p}", act, t, iv, mg)]
            ctx.count()
            if n >= 2:
                ctx.distinct((n, iv, mg, t))
            if len(auth) > 1:
                ctx.report("two-authorised", f"runners {auth} are all authorised at t={t!r} (n={n}, interval {iv} min, margin {mg} min)",
                           {"n": n, "interval_min": iv, "margin_min": mg, "t": t, "authorised": auth})
            if n == 1 and auth != [0]:
                ctx.report("single-runner", f"single active runner not authorised at t={t!r}", {"interval_min": iv, "margin_min": mg, "t": t})
            if A.can_run_atomic_service("stranger", act, t, iv, mg) and n != 1:
                ctx.report("stranger", f"a runner that is not in the active list is authorised at t={t!r} (n={n})", {"n": n, "t": t})
            if Fraction(t % interval) != Fraction(t) % Fraction(interval):
                nfmod += 1
            for p in range(n) if n <= 5 else ([0, n - 1] + auth + [ctx.rng.randrange(n)]):
                lines.append(f"as.can {fr(iv)} {fr(mg)} {n} {p} {fr(t)}")
                impl.append("true" if p in auth else "false")
    outs = drv.ask_many(lines)
    drv.close()
    first = None
    for ln, i, m in zip(lines, impl, outs):
        if i != m:
            if ln.startswith("as.slot"):
                nd_slot += 1
            else:
                nd_can += 1
            first = first or (ln, i, m)
    ctx.cov["evaluations"] += len(lines)
    ctx.obligation("correspondence: calculate_time_slot == slotStart/slotEnd under binary64 rounding (bit-exact)", nd_slot == 0,
                   f"{nd_slot} disagreements, first {first}")
    ctx.obligation("correspondence: can_run_atomic_service == canRun under binary64 rounding", nd_can == 0,
                   f"{nd_can} disagreements, first {first}")
    ctx.obligation("assumption check: Python float % is exact on every instant used (fmod)", nfmod == 0, f"{nfmod} inexact")
    ctx.notes["configs"] = len(cfgs)
    ctx.sample({"op": lines[0], "impl": impl[0], "model": outs[0]})
    ctx.sample({"op": lines[-1], "impl": impl[-1], "model": outs[-1]})
    ctx.assumptions += [
        "IEEE-754 binary64 round-to-nearest-even is monotone, idempotent and fixes 0 (hypothesis FlOK of the theorems); the executable rne is compared bit-for-bit with CPython on every run",
        "margin-separation on floats is judged up to a relative 1e-9 (one subtraction rounds); exact over ℚ in the theorem",
        "the half-slot fallback (margin ≥ slot) is covered for binary64 by halfSlot_le_next_of_relErr under the relative-error bound 2^-53 and exact halving",
    ]
    if not ctx.quick:
        thorough_rebuild(ctx)


def replay(data: dict) -> int:
    from pynenc.orchestrator import atomic_service as A

    r = data["replay"]
    n, iv, mg = r["n"], r["interval_min"], r["margin_min"]
    act = runners(n)
    if "t" in r:
        auth = [p for p in range(n) if A.can_run_atomic_service(f"r{p}", act, r["t"], iv, mg)]
        print("authorised at", r["t"], ":", auth)
        return 1 if len(auth) > 1 else 0
    print([A.calculate_time_slot(p, n, iv, mg, act) for p in range(n)])
    return 0
