"""Value generators, canonical forms and the one-token tree syntax shared with `lean/PynencModel/Driver/C15.lean`."""
from __future__ import annotations

import builtins
import math
import struct
from enum import Enum
from typing import Any

from harness import c15_types as CT
from harness.common import tok

from pynenc.serializer.constants import ReservedKeys as _RK

PREFIX = _RK.CLIENT_DATA.value
RESERVED = [_RK.ERROR.value, _RK.CLIENT_EXCEPTION.value, _RK.JSON_SERIALIZABLE.value, _RK.ENUM.value]
NAN_BITS = 0x7FF8000000000000


# ------------------------------------------------------------------------------------------------
# trees (PyVal of Model/Json.lean) as one token
# ------------------------------------------------------------------------------------------------

def _S(s: str) -> str:
    return "S" + tok(s) + ";"


def fbits(x: float) -> int:
    return struct.unpack("<Q", struct.pack("<d", x))[0]


def is_jsonser(v: Any) -> bool:
    return hasattr(v, "to_json") and hasattr(type(v), "from_json") and not isinstance(v, (BaseException, Enum, type))


class Unrepresentable(Exception):
    pass


def to_tree(v: Any) -> str:
    if v is None:
        return "N"
    if isinstance(v, Enum):
        native = isinstance(v, (int, str, float))
        return "E" + ("1" if native else "0") + _S(type(v).__module__) + _S(type(v).__qualname__) + to_tree(v.value)
    if v is True:
        return "T"
    if v is False:
        return "F"
    if type(v) is int:
        return f"I{v};"
    if type(v) is float:
        return f"D{fbits(v)};"
    if type(v) is str:
        v.encode("utf-8")  # lone surrogates cannot cross the pipe
        return _S(v)
    if type(v) is list:
        return f"L{len(v)};" + "".join(to_tree(x) for x in v)
    if type(v) is tuple:
        return f"U{len(v)};" + "".join(to_tree(x) for x in v)
    if type(v) is dict:
        if not all(type(k) is str for k in v):
            raise Unrepresentable("non-string key")
        return f"M{len(v)};" + "".join(_S(k) + to_tree(x) for k, x in v.items())
    if isinstance(v, BaseException):
        return ("X" + _S(type(v).__module__) + _S(type(v).__qualname__) + _S(str(v)) + f"{len(v.args)};"
                + "".join(to_tree(x) for x in v.args))
    if is_jsonser(v):
        return "O" + _S(type(v).__module__) + _S(type(v).__qualname__) + to_tree(v.to_json())
    raise Unrepresentable(type(v).__name__)


def canon(v: Any) -> Any:
    """Structural, type-exact canonical form used by the oracles (independent of the Lean side)."""
    if v is None or v is True or v is False:
        return ("c", repr(v))
    if isinstance(v, Enum):
        return ("enum", type(v).__module__, type(v).__qualname__, v.name)
    t = type(v)
    if t is int:
        return ("int", v)
    if t is float:
        return ("float", fbits(v))
    if t is str:
        return ("str", v)
    if t is bytes:
        return ("bytes", v)
    if t is list:
        return ("list", tuple(canon(x) for x in v))
    if t is tuple:
        return ("tuple", tuple(canon(x) for x in v))
    if t is dict:
        return ("dict", tuple(sorted(((canon(k), canon(x)) for k, x in v.items()), key=repr)))
    if t in (set, frozenset):
        return (t.__name__, tuple(sorted((canon(x) for x in v), key=repr)))
    if isinstance(v, BaseException):
        # str(e) is a function of class and args (and of set iteration order inside args): not part of the identity
        return ("exc", t.__module__, t.__qualname__, tuple(canon(x) for x in v.args))
    if is_jsonser(v):
        return ("obj", t.__module__, t.__qualname__, canon(v.to_json()))
    return ("other", t.__module__, t.__qualname__, repr(v))


# ------------------------------------------------------------------------------------------------
# generators (all randomness from the rng passed in)
# ------------------------------------------------------------------------------------------------

STR_POOL = [
    "", "a", "abc", "key", "x", "0", " ", "=", ";", '"', "\\", '\\"', '";"', "a=b", "a;b", '"="', "\n", "\\n", "\r\n", "\t",
    "\b", "\f", "\x00", "\x01", "\x1f", "\x7f", "\\u0001", "\u00e9", "e\u0301", "\u6f22\u5b57", "\U0001f600", "\u2028", "\u00ff",
    "\U0010ffff", "no_args", "null", "true", PREFIX, PREFIX + ":x", "__pynenc__", *RESERVED,
]
ALPH = list("ab=;\"\\:.{}[], \n\t\x01\u00e9\u6f22\U0001f600")


def gen_str(rng, maxlen: int = 8) -> str:
    r = rng.random()
    if r < 0.45:
        return rng.choice(STR_POOL)
    if r < 0.6:
        return rng.choice(STR_POOL) + rng.choice(STR_POOL)
    return "".join(rng.choice(ALPH) for _ in range(rng.randint(0, maxlen)))


def gen_ident(rng) -> str:
    return rng.choice("abcdefgh") + "".join(rng.choice("abcxyz_019é") for _ in range(rng.randint(0, 5)))


FLOATS = [0.0, -0.0, 1.0, -1.5, 0.1, 1e308, -1e308, 5e-324, 2.2250738585072014e-308, 1 / 3, 1e16, 123456789.125,
          math.inf, -math.inf, math.nan]


def gen_scalar(rng) -> Any:
    r = rng.random()
    if r < 0.1:
        return None
    if r < 0.2:
        return rng.random() < 0.5
    if r < 0.45:
        return rng.choice([0, 1, -1, 7, 2**31, -(2**63), 2**64 + 1, 10**30, rng.randint(-1000, 1000)])
    if r < 0.65:
        return rng.choice(FLOATS) if rng.random() < 0.7 else rng.uniform(-1e6, 1e6)
    return gen_str(rng)


def gen_key(rng) -> str:
    # reserved keys appear as ordinary keys only through gen_any (outside the round-trip domain)
    s = gen_str(rng)
    return s if s not in RESERVED else s + "_"


def gen_plain(rng, depth: int) -> Any:
    if depth <= 0 or rng.random() < 0.45:
        return gen_scalar(rng)
    if rng.random() < 0.5:
        return [gen_plain(rng, depth - 1) for _ in range(rng.randint(0, 3))]
    return {gen_key(rng): gen_plain(rng, depth - 1) for _ in range(rng.randint(0, 3))}


FALSY = [None, False, 0, 0.0, -0.0, "", [], {}]


def gen_enum(rng) -> Enum:
    return rng.choice(list(rng.choice(CT.ENUMS)))


def gen_exc(rng, argf) -> BaseException:
    cls = rng.choice(CT.BUILTIN_EXCS + CT.EXCS)
    n = rng.choice([0, 1, 1, 2, 3])
    return cls(*[argf() for _ in range(n)])


def gen_obj(rng, dataf) -> Any:
    return rng.choice(CT.OBJS)(dataf())


def gen_wf(rng, depth: int) -> Any:
    """values of the JSON serializer's round-trip domain (`wf` of Model/Json.lean)"""
    r = rng.random()
    if depth <= 0 or r < 0.3:
        return gen_scalar(rng)
    if r < 0.42:
        return gen_enum(rng)
    if r < 0.52:
        return gen_exc(rng, lambda: gen_plain(rng, 1))
    if r < 0.6:
        return gen_obj(rng, lambda: gen_plain(rng, 2))
    if r < 0.8:
        return [gen_wf(rng, depth - 1) for _ in range(rng.randint(0, 3))]
    d = {gen_key(rng): gen_wf(rng, depth - 1) for _ in range(rng.randint(0, 3))}
    if rng.random() < 0.15:  # a reserved key with a falsy payload is an ordinary entry
        d[rng.choice(RESERVED)] = rng.choice(FALSY)
    return d


def gen_any(rng, depth: int) -> Any:
    """also values outside the domain: tuples, truthy reserved payloads, specials nested in args/data"""
    r = rng.random()
    if depth <= 0 or r < 0.25:
        return gen_scalar(rng)
    if r < 0.35:
        return gen_enum(rng)
    if r < 0.45:
        return gen_exc(rng, lambda: gen_any(rng, depth - 1))
    if r < 0.52:
        return gen_obj(rng, lambda: gen_any(rng, depth - 1))
    if r < 0.62:
        return tuple(gen_any(rng, depth - 1) for _ in range(rng.randint(0, 3)))
    if r < 0.8:
        return [gen_any(rng, depth - 1) for _ in range(rng.randint(0, 3))]
    d = {gen_str(rng): gen_any(rng, depth - 1) for _ in range(rng.randint(0, 3))}
    return d


def gen_pickle(rng, depth: int) -> Any:
    """the pickle serializer's domain used here: everything above plus tuples/sets/bytes/int keys"""
    r = rng.random()
    if depth <= 0 or r < 0.3:
        return rng.choice([gen_scalar(rng), b"\x00\xffab", gen_enum(rng)])
    if r < 0.4:
        return gen_exc(rng, lambda: gen_pickle(rng, depth - 1))
    if r < 0.5:
        return tuple(gen_pickle(rng, depth - 1) for _ in range(rng.randint(0, 3)))
    if r < 0.55:
        return {rng.randint(0, 9), gen_str(rng)}
    if r < 0.75:
        return [gen_pickle(rng, depth - 1) for _ in range(rng.randint(0, 3))]
    return {rng.choice([gen_str(rng), rng.randint(0, 5)]): gen_pickle(rng, depth - 1) for _ in range(rng.randint(0, 3))}


def gen_jsonpickle(rng, depth: int) -> Any:
    """conservative jsonpickle domain: scalars, lists, tuples, string-keyed dicts, enums, exceptions with plain
    arguments, simple objects"""
    r = rng.random()
    if depth <= 0 or r < 0.3:
        return gen_scalar(rng)
    if r < 0.4:
        return gen_enum(rng)
    if r < 0.48:
        return rng.choice(CT.BUILTIN_EXCS[:5] + CT.EXCS)(*[gen_scalar(rng) for _ in range(rng.randint(0, 2))])
    if r < 0.55:
        return gen_obj(rng, lambda: gen_plain(rng, 1))
    if r < 0.65:
        return tuple(gen_jsonpickle(rng, depth - 1) for _ in range(rng.randint(0, 3)))
    if r < 0.82:
        return [gen_jsonpickle(rng, depth - 1) for _ in range(rng.randint(0, 3))]
    return {"k" + gen_ident(rng): gen_jsonpickle(rng, depth - 1) for _ in range(rng.randint(0, 3))}


DOMAIN = {"JsonSerializer": gen_wf, "PickleSerializer": gen_pickle, "JsonPickleSerializer": gen_jsonpickle}


def sized_value(rng, serialize, target: int) -> Any:
    """a list of short strings whose serialization is about `target` characters long"""
    v: list = []
    while len(serialize(v)) < target:
        v.append(rng.choice(["a", "bc", "é", "x" * rng.randint(1, 9)]))
    return v


# ------------------------------------------------------------------------------------------------
# registry lines for the Lean driver
# ------------------------------------------------------------------------------------------------

def registry_lines() -> list[str]:
    names = [n for n in dir(builtins)]
    lines = ["json.builtins " + " ".join(tok(n) for n in names)]
    for e in CT.ENUMS:
        native = issubclass(e, (int, str, float))
        members = "L%d;" % len(list(e)) + "".join(to_tree(m.value) for m in e)
        lines.append(f"json.class {tok(e.__module__)} {tok(e.__qualname__)} enum{'1' if native else '0'} {members}")
    for c in CT.EXCS:
        lines.append(f"json.class {tok(c.__module__)} {tok(c.__qualname__)} exc L0;")
    for c in CT.OBJS:
        lines.append(f"json.class {tok(c.__module__)} {tok(c.__qualname__)} obj L0;")
    return lines
