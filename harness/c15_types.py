"""Classes used by the C15 check as argument / result values (enums, exceptions, JsonSerializable objects)."""
from __future__ import annotations

from enum import Enum, IntEnum, IntFlag, StrEnum


class Color(Enum):
    RED = 1
    GREEN = 2
    BLUE = "blue"
    NONE = None


class Level(IntEnum):
    LOW = 1
    HIGH = 7


class Tag(StrEnum):
    A = "a"
    Q = 'q"\\;='


class Sev(str, Enum):
    """the pre-3.11 string-enum idiom: a str mix-in that is not a StrEnum (json.dumps writes such a member bare)"""
    ERROR = "error"
    WARN = "warn"


class Slot(int, Enum):
    ONE = 1
    TWO = 2


class Weight(float, Enum):
    LIGHT = 0.5
    HEAVY = 2.5


class Perm(IntFlag):
    R = 4
    W = 2


class Outer:
    class Inner(Enum):
        X = "x"
        Y = 0


class AppError(Exception):
    pass


class Outer2:
    class DeepError(Exception):
        pass


class TimeoutError(Exception):  # noqa: A001 - on purpose: a user exception that shares its NAME with a builtin (mypkg.TimeoutError)
    pass


class ConnectionError(Exception):  # noqa: A001
    pass


class Money:
    """JsonSerializable: to_json / from_json"""

    def __init__(self, data):  # type: ignore[no-untyped-def]
        self.data = data

    def to_json(self):  # type: ignore[no-untyped-def]
        return self.data

    @classmethod
    def from_json(cls, data):  # type: ignore[no-untyped-def]
        return cls(data)

    def __eq__(self, other):  # type: ignore[no-untyped-def]
        return type(other) is Money and other.data == self.data

    def __hash__(self) -> int:
        return 0

    def __repr__(self) -> str:
        return f"Money({self.data!r})"


class Outer3:
    class Box(Money):
        def __eq__(self, other):  # type: ignore[no-untyped-def]
            return type(other) is Outer3.Box and other.data == self.data

        def __hash__(self) -> int:
            return 1


ENUMS = [Color, Level, Tag, Outer.Inner, Sev, Slot, Weight]
FLAGS = [Perm]  # oracle only: Perm(99) is a pseudo-member, not a ValueError, so the registry's lookup table does not describe it
EXCS = [AppError, Outer2.DeepError, TimeoutError, ConnectionError]
OBJS = [Money, Outer3.Box]
BUILTIN_EXCS = [ValueError, KeyError, RuntimeError, TypeError, ZeroDivisionError, LookupError]


class Node:
    """a tree node that knows its parent (a value with BACK-references: doubly linked structures, ORM-like objects)"""

    def __init__(self, name: str, parent: "Node | None" = None):
        self.name = name
        self.parent = parent
        self.children: list = []
        if parent is not None:
            parent.children.append(self)
