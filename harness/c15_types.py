"""Classes used by the C15 check as argument / result values (enums, exceptions, JsonSerializable objects)."""
from __future__ import annotations

from enum import Enum, IntEnum, StrEnum


class Color(Enum):
    RED = 1
    GREEN = 2
    BLUE = "blue"
    NONE = None


class Level(IntEnum):
    LOW = 1
    HIGH = 7


class Tag(StrEnum):
    A = "a"
    Q = 'q"\\;='


class Outer:
    class Inner(Enum):
        X = "x"
        Y = 0


class AppError(Exception):
    pass


class Outer2:
    class DeepError(Exception):
        pass


class Money:
    """JsonSerializable: to_json / from_json"""

    def __init__(self, data):  # type: ignore[no-untyped-def]
        self.data = data

    def to_json(self):  # type: ignore[no-untyped-def]
        return self.data

    @classmethod
    def from_json(cls, data):  # type: ignore[no-untyped-def]
        return cls(data)

    def __eq__(self, other):  # type: ignore[no-untyped-def]
        return type(other) is Money and other.data == self.data

    def __hash__(self) -> int:
        return 0

    def __repr__(self) -> str:
        return f"Money({self.data!r})"


class Outer3:
    class Box(Money):
        def __eq__(self, other):  # type: ignore[no-untyped-def]
            return type(other) is Outer3.Box and other.data == self.data

        def __hash__(self) -> int:
            return 1


ENUMS = [Color, Level, Tag, Outer.Inner]
EXCS = [AppError, Outer2.DeepError]
OBJS = [Money, Outer3.Box]
BUILTIN_EXCS = [ValueError, KeyError, RuntimeError, TypeError, ZeroDivisionError, LookupError]
