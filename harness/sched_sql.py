"""Deterministic cooperative scheduler for real threads that talk to SQLite through pynenc's
``create_sqlite_connection`` (SQL-statement granularity).  Reusable by every property that needs
statement-level interleavings of SQLite-backed components.

How it works
------------
* ``SqlSched.install()`` replaces, in the given pynenc modules, the name under which they imported
  ``create_sqlite_connection`` (``sqlite_conn`` / ``create_sqlite_connection``) by a factory that,
  *for scheduled threads only*, opens the connection with ``timeout=0`` and without
  ``PRAGMA busy_timeout`` and wraps it in a subclass of pynenc's own ``SQLiteConnection``.
  Other threads (the harness' main thread) get the original factory.
* Every scheduled thread stops *before* each ``execute`` / ``commit`` / ``rollback`` / transaction-ending
  ``__exit__`` and hands the baton back; exactly one thread runs at any time, chosen by a *chooser*.
  One scheduler step = one SQL statement (plus the Python code up to the next one).
* SQLite's lock waiting is emulated at scheduler level: ``pynenc.util.sqlite_utils.time.sleep`` (the
  back-off of ``SQLiteConnection.execute``) marks the thread *blocked* and yields; every commit /
  rollback / thread end unblocks all.  If every live thread is blocked the first one is told to give up:
  its statement raises ``database is locked`` exactly as the real code would after its retries.
* A schedule is the list of thread indices chosen, step by step; it replays exactly
  (``PrefixChooser``).  ``explore`` enumerates schedules depth-first with a bound on pre-emptions
  (switching away from a thread that could have continued); ``RandomChooser`` draws them from an RNG.

Nothing here knows about brokers.
"""
from __future__ import annotations

import importlib
import random
import sqlite3
import threading
import time as _real_time
from dataclasses import dataclass, field
from typing import Any, Callable, Iterator, Sequence

_tls = threading.local()

DEFAULT_PATCH = (
    ("pynenc.util.sqlite_utils", "create_sqlite_connection"),
    ("pynenc.broker.sqlite_broker", "sqlite_conn"),
)


class _Worker:
    def __init__(self, idx: int):
        self.idx = idx
        self.go = threading.Semaphore(0)
        self.done = False
        self.blocked = False
        self.giveup = False
        self.result: Any = None
        self.error: BaseException | None = None
        self.thread: threading.Thread | None = None


@dataclass
class Run:
    """Outcome of one scheduled execution."""
    choices: list[int] = field(default_factory=list)  # thread chosen at each step
    runnable: list[tuple[int, ...]] = field(default_factory=list)  # runnable set at each step
    trace: list[tuple[int, int, str, str]] = field(default_factory=list)  # (step, thread, kind, sql head)
    # effects in execution order: (tick, thread, "q" query succeeded | "w" non-query statement succeeded | "end" transaction ended)
    events: list[tuple[int, int, str]] = field(default_factory=list)
    results: list[Any] = field(default_factory=list)
    errors: list[BaseException | None] = field(default_factory=list)
    lock_waits: int = 0
    gave_up: int = 0
    aborted: bool = False
    deviated: bool = False  # a prefix asked for a thread that was not runnable

    def preemptions(self) -> int:
        return count_preemptions(self.choices, self.runnable)


def count_preemptions(choices: Sequence[int], runnable: Sequence[Sequence[int]]) -> int:
    n = 0
    for k in range(1, len(choices)):
        if choices[k] != choices[k - 1] and choices[k - 1] in runnable[k]:
            n += 1
    return n


# ------------------------------------------------------------------------------------------------
# choosers
# ------------------------------------------------------------------------------------------------

class PrefixChooser:
    """Follow `prefix`, then never pre-empt: keep the current thread while it is runnable, else the
    lowest runnable index."""

    def __init__(self, prefix: Sequence[int] = ()):
        self.prefix = list(prefix)
        self.deviated = False

    def __call__(self, step: int, runnable: list[int], current: int | None) -> int:
        if step < len(self.prefix):
            if self.prefix[step] in runnable:
                return self.prefix[step]
            self.deviated = True
        if current is not None and current in runnable:
            return current
        return runnable[0]


class RandomChooser:
    """Keep the current thread with probability `stay`, else a uniformly random runnable one."""

    def __init__(self, rng: random.Random, stay: float = 0.5):
        self.rng = rng
        self.stay = stay
        self.deviated = False

    def __call__(self, step: int, runnable: list[int], current: int | None) -> int:
        if current is not None and current in runnable and self.rng.random() < self.stay:
            return current
        return self.rng.choice(runnable)


# ------------------------------------------------------------------------------------------------
# scheduler
# ------------------------------------------------------------------------------------------------

class _TimeShim:
    """Stands in for the `time` module inside pynenc.util.sqlite_utils."""

    def __init__(self, sched: "SqlSched"):
        self._sched = sched

    def sleep(self, seconds: float) -> None:
        self._sched._on_backoff(seconds)

    def __getattr__(self, name: str) -> Any:
        return getattr(_real_time, name)


class SqlSched:
    def __init__(self, patch: Sequence[tuple[str, str]] = DEFAULT_PATCH, max_steps: int = 4000):
        self.patch = list(patch)
        self.max_steps = max_steps
        self._saved: list[tuple[Any, str, Any]] = []
        self._back = threading.Semaphore(0)
        self._workers: list[_Worker] = []
        self._run: Run | None = None
        self._aborting = False
        self._step = 0
        self._tick = 0
        self.installed = False

    # -- patching ---------------------------------------------------------------------------------
    def install(self) -> "SqlSched":
        su = importlib.import_module("pynenc.util.sqlite_utils")
        base_cls = su.SQLiteConnection
        original = su.create_sqlite_connection
        sched = self

        class SchedConnection(base_cls):  # type: ignore[misc, valid-type]
            """pynenc's SQLiteConnection with a yield point before every statement."""

            def execute(self, sql, parameters=(), /):  # noqa: ANN001
                sched._yield("exec", sql)
                fault = getattr(sched, "lock_fault", None)
                if fault is not None:
                    w = getattr(_tls, "worker", None)
                    if w is not None and fault(w.idx, sql):
                        # the lock could not be had within pynenc's own retries (another process holds the database for long)
                        raise sqlite3.OperationalError("database is locked")
                while True:
                    try:
                        # the real retry loop; its back-off sleep is the scheduler's lock wait
                        cur = base_cls.execute(self, sql, parameters)
                        sched._event("q" if getattr(cur, "description", None) else "w")
                        return cur
                    except sqlite3.OperationalError as e:
                        if "locked" in str(e) and sched._keep_waiting():
                            continue
                        raise

            def commit(self):  # noqa: ANN201
                live = self._conn.in_transaction
                if live:
                    sched._yield("commit", "")
                try:
                    return self._conn.commit()
                finally:
                    sched._released(live)

            def rollback(self):  # noqa: ANN201
                live = self._conn.in_transaction
                if live:
                    sched._yield("rollback", "")
                try:
                    return self._conn.rollback()
                finally:
                    sched._released(live)

            def close(self):  # noqa: ANN201
                live = self._conn.in_transaction
                try:
                    return self._conn.close()
                finally:
                    sched._released(live)

            def __exit__(self, exc_type, exc_val, exc_tb):  # noqa: ANN001
                live = self._conn.in_transaction
                if live:
                    sched._yield("exit-rollback" if exc_type else "exit-commit", "")
                try:
                    return base_cls.__exit__(self, exc_type, exc_val, exc_tb)
                finally:
                    sched._released(live)

        def factory(sqlite_db_path):  # noqa: ANN001
            if getattr(_tls, "worker", None) is None:
                return original(sqlite_db_path)
            conn = sqlite3.connect(str(sqlite_db_path), timeout=0, check_same_thread=False)
            try:
                conn.execute("PRAGMA journal_mode=WAL")
                conn.execute("PRAGMA synchronous=NORMAL")
                conn.execute("PRAGMA cache_size=10000")
                conn.execute("PRAGMA temp_store=MEMORY")
                # deliberately no busy_timeout: lock waits are the scheduler's business
            except sqlite3.DatabaseError:
                pass
            return SchedConnection(conn)

        for modname, attr in self.patch:
            mod = importlib.import_module(modname)
            if hasattr(mod, attr):
                self._saved.append((mod, attr, getattr(mod, attr)))
                setattr(mod, attr, factory)
        self._saved.append((su, "time", su.time))
        su.time = _TimeShim(self)
        self.installed = True
        return self

    def uninstall(self) -> None:
        for mod, attr, val in reversed(self._saved):
            setattr(mod, attr, val)
        self._saved.clear()
        self.installed = False

    def __enter__(self) -> "SqlSched":
        return self.install()

    def __exit__(self, *a: Any) -> None:
        self.uninstall()

    # -- called from worker threads -----------------------------------------------------------------
    def _yield(self, kind: str, sql: str) -> None:
        w: _Worker | None = getattr(_tls, "worker", None)
        if w is None or self._aborting:
            return
        self._back.release()
        w.go.acquire()
        if self._run is not None:
            self._run.trace.append((self._step, w.idx, kind, " ".join(sql.split())[:60]))

    def _on_backoff(self, seconds: float) -> None:
        w: _Worker | None = getattr(_tls, "worker", None)
        if w is None:
            _real_time.sleep(seconds)
            return
        if w.giveup or self._aborting:
            return
        w.blocked = True
        if self._run is not None:
            self._run.lock_waits += 1
        self._back.release()
        w.go.acquire()

    def _keep_waiting(self) -> bool:
        """`database is locked` survived pynenc's own retries: keep waiting unless told to give up."""
        w: _Worker | None = getattr(_tls, "worker", None)
        if w is None or self._aborting:
            return False
        if w.giveup:
            w.giveup = False
            return False
        return True

    def _released(self, ended_transaction: bool = False) -> None:
        if ended_transaction:
            self._event("end")
        for w in self._workers:
            w.blocked = False

    def _event(self, kind: str) -> None:
        w: _Worker | None = getattr(_tls, "worker", None)
        if w is not None and self._run is not None:
            self._run.events.append((self._tick, w.idx, kind))

    def now(self) -> int:
        """Logical time for invocation/response stamps of operation histories (one tick per call)."""
        self._tick += 1
        return self._tick

    # -- running ------------------------------------------------------------------------------------
    def run(self, bodies: Sequence[Callable[[], Any]], chooser: Callable[[int, list[int], int | None], int]) -> Run:
        assert self.installed, "install() first"
        run = Run()
        self._run = run
        self._aborting = False
        self._step = 0
        self._tick = 0
        self._workers = [_Worker(i) for i in range(len(bodies))]
        self._back = threading.Semaphore(0)

        def main(w: _Worker, body: Callable[[], Any]) -> None:
            w.go.acquire()
            _tls.worker = w
            try:
                w.result = body()
            except BaseException as e:  # noqa: BLE001
                w.error = e.with_traceback(None)  # do not keep frames (and their connections) alive
            finally:
                _tls.worker = None
                w.done = True
                self._released()
                self._back.release()

        for w, body in zip(self._workers, bodies):
            w.thread = threading.Thread(target=main, args=(w, body), daemon=True)
            w.thread.start()
        current: int | None = None
        while True:
            alive = [w for w in self._workers if not w.done]
            if not alive:
                break
            runnable = [w.idx for w in alive if not w.blocked]
            if not runnable:
                v = alive[0]
                v.giveup = True
                v.blocked = False
                run.gave_up += 1
                runnable = [v.idx]
            c = chooser(self._step, runnable, current)
            if c not in runnable:
                c = runnable[0]
            run.choices.append(c)
            run.runnable.append(tuple(runnable))
            self._workers[c].go.release()
            self._back.acquire()
            current = c
            self._step += 1
            if self._step > self.max_steps:
                run.aborted = True
                self._aborting = True
                for w in self._workers:
                    w.blocked = False
                    w.go.release()
                break
        for w in self._workers:
            assert w.thread is not None
            w.thread.join(timeout=30)
        run.results = [w.result for w in self._workers]
        run.errors = [w.error for w in self._workers]
        run.deviated = bool(getattr(chooser, "deviated", False))
        self._run = None
        return run


# ------------------------------------------------------------------------------------------------
# exploration
# ------------------------------------------------------------------------------------------------

def explore(run_one: Callable[[Callable], Run], max_preemptions: int, max_schedules: int = 100000) -> Iterator[Run]:
    """Depth-first enumeration of all schedules with at most `max_preemptions` pre-emptions.
    `run_one(chooser)` must reset the system under test, execute it under the chooser and return the Run;
    the system must be deterministic given the schedule."""
    stack: list[list[int]] = [[]]
    n = 0
    while stack and n < max_schedules:
        prefix = stack.pop()
        run = run_one(PrefixChooser(prefix))
        n += 1
        yield run
        if run.deviated or run.aborted:
            continue
        for k in range(len(run.choices) - 1, len(prefix) - 1, -1):
            for alt in run.runnable[k]:
                if alt == run.choices[k]:
                    continue
                newp = run.choices[:k] + [alt]
                if count_preemptions(newp, run.runnable[: k + 1]) <= max_preemptions:
                    stack.append(newp)
