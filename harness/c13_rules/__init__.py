"""two modules that each define a payload filter called `accepts` (C13: filters are told apart by what they are, not by their bare name)"""
