def accepts(payload):  # type: ignore[no-untyped-def]
    return payload.get("n") == "eu"
