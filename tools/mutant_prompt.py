#!/usr/bin/env python3
"""prints the prompt for a mutant-seeding sub-agent: tools/mutant_prompt.py C05"""
import json, sys
pid = sys.argv[1]
round_ = sys.argv[2] if len(sys.argv) > 2 else ""      # e.g. "r2": second round, different kinds of change wanted
p = next(json.loads(l) for l in open('/verif/properties.jsonl') if json.loads(l)["id"] == pid)
base = f"/tmp/mut-{pid.lower()}{round_}"
wt = f"{base}/wt"
out = f"{base}/out"
avoid = ""
if round_:
    import re
    rows = re.findall(r'^\| ' + pid + r'-m\d+(?: \([^)]*\))? \| (.*?) \|', open('/verif/DESIGN.md').read(), re.M)
    if rows:
        avoid = ("\n## Already tried (do NOT repeat these ideas or close variants; find different code sites and different failure modes)\n"
                 + "\n".join(f"- {r}" for r in rows) + "\n")
print(f"""You are testing how well a verification effort can detect realistic regressions in the Python project **pynenc** (a distributed task orchestrator with in-memory and SQLite backends). You get ONE semantic property the project is supposed to satisfy, and your own scratch git worktree of the repository at `{wt}` (already created; work ONLY there; never touch `/repo` and do not read anything under `/verif`).

## The property ({pid}): {p['title']}
Statement: {p['statement']}
Quantified over: {p['quantifier']['text']}
Why the existing tests cannot settle it: {p['why_tests_cant']}
Code it is anchored in: {', '.join(p['anchors']['files'])}
Mechanisms meant to make it hold: {'; '.join(m['name'] + ' (' + m.get('where','') + ')' for m in p['anchors']['mechanism'])}

{avoid}
## Your task
Produce **two different** small source changes ("mutants") to the pynenc package (files under `{wt}/pynenc` or `{wt}/pynmon`) such that, for each one:
1. the package still imports and the EXISTING test suite still passes (the change must not be caught by `pynenc_tests/`);
2. the property above is genuinely violated by the changed code;
3. the violation needs something specific to manifest — a particular interleaving, a crash or fault at a particular point, a multi-step sequence of operations, an unusual input or configuration, or two cooperating code sites that each look fine alone — NOT something ordinary use would expose at once; think of a plausible well-meant refactoring, optimisation or "simplification" a maintainer could commit;
4. you provide a demonstration: a small self-contained Python program `demo.py` that exits 0 on the UNCHANGED tree and exits non-zero (printing what went wrong) on the changed tree. It is run as `PYTHONPATH=<tree> /venv/bin/python demo.py` from its own directory, where `<tree>` is a checkout of the repo with or without the patch. The demo may use threads, monkey-patching of pynenc internals to force an interleaving or inject a fault, temporary SQLite files (use `tempfile`), etc. It must be deterministic (or repeat until certain) and finish in under 60 s. Task functions must live in a module, not in `__main__` (write a helper module next to demo.py, e.g. `demo_tasks.py`, and `sys.path.insert(0, os.path.dirname(__file__))`). To build apps use `from pynenc.builder import PynencBuilder; app = PynencBuilder().app_id("x").memory().build()` or `.sqlite(path)`; tasks: `t = app.task(func, **options)`; silence logging with `logging.disable(logging.CRITICAL)`.

The two mutants must be different in kind (different code site or different failure mode), and as subtle as you can make them.

## How to work
- Python: `/venv/bin/python` (pynenc's dependencies are installed; `PYTHONPATH={wt}` makes your worktree the imported package — verify with `python -c "import pynenc; print(pynenc.__file__)"`).
- Read the anchored source files first. Then for each mutant: edit the worktree, run the most relevant existing tests, e.g. `cd {wt} && PYTHONPATH={wt} /venv/bin/python -m pytest -q -p no:cacheprovider pynenc_tests/unit/<area> > {base}/log.txt 2>&1` (ALWAYS redirect pytest output to a file and read the tail of the file; never pipe it — some tests spawn processes that keep pipes open; do not run the whole suite (6 minutes) and do NOT run `pynenc_tests/integration/combinations` at all (multi-process, slow, flaky under load; the maintainer runs the full suite separately) — run only the unit directories and the small integration directories related to the files you touched, at most two pytest runs per mutant), write the demo, check it fails with the patch and passes without (NEVER use `git stash` — it is shared between worktrees; use `git diff > {base}/cur.patch; git checkout -- .` and `git apply {base}/cur.patch`).
- Save each mutant as `{out}/m1/` and `{out}/m2/` containing: `patch.diff` (from `git -C {wt} diff`, must apply with `git apply` on a clean checkout of HEAD), `demo.py` (+ helper modules), and `notes.md` (what the change is, why a maintainer might make it, why the tests do not notice, exactly what it needs in order to manifest, which tests you ran and their result).
- Before you finish, make sure that no process you started is still running (`ps -eo pid,ppid,cmd | grep -E 'pytest|multiprocessing|demo.py'`; kill what is yours) and delete the temporary files and directories you created outside `{base}` (pytest leaves `tmp*.db*` files in /tmp: remove those you made). Disk space is short.
- Leave the worktree CLEAN at the end (`git -C {wt} checkout -- . && git -C {wt} status --short` shows nothing).

Final message: for each mutant a 5-line summary (files touched, idea, what the demo does, demo results with/without patch, tests run).""")
