#!/usr/bin/env python3
"""Re-run every kept seeded change against the CURRENT checks (regression test of the checks' detection power).

  tools/seed_recheck.py [C05-m1 ...]      -> seeded/STATUS.json, one line per change

Each change is evaluated by tools/seed_eval.py in scratch copies (patch applies, demo clean/patched, check detects)."""
import json
import os
import subprocess
import sys
import time

SEEDED = "/verif/seeded"
only = sys.argv[1:]
names = sorted(n for n in os.listdir(SEEDED) if os.path.isdir(os.path.join(SEEDED, n)) and (not only or n in only))
status_path = os.path.join(SEEDED, "STATUS.json")
status = json.load(open(status_path)) if os.path.exists(status_path) else {}
import threading
from concurrent.futures import ThreadPoolExecutor

JOBS = int(os.environ.get("SEED_RECHECK_JOBS", "4"))
lock = threading.Lock()


def one(n: str) -> None:
    d = os.path.join(SEEDED, n)
    try:
        meta = json.load(open(os.path.join(d, "meta.json")))
    except Exception as e:  # noqa: BLE001  (being rewritten by an evaluation that runs at the same time)
        print(n, "skipped:", repr(e)[:80], flush=True)
        return
    check = meta.get("check", {}).get("cmd", "").split()[1] if meta.get("check", {}).get("cmd", "").startswith("./check") else meta["property"]
    before = open(os.path.join(d, "eval.json")).read() if os.path.exists(os.path.join(d, "eval.json")) else None
    t0 = time.time()
    p = subprocess.run(["python3", "/verif/tools/seed_eval.py", d, meta["property"], meta["name"], "--check", check], capture_output=True, text=True)
    try:
        res = json.loads(p.stdout[: p.stdout.rfind("}") + 1])
    except Exception:
        res = {"error": (p.stdout + p.stderr)[-300:]}
    if before is not None:
        open(os.path.join(d, "eval.json"), "w").write(before)     # keep the committed record of the first evaluation
    with lock:
        status[n] = {"check": check, "detected": res.get("detected"), "concrete_input": res.get("concrete_input"), "demo_ok": res.get("demo_ok"),
                     "patch_applies": res.get("patch_applies"), "wall_s": round(time.time() - t0, 1), "at": time.strftime("%Y-%m-%d %H:%M")}
        print(n, status[n], flush=True)
        json.dump(status, open(status_path, "w"), indent=1, sort_keys=True)


with ThreadPoolExecutor(max_workers=JOBS) as ex:
    list(ex.map(one, names))
