#!/usr/bin/env python3
"""Run the pinned pynenc test suite on every seeded mutant (sequentially, in scratch copies) and record the result in
seeded/<id>/meta.json.  A baseline run on the unpatched tree is taken first (and every 6 mutants) so that tests that are flaky
under the current machine load are known: a mutant "passes the suite" when every test that fails on it also failed in a baseline run
(or passes when re-run alone).

  tools/suite_queue.py [--only C05-m1 ...] [--force]
"""
import json
import os
import re
import shutil
import subprocess
import sys
import tempfile
import time

VERIF = "/verif"
SEEDED = os.path.join(VERIF, "seeded")
only = [a for a in sys.argv[1:] if not a.startswith("--")]
force = "--force" in sys.argv


def run_suite(tree: str, log: str, select: list[str] | None = None) -> tuple[str, set[str]]:
    sel = " ".join(f'"{s}"' for s in select) if select else ""
    cmd = f"cd {tree} && PYTHONPATH={tree} timeout 1800 /venv/bin/python -m pytest -q -p no:cacheprovider --timeout=900 -q {sel} > {log} 2>&1 < /dev/null"
    subprocess.run(cmd, shell=True)
    txt = open(log, errors="replace").read()
    m = re.findall(r"^=* ?(\d+ (?:passed|failed).*?) in [\d.]+s", txt, re.M)
    # test ids may contain spaces ("[SQLite PersistentProcess Json-sigterm]"); the short summary appends " - <message>"
    failed = set(m.strip() for m in re.findall(r"^(?:FAILED|ERROR) (pynenc_tests/\S+?::.+?)(?: - .*)?$", txt, re.M))
    return (m[-1] if m else "no summary (timeout?)"), failed


def scratch(patch: str | None) -> str:
    d = tempfile.mkdtemp(prefix="suite-")
    subprocess.run(f"git -C /repo archive HEAD | tar -x -C {d}", shell=True, check=True)
    if patch:
        p = subprocess.run(["git", "apply", "--unsafe-paths", f"--directory={d}", patch], cwd="/", capture_output=True, text=True)
        if p.returncode != 0:
            subprocess.run(f"cd {d} && patch -p1 < {patch}", shell=True, check=True)
    return d


baseline_failed: set[str] = set()


def baseline() -> None:
    d = scratch(None)
    try:
        summ, failed = run_suite(d, "/tmp/suite-baseline.log")
        baseline_failed.update(failed)
        print(time.strftime("%H:%M:%S"), "baseline:", summ, sorted(failed)[:4], flush=True)
    finally:
        shutil.rmtree(d, ignore_errors=True)


names = sorted(n for n in os.listdir(SEEDED) if os.path.isdir(os.path.join(SEEDED, n)))
if only:
    names = [n for n in names if n in only]
todo = []
for n in names:
    meta = json.load(open(os.path.join(SEEDED, n, "meta.json")))
    if force or not str(meta.get("confirmed", {}).get("suite", "not run")).strip() or meta["confirmed"].get("suite") == "not run":
        todo.append(n)
print("to run:", todo, flush=True)
for k, n in enumerate(todo):
    if k % 6 == 0:
        baseline()
    mp = os.path.join(SEEDED, n, "meta.json")
    meta = json.load(open(mp))
    d = scratch(os.path.join(SEEDED, n, "patch.diff"))
    try:
        summ, failed = run_suite(d, f"/tmp/suite-{n}.log")
        new = failed - baseline_failed
        retry = ""
        if new:
            summ2, failed2 = run_suite(d, f"/tmp/suite-{n}-retry.log", sorted(new))
            retry = f"; re-run of {len(new)} failing test(s) alone: {summ2}"
            new = failed2
        meta.setdefault("confirmed", {})["suite"] = summ + retry
        meta["confirmed"]["suite_failed_only_on_mutant"] = sorted(new)
        meta["confirmed"]["suite_failed_also_on_baseline"] = sorted(failed & baseline_failed)
        # a run that produced no summary (killed by the 30-minute timeout: some test hangs) is NOT a pass
        meta["confirmed"]["suite_passes"] = (not new) and not summ.startswith("no summary")
        json.dump(meta, open(mp, "w"), indent=1)
        print(time.strftime("%H:%M:%S"), n, summ, retry, "NEW FAILURES:" if new else "ok", sorted(new)[:4], flush=True)
    finally:
        shutil.rmtree(d, ignore_errors=True)
