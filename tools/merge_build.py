#!/usr/bin/env python3
"""Merge a builder's private copy (/tmp/build-<id>) into /verif:  tools/merge_build.py c08
Copies new files, dumps the builder's manifest entry to harness/manifest_entries/<Cxx>.json, shows diffs of shared files."""
import importlib.util, json, shutil, subprocess, sys
from pathlib import Path

bid = sys.argv[1]
src = Path(f"/tmp/build-{bid}")
dst = Path("/verif")
SKIP = {"BUILDER_PROMPT.md", "MANIFEST.json", "lean/PynencModel.lean", "lean/Main.lean", "harness/manifest.py"}
out = subprocess.run(["git", "status", "--porcelain", "-uall"], cwd=src, capture_output=True, text=True).stdout
for line in out.splitlines():
    st, path = line[:2], line[3:]
    if path in SKIP or path.startswith(("evidence/", "replays/")) or "__pycache__" in path:
        continue
    if st.strip() == "??":
        (dst / path).parent.mkdir(parents=True, exist_ok=True)
        shutil.copy2(src / path, dst / path)
        print("copied", path)
    else:
        d = subprocess.run(["diff", "-u", str(dst / path), str(src / path)], capture_output=True, text=True).stdout
        print(f"--- shared file changed: {path} ({len(d.splitlines())} diff lines)")
        if len(sys.argv) > 2:
            print(d)
spec = importlib.util.spec_from_file_location("their_manifest", src / "harness/manifest.py")
mod = importlib.util.module_from_spec(spec)
sys.path.insert(0, str(src))
spec.loader.exec_module(mod)
mine = json.loads((dst / "harness/manifest_entries/_builtin.json").read_text()) if (dst / "harness/manifest_entries/_builtin.json").exists() else {}
for k, v in mod.CHECKS.items():
    if k.lower() == bid.lower():
        (dst / f"harness/manifest_entries/{k}.json").write_text(json.dumps(v, indent=1, ensure_ascii=False))
        print("manifest entry", k)
