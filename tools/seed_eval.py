#!/usr/bin/env python3
"""Evaluate a seeded mutant and (optionally) keep it under /verif/seeded/.

  tools/seed_eval.py <src dir with patch.diff + demo.py> <Cxx> <name> [--suite] [--keep] [--tier quick]

Steps (all in scratch copies of /repo outside /repo and /verif, removed afterwards):
  1. patch applies to /repo HEAD;  2. demo passes on the clean tree and fails on the patched tree;
  3. (--suite) the pinned test suite passes on the patched tree;  4. the property's check reports a VIOLATION on the patched tree
  (and stays quiet on the clean tree).  Result -> <src>/eval.json, and with --keep the mutant is copied to seeded/<Cxx>-<name>/.
"""
import json
import os
import shutil
import subprocess
import sys
import tempfile
import time

src, prop, name = sys.argv[1], sys.argv[2], sys.argv[3]
flags = sys.argv[4:]
tier = flags[flags.index("--tier") + 1] if "--tier" in flags else "quick"
check_prop = flags[flags.index("--check") + 1] if "--check" in flags else prop   # the check to run (default: the targeted property's)
VERIF = "/verif"
res: dict = {"property": prop, "name": name, "at": time.strftime("%Y-%m-%d %H:%M:%S")}


def sh(cmd, cwd=None, env=None, timeout=3600):
    e = dict(os.environ)
    e.update(env or {})
    p = subprocess.run(cmd, cwd=cwd, env=e, capture_output=True, text=True, timeout=timeout, shell=isinstance(cmd, str))
    return p.returncode, p.stdout + p.stderr


def scratch(patched: bool) -> str:
    d = tempfile.mkdtemp(prefix="seed-")
    sh(f"git -C /repo archive HEAD | tar -x -C {d}")
    if patched:
        rc, out = sh(["git", "apply", "--unsafe-paths", f"--directory={d}", os.path.join(src, "patch.diff")], cwd="/")
        if rc != 0:
            rc, out = sh(f"cd {d} && patch -p1 < {os.path.join(src, 'patch.diff')}")
        res["patch_applies"] = rc == 0
        if rc != 0:
            res["patch_error"] = out[-400:]
    return d


clean, mut = scratch(False), scratch(True)
try:
    if res.get("patch_applies"):
        for label, tree in (("clean", clean), ("patched", mut)):
            rc, out = sh(["/venv/bin/python", "demo.py"], cwd=src, env={"PYTHONPATH": tree}, timeout=300)
            res[f"demo_{label}_rc"] = rc
            res[f"demo_{label}_tail"] = out[-300:]
        res["demo_ok"] = res["demo_clean_rc"] == 0 and res["demo_patched_rc"] != 0
        if "--suite" in flags:
            log = os.path.join(src, "suite.log")
            rc, _ = sh(f"cd {mut} && PYTHONPATH={mut} timeout 1500 /venv/bin/python -m pytest -q -p no:cacheprovider --timeout=900 -q > {log} 2>&1 < /dev/null", timeout=1700)
            tail = subprocess.run(f"grep -E 'passed|failed' {log} | tail -1", shell=True, capture_output=True, text=True).stdout.strip()
            failed = subprocess.run(f"grep -E '^FAILED' {log} | head -5", shell=True, capture_output=True, text=True).stdout.strip()
            res["suite_rc"], res["suite_summary"], res["suite_failed"] = rc, tail, failed
        # the check
        lean_copy = os.path.join(mut, ".verif-lean")
        sh(f"cp -a {VERIF}/lean {lean_copy}")
        env = {"PYNENC_REPO": mut, "PYTHONPATH": f"{VERIF}:{mut}", "PYNENC_VERIF": "1", "PYTHONDONTWRITEBYTECODE": "1", "VERIF_LEAN_DIR": lean_copy,
               "VERIF_EVIDENCE_DIR": os.path.join(mut, ".verif-evidence"), "VERIF_REPLAY_DIR": os.path.join(src, "replays")}
        t0 = time.time()
        rc, out = sh(["/venv/bin/python", "-m", "harness.run", check_prop, "--tier", tier], cwd=VERIF, env=env, timeout=3000)
        res["check_rc"], res["check_wall_s"] = rc, round(time.time() - t0, 1)
        lines = [l for l in out.splitlines() if l.startswith("VIOLATION") or l.startswith("  ")]
        res["check_violation_lines"] = [l[:300] for l in lines[:8]]
        res["detected"] = rc == 1 and any(l.startswith("VIOLATION") for l in out.splitlines())
        res["concrete_input"] = res["detected"] and not all("no-failing-input-found" in l for l in out.splitlines() if l.startswith("VIOLATION"))
finally:
    shutil.rmtree(clean, ignore_errors=True)
    shutil.rmtree(mut, ignore_errors=True)

json.dump(res, open(os.path.join(src, "eval.json"), "w"), indent=1)
print(json.dumps({k: v for k, v in res.items() if not k.endswith("_tail")}, indent=1))
if "--keep" in flags and res.get("patch_applies") and res.get("demo_ok"):
    dst = os.path.join(VERIF, "seeded", f"{prop}-{name}")
    os.makedirs(dst, exist_ok=True)
    for f in os.listdir(src):
        if f in ("suite.log",) or f.startswith("__pycache__"):
            continue
        s = os.path.join(src, f)
        (shutil.copytree if os.path.isdir(s) else shutil.copy2)(s, os.path.join(dst, f), **({"dirs_exist_ok": True} if os.path.isdir(s) else {}))
    notes = open(os.path.join(src, "notes.md")).read() if os.path.exists(os.path.join(src, "notes.md")) else ""
    meta = {"property": prop, "name": name, "needs_to_manifest": notes[:1500], "demo": "PYTHONPATH=<tree> /venv/bin/python demo.py (0 on clean, non-zero on patched)",
            "confirmed": {"patch_applies": res.get("patch_applies"), "demo_clean_rc": res.get("demo_clean_rc"), "demo_patched_rc": res.get("demo_patched_rc"),
                          "suite": res.get("suite_summary", "not run"), "suite_failed": res.get("suite_failed", "")},
            "check": {"cmd": f"./check {check_prop} --tier {tier} (against a scratch copy with the patch)", "detected": res.get("detected"), "concrete_input": res.get("concrete_input"),
                      "violation_lines": res.get("check_violation_lines"), "wall_s": res.get("check_wall_s")}}
    json.dump(meta, open(os.path.join(dst, "meta.json"), "w"), indent=1)
    print("kept as", dst)
