#!/bin/bash
# tools/thorough_all.sh [Cxx ...] : run the thorough tier of the given (default: all) checks against /repo with scratch lean / evidence / replay
# directories, so that it can run next to other work; one summary line per check in /tmp/thorough_all.log
cd /verif
D=/tmp/thor-$$
mkdir -p $D
cp -a /verif/lean $D/lean
LIST="$@"
[ -z "$LIST" ] && LIST="C01 C03 C05 C06 C07 C08 C09 C10 C11 C12 C13 C14 C15 C16 C17 C18 C19 C20 C04 C02"
for c in $LIST; do
  s=$(date +%s)
  out=$(VERIF_LEAN_DIR=$D/lean VERIF_EVIDENCE_DIR=$D/evidence VERIF_REPLAY_DIR=$D/replays timeout 7200 ./check $c --tier thorough 2>&1 | grep -E "^$c |VIOLATION|infrastructure|Traceback" | head -5)
  echo "$(date +%H:%M:%S) [$(( $(date +%s) - s ))s] $out" >> /tmp/thorough_all.log
done
echo "$(date +%H:%M:%S) done (scratch $D kept: evidence under $D/evidence)" >> /tmp/thorough_all.log
