#!/bin/bash
# tools/seed_rebase.sh <Cxx-mN> : re-create seeded/<id>/patch.diff against the current /repo HEAD (the context of a kept change moved because
# of a later repair); uses patch(1) with fuzz on a scratch export, keeps the old file as patch.diff.orig
set -e
ID=$1; S=/verif/seeded/$ID
D=$(mktemp -d /tmp/rebase-XXXX)
git -C /repo archive HEAD | tar -x -C $D
cd $D && git init -q && git add -A >/dev/null && git -c user.email=a@b -c user.name=x commit -qm base
if patch -p1 -F3 --no-backup-if-mismatch < $S/patch.diff > $D/.patch.log 2>&1; then
  find . -name '*.orig' -delete; find . -name '*.rej' -delete
  cp $S/patch.diff $S/patch.diff.orig
  git diff > $S/patch.diff
  echo "rebased $ID ($(grep -c '^[-+][^-+]' $S/patch.diff) changed lines)"
else
  echo "FAILED to rebase $ID"; cat $D/.patch.log | tail -5
fi
cd /; rm -rf $D
