#!/bin/bash
# tools/mutant_run.sh <patchfile|-> <Cxx> [tier]   : run a check against a scratch copy of /repo with a patch applied
set -e
P=$1; C=$2; T=${3:-quick}
D=$(mktemp -d /tmp/repo-mut-XXXX)
cp -a /repo/. $D/
if [ "$P" != "-" ]; then (cd $D && git apply "$P"); fi
cd /verif
cp -a /verif/lean $D/.verif-lean
VERIF_LEAN_DIR=$D/.verif-lean VERIF_EVIDENCE_DIR=$D/.verif-evidence VERIF_REPLAY_DIR=$D/.verif-replays PYNENC_REPO=$D PYTHONPATH=/verif:$D PYNENC_VERIF=1 PYTHONDONTWRITEBYTECODE=1 /venv/bin/python -m harness.run $C --tier $T 2>&1 | tail -${LINES_OUT:-8} || true
rm -rf $D
