import PynencModel.Props.C02
import PynencModel.Props.C02Excl
open Pynenc.C02 Pynenc.C02X Pynenc.C02X.CvProofs
#print axioms claim_only_from_available
#print axioms second_claim_refused
#print axioms claim_preceded_by_release
#print axioms claim_claim_has_release
#print axioms only_owner_moves
#print axioms running_exits
#print axioms bodyInv_step
#print axioms bodyInv_init
#print axioms no_double_body
#print axioms reregistration_changes_nothing
#print axioms registration_creates_registered
#print axioms inv_step
#print axioms mutual_exclusion
#print axioms write_replaces_what_was_read
#print axioms no_lost_update
#print axioms check_then_create_lets_two_in
#print axioms condition_with_recheck_excludes
#print axioms condition_without_recheck_lets_two_in
#print axioms code_is_lookup_enter_read_decide_write_leave
