import PynencModel.Props.C02
open Pynenc.C02
#print axioms claim_only_from_available
#print axioms second_claim_refused
#print axioms claim_preceded_by_release
#print axioms claim_claim_has_release
#print axioms only_owner_moves
#print axioms running_exits
#print axioms bodyInv_step
#print axioms bodyInv_init
#print axioms no_double_body
#print axioms reregistration_changes_nothing
#print axioms registration_creates_registered
