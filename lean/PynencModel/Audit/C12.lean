import PynencModel.Props.C12
import PynencModel.Props.C12Gen
open Pynenc.C12 Pynenc.C12G
#print axioms flOK_id
#print axioms slotStart_mono
#print axioms slotEnd_le_next_start
#print axioms mutual_exclusion_fl
#print axioms at_most_one_authorised
#print axioms unknown_runner_never
#print axioms single_runner_always
#print axioms halfSlotOK_id
#print axioms mutual_exclusion
#print axioms margin_separation
#print axioms every_runner_has_window
#print axioms fmod_shift
#print axioms authorised_in_every_cycle
#print axioms halfSlot_le_next_of_relErr
#print axioms gen_slot_is_the_model
#print axioms translated_source_excludes
