import PynencModel.Props.C07
import PynencModel.Props.C07Inv
open Pynenc.C07
#print axioms reuse_changes_nothing
#print axioms routeCall_answer
#print axioms keys_raise_rejects_and_changes_nothing
#print axioms disabled_always_new
#print axioms registered_only_by_registration
#print axioms new_only_when_none_registered
#print axioms keyIn_symm
#print axioms newInvocation_preserves
#print axioms routeCall_preserves
#print axioms setStatus_preserves
#print axioms census_init
#print axioms census_holds_after_any_history
