import PynencModel.Props.C16
open Pynenc.C16
#print axioms mem_and_match_eq_sql_joins
#print axioms existingMem_eq_existing
#print axioms page_mem_eq_sql
#print axioms page_all_integers_agree
#print axioms page_negative_diverged_before_repair
#print axioms page_is_sorted_slice_of_candidates
#print axioms count_eq_length_all
#print axioms filter_by_status_spec
#print axioms mem_filter_by_status_eq_sql
#print axioms history_mem_eq_sql_of_distinct_instants
#print axioms history_same_instant_diverges
#print axioms purge_resets_every_component
#print axioms purged_answers_like_fresh
#print axioms retries_monotone
#print axioms family_algorithms_agree
#print axioms auto_purge_spec
#print axioms observations_deterministic
