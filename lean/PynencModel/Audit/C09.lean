import PynencModel.Props.C09
import PynencModel.Props.C09Announce
open Pynenc.C09 Pynenc.C09A
#print axioms ready_eq_definition
#print axioms wait_graph_invariants
#print axioms raw_empty_wait_breaks_ready
#print axioms stores_record_standing_waits
#print axioms release_clears
#print axioms announce_on_finished_records_nothing
#print axioms announce_alone_left_an_edge_on_finished
#print axioms inv_step
#print axioms repaired_no_stale_edge
#print axioms repaired_tracks_open_wait
#print axioms announce_only_leaves_stale_edge
#print axioms programs_follow_the_model
#print axioms blocking_spec
#print axioms blocking_spec_sql
#print axioms prefix_facts
#print axioms mem_blocking_eq_sql_blocking
#print axioms mem_sql_diverge_without_premise
#print axioms final_not_available
#print axioms progress_enabled
#print axioms wfb_sound
#print axioms step_decreases
#print axioms tree_completes
#print axioms deadlock_if_waiting_counts_busy
