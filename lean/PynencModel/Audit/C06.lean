import PynencModel.Props.C06
open Pynenc.C06
#print axioms oneActive_step
#print axioms no_two_running_partial
#print axioms different_keys_independent
#print axioms full_statement_refuted
#print axioms two_pollers_break_it
#print axioms blocked_outcome
#print axioms blocked_retry_raises
#print axioms poll_raises_on_blocked_retry
#print axioms pollB_nil
#print axioms awaited_same_key_claimed_once
