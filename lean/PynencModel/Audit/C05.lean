import PynencModel.Props.C05
open Pynenc.C05
#print axioms worker_program_order
#print axioms outInv_step
#print axioms outInv_init
#print axioms final_has_outcome
#print axioms get_final_result_spec
