import PynencModel.Props.C03
open Pynenc.C03
#print axioms table_pollClaim
#print axioms table_runOk
#print axioms table_runRetry
#print axioms table_killReroute
#print axioms table_recoverPending
#print axioms table_client
#print axioms operations_end_recoverable
#print axioms recoverable_leads_to_final
#print axioms unprotected_is_stuck
