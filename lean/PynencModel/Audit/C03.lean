import PynencModel.Props.C03
import PynencModel.Props.C03Wakeup
import PynencModel.Props.C03Lazy
open Pynenc.C03 Pynenc.C03W Pynenc.C03L
#print axioms table_pollClaim
#print axioms table_runOk
#print axioms table_runRetry
#print axioms table_killReroute
#print axioms table_recoverPending
#print axioms table_client
#print axioms operations_end_recoverable
#print axioms recoverable_leads_to_final
#print axioms unprotected_is_stuck
#print axioms inv_step
#print axioms status_then_push_never_loses
#print axioms status_then_push_reachable
#print axioms push_then_status_loses
#print axioms programs_write_status_before_push
#print axioms lazy_inv_step
#print axioms lazy_poll_never_strands
#print axioms marking_claimed_ids_strands_them
#print axioms code_adds_to_the_skip_set_only_on_wait_graph_claims
