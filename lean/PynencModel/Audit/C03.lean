import PynencModel.Props.C03
import PynencModel.Props.C03Wakeup
open Pynenc.C03 Pynenc.C03W
#print axioms table_pollClaim
#print axioms table_runOk
#print axioms table_runRetry
#print axioms table_killReroute
#print axioms table_recoverPending
#print axioms table_client
#print axioms operations_end_recoverable
#print axioms recoverable_leads_to_final
#print axioms unprotected_is_stuck
#print axioms inv_step
#print axioms status_then_push_never_loses
#print axioms status_then_push_reachable
#print axioms push_then_status_loses
#print axioms programs_write_status_before_push
