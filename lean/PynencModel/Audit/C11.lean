import PynencModel.Props.C11
open Pynenc.C11
#print axioms stop_postcondition_partial
#print axioms fuel_suffices
#print axioms stop_postcondition_ended_threads
#print axioms pruning_ended_threads_strands_them
#print axioms stop_hangs_on_waiting_parent
#print axioms kill_program_matches
