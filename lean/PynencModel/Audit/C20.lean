import PynencModel.Props.C20
open Pynenc.C20
#print axioms readOnly_op_preserves
#print axioms mutating_op_can_change
#print axioms generated_names_agree
#print axioms handler_readonly_preserves
#print axioms all_GET_handlers_readonly
#print axioms GET_handler_calls_readonly
#print axioms GET_routes_preserve
#print axioms exceptions_are_queue_view
#print axioms mutating_routes_are_POST
#print axioms queueView_preserves
#print axioms queueView_ok
#print axioms queueView_fault_keeps_messages
#print axioms queueView_old_rotates
#print axioms queueView_old_rotates_general
#print axioms queueView_old_drops_on_missing_record
