import PynencModel.Props.C17
open Pynenc.C17
#print axioms stemWith_eq_stem
#print axioms sanitize_identifier_safe
#print axioms table_names_identifier_safe
#print axioms keep_not_meta
#print axioms table_names_distinct
#print axioms apps_disjoint
#print axioms pairs_nodup
#print axioms purge_touches_only_own
#print axioms purge_keeps_tables
#print axioms purge_is_by_exact_names
#print axioms exact_purge_isolated
#print axioms like_prefix_self
#print axioms prefix_purge_hits_other_app
#print axioms prefix_purge_not_isolated
#print axioms index_name_not_a_table
#print axioms ops_touch_only_own_tables
#print axioms reserved_iff_stem
#print axioms never_reserved
#print axioms old_scheme_reserved
