import PynencModel.Props.C01
import PynencModel.Props.C01Scan
open Pynenc.C01 Pynenc.C01S
#print axioms enum_covered
#print axioms table_edges_eq_doc
#print axioms table_flags_eq_doc
#print axioms step_ok_iff
#print axioms finals_absorbing
#print axioms non_owner_rejected
#print axioms recovery_overrides
#print axioms history_is_path
#print axioms starts_registered
#print axioms every_status_reachable
#print axioms setStatus_err_unchanged
#print axioms setStatus_ok_writes
#print axioms scan_inv_step
#print axioms scans_move_nothing
#print axioms repairing_scan_loses_the_invocation
#print axioms code_scans_only_read
