import PynencModel.Props.C14
import PynencModel.Props.C14Shape
open Pynenc.C14 Pynenc.C14S
#print axioms iteration_live
#print axioms iteration_forgets_dead
#print axioms iteration_keeps_alive
#print axioms iteration_spawns_fresh
#print axioms iteration_idle
#print axioms no_churn
#print axioms never_over_capacity
#print axioms after_iteration_full
#print axioms persistent_full
#print axioms multi_enforce_full
#print axioms multi_queue_demand_met
#print axioms process_full
#print axioms tracked_ids_distinct
#print axioms heartbeats_only_alive
#print axioms reports_alive_or_fresh
#print axioms dead_never_reported_again
#print axioms reports_are_own_workers
#print axioms unfixed_loop_refuted
#print axioms multi_queue_may_sit_below_min
#print axioms code_prunes_the_dead_and_refills_unconditionally
