import PynencModel.Props.C04
open Pynenc.C04
#print axioms pendingScan_spec
#print axioms pendingScan_never_fresh
#print axioms runningScan_spec
#print axioms runningScan_never_live
#print axioms runningScanMem_eq_Sql
#print axioms stale_scan_refused
#print axioms recovered_can_complete
#print axioms recovery_run_requeues_all_taken
#print axioms take_only_scanned
#print axioms live_runner_heartbeats_every_check
