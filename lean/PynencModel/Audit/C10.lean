import PynencModel.Props.C10
open Pynenc.C10
#print axioms transition_followed_by_history
#print axioms conservation
#print axioms history_multiset_eq_transitions
#print axioms history_sorted_is_the_change_sequence
#print axioms stored_subset_log
