import PynencModel.Props.C10
import PynencModel.Props.C10Flush
open Pynenc.C10 Pynenc.C10F
#print axioms transition_followed_by_history
#print axioms conservation
#print axioms history_multiset_eq_transitions
#print axioms history_sorted_is_the_change_sequence
#print axioms stored_subset_log
#print axioms inv_step
#print axioms flush_waits_for_every_writer
#print axioms pruning_lets_the_flush_return_early
#print axioms code_tracks_before_start_and_never_forgets
