import PynencModel.Props.C08
import PynencModel.Props.C08Txn
open Pynenc.C08 Pynenc.C08T
#print axioms mem_refines_queue
#print axioms sql_refines_queue
#print axioms sql_fifo_needs_monotone_clock
#print axioms broker_refines_queue
#print axioms each_message_once
#print axioms fifo
#print axioms count_eq_routed_minus_retrieved
#print axioms retrieve_returns_oldest_undelivered
#print axioms empty_yields_none
#print axioms concurrent_retrieve_partition
#print axioms no_double_delivery
#print axioms oblivious
#print axioms wf_empty
#print axioms trace_eq_zip
#print axioms routeMany_is_routes
#print axioms stmt_locked_exactly_once_fifo
#print axioms stmt_unlocked_double_delivery
#print axioms mem_each_message_once
#print axioms sql_each_message_once
#print axioms send_once_or_nothing
#print axioms retrieve_once_or_nothing
#print axioms retry_in_transaction_duplicates
#print axioms retry_in_transaction_copies
#print axioms code_is_straight_line
