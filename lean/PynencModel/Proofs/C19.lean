import PynencModel.Model.Exec
/-
  C19 — lemmas behind Props/C19.lean (loop equivalence, delivery order of group results, monotonicity of the
  sync loop in what the calls execute, retry accounting, the retry-race counter model).
-/
set_option linter.unusedSectionVars false
namespace Pynenc.C19
open Pynenc.Exec

theorem distLoop_eq_syncLoop {rt : Exc → Exc} (hrt : ∀ e, rt e = e) (c : Cfg) (cr : CallsRes) :
    ∀ (rem n : Nat) (inv : Inv), inv.retries = n → inv.runs = n →
      finalResult (distLoop rt c cr rem inv).1 = (syncLoop c cr rem n).out ∧
      (distLoop rt c cr rem inv).2 = (syncLoop c cr rem n).log ∧
      (distLoop rt c cr rem inv).1.retries = (syncLoop c cr rem n).retries ∧
      (distLoop rt c cr rem inv).1.runs = n + (syncLoop c cr rem n).runs := by
  intro rem
  induction rem with
  | zero =>
    intro n inv h1 h2
    simp only [distLoop, syncLoop, runOnce, h1, h2]
    cases hb : bodyOut c cr n with
    | val v => simp [finalResult]
    | err e => simp [finalResult, hrt]
  | succ rem ih =>
    intro n inv h1 h2
    simp only [distLoop, syncLoop, runOnce, h1, h2]
    cases hb : bodyOut c cr n with
    | val v => simp [finalResult]
    | err e =>
      by_cases hr : retriable c.retryFor e = true
      · simp only [hr, Bool.not_false, Bool.and_self, if_true]
        have := ih (n + 1) { inv with status := .retry, retries := n + 1, runs := n + 1 } rfl rfl
        obtain ⟨a, b, c', d⟩ := this
        refine ⟨a, ?_, c', ?_⟩
        · simp [b]
        · simp [d]; omega
      · simp [hr, finalResult, hrt]

theorem distInvoke_eq_syncInvoke {rt : Exc → Exc} (hrt : ∀ e, rt e = e) (c : Cfg) (cr : CallsRes) :
    distInvoke rt c cr = syncInvoke c cr := by
  have h := distLoop_eq_syncLoop hrt c cr c.maxRetries 0 {} rfl rfl
  obtain ⟨a, b, c', d⟩ := h
  simp only [distInvoke, syncInvoke]
  cases hs : syncLoop c cr c.maxRetries 0 with
  | mk o l r n =>
    simp [hs] at a b c' d
    simp [a, b, c', d]

def sumVals : List Outcome → Int
  | [] => 0
  | .val v :: r => v + sumVals r
  | .err _ :: r => sumVals r

def errs : List Outcome → List Exc
  | [] => []
  | .val _ :: r => errs r
  | .err e :: r => e :: errs r

theorem consume_eq (l : List Outcome) :
    consume l = match errs l with
      | [] => .val (sumVals l)
      | e :: _ => .err e := by
  induction l with
  | nil => rfl
  | cons o r ih =>
    cases o with
    | err e => simp [consume, errs]
    | val v =>
      simp only [consume, errs, sumVals, ih]
      cases errs r <;> simp

theorem sumVals_perm {l l' : List Outcome} (h : l.Perm l') : sumVals l = sumVals l' := by
  induction h with
  | nil => rfl
  | cons x _ ih => cases x <;> simp [sumVals, ih]
  | swap x y l => cases x <;> cases y <;> simp [sumVals] <;> omega
  | trans _ _ ih1 ih2 => exact ih1.trans ih2

theorem errs_perm {l l' : List Outcome} (h : l.Perm l') : (errs l).Perm (errs l') := by
  induction h with
  | nil => exact .nil
  | cons x _ ih => cases x <;> simp [errs, ih]
  | swap x y l => cases x <;> cases y <;> simp [errs]; exact List.Perm.swap ..
  | trans _ _ ih1 ih2 => exact ih1.trans ih2

/-- delivery order does not matter when at most one member failed -/
theorem consume_perm {l l' : List Outcome} (h : l'.Perm l) (h1 : (errs l).length ≤ 1) :
    consume l' = consume l := by
  rw [consume_eq, consume_eq, sumVals_perm h]
  have hp := errs_perm h
  match he : errs l, h1 with
  | [], _ => rw [he] at hp; simp [List.Perm.eq_nil hp]
  | [e], _ => rw [he] at hp; simp [List.perm_singleton.mp hp]

def butLastVals : List Res → Bool
  | [] => true
  | r :: rs => (rs.isEmpty || r.out.isVal) && butLastVals rs

theorem lazyGroup_out (rs : List Res) : (lazyGroup rs).out = consume (rs.map (·.out)) := by
  induction rs with
  | nil => rfl
  | cons r rs ih =>
    simp only [lazyGroup, seqRes, ofRes, List.map]
    cases hr : r.out with
    | err e => simp [consume]
    | val v =>
      simp only [consume, ih]
      cases consume (rs.map (·.out)) <;> simp

theorem lazyGroup_log (rs : List Res) (h : butLastVals rs = true) : (lazyGroup rs).log = allLogs rs := by
  induction rs with
  | nil => rfl
  | cons r rs ih =>
    simp only [butLastVals, Bool.and_eq_true, Bool.or_eq_true] at h
    simp only [lazyGroup, seqRes, ofRes, allLogs]
    cases hr : r.out with
    | err e =>
      rcases h.1 with h1 | h1
      · cases rs with
        | nil => simp [allLogs]
        | cons _ _ => simp at h1
      · simp [hr, Outcome.isVal] at h1
    | val v =>
      simp only []
      cases (lazyGroup rs).out <;> simp [ih h.2]

theorem errs_butLast (rs : List Res) (h : butLastVals rs = true) : (errs (rs.map (·.out))).length ≤ 1 := by
  induction rs with
  | nil => simp [errs]
  | cons r rs ih =>
    simp only [butLastVals, Bool.and_eq_true, Bool.or_eq_true] at h
    simp only [List.map]
    cases hr : r.out with
    | err e =>
      rcases h.1 with h1 | h1
      · cases rs with
        | nil => simp [errs]
        | cons _ _ => simp at h1
      · simp [hr, Outcome.isVal] at h1
    | val v => simpa [errs] using ih h.2

theorem allGroup_eq_lazyGroup {perm : List Outcome → List Outcome} (hperm : ∀ l, (perm l).Perm l)
    (rs : List Res) (h : butLastVals rs = true) : allGroup perm rs = lazyGroup rs := by
  have h1 : (allGroup perm rs).out = (lazyGroup rs).out := by
    simp only [allGroup, lazyGroup_out]
    exact consume_perm (hperm _) (errs_butLast rs h)
  have h2 : (allGroup perm rs).log = (lazyGroup rs).log := by
    simp [allGroup, lazyGroup_log rs h]
  cases hl : lazyGroup rs with
  | mk o l => simp [hl] at h1 h2; simp [allGroup] at h1 h2 ⊢; exact ⟨h1, h2⟩

theorem evalAll_isEmpty (M : Mode) (ps : Progs) : (evalAll M ps).isEmpty = ps.isNil := by
  cases ps <;> simp [evalAll, Progs.isNil]

section partial_
variable {rt : Exc → Exc} {perm : List Outcome → List Outcome}
  (hrt : ∀ e, rt e = e) (hperm : ∀ l, (perm l).Perm l)
include hrt hperm

mutual
  theorem dist_eq_sync_prog : ∀ p : Prog, safe p = true → eval (distMode rt perm) p = eval syncMode p
    | .node c calls, h => by
      simp only [safe] at h
      simp only [eval, dist_eq_sync_calls calls h]
      exact distInvoke_eq_syncInvoke hrt c _
  theorem dist_eq_sync_calls : ∀ cs : Calls, safeCalls cs = true →
      evalCalls (distMode rt perm) cs = evalCalls syncMode cs
    | .nil, _ => by simp [evalCalls]
    | .single p rest, h => by
      simp only [safeCalls, Bool.and_eq_true] at h
      simp only [evalCalls, dist_eq_sync_prog p h.1, dist_eq_sync_calls rest h.2]
    | .group _ ps rest, h => by
      simp only [safeCalls, Bool.and_eq_true] at h
      have hg := dist_eq_sync_all ps h.1
      simp only [evalCalls, hg.1, dist_eq_sync_calls rest h.2]
      show seqRes (allGroup perm (evalAll syncMode ps)) _ = seqRes (lazyGroup (evalAll syncMode ps)) _
      rw [allGroup_eq_lazyGroup hperm _ hg.2]
    | .forget _ _, h => by simp [safeCalls] at h
  theorem dist_eq_sync_all : ∀ ps : Progs, safeGroup ps = true →
      evalAll (distMode rt perm) ps = evalAll syncMode ps ∧ butLastVals (evalAll syncMode ps) = true
    | .nil, _ => by simp [evalAll, butLastVals]
    | .cons p ps, h => by
      simp only [safeGroup, Bool.and_eq_true] at h
      have ih := dist_eq_sync_all ps h.2
      refine ⟨by simp only [evalAll, dist_eq_sync_prog p h.1.1, ih.1], ?_⟩
      simp only [evalAll, butLastVals, evalAll_isEmpty, ih.2, Bool.and_true]
      exact h.1.2
end
end partial_

/-! eager vs lazy -/
def Rel (e s : Res) : Prop := e.out = s.out ∧ e.retries = s.retries ∧ e.runs = s.runs ∧ s.log.Sublist e.log
def RelC (e s : CallsRes) : Prop := e.out = s.out ∧ s.log.Sublist e.log
inductive RelAll : List Res → List Res → Prop
  | nil : RelAll [] []
  | cons {e s : Res} {es ss : List Res} : Rel e s → RelAll es ss → RelAll (e :: es) (s :: ss)

theorem bodyOut_congr (c : Cfg) {cr' cr : CallsRes} (h : cr'.out = cr.out) (k : Nat) :
    bodyOut c cr' k = bodyOut c cr k := by
  simp only [bodyOut, h]

theorem bodyLog_sub (c : Cfg) {cr' cr : CallsRes} (h : cr.log.Sublist cr'.log) (k n : Nat) :
    (bodyLog c cr k n).Sublist (bodyLog c cr' k n) := by
  simp only [bodyLog]
  cases c.actAt k <;> simp [h]

theorem syncLoop_mono (c : Cfg) {cr' cr : CallsRes} (h : RelC cr' cr) :
    ∀ rem n, Rel (syncLoop c cr' rem n) (syncLoop c cr rem n) := by
  intro rem
  induction rem with
  | zero =>
    intro n
    simp only [syncLoop, Rel, bodyOut_congr c h.1, true_and]
    exact bodyLog_sub c h.2 n n
  | succ rem ih =>
    intro n
    simp only [syncLoop, bodyOut_congr c h.1]
    cases bodyOut c cr n with
    | val v => exact ⟨rfl, rfl, rfl, bodyLog_sub c h.2 n n⟩
    | err e =>
      by_cases hr : retriable c.retryFor e = true
      · simp only [hr, if_true]
        obtain ⟨a, b, c', d⟩ := ih (n + 1)
        exact ⟨a, b, by simp [c'], List.Sublist.append (bodyLog_sub c h.2 n n) d⟩
      · simp only [hr]
        exact ⟨rfl, rfl, rfl, bodyLog_sub c h.2 n n⟩

theorem seqRes_mono {a' a b' b : CallsRes} (ha : RelC a' a) (hb : RelC b' b) :
    RelC (seqRes a' b') (seqRes a b) := by
  obtain ⟨ha1, ha2⟩ := ha
  obtain ⟨hb1, hb2⟩ := hb
  simp only [seqRes, ha1, hb1]
  cases a.out with
  | err e => exact ⟨ha1, ha2⟩
  | val v =>
    cases b.out with
    | val w => exact ⟨rfl, List.Sublist.append ha2 hb2⟩
    | err e => exact ⟨rfl, List.Sublist.append ha2 hb2⟩

theorem lazyGroup_log_sub (rs : List Res) : (lazyGroup rs).log.Sublist (allLogs rs) := by
  induction rs with
  | nil => simp [lazyGroup, allLogs]
  | cons r rs ih =>
    simp only [lazyGroup, seqRes, ofRes, allLogs]
    cases r.out with
    | err e => simp
    | val v => cases (lazyGroup rs).out <;> simp [ih]

theorem group_mono {rs' rs : List Res} (h : RelAll rs' rs) :
    RelC (allGroup id rs') (lazyGroup rs) := by
  have hout : rs'.map (·.out) = rs.map (·.out) := by
    induction h with
    | nil => rfl
    | cons hx _ ih => simp [hx.1, ih]
  have hlog : (allLogs rs).Sublist (allLogs rs') := by
    clear hout
    induction h with
    | nil => simp [allLogs]
    | cons hx _ ih => exact List.Sublist.append hx.2.2.2 ih
  refine ⟨?_, (lazyGroup_log_sub rs).trans hlog⟩
  simp [allGroup, lazyGroup_out, hout]

mutual
  theorem eager_rel_sync_prog : ∀ p : Prog, Rel (eval eagerMode p) (eval syncMode p)
    | .node c calls => by
      simp only [eval]
      exact syncLoop_mono c (eager_rel_sync_calls calls) _ _
  theorem eager_rel_sync_calls : ∀ cs : Calls, RelC (evalCalls eagerMode cs) (evalCalls syncMode cs)
    | .nil => by simp [evalCalls, RelC]
    | .single p rest => by
      simp only [evalCalls]
      have h := eager_rel_sync_prog p
      exact seqRes_mono ⟨h.1, h.2.2.2⟩ (eager_rel_sync_calls rest)
    | .group _ ps rest => by
      simp only [evalCalls]
      exact seqRes_mono (group_mono (eager_rel_sync_all ps)) (eager_rel_sync_calls rest)
    | .forget p rest => by
      simp only [evalCalls]
      exact seqRes_mono ⟨rfl, by simp [syncMode]⟩ (eager_rel_sync_calls rest)
  theorem eager_rel_sync_all : ∀ ps : Progs, RelAll (evalAll eagerMode ps) (evalAll syncMode ps)
    | .nil => by simp only [evalAll]; exact RelAll.nil
    | .cons p ps => by
      simp only [evalAll]
      exact RelAll.cons (eager_rel_sync_prog p) (eager_rel_sync_all ps)
end

theorem distMode_id_eq_eager {rt : Exc → Exc} (hrt : ∀ e, rt e = e) : distMode rt id = eagerMode := by
  simp only [distMode, eagerMode, Mode.mk.injEq, and_true]
  funext c cr
  exact distInvoke_eq_syncInvoke hrt c cr

/-! retry accounting -/
def retriableErr (rf : List String) : Outcome → Bool
  | .err e => retriable rf e
  | .val _ => false

theorem syncLoop_accounting (c : Cfg) (cr : CallsRes) :
    ∀ (rem n k : Nat), n ≤ k → k ≤ n + rem →
      (∀ j, n ≤ j → j < k → retriableErr c.retryFor (bodyOut c cr j) = true) →
      (k = n + rem ∨ retriableErr c.retryFor (bodyOut c cr k) = false) →
      (syncLoop c cr rem n).out = bodyOut c cr k ∧ (syncLoop c cr rem n).retries = k ∧
      n + (syncLoop c cr rem n).runs = k + 1 := by
  intro rem
  induction rem with
  | zero =>
    intro n k h1 h2 _ _
    have : k = n := by omega
    subst this
    simp [syncLoop]
  | succ rem ih =>
    intro n k h1 h2 hb hs
    simp only [syncLoop]
    by_cases hk : k = n
    · subst hk
      have hs' : retriableErr c.retryFor (bodyOut c cr k) = false := by
        rcases hs with hs | hs
        · omega
        · exact hs
      cases hbo : bodyOut c cr k with
      | val v => simp
      | err e =>
        have : retriable c.retryFor e = false := by simpa [retriableErr, hbo] using hs'
        simp [this]
    · have hn : retriableErr c.retryFor (bodyOut c cr n) = true := hb n (Nat.le_refl _) (by omega)
      cases hbo : bodyOut c cr n with
      | val v => simp [retriableErr, hbo] at hn
      | err e =>
        have hr : retriable c.retryFor e = true := by simpa [retriableErr, hbo] using hn
        simp only [hr, if_true]
        have := ih (n + 1) k (by omega) (by omega) (fun j hj1 hj2 => hb j (by omega) hj2)
          (by rcases hs with hs | hs
              · left; omega
              · right; exact hs)
        obtain ⟨a, b, d⟩ := this
        exact ⟨a, b, by omega⟩

def racyOK (inv : RacyInv) : Prop := inv.landed + inv.pending = inv.runs

theorem racyRuns_none_land (m : Nat) (hm : 1 ≤ m) :
    ∀ (left : Nat) (inv : RacyInv), inv.landed = 0 → racyRuns (fun _ => 0) m left inv = inv.runs + left := by
  intro left
  induction left with
  | zero => intro inv _; simp [racyRuns]
  | succ left ih =>
    intro inv h0
    have : ¬ (inv.landed + min 0 inv.pending ≥ m) := by simp [h0]; omega
    simp only [racyRuns, this, if_false]
    rw [ih _ (by simp [h0])]
    simp; omega

theorem racyRuns_in_order (lands : Nat → Nat) (hl : ∀ k, 1 ≤ lands k) (m : Nat) :
    ∀ (left : Nat) (inv : RacyInv), racyOK inv → inv.pending ≤ 1 → inv.runs ≤ m → m + 1 ≤ inv.runs + left →
      racyRuns lands m left inv = m + 1 := by
  intro left
  induction left with
  | zero => intro inv _ _ h1 h2; omega
  | succ left ih =>
    intro inv hok hp h1 h2
    obtain ⟨landed, pending, runs⟩ := inv
    simp only [racyOK] at hok hp h1 h2
    have hmin : min (lands runs) pending = pending := by have := hl runs; omega
    simp only [racyRuns, hmin]
    by_cases hge : landed + pending ≥ m
    · simp only [hge, if_true]; omega
    · simp only [hge, if_false]
      apply ih
      · simp only [racyOK]; omega
      · simp
      · simp; omega
      · simp; omega

theorem racyRuns_lower (lands : Nat → Nat) (m : Nat) :
    ∀ (left : Nat) (inv : RacyInv), racyOK inv → inv.runs ≤ m →
      min (inv.runs + left) (m + 1) ≤ racyRuns lands m left inv := by
  intro left
  induction left with
  | zero => intro inv _ h; simp [racyRuns]; omega
  | succ left ih =>
    intro inv hok h1
    obtain ⟨landed, pending, runs⟩ := inv
    simp only [racyOK] at hok h1
    simp only [racyRuns]
    have hmin : min (lands runs) pending ≤ pending := Nat.min_le_right _ _
    by_cases hge : landed + min (lands runs) pending ≥ m
    · simp only [hge, if_true]; omega
    · simp only [hge, if_false]
      by_cases hr : runs + 1 ≤ m
      · have := ih ⟨landed + min (lands runs) pending, pending - min (lands runs) pending + 1, runs + 1⟩
          (by simp only [racyOK]; omega) (by simpa using hr)
        simp at this ⊢; omega
      · -- runs = m: every outstanding increment counted, read < m is impossible only if they all landed
        have hrm : runs = m := by omega
        -- the watch goes on; whatever it returns is at least runs + 1 = m + 1 or the remaining watch length
        have hmono : ∀ (left : Nat) (inv : RacyInv), inv.runs ≤ racyRuns lands m left inv := by
          intro left
          induction left with
          | zero => intro inv; simp [racyRuns]
          | succ left ih2 =>
            intro inv
            simp only [racyRuns]
            split
            · omega
            · have := ih2 ⟨inv.landed + min (lands inv.runs) inv.pending,
                inv.pending - min (lands inv.runs) inv.pending + 1, inv.runs + 1⟩
              simp at this; omega
        have := hmono left ⟨landed + min (lands runs) pending, pending - min (lands runs) pending + 1, runs + 1⟩
        simp at this ⊢; omega

/-! distributed (any completion order) vs eager sync on programs whose groups have at most one failed member -/
theorem errs_length (rs : List Res) : (errs (rs.map (·.out))).length = errCount rs := by
  induction rs with
  | nil => rfl
  | cons r rs ih =>
    simp only [List.map, errCount]
    cases hr : r.out with
    | val v => simp [errs, Outcome.isVal, ih]
    | err e => simp [errs, Outcome.isVal, ih]; omega

theorem allGroup_perm {perm : List Outcome → List Outcome} (hperm : ∀ l, (perm l).Perm l)
    (rs : List Res) (h : errCount rs ≤ 1) : allGroup perm rs = allGroup id rs := by
  simp only [allGroup, id, CallsRes.mk.injEq, and_true]
  exact consume_perm (hperm _) (by rw [errs_length]; exact h)

section eager
variable {rt : Exc → Exc} {perm : List Outcome → List Outcome}
  (hrt : ∀ e, rt e = e) (hperm : ∀ l, (perm l).Perm l)
include hrt hperm

mutual
  theorem dist_eq_eager_prog : ∀ p : Prog, unamb p = true → eval (distMode rt perm) p = eval eagerMode p
    | .node c calls, h => by
      simp only [unamb] at h
      simp only [eval, dist_eq_eager_calls calls h]
      exact distInvoke_eq_syncInvoke hrt c _
  theorem dist_eq_eager_calls : ∀ cs : Calls, unambCalls cs = true →
      evalCalls (distMode rt perm) cs = evalCalls eagerMode cs
    | .nil, _ => by simp [evalCalls]
    | .single p rest, h => by
      simp only [unambCalls, Bool.and_eq_true] at h
      simp only [evalCalls, dist_eq_eager_prog p h.1, dist_eq_eager_calls rest h.2]
    | .group _ ps rest, h => by
      simp only [unambCalls, Bool.and_eq_true, decide_eq_true_eq] at h
      simp only [evalCalls, dist_eq_eager_all ps h.1.1, dist_eq_eager_calls rest h.2]
      show seqRes (allGroup perm (evalAll eagerMode ps)) _ = seqRes (allGroup id (evalAll eagerMode ps)) _
      rw [allGroup_perm hperm _ h.1.2]
    | .forget p rest, h => by
      simp only [unambCalls, Bool.and_eq_true] at h
      simp only [evalCalls, dist_eq_eager_prog p h.1, dist_eq_eager_calls rest h.2]
      rfl
  theorem dist_eq_eager_all : ∀ ps : Progs, unambAll ps = true →
      evalAll (distMode rt perm) ps = evalAll eagerMode ps
    | .nil, _ => by simp [evalAll]
    | .cons p ps, h => by
      simp only [unambAll, Bool.and_eq_true] at h
      simp only [evalAll, dist_eq_eager_prog p h.1, dist_eq_eager_all ps h.2]
end
end eager

/-! the `direct` flag is not read by any evaluator -/
theorem bodyOut_plain (c : Cfg) (cr : CallsRes) (k : Nat) : bodyOut (Cfg.plain c) cr k = bodyOut c cr k := rfl
theorem bodyLog_plain (c : Cfg) (cr : CallsRes) (k n : Nat) : bodyLog (Cfg.plain c) cr k n = bodyLog c cr k n := rfl

theorem syncLoop_plain (c : Cfg) (cr : CallsRes) : ∀ rem n, syncLoop (Cfg.plain c) cr rem n = syncLoop c cr rem n := by
  intro rem
  induction rem with
  | zero => intro n; rfl
  | succ rem ih =>
    intro n
    simp only [syncLoop, bodyOut_plain, bodyLog_plain, ih]
    rfl

theorem syncInvoke_plain (c : Cfg) (cr : CallsRes) : syncInvoke (Cfg.plain c) cr = syncInvoke c cr :=
  syncLoop_plain c cr _ _

theorem runOnce_plain (rt : Exc → Exc) (c : Cfg) (cr : CallsRes) (l : Bool) (inv : Inv) :
    runOnce rt (Cfg.plain c) cr l inv = runOnce rt c cr l inv := rfl

theorem distLoop_plain (rt : Exc → Exc) (c : Cfg) (cr : CallsRes) :
    ∀ rem inv, distLoop rt (Cfg.plain c) cr rem inv = distLoop rt c cr rem inv := by
  intro rem
  induction rem with
  | zero => intro inv; rfl
  | succ rem ih =>
    intro inv
    simp only [distLoop, runOnce_plain, ih]

theorem distInvoke_plain (rt : Exc → Exc) (c : Cfg) (cr : CallsRes) :
    distInvoke rt (Cfg.plain c) cr = distInvoke rt c cr := by
  simp only [distInvoke]
  rw [show (Cfg.plain c).maxRetries = c.maxRetries from rfl, distLoop_plain]

mutual
  theorem eval_plain_prog (M : Mode) (hM : ∀ c cr, M.invoke (Cfg.plain c) cr = M.invoke c cr) :
      ∀ p : Prog, eval M (plainProg p) = eval M p
    | .node c calls => by
      simp only [plainProg, eval, eval_plain_calls M hM calls, hM]
  theorem eval_plain_calls (M : Mode) (hM : ∀ c cr, M.invoke (Cfg.plain c) cr = M.invoke c cr) :
      ∀ cs : Calls, evalCalls M (plainCalls cs) = evalCalls M cs
    | .nil => rfl
    | .single p rest => by simp only [plainCalls, evalCalls, eval_plain_prog M hM p, eval_plain_calls M hM rest]
    | .group _ ps rest => by simp only [plainCalls, evalCalls, eval_plain_all M hM ps, eval_plain_calls M hM rest]
    | .forget p rest => by simp only [plainCalls, evalCalls, eval_plain_prog M hM p, eval_plain_calls M hM rest]
  theorem eval_plain_all (M : Mode) (hM : ∀ c cr, M.invoke (Cfg.plain c) cr = M.invoke c cr) :
      ∀ ps : Progs, evalAll M (plainProgs ps) = evalAll M ps
    | .nil => rfl
    | .cons p ps => by simp only [plainProgs, evalAll, eval_plain_prog M hM p, eval_plain_all M hM ps]
end

end Pynenc.C19
