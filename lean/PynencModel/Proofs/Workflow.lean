import PynencModel.Model.Workflow
/-
  Helper lemmas for C18 (Props/C18.lean): the relational view of `stepExec`, the invariants of the
  workflow model and their preservation, non-interference between workflows.  Core Lean only.
-/
namespace Pynenc.WorkflowProofs
open Pynenc Pynenc.Workflow

/-- `stepExec` as a relation: one constructor per branch of the code -/
inductive Step (w : Nat) (st : Store) (e : Exec) (now fresh : Nat) : Exec → Store → List Launch → Prop
  | done (hp : e.phase = .idle) (hb : e.body[e.out.length]? = none) : Step w st e now fresh e st []
  | detHit (k : OpK) (v : Val) (hp : e.phase = .idle) (hb : e.body[e.out.length]? = some (.det k))
      (hg : st.get? (w, .seq k (e.ctr.get k + 1)) = some v) :
      Step w st e now fresh { e with ctr := e.ctr.bump k, phase := .idle, out := ⟨.det k, e.ctr.get k + 1, v⟩ :: e.out } st []
  | timeMiss (hp : e.phase = .idle) (hb : e.body[e.out.length]? = some (.det .time))
      (hg : st.get? (w, .seq .time (e.ctr.get .time + 1)) = none) :
      Step w st e now fresh { e with ctr := e.ctr.bump .time, phase := .baseGet (e.ctr.get .time + 1) } st []
  | genMiss (k : OpK) (hk : k ≠ .time) (hp : e.phase = .idle) (hb : e.body[e.out.length]? = some (.det k))
      (hg : st.get? (w, .seq k (e.ctr.get k + 1)) = none) :
      Step w st e now fresh
        { e with ctr := e.ctr.bump k, phase := .seqSet k (e.ctr.get k + 1) (.gen w k (e.ctr.get k + 1 + 1)) } st []
  | subHit (c : Nat) (v : Val) (hp : e.phase = .idle) (hb : e.body[e.out.length]? = some (.sub c))
      (hg : st.get? (w, .taskInv c) = some v) :
      Step w st e now fresh { e with phase := .idle, out := ⟨.sub c, 0, v⟩ :: e.out } st []
  | subMiss (c : Nat) (hp : e.phase = .idle) (hb : e.body[e.out.length]? = some (.sub c))
      (hg : st.get? (w, .taskInv c) = none) :
      Step w st e now fresh { e with phase := .launch c } st []
  | baseHit (n : Nat) (v : Val) (hp : e.phase = .baseGet n) (hg : st.get? (w, .baseTime) = some v) :
      Step w st e now fresh { e with phase := .seqSet .time n (.time (v.asTime + (n + 1))) } st []
  | baseMiss (n : Nat) (hp : e.phase = .baseGet n) (hg : st.get? (w, .baseTime) = none) :
      Step w st e now fresh { e with phase := .baseSet n now } st []
  | baseSet (n b : Nat) (hp : e.phase = .baseSet n b) :
      Step w st e now fresh { e with phase := .seqSet .time n (.time (b + (n + 1))) }
        (st.set (w, .baseTime) (.time b)) []
  | seqSet (k : OpK) (n : Nat) (v : Val) (hp : e.phase = .seqSet k n v) :
      Step w st e now fresh { e with phase := .cntGet k n v } (st.set (w, .seq k n) v) []
  | cntGet (k : OpK) (n : Nat) (v : Val) (hp : e.phase = .cntGet k n v) :
      Step w st e now fresh { e with phase := .cntSet k n v (asCount (st.get? (w, .counter k))) } st []
  | cntSet (k : OpK) (n : Nat) (v : Val) (cur : Nat) (hp : e.phase = .cntSet k n v cur) :
      Step w st e now fresh { e with phase := .idle, out := ⟨.det k, n, v⟩ :: e.out }
        (st.set (w, .counter k) (.count (max cur n))) []
  | launch (c : Nat) (hp : e.phase = .launch c) :
      Step w st e now fresh { e with phase := .subSet c fresh } st [(w, c, fresh)]
  | subSet (c i : Nat) (hp : e.phase = .subSet c i) :
      Step w st e now fresh { e with phase := .idle, out := ⟨.sub c, 0, .inv i⟩ :: e.out }
        (st.set (w, .taskInv c) (.inv i)) []

theorem stepExec_rel (w : Nat) (st : Store) (e : Exec) (now fresh : Nat) :
    Step w st e now fresh (stepExec w st e now fresh).1 (stepExec w st e now fresh).2.1
      (stepExec w st e now fresh).2.2 := by
  cases hp : e.phase with
  | idle =>
    cases hb : e.body[e.out.length]? with
    | none => simp only [stepExec, hp, hb]; exact .done hp hb
    | some op =>
      cases op with
      | det k =>
        cases hg : st.get? (w, .seq k (e.ctr.get k + 1)) with
        | some v => simp only [stepExec, hp, hb, hg]; exact .detHit k v hp hb hg
        | none =>
          by_cases hk : k = .time
          · subst hk; simp only [stepExec, hp, hb, hg]; exact .timeMiss hp hb hg
          · simp only [stepExec, hp, hb, hg, hk]; exact .genMiss k hk hp hb hg
      | sub c =>
        cases hg : st.get? (w, .taskInv c) with
        | some v => simp only [stepExec, hp, hb, hg]; exact .subHit c v hp hb hg
        | none => simp only [stepExec, hp, hb, hg]; exact .subMiss c hp hb hg
  | baseGet n =>
    cases hg : st.get? (w, .baseTime) with
    | some v => simp only [stepExec, hp, hg]; exact .baseHit n v hp hg
    | none => simp only [stepExec, hp, hg]; exact .baseMiss n hp hg
  | baseSet n b => simp only [stepExec, hp]; exact .baseSet n b hp
  | seqSet k n v => simp only [stepExec, hp]; exact .seqSet k n v hp
  | cntGet k n v => simp only [stepExec, hp]; exact .cntGet k n v hp
  | cntSet k n v cur => simp only [stepExec, hp]; exact .cntSet k n v cur hp
  | launch c => simp only [stepExec, hp]; exact .launch c hp
  | subSet c i => simp only [stepExec, hp]; exact .subSet c i hp



theorem get?_set {α β : Type} [DecidableEq α] (m : AMap α β) (k k2 : α) (v : β) :
    AMap.get? (AMap.set m k v) k2 = if k2 = k then some v else AMap.get? m k2 := by
  by_cases h : k2 = k
  · subst h; simp [AMap.get?_set_self]
  · simp [h, AMap.get?_set_other _ _ _ _ h]

theorem get?_mem {α β : Type} [DecidableEq α] (m : AMap α β) (k : α) (v : β) :
    AMap.get? m k = some v → (k, v) ∈ m := by
  induction m with
  | nil => simp [AMap.get?]
  | cons p rest ih =>
    obtain ⟨k', v'⟩ := p
    by_cases h : k' = k
    · subst h; simp [AMap.get?]; intro h; simp [h]
    · simp [AMap.get?, h]; intro hh; exact Or.inr (ih hh)

/-- sequence numbers are occurrence numbers: newest-first list, each `det k` entry carries 1 + the number of
    earlier `det k` entries -/
def numbered : List Entry → Prop
  | [] => True
  | x :: rest => (∀ k, x.op = .det k → x.n = occ k rest + 1) ∧ numbered rest

/-- facts about one execution that hold whatever the other executions do -/
structure ExecOK (w : Nat) (e : Exec) : Prop where
  ctr : ∀ k, e.ctr.get k = occ k e.out + (if e.phase.kind = some k then 1 else 0)
  seqNo : ∀ n, e.phase.seqNo = some n → ∀ k, e.phase.kind = some k → n = e.ctr.get k
  pend : ∀ k n v, e.phase.pending = some (k, n, v) → k ≠ OpK.time → v = Val.gen w k (n + 1)
  num : numbered e.out
  vals : ∀ x ∈ e.out, ∀ k, x.op = .det k → k ≠ OpK.time → x.val = Val.gen w k (x.n + 1)

/-- recorded random / uuid values are the generator at (workflow, op, sequence + 1) -/
def StoreOK (st : Store) : Prop :=
  ∀ w k n v, k ≠ OpK.time → st.get? (w, Key.seq k n) = some v → v = Val.gen w k (n + 1)

theorem ctr_get_bump (c : Ctr) (k k' : OpK) :
    (c.bump k).get k' = c.get k' + (if k' = k then 1 else 0) := by
  cases k <;> cases k' <;> simp [Ctr.bump, Ctr.get]

theorem step_ok {w : Nat} {st : Store} {e : Exec} {now fresh : Nat} {e' : Exec} {st' : Store} {ls : List Launch}
    (h : Step w st e now fresh e' st' ls) (he : ExecOK w e) (hs : StoreOK st) :
    ExecOK w e' ∧ StoreOK st' := by
  obtain ⟨h1, h2, h3, h4, h5⟩ := he
  obtain ⟨body, out, ctr, phase, live⟩ := e
  cases h
  case done => exact ⟨⟨h1, h2, h3, h4, h5⟩, hs⟩
  all_goals
    simp only at *
    subst_vars
    simp only [Phase.kind, Phase.seqNo, Phase.pending] at h1 h2 h3
    refine ⟨⟨?_, ?_, ?_, ?_, ?_⟩, ?_⟩
  all_goals simp only [Phase.kind, Phase.seqNo, Phase.pending, ctr_get_bump, occ, numbered, StoreOK, get?_set, List.mem_cons]
  all_goals try grind [StoreOK]



/-- facts about one execution of workflow `w` relative to the records of `w` (schedules in which the
    executions of `w` do not overlap inside an operation) -/
structure ExecW (st : Store) (w : Nat) (e : Exec) : Prop where
  tvals : ∀ x ∈ e.out, x.op = .det .time →
    ∃ b, st.get? (w, Key.baseTime) = some (Val.time b) ∧ x.val = Val.time (b + (x.n + 1))
  svals : ∀ x ∈ e.out, ∀ c, x.op = .sub c → st.get? (w, Key.taskInv c) = some x.val
  baseSet : e.live = true → ∀ n b, e.phase = .baseSet n b → st.get? (w, Key.baseTime) = none
  tpend : e.live = true → ∀ n v, e.phase.pending = some (OpK.time, n, v) →
    ∃ b, st.get? (w, Key.baseTime) = some (Val.time b) ∧ v = Val.time (b + (n + 1))
  lpend : e.live = true → ∀ c, (e.phase = .launch c ∨ ∃ i, e.phase = .subSet c i) →
    st.get? (w, Key.taskInv c) = none

def TimeStore (st : Store) (w : Nat) : Prop :=
  (∀ n v, st.get? (w, Key.seq OpK.time n) = some v →
    ∃ b, st.get? (w, Key.baseTime) = some (Val.time b) ∧ v = Val.time (b + (n + 1))) ∧
  (∀ vb, st.get? (w, Key.baseTime) = some vb → ∃ b, vb = Val.time b)

theorem step_execW {w : Nat} {st : Store} {e : Exec} {now fresh : Nat} {e' : Exec} {st' : Store} {ls : List Launch}
    (h : Step w st e now fresh e' st' ls) (hl : e.live = true) (he : ExecW st w e) (hs : TimeStore st w) :
    ExecW st' w e' ∧ TimeStore st' w := by
  obtain ⟨h1, h2, h3, h4, h5⟩ := he
  obtain ⟨body, out, ctr, phase, live⟩ := e
  cases h
  case done => exact ⟨⟨h1, h2, h3, h4, h5⟩, hs⟩
  all_goals
    simp only at *
    subst_vars
    simp only [Phase.pending] at h3 h4 h5
    refine ⟨⟨?_, ?_, ?_, ?_, ?_⟩, ?_⟩
  all_goals simp [Phase.pending, TimeStore, get?_set] at *
  all_goals try grind [Val.asTime]



/-- a step of an execution of `w` touches only records of `w` -/
theorem step_frame {w : Nat} {st : Store} {e : Exec} {now fresh : Nat} {e' : Exec} {st' : Store} {ls : List Launch}
    (h : Step w st e now fresh e' st' ls) (w' : Nat) (hw : w' ≠ w) (k : Key) :
    st'.get? (w', k) = st.get? (w', k) := by
  cases h <;> simp [get?_set, hw]

/-- `workflow:base_time` and `task_invocation:*` records never change once written -/
theorem step_stable {w : Nat} {st : Store} {e : Exec} {now fresh : Nat} {e' : Exec} {st' : Store} {ls : List Launch}
    (h : Step w st e now fresh e' st' ls) (hl : e.live = true) (he : ExecW st w e) :
    (∀ v, st.get? (w, Key.baseTime) = some v → st'.get? (w, Key.baseTime) = some v) ∧
    (∀ c v, st.get? (w, Key.taskInv c) = some v → st'.get? (w, Key.taskInv c) = some v) := by
  obtain ⟨h1, h2, h3, h4, h5⟩ := he
  obtain ⟨body, out, ctr, phase, live⟩ := e
  cases h
  all_goals
    simp only at *
    subst_vars
  all_goals simp [get?_set] at *
  all_goals try grind

theorem execW_congr {st st' : Store} {w : Nat} {e : Exec} (h : ∀ k, st'.get? (w, k) = st.get? (w, k))
    (he : ExecW st w e) : ExecW st' w e := by
  obtain ⟨h1, h2, h3, h4, h5⟩ := he
  exact ⟨by simpa only [h] using h1, by simpa only [h] using h2, by simpa only [h] using h3,
    by simpa only [h] using h4, by simpa only [h] using h5⟩

theorem timeStore_congr {st st' : Store} {w : Nat} (h : ∀ k, st'.get? (w, k) = st.get? (w, k))
    (hs : TimeStore st w) : TimeStore st' w := by
  unfold TimeStore at *; simpa only [h] using hs

/-- an execution that is not inside an operation keeps its facts when stable records stay -/
theorem execW_other {st st' : Store} {w : Nat} {e : Exec} (hm : e.midOp = false)
    (hb : ∀ v, st.get? (w, Key.baseTime) = some v → st'.get? (w, Key.baseTime) = some v)
    (hc : ∀ c v, st.get? (w, Key.taskInv c) = some v → st'.get? (w, Key.taskInv c) = some v)
    (he : ExecW st w e) : ExecW st' w e := by
  obtain ⟨h1, h2, h3, h4, h5⟩ := he
  have hidle : e.live = true → e.phase = .idle := by
    intro hl; simp [Exec.midOp, hl] at hm; exact hm
  refine ⟨?_, ?_, ?_, ?_, ?_⟩
  · intro x hx hop; obtain ⟨b, hb1, hb2⟩ := h1 x hx hop; exact ⟨b, hb _ hb1, hb2⟩
  · intro x hx c hop; exact hc _ _ (h2 x hx c hop)
  · intro hl n b hp; rw [hidle hl] at hp; cases hp
  · intro hl n v hp; rw [hidle hl] at hp; simp [Phase.pending] at hp
  · intro hl c hp; rw [hidle hl] at hp; simp at hp



/-! ### the whole system -/

theorem apply_step (s : World) (w a now fresh : Nat) :
    s.apply (.step w a now fresh) = s ∨
    ∃ e e' st' ls, s.execs.get? (w, a) = some e ∧ e.live = true ∧ Step w s.store e now fresh e' st' ls ∧
      s.apply (.step w a now fresh) =
        { store := st', execs := s.execs.set (w, a) e', launches := s.launches ++ ls } := by
  cases hg : s.execs.get? (w, a) with
  | none => left; simp [World.apply, hg]
  | some e =>
    by_cases hl : e.live = true
    · right
      exact ⟨e, _, _, _, rfl, hl, stepExec_rel w s.store e now fresh, by simp [World.apply, hg, hl]⟩
    · left; simp [World.apply, hg, hl]

theorem okEvent_step {s : World} {w a now fresh : Nat} (h : s.okEvent (.step w a now fresh) = true)
    (a' : Nat) (e' : Exec) (hg : s.execs.get? (w, a') = some e') (hne : a' ≠ a) : e'.midOp = false := by
  simp only [World.okEvent, List.all_eq_true] at h
  have := h _ (get?_mem _ _ _ hg)
  simpa [hne] using this

/-- invariant of every reachable state, whatever the schedule -/
def AllOK (s : World) : Prop :=
  StoreOK s.store ∧ ∀ w a e, s.execs.get? (w, a) = some e → ExecOK w e

theorem execOK_new (w : Nat) (body : List Op) : ExecOK w { body := body } := by
  refine ⟨?_, ?_, ?_, ?_, ?_⟩ <;> simp [Phase.kind, Phase.seqNo, Phase.pending, occ, numbered, Ctr.get] <;>
    intro k <;> cases k <;> rfl

theorem execOK_kill {w : Nat} {e : Exec} (h : ExecOK w e) : ExecOK w { e with live := false } :=
  ⟨h.1, h.2, h.3, h.4, h.5⟩

theorem allOK_apply {s : World} (h : AllOK s) (ev : Event) : AllOK (s.apply ev) := by
  obtain ⟨hs, he⟩ := h
  cases ev with
  | start w a body =>
    simp only [World.apply]
    split
    · exact ⟨hs, he⟩
    · refine ⟨hs, ?_⟩
      intro w' a' e'; simp only [get?_set]
      split
      · rename_i heq; cases heq; intro h; cases h; exact execOK_new _ _
      · exact he w' a' e'
  | kill w a =>
    simp only [World.apply]
    split
    · exact ⟨hs, he⟩
    · rename_i e hg
      refine ⟨hs, ?_⟩
      intro w' a' e'; simp only [get?_set]
      split
      · rename_i heq; cases heq; intro h; cases h; exact execOK_kill (he _ _ _ hg)
      · exact he w' a' e'
  | step w a now fresh =>
    rcases apply_step s w a now fresh with h | ⟨e, e', st', ls, hg, hl, hst, heq⟩
    · rw [h]; exact ⟨hs, he⟩
    · rw [heq]
      have := step_ok hst (he _ _ _ hg) hs
      refine ⟨this.2, ?_⟩
      intro w' a' e''; simp only [get?_set]
      split
      · rename_i heq; cases heq; intro h; cases h; exact this.1
      · exact he w' a' e''

theorem allOK_run {s : World} (h : AllOK s) (evs : List Event) : AllOK (s.run evs) := by
  induction evs generalizing s with
  | nil => exact h
  | cons ev evs ih => exact ih (allOK_apply h ev)

theorem allOK_init : AllOK {} := by
  refine ⟨?_, ?_⟩
  · intro w k n v _ h; simp [AMap.get?] at h
  · intro w a e h; simp [AMap.get?] at h

/-- invariant of the states reachable by schedules in which executions of one workflow do not
    overlap inside an operation -/
def SerialOK (s : World) : Prop :=
  ∀ w, TimeStore s.store w ∧ ∀ a e, s.execs.get? (w, a) = some e → ExecW s.store w e

theorem execW_new (st : Store) (w : Nat) (body : List Op) : ExecW st w { body := body } := by
  refine ⟨?_, ?_, ?_, ?_, ?_⟩ <;> simp [Phase.pending]

theorem execW_kill {st : Store} {w : Nat} {e : Exec} (h : ExecW st w e) : ExecW st w { e with live := false } := by
  refine ⟨h.1, h.2, ?_, ?_, ?_⟩ <;> simp

theorem serialOK_apply {s : World} (h : SerialOK s) (ev : Event) (hok : s.okEvent ev = true) :
    SerialOK (s.apply ev) := by
  cases ev with
  | start w a body =>
    simp only [World.apply]
    split
    · exact h
    · intro w'
      refine ⟨(h w').1, ?_⟩
      intro a' e'; simp only [get?_set]
      split
      · rename_i heq; cases heq; intro h; cases h; exact execW_new _ _ _
      · exact (h w').2 a' e'
  | kill w a =>
    simp only [World.apply]
    split
    · exact h
    · rename_i e hg
      intro w'
      refine ⟨(h w').1, ?_⟩
      intro a' e'; simp only [get?_set]
      split
      · rename_i heq; cases heq; intro h'; cases h'; exact execW_kill ((h _).2 _ _ hg)
      · exact (h w').2 a' e'
  | step w a now fresh =>
    rcases apply_step s w a now fresh with h' | ⟨e, e', st', ls, hg, hl, hst, heq⟩
    · rw [h']; exact h
    · rw [heq]
      intro w'
      by_cases hw : w' = w
      · subst hw
        have hme := step_execW hst hl ((h w').2 _ _ hg) (h w').1
        have hstab := step_stable hst hl ((h w').2 _ _ hg)
        refine ⟨hme.2, ?_⟩
        intro a' e''; simp only [get?_set]
        split
        · rename_i heq; cases heq; intro h'; cases h'; exact hme.1
        · rename_i hne
          intro hg'
          have hne' : a' ≠ a := fun hh => hne (by rw [hh])
          exact execW_other (okEvent_step hok a' e'' hg' hne') hstab.1 hstab.2 ((h w').2 _ _ hg')
      · have hfr := step_frame hst w' hw
        refine ⟨timeStore_congr hfr (h w').1, ?_⟩
        intro a' e''; simp only [get?_set]
        split
        · rename_i heq; cases heq; exact absurd rfl hw
        · intro hg'; exact execW_congr hfr ((h w').2 _ _ hg')

theorem serialOK_run {s : World} (h : SerialOK s) (evs : List Event) (hser : s.serialRun evs = true) :
    SerialOK (s.run evs) := by
  induction evs generalizing s with
  | nil => exact h
  | cons ev evs ih =>
    simp only [World.serialRun, Bool.and_eq_true] at hser
    exact ih (serialOK_apply h ev hser.1) hser.2

theorem serialOK_init : SerialOK {} := by
  intro w
  refine ⟨⟨?_, ?_⟩, ?_⟩ <;> intros <;> simp_all [AMap.get?]




theorem launchesOf_append (l1 l2 : List Launch) (w c : Nat) :
    launchesOf (l1 ++ l2) w c = launchesOf l1 w c ++ launchesOf l2 w c := by
  simp [launchesOf]

theorem launchesOf_nil (w c : Nat) : launchesOf [] w c = [] := rfl

theorem launchesOf_single (w0 c0 f w c : Nat) :
    launchesOf [(w0, c0, f)] w c = if w0 = w ∧ c0 = c then [f] else [] := by
  by_cases h1 : w0 = w <;> by_cases h2 : c0 = c <;> simp [launchesOf, h1, h2]

/-- launches of workflow `w` versus its `task_invocation:*` records (needs: no stop between launch and record) -/
structure LaunchOK (s : World) (w : Nat) : Prop where
  recd : ∀ c v, s.store.get? (w, Key.taskInv c) = some v → ∃ i, v = Val.inv i ∧ launchesOf s.launches w c = [i]
  unrec : ∀ c, s.store.get? (w, Key.taskInv c) = none →
    launchesOf s.launches w c = [] ∨ ∃ a e i, s.execs.get? (w, a) = some e ∧ e.live = true ∧ e.phase = .subSet c i
  p1 : ∀ a e c, s.execs.get? (w, a) = some e → e.live = true → e.phase = .launch c → launchesOf s.launches w c = []
  p2 : ∀ a e c i, s.execs.get? (w, a) = some e → e.live = true → e.phase = .subSet c i →
    launchesOf s.launches w c = [i]

theorem launchOK_step {s : World} {w a now fresh : Nat} {e e' : Exec} {st' : Store} {ls : List Launch}
    (hg : s.execs.get? (w, a) = some e) (hl : e.live = true)
    (hst : Step w s.store e now fresh e' st' ls)
    (hoth : ∀ a' e'', s.execs.get? (w, a') = some e'' → a' ≠ a → e''.midOp = false)
    (hw : ExecW s.store w e) (h : LaunchOK s w) :
    LaunchOK { store := st', execs := s.execs.set (w, a) e', launches := s.launches ++ ls } w := by
  obtain ⟨r1, r2, r3, r4⟩ := h
  have hl5 := hw.lpend hl
  have hoth' : ∀ a' e'', s.execs.get? (w, a') = some e'' → a' ≠ a → e''.live = true → e''.phase = .idle := by
    intro a' e'' h1 h2 h3; have := hoth a' e'' h1 h2; simp [Exec.midOp, h3] at this; exact this
  obtain ⟨body, out, ctr, phase, live⟩ := e
  cases hst
  all_goals
    simp only at *
    subst_vars
  all_goals refine ⟨?_, ?_, ?_, ?_⟩
  all_goals simp [get?_set, launchesOf_append, launchesOf_single] at *
  all_goals try grind
  rename_i c0
  intro c hn
  by_cases hc : c0 = c
  · right; exact ⟨a, { body := body, out := out, ctr := ctr, phase := Phase.subSet c0 fresh }, by simp, rfl, fresh, by simp [hc]⟩
  · rcases r2 c hn with h | ⟨a2, e2, h1, h2, x, h3⟩
    · left; exact ⟨h, hc⟩
    · exfalso
      by_cases ha : a2 = a
      · subst ha; rw [hg] at h1; cases h1; simp at h3
      · have := hoth' a2 e2 h1 ha h2; rw [this] at h3; cases h3



/-- the part of the world that belongs to workflow `w` is the same in `s` and `s'` -/
def Agree (w : Nat) (s s' : World) : Prop :=
  (∀ k, s.store.get? (w, k) = s'.store.get? (w, k)) ∧
  (∀ a, s.execs.get? (w, a) = s'.execs.get? (w, a)) ∧
  s.launches.filter (fun l => decide (l.1 = w)) = s'.launches.filter (fun l => decide (l.1 = w))

theorem launchesOf_filter (ls : List Launch) (w c : Nat) :
    launchesOf (ls.filter (fun l => decide (l.1 = w))) w c = launchesOf ls w c := by
  simp only [launchesOf, List.filter_filter]
  congr 1
  apply List.filter_congr
  intro l _
  by_cases h : l.1 = w <;> simp [h]

theorem Agree.launchesOf {w : Nat} {s s' : World} (h : Agree w s s') (c : Nat) :
    launchesOf s.launches w c = launchesOf s'.launches w c := by
  rw [← launchesOf_filter s.launches, ← launchesOf_filter s'.launches, h.2.2]

theorem launchOK_congr {w : Nat} {s s' : World} (h : Agree w s s') (hl : LaunchOK s w) : LaunchOK s' w := by
  obtain ⟨r1, r2, r3, r4⟩ := hl
  refine ⟨?_, ?_, ?_, ?_⟩
  · intro c v; rw [← h.1, ← h.launchesOf]; exact r1 c v
  · intro c; rw [← h.1, ← h.launchesOf]; simp only [← h.2.1]; exact r2 c
  · intro a e c; rw [← h.2.1, ← h.launchesOf]; exact r3 a e c
  · intro a e c i; rw [← h.2.1, ← h.launchesOf]; exact r4 a e c i

/-- launches are filed under the workflow of the execution that performs them -/
theorem step_launches {w : Nat} {st : Store} {e : Exec} {now fresh : Nat} {e' : Exec} {st' : Store} {ls : List Launch}
    (h : Step w st e now fresh e' st' ls) : ∀ l ∈ ls, l.1 = w := by
  cases h <;> simp

/-- a step of an execution of `w` leaves the part of every other workflow untouched -/
theorem agree_step_other {s : World} {w a now fresh : Nat} (w' : Nat) (hw : w' ≠ w) :
    Agree w' s (s.apply (.step w a now fresh)) := by
  rcases apply_step s w a now fresh with h | ⟨e, e', st', ls, hg, hl, hst, heq⟩
  · rw [h]; exact ⟨fun _ => rfl, fun _ => rfl, rfl⟩
  · rw [heq]
    refine ⟨fun k => (step_frame hst w' hw k).symm, ?_, ?_⟩
    · intro a'; simp [get?_set, hw]
    · simp only [List.filter_append]
      have : ls.filter (fun l => decide (l.1 = w')) = [] := by
        simp only [List.filter_eq_nil_iff, decide_eq_true_eq]
        intro l hl' h2; exact hw (h2 ▸ step_launches hst l hl')
      simp [this]

def LaunchAll (s : World) : Prop := ∀ w, LaunchOK s w

theorem launchAll_init : LaunchAll {} := by
  intro w
  refine ⟨?_, ?_, ?_, ?_⟩ <;> intros <;> simp_all [AMap.get?, launchesOf]

theorem launchAll_apply {s : World} (hs : SerialOK s) (h : LaunchAll s) (ev : Event) (hok : s.okEvent ev = true)
    (hnc : s.noLaunchCrash [ev] = true) : LaunchAll (s.apply ev) := by
  cases ev with
  | start w a body =>
    simp only [World.apply]
    split
    · exact h
    · rename_i hhas
      have hnone : s.execs.get? (w, a) = none := by
        simp [AMap.has] at hhas; exact hhas
      intro w'
      obtain ⟨r1, r2, r3, r4⟩ := h w'
      refine ⟨r1, ?_, ?_, ?_⟩
      · intro c hn
        rcases r2 c hn with h1 | ⟨a2, e2, i, h1, h2, h3⟩
        · exact Or.inl h1
        · right; refine ⟨a2, e2, i, ?_, h2, h3⟩
          simp only [get?_set]; split
          · rename_i heq; cases heq; rw [hnone] at h1; cases h1
          · exact h1
      · intro a' e' c; simp only [get?_set]; split
        · intro h1; cases h1; simp
        · exact r3 a' e' c
      · intro a' e' c i; simp only [get?_set]; split
        · intro h1; cases h1; simp
        · exact r4 a' e' c i
  | kill w a =>
    simp only [World.noLaunchCrash, Bool.and_true] at hnc
    simp only [World.apply]
    split
    · exact h
    · rename_i e hg
      simp only [hg] at hnc
      intro w'
      obtain ⟨r1, r2, r3, r4⟩ := h w'
      refine ⟨r1, ?_, ?_, ?_⟩
      · intro c hn
        rcases r2 c hn with h1 | ⟨a2, e2, i, h1, h2, h3⟩
        · exact Or.inl h1
        · right; refine ⟨a2, e2, i, ?_, h2, h3⟩
          simp only [get?_set]; split
          · rename_i heq; cases heq; rw [hg] at h1; cases h1
            simp [h2, h3] at hnc
          · exact h1
      · intro a' e' c; simp only [get?_set]; split
        · intro h1; cases h1; simp
        · exact r3 a' e' c
      · intro a' e' c i; simp only [get?_set]; split
        · intro h1; cases h1; simp
        · exact r4 a' e' c i
  | step w a now fresh =>
    intro w'
    by_cases hw : w' = w
    · subst hw
      rcases apply_step s w' a now fresh with h' | ⟨e, e', st', ls, hg, hl, hst, heq⟩
      · rw [h']; exact h w'
      · rw [heq]
        exact launchOK_step hg hl hst (fun a' e'' h1 h2 => okEvent_step hok a' e'' h1 h2) ((hs w').2 _ _ hg) (h w')
    · exact launchOK_congr (agree_step_other w' hw) (h w')

theorem noLaunchCrash_cons {s : World} {ev : Event} {evs : List Event} (h : s.noLaunchCrash (ev :: evs) = true) :
    s.noLaunchCrash [ev] = true ∧ (s.apply ev).noLaunchCrash evs = true := by
  simp only [World.noLaunchCrash, Bool.and_eq_true, Bool.and_true] at h ⊢
  exact h

theorem launchAll_run {s : World} (hs : SerialOK s) (h : LaunchAll s) (evs : List Event)
    (hser : s.serialRun evs = true) (hnc : s.noLaunchCrash evs = true) : LaunchAll (s.run evs) := by
  induction evs generalizing s with
  | nil => exact h
  | cons ev evs ih =>
    simp only [World.serialRun, Bool.and_eq_true] at hser
    have := noLaunchCrash_cons hnc
    exact ih (serialOK_apply hs ev hser.1) (launchAll_apply hs h ev hser.1 this.1) hser.2 this.2






/-- what one backend access does depends only on the records of the execution's own workflow -/
theorem stepExec_congr {w : Nat} {st st' : Store} (e : Exec) (now fresh : Nat)
    (h : ∀ k, st.get? (w, k) = st'.get? (w, k)) :
    (stepExec w st e now fresh).1 = (stepExec w st' e now fresh).1 ∧
    (stepExec w st e now fresh).2.2 = (stepExec w st' e now fresh).2.2 ∧
    ∀ k, (stepExec w st e now fresh).2.1.get? (w, k) = (stepExec w st' e now fresh).2.1.get? (w, k) := by
  cases hp : e.phase with
  | idle =>
    cases hb : e.body[e.out.length]? with
    | none => simp [stepExec, hp, hb, h]
    | some op =>
      cases op with
      | det k =>
        cases hg : st'.get? (w, .seq k (e.ctr.get k + 1)) with
        | some v => simp [stepExec, hp, hb, h, hg]
        | none =>
          by_cases hk : k = .time
          · subst hk; simp [stepExec, hp, hb, h, hg]
          · simp [stepExec, hp, hb, h, hg, hk]
      | sub c =>
        cases hg : st'.get? (w, .taskInv c) <;> simp [stepExec, hp, hb, h, hg]
  | baseGet n => cases hg : st'.get? (w, .baseTime) <;> simp [stepExec, hp, h, hg]
  | baseSet n b => simp [stepExec, hp, h, get?_set]
  | seqSet k n v => simp [stepExec, hp, h, get?_set]
  | cntGet k n v => simp [stepExec, hp, h]
  | cntSet k n v cur => simp [stepExec, hp, h, get?_set]
  | launch c => simp [stepExec, hp, h]
  | subSet c i => simp [stepExec, hp, h, get?_set]



theorem agree_refl (w : Nat) (s : World) : Agree w s s := ⟨fun _ => rfl, fun _ => rfl, rfl⟩

theorem agree_trans {w : Nat} {s1 s2 s3 : World} (h1 : Agree w s1 s2) (h2 : Agree w s2 s3) : Agree w s1 s3 :=
  ⟨fun k => (h1.1 k).trans (h2.1 k), fun a => (h1.2.1 a).trans (h2.2.1 a), h1.2.2.trans h2.2.2⟩

theorem agree_symm {w : Nat} {s1 s2 : World} (h : Agree w s1 s2) : Agree w s2 s1 :=
  ⟨fun k => (h.1 k).symm, fun a => (h.2.1 a).symm, h.2.2.symm⟩

/-- an event of another workflow changes nothing that belongs to `w` -/
theorem agree_apply_other {w : Nat} (s : World) (ev : Event) (hw : ev.wf ≠ w) : Agree w s (s.apply ev) := by
  cases ev with
  | start w0 a body =>
    simp only [Event.wf] at hw
    simp only [World.apply]; split
    · exact agree_refl _ _
    · refine ⟨fun _ => rfl, ?_, rfl⟩
      intro a'; simp [get?_set, Ne.symm hw]
  | kill w0 a =>
    simp only [Event.wf] at hw
    simp only [World.apply]; split
    · exact agree_refl _ _
    · refine ⟨fun _ => rfl, ?_, rfl⟩
      intro a'; simp [get?_set, Ne.symm hw]
  | step w0 a now fresh =>
    simp only [Event.wf] at hw
    exact agree_step_other w (Ne.symm hw)

/-- the effect of an event of `w` on the part of `w` depends on that part only -/
theorem agree_apply_same {w : Nat} {s s' : World} (ev : Event) (hw : ev.wf = w) (h : Agree w s s') :
    Agree w (s.apply ev) (s'.apply ev) := by
  obtain ⟨h1, h2, h3⟩ := h
  cases ev with
  | start w0 a body =>
    simp only [Event.wf] at hw; subst hw
    have hg := h2 a
    cases hg' : s'.execs.get? (w0, a) with
    | some e => rw [hg'] at hg; simp only [World.apply, AMap.has, hg, hg']; exact ⟨h1, h2, h3⟩
    | none =>
      rw [hg'] at hg; simp only [World.apply, AMap.has, hg, hg']
      exact ⟨h1, fun a' => by simp [get?_set, h2], h3⟩
  | kill w0 a =>
    simp only [Event.wf] at hw; subst hw
    have hg := h2 a
    cases hg' : s'.execs.get? (w0, a) with
    | none => rw [hg'] at hg; simp only [World.apply, hg, hg']; exact ⟨h1, h2, h3⟩
    | some e =>
      rw [hg'] at hg; simp only [World.apply, hg, hg']
      exact ⟨h1, fun a' => by simp [get?_set, h2], h3⟩
  | step w0 a now fresh =>
    simp only [Event.wf] at hw; subst hw
    have hg := h2 a
    cases hg' : s'.execs.get? (w0, a) with
    | none => rw [hg'] at hg; simp only [World.apply, hg, hg']; exact ⟨h1, h2, h3⟩
    | some e =>
      rw [hg'] at hg
      by_cases hl : e.live = true
      · simp only [World.apply, hg, hg', hl, if_true]
        obtain ⟨c1, c2, c3⟩ := stepExec_congr e now fresh h1
        refine ⟨c3, ?_, ?_⟩
        · intro a'; simp only [get?_set, h2, c1]
        · simp only [List.filter_append, h3, c2]
      · simp only [World.apply, hg, hg', hl]; exact ⟨h1, h2, h3⟩

/-- Non-interference: everything that belongs to `w` after a run — its records, its executions with
    the values they were given, its launches — is what the run gives with the events of all other
    workflows deleted. -/
theorem agree_run {w : Nat} {s s' : World} (h : Agree w s s') (evs : List Event) :
    Agree w (s.run evs) (s'.run (evs.filter fun ev => decide (ev.wf = w))) := by
  induction evs generalizing s s' with
  | nil => exact h
  | cons ev evs ih =>
    by_cases hw : ev.wf = w
    · simp only [List.filter_cons, hw, decide_true, if_true, World.run, List.foldl_cons]
      exact ih (agree_apply_same ev hw h)
    · simp only [List.filter_cons, hw, decide_false, World.run, List.foldl_cons]
      exact ih (agree_trans (agree_symm (agree_apply_other s ev hw)) h)



end Pynenc.WorkflowProofs
