import PynencModel.Model.CallId
namespace Pynenc.C15P
open Pynenc.CallId

theorem hexVal_hexDigit (n : Nat) (h : n < 16) : hexVal (hexDigit n) = some n := by
  have : n = 0 ∨ n = 1 ∨ n = 2 ∨ n = 3 ∨ n = 4 ∨ n = 5 ∨ n = 6 ∨ n = 7 ∨ n = 8 ∨ n = 9 ∨ n = 10 ∨ n = 11 ∨ n = 12 ∨ n = 13 ∨ n = 14 ∨ n = 15 := by omega
  rcases this with h|h|h|h|h|h|h|h|h|h|h|h|h|h|h|h <;> subst h <;> decide

theorem parseGo_escChar (c : Char) (rest : Str) :
    parseGo .norm (escChar c ++ rest) = consRes c (parseGo .norm rest) := by
  unfold escChar
  split
  · subst_vars; simp [parseGo, unesc]
  split
  · subst_vars; simp [parseGo, unesc]
  split
  · subst_vars; simp [parseGo, unesc]
  split
  · subst_vars; simp [parseGo, unesc]
  split
  · subst_vars; simp [parseGo, unesc]
  split
  · subst_vars; simp [parseGo, unesc]
  split
  · subst_vars; simp [parseGo, unesc]
  split
  · rename_i h
    have h1 : c.toNat / 16 < 16 := by omega
    have h2 : c.toNat % 16 < 16 := by omega
    have h0 : hexVal '0' = some 0 := by decide
    simp [parseGo, h0, hexVal_hexDigit _ h1, hexVal_hexDigit _ h2]
    have : c.toNat / 16 * 16 + c.toNat % 16 = c.toNat := by omega
    rw [this, Char.ofNat_toNat]
  · rename_i h1 h2 h3 h4 h5 h6 h7 h8
    have : ¬ c.toNat < 32 := by omega
    simp [parseGo, *]

theorem parseGo_escape (s rest : Str) :
    parseGo .norm (escape s ++ ('"' :: rest)) = some (s, rest) := by
  induction s with
  | nil => simp [escape, parseGo]
  | cons c t ih =>
    simp only [escape, List.append_assoc]
    rw [parseGo_escChar, ih]; rfl

/-- a JSON string literal is self-delimiting -/
theorem parse_encStr (s rest : Str) : parseStr (encStr s ++ rest) = some (s, rest) := by
  simp only [encStr, List.cons_append, parseStr, List.append_assoc, if_true]
  exact parseGo_escape s rest

theorem encStr_injective {s t : Str} (h : encStr s = encStr t) : s = t := by
  have h1 := parse_encStr s []
  have h2 := parse_encStr t []
  rw [h] at h1
  rw [h1] at h2
  simpa using h2

theorem escape_injective {s t : Str} (h : escape s = escape t) : s = t := by
  apply encStr_injective
  simp [encStr, h]

theorem expect_cons (c : Char) (r : Str) : expect c (c :: r) = some r := by simp [expect]

theorem encPairs_cons (k v : Str) (l : List (Str × Str)) :
    encPairs ((k, v) :: l) = encStr k ++ ('=' :: (encStr v ++ (';' :: encPairs l))) := by
  simp [encPairs, encPair]

theorem parsePairs_encPairs (l : List (Str × Str)) :
    ∀ fuel, l.length ≤ fuel → parsePairs fuel (encPairs l) = some l := by
  induction l with
  | nil => intro fuel _; cases fuel <;> simp [encPairs, parsePairs]
  | cons p t ih =>
    obtain ⟨k, v⟩ := p
    intro fuel hf
    cases fuel with
    | zero => simp at hf
    | succ f =>
      have hne : encPairs ((k, v) :: t) = '"' :: (escape k ++ ('"' :: ('=' :: (encStr v ++ (';' :: encPairs t))))) := by
        simp [encPairs_cons, encStr]
      rw [hne, parsePairs]
      case x_2 => intro h; cases h
      rw [← hne, encPairs_cons, parse_encStr]
      simp only [expect_cons, parse_encStr]
      rw [ih f (by simpa using hf)]

theorem encPairs_injective {l1 l2 : List (Str × Str)} (h : encPairs l1 = encPairs l2) : l1 = l2 := by
  have h1 := parsePairs_encPairs l1 (l1.length + l2.length) (by omega)
  have h2 := parsePairs_encPairs l2 (l1.length + l2.length) (by omega)
  rw [h, h2] at h1
  simpa using h1.symm

theorem leKey_total (a b : Str) : (leKey a b || leKey b a) = true := by
  induction a generalizing b with
  | nil => simp [leKey]
  | cons x xs ih =>
    cases b with
    | nil => simp [leKey]
    | cons y ys =>
      simp only [leKey]
      by_cases h1 : x.toNat < y.toNat
      · simp [h1]
      · by_cases h2 : y.toNat < x.toNat
        · simp [h2]
        · simp [h1, h2, ih ys]

theorem leKey_trans (a b c : Str) : leKey a b = true → leKey b c = true → leKey a c = true := by
  induction a generalizing b c with
  | nil => simp [leKey]
  | cons x xs ih =>
    cases b with
    | nil => simp [leKey]
    | cons y ys =>
      cases c with
      | nil => simp [leKey]
      | cons z zs =>
        simp only [leKey]
        intro h1 h2
        split at h1
        · split at h2
          · have : x.toNat < z.toNat := by omega
            simp [this]
          · split at h2
            · cases h2
            · have : x.toNat < z.toNat := by omega
              simp [this]
        · split at h1
          · cases h1
          · split at h2
            · have : x.toNat < z.toNat := by omega
              simp [this]
            · split at h2
              · cases h2
              · have e1 : ¬ x.toNat < z.toNat := by omega
                have e2 : ¬ z.toNat < x.toNat := by omega
                simp [e1, e2]
                exact ih ys zs h1 h2

theorem leKey_antisymm (a b : Str) : leKey a b = true → leKey b a = true → a = b := by
  induction a generalizing b with
  | nil => cases b <;> simp [leKey]
  | cons x xs ih =>
    cases b with
    | nil => simp [leKey]
    | cons y ys =>
      simp only [leKey]
      intro h1 h2
      by_cases c1 : x.toNat < y.toNat
      · have c2 : ¬ y.toNat < x.toNat := by omega
        simp [c1, c2] at h2
      · by_cases c2 : y.toNat < x.toNat
        · simp [c1, c2] at h1
        · have hx : x.toNat = y.toNat := by omega
          have : x = y := Char.toNat_inj.mp hx
          subst this
          simp [c1] at h1 h2
          rw [ih ys h1 h2]

/-- keys of a dictionary are pairwise different -/
def KeysNodup (l : List (Str × Str)) : Prop := (l.map (·.1)).Nodup

theorem sortPairs_perm (l : List (Str × Str)) : (sortPairs l).Perm l := List.mergeSort_perm l lePair

theorem sortPairs_sorted (l : List (Str × Str)) : (sortPairs l).Pairwise (fun a b => lePair a b = true) :=
  List.pairwise_mergeSort (fun a b c => leKey_trans a.1 b.1 c.1) (fun a b => leKey_total a.1 b.1) l

theorem eq_of_mem_same_key {l : List (Str × Str)} (hn : KeysNodup l) {a b : Str × Str}
    (ha : a ∈ l) (hb : b ∈ l) (hk : a.1 = b.1) : a = b := by
  induction l with
  | nil => cases ha
  | cons p t ih =>
    simp only [KeysNodup, List.map_cons, List.nodup_cons, List.mem_map, not_exists, not_and] at hn
    rcases List.mem_cons.mp ha with rfl | ha'
    · rcases List.mem_cons.mp hb with rfl | hb'
      · rfl
      · exact absurd hk.symm (hn.1 b hb')
    · rcases List.mem_cons.mp hb with rfl | hb'
      · exact absurd hk (hn.1 a ha')
      · exact ih hn.2 ha' hb'

/-- the order of the dictionary does not matter -/
theorem sortPairs_perm_invariant {l1 l2 : List (Str × Str)} (hp : l1.Perm l2) (hn : KeysNodup l1) :
    sortPairs l1 = sortPairs l2 := by
  have p12 : (sortPairs l1).Perm (sortPairs l2) :=
    (sortPairs_perm l1).trans (hp.trans (sortPairs_perm l2).symm)
  refine List.Perm.eq_of_pairwise ?_ (sortPairs_sorted l1) (sortPairs_sorted l2) p12
  intro a b ha hb h1 h2
  have ha' : a ∈ l1 := (sortPairs_perm l1).mem_iff.mp ha
  have hb' : b ∈ l1 := hp.mem_iff.mpr ((sortPairs_perm l2).mem_iff.mp hb)
  exact eq_of_mem_same_key hn ha' hb' (leKey_antisymm _ _ h1 h2)

theorem enc_perm_invariant {l1 l2 : List (Str × Str)} (hp : l1.Perm l2) (hn : KeysNodup l1) :
    preimage l1 = preimage l2 := by
  simp [preimage, sortPairs_perm_invariant hp hn]

theorem enc_injective {l1 l2 : List (Str × Str)} (h : preimage l1 = preimage l2) : l1.Perm l2 := by
  have := encPairs_injective h
  exact (sortPairs_perm l1).symm.trans (this ▸ sortPairs_perm l2)

theorem utf8_injective {s t : Str} (h : utf8 s = utf8 t) : s = t := by
  unfold utf8 at h
  exact String.ofList_inj.mp (String.toByteArray_inj.mp h)

/-- shape of a SHA-256 hex digest -/
def IsHex64 (s : Str) : Prop := s.length = 64 ∧ ∀ c ∈ s, (hexVal c).isSome = true
def HashShape (H : ByteArray → Str) : Prop := ∀ b, IsHex64 (H b)

theorem no_args_distinct {H : ByteArray → Str} (hH : HashShape H) {l : List (Str × Str)} (hne : l ≠ []) :
    argsId H l ≠ noArgs := by
  unfold argsId
  have : l.isEmpty = false := by cases l <;> simp_all
  simp only [this]
  intro h
  simp only [Bool.false_eq_true, if_false] at h
  have := (hH (utf8 (preimage l))).1
  rw [h] at this
  simp [noArgs] at this

theorem argsId_perm {H : ByteArray → Str} {l1 l2 : List (Str × Str)} (hp : l1.Perm l2) (hn : KeysNodup l1) :
    argsId H l1 = argsId H l2 := by
  unfold argsId
  have : l1.isEmpty = l2.isEmpty := by
    cases l1 <;> cases l2 <;> simp_all
  rw [this, enc_perm_invariant hp hn]

theorem callId_eq_of {H : ByteArray → Str} (t : TaskId) {s1 s2 : List (Str × Str)} (hp : s1.Perm s2)
    (hn : KeysNodup s1) : callIdOf H t s1 = callIdOf H t s2 := by
  simp [callIdOf, argsId_perm hp hn]

def NoCollision (H : ByteArray → Str) (s1 s2 : List (Str × Str)) : Prop :=
  H (utf8 (preimage s1)) = H (utf8 (preimage s2)) → utf8 (preimage s1) = utf8 (preimage s2)

theorem callId_eq_imp {H : ByteArray → Str} (hH : HashShape H) {t1 t2 : TaskId} {s1 s2 : List (Str × Str)}
    (hc : NoCollision H s1 s2) (h : callIdOf H t1 s1 = callIdOf H t2 s2) : t1 = t2 ∧ s1.Perm s2 := by
  simp only [callIdOf, CallId.mk.injEq] at h
  refine ⟨h.1, ?_⟩
  have ha := h.2
  cases s1 with
  | nil =>
    cases s2 with
    | nil => exact List.Perm.refl _
    | cons p t => exact absurd ha.symm (no_args_distinct hH (by simp))
  | cons p t =>
    cases s2 with
    | nil => exact absurd ha (no_args_distinct hH (by simp))
    | cons q u =>
      simp only [argsId, List.isEmpty_cons] at ha
      exact enc_injective (utf8_injective (hc ha))

theorem callId_eq_iff {H : ByteArray → Str} (hH : HashShape H) {t1 t2 : TaskId} {s1 s2 : List (Str × Str)}
    (hn : KeysNodup s1) (hc : NoCollision H s1 s2) :
    callIdOf H t1 s1 = callIdOf H t2 s2 ↔ (t1 = t2 ∧ s1.Perm s2) := by
  constructor
  · exact callId_eq_imp hH hc
  · rintro ⟨rfl, hp⟩; exact callId_eq_of t1 hp hn

theorem splitLast_none {sep : Char} {s : Str} (h : sep ∉ s) : splitLast sep s = none := by
  induction s with
  | nil => rfl
  | cons c t ih =>
    simp only [List.mem_cons, not_or] at h
    have : ¬ c = sep := fun e => h.1 e.symm
    simp [splitLast, ih h.2, this]

theorem splitLast_append {sep : Char} (m f : Str) (h : sep ∉ f) :
    splitLast sep (m ++ (sep :: f)) = some (m, f) := by
  induction m with
  | nil => simp [splitLast, splitLast_none h]
  | cons c t ih => simp [splitLast, ih]

theorem taskId_key_roundtrip (t : TaskId) (hm : t.module ≠ []) (hf : t.func ≠ []) (hd : '.' ∉ t.func) :
    TaskId.fromKey t.key = some t := by
  unfold TaskId.fromKey TaskId.key
  rw [splitLast_append _ _ hd]
  cases t with
  | mk m f =>
    cases m <;> cases f <;> simp_all

theorem callId_key_roundtrip (c : CallId) (hm : c.task.module ≠ []) (hf : c.task.func ≠ [])
    (hd : '.' ∉ c.task.func) (ha : ':' ∉ c.argsId) : CallId.fromKey c.key = some c := by
  unfold CallId.fromKey CallId.key
  rw [splitLast_append _ _ ha]
  simp only [taskId_key_roundtrip _ hm hf hd]

theorem hex_no_colon {s : Str} (h : IsHex64 s) : ':' ∉ s := by
  intro hc
  have := h.2 ':' hc
  simp [hexVal] at this

theorem noArgs_no_colon : ':' ∉ noArgs := by decide

theorem argsId_no_colon {H : ByteArray → Str} (hH : HashShape H) (l : List (Str × Str)) : ':' ∉ argsId H l := by
  unfold argsId
  split
  · exact noArgs_no_colon
  · exact hex_no_colon (hH _)

section binding
variable {V : Type}

def names (sig : List (Param V)) : List Str := sig.map (·.name)

/-- the dictionary that assigns `vals` to the parameters in order -/
def full : List (Param V) → List V → List (Str × V)
  | p :: ps, v :: vs => (p.name, v) :: full ps vs
  | _, _ => []

theorem kwGet_some_mem {kw : List (Str × V)} {n : Str} {v : V} (h : kwGet kw n = some v) : (n, v) ∈ kw := by
  induction kw with
  | nil => simp [kwGet] at h
  | cons e t ih =>
    obtain ⟨k, w⟩ := e
    simp only [kwGet] at h
    split at h
    · simp_all
    · exact List.mem_cons_of_mem _ (ih h)

theorem kwGet_none {kw : List (Str × V)} {n : Str} (h : kwGet kw n = none) : ∀ e ∈ kw, e.1 ≠ n := by
  induction kw with
  | nil => simp
  | cons e t ih =>
    obtain ⟨k, w⟩ := e
    simp only [kwGet] at h
    split at h
    · cases h
    · intro e he
      rcases List.mem_cons.mp he with rfl | he'
      · assumption
      · exact ih h e he'

theorem kwGet_none_of {kw : List (Str × V)} {n : Str} (h : ∀ e ∈ kw, e.1 ≠ n) : kwGet kw n = none := by
  induction kw with
  | nil => rfl
  | cons e t ih =>
    obtain ⟨k, w⟩ := e
    have h1 : k ≠ n := h (k, w) (by simp)
    simp only [kwGet, h1, if_false]
    exact ih (fun e he => h e (List.mem_cons_of_mem _ he))

theorem mem_full_name {sig : List (Param V)} {vals : List V} {e : Str × V} (h : e ∈ full sig vals) :
    e.1 ∈ names sig := by
  induction sig generalizing vals with
  | nil => simp [full] at h
  | cons p ps ih =>
    cases vals with
    | nil => simp [full] at h
    | cons v vs =>
      simp only [full, List.mem_cons] at h
      rcases h with rfl | h
      · simp [names]
      · have := ih h
        simp only [names, List.map_cons, List.mem_cons]
        exact Or.inr this

/-- keyword phase: remaining parameters are given by keyword (any order) or omitted when the value is the default -/
theorem bind_keywords (sigK : List (Param V)) : ∀ (rest : List V) (kw : List (Str × V)),
    (names sigK).Nodup → rest.length = sigK.length →
    (∀ e ∈ kw, e ∈ full sigK rest) →
    (∀ pv ∈ sigK.zip rest, (pv.1.name, pv.2) ∈ kw ∨ pv.1.default = some pv.2) →
    bindArgs sigK [] kw = some (full sigK rest) := by
  induction sigK with
  | nil =>
    intro rest kw _ hl hs _
    have : kw = [] := by
      cases kw with
      | nil => rfl
      | cons e t => exact absurd (hs e (by simp)) (by simp [full])
    subst this
    simp [bindArgs, full]
  | cons p ps ih =>
    intro rest kw hn hl hs hc
    cases rest with
    | nil => simp at hl
    | cons v vs =>
      simp only [names, List.map_cons, List.nodup_cons] at hn
      have hl' : vs.length = ps.length := by simpa using hl
      simp only [bindArgs, full]
      cases hg : kwGet kw p.name with
      | some v' =>
        have hmem := kwGet_some_mem hg
        have hv : v' = v := by
          have := hs _ hmem
          simp only [full, List.mem_cons, Prod.mk.injEq, true_and] at this
          rcases this with h | h
          · exact h
          · exact absurd (mem_full_name h) hn.1
        subst hv
        have := ih vs (kwErase kw p.name) hn.2 hl' ?_ ?_
        · simp [this, consB]
        · intro e he
          simp only [kwErase, List.mem_filter, ne_eq, decide_eq_true_eq] at he
          have := hs e he.1
          simp only [full, List.mem_cons] at this
          rcases this with rfl | h
          · exact absurd rfl he.2
          · exact h
        · intro pv hpv
          have hpv' : pv ∈ (p :: ps).zip (v' :: vs) := by simp [hpv]
          rcases hc pv hpv' with h | h
          · left
            simp only [kwErase, List.mem_filter, ne_eq, decide_eq_true_eq]
            refine ⟨h, ?_⟩
            intro e
            have : pv.1 ∈ ps := (List.of_mem_zip hpv).1
            exact hn.1 (e ▸ List.mem_map_of_mem (f := (·.name)) this)
          · right; exact h
      | none =>
        have hnone := kwGet_none hg
        have hd : p.default = some v := by
          rcases hc (p, v) (by simp) with h | h
          · exact absurd rfl (hnone _ h)
          · exact h
        simp only [hd]
        have := ih vs kw hn.2 hl' ?_ ?_
        · simp [this, consB]
        · intro e he
          have := hs e he
          simp only [full, List.mem_cons] at this
          rcases this with rfl | h
          · exact absurd rfl (hnone _ he)
          · exact h
        · intro pv hpv
          exact hc pv (by simp [hpv])

/-- A way of writing one call: the first parameters positionally (`pos`), every other parameter either by
    keyword (in any order) or left out because its value is the default. -/
structure Spelling (sigP sigK : List (Param V)) (pos rest : List V) (kw : List (Str × V)) : Prop where
  lenP : pos.length = sigP.length
  lenK : rest.length = sigK.length
  kwSound : ∀ e ∈ kw, e ∈ full sigK rest
  kwComplete : ∀ pv ∈ sigK.zip rest, (pv.1.name, pv.2) ∈ kw ∨ pv.1.default = some pv.2

theorem full_append (sigP sigK : List (Param V)) (pos rest : List V) (h : pos.length = sigP.length) :
    full (sigP ++ sigK) (pos ++ rest) = full sigP pos ++ full sigK rest := by
  induction sigP generalizing pos with
  | nil => cases pos <;> simp_all [full]
  | cons p ps ih =>
    cases pos with
    | nil => simp at h
    | cons v vs => simp [full, ih vs (by simpa using h)]

theorem spellings_same_arguments (sigP sigK : List (Param V)) (pos rest : List V) (kw : List (Str × V))
    (hn : (names (sigP ++ sigK)).Nodup) (h : Spelling sigP sigK pos rest kw) :
    bindArgs (sigP ++ sigK) pos kw = some (full (sigP ++ sigK) (pos ++ rest)) := by
  obtain ⟨lenP, lenK, hs, hc⟩ := h
  induction sigP generalizing pos with
  | nil =>
    cases pos with
    | cons _ _ => simp at lenP
    | nil =>
      simp only [List.nil_append] at hn ⊢
      exact bind_keywords sigK rest kw hn lenK hs hc
  | cons p ps ih =>
    cases pos with
    | nil => simp at lenP
    | cons v vs =>
      simp only [names, List.cons_append, List.map_cons, List.nodup_cons, List.map_append, List.mem_append,
        not_or] at hn
      have hk : kwGet kw p.name = none := by
        apply kwGet_none_of
        intro e he hE
        have := mem_full_name (hs e he)
        exact hn.1.2 (hE ▸ this)
      simp only [List.cons_append, bindArgs, hk, Option.isSome_none, Bool.false_eq_true, if_false, full]
      have := ih vs (by simpa [names] using hn.2) (by simpa using lenP)
      simp [this, consB]
end binding

section batch
variable {V : Type}

theorem nodup_of_keys {l : List (Str × V)} (h : (l.map (·.1)).Nodup) : l.Nodup := by
  induction l with
  | nil => exact List.nodup_nil
  | cons e t ih =>
    simp only [List.map_cons, List.nodup_cons] at h ⊢
    exact ⟨fun he => h.1 (List.mem_map_of_mem (f := (·.1)) he), ih h.2⟩

theorem kwGet_of_mem {l : List (Str × V)} (h : (l.map (·.1)).Nodup) {k : Str} {v : V} (hm : (k, v) ∈ l) :
    kwGet l k = some v := by
  induction l with
  | nil => cases hm
  | cons e t ih =>
    obtain ⟨k', v'⟩ := e
    simp only [List.map_cons, List.nodup_cons] at h
    rcases List.mem_cons.mp hm with heq | hm'
    · cases heq; simp [kwGet]
    · have : k' ≠ k := fun e => h.1 (e ▸ List.mem_map_of_mem (f := (·.1)) hm')
      simp only [kwGet, this, if_false]
      exact ih h.2 hm'

theorem keys_filter_nodup {l : List (Str × V)} (h : (l.map (·.1)).Nodup) (q : Str × V → Bool) :
    ((l.filter q).map (·.1)).Nodup :=
  List.Nodup.sublist (List.Sublist.map _ List.filter_sublist) h

theorem kwGet_isSome_of_key {l : List (Str × V)} {k : Str} (h : k ∈ l.map (·.1)) : (kwGet l k).isSome = true := by
  cases hg : kwGet l k with
  | some v => rfl
  | none =>
    obtain ⟨e, he, rfl⟩ := List.mem_map.mp h
    exact absurd rfl (kwGet_none hg e he)

/-- the dictionary `PreSerializedCall` rebuilds from the common arguments and the per-call part of the bound
    arguments is the bound dictionary again (as a dictionary: same entries, order aside) -/
theorem batch_dict_perm (common params F : List (Str × V)) (hF : (F.map (·.1)).Nodup)
    (hC : (common.map (·.1)).Nodup) (h3 : ∀ e ∈ common, kwGet params e.1 = none → e ∈ F)
    (h4 : ∀ e ∈ params, e.1 ∈ F.map (·.1)) :
    (batchDict common (batchOther common params F)).Perm F := by
  have hO : ((batchOther common params F).map (·.1)).Nodup := keys_filter_nodup hF _
  have memO : ∀ e, e ∈ batchOther common params F ↔
      (e ∈ F ∧ ((kwGet params e.1).isSome = true ∨ (kwGet common e.1).isNone = true)) := by
    intro e; simp [batchOther, List.mem_filter]
  have hkeys : ((batchDict common (batchOther common params F)).map (·.1)).Nodup := by
    simp only [batchDict, mergeDict, List.map_append, List.map_map]
    rw [List.nodup_append]
    refine ⟨?_, keys_filter_nodup hO _, ?_⟩
    · have : ((fun (p : Str × V) => p.1) ∘
          fun (p : Str × V) => (p.1, (kwGet (batchOther common params F) p.1).getD p.2)) = (fun p => p.1) := rfl
      rw [this]; exact hC
    · intro a ha b hb hab
      subst hab
      obtain ⟨e, he, rfl⟩ := List.mem_map.mp hb
      simp only [List.mem_filter] at he
      obtain ⟨c, hc, hce⟩ := List.mem_map.mp ha
      have hk : e.1 ∈ common.map (fun p => p.1) := List.mem_map.mpr ⟨c, hc, hce⟩
      have := kwGet_isSome_of_key hk
      have h2 := he.2
      simp only [Option.isNone_iff_eq_none] at h2
      rw [h2] at this; cases this
  refine (List.perm_ext_iff_of_nodup (nodup_of_keys hkeys) (nodup_of_keys hF)).mpr ?_
  intro e
  obtain ⟨k, v⟩ := e
  constructor
  · intro h
    simp only [batchDict, mergeDict, List.mem_append, List.mem_map, List.mem_filter] at h
    rcases h with ⟨c, hc, hce⟩ | ⟨he, _⟩
    · cases hg : kwGet (batchOther common params F) c.1 with
      | some v' =>
        rw [hg] at hce
        have := kwGet_some_mem hg
        simp only [Option.getD_some] at hce
        rw [← hce]
        exact ((memO _).mp this).1
      | none =>
        rw [hg] at hce
        simp only [Option.getD_none] at hce
        rw [← hce]
        apply h3 c hc
        cases hp : kwGet params c.1 with
        | none => rfl
        | some p =>
          exfalso
          have hkF := h4 _ (kwGet_some_mem hp)
          obtain ⟨f, hf, hfe⟩ := List.mem_map.mp hkF
          have hfO : f ∈ batchOther common params F := (memO f).mpr ⟨hf, Or.inl (by rw [hfe, hp]; rfl)⟩
          exact kwGet_none hg f hfO hfe
    · exact ((memO _).mp he).1
  · intro h
    simp only [batchDict, mergeDict, List.mem_append, List.mem_map, List.mem_filter]
    cases hc : kwGet common k with
    | none =>
      right
      exact ⟨(memO _).mpr ⟨h, Or.inr (by simp [hc])⟩, by simp⟩
    | some c =>
      left
      refine ⟨(k, c), kwGet_some_mem hc, ?_⟩
      cases hp : kwGet params k with
      | some p =>
        have hin : (k, v) ∈ batchOther common params F := (memO _).mpr ⟨h, Or.inl (by simp [hp])⟩
        simp [kwGet_of_mem hO hin]
      | none =>
        have hnone : kwGet (batchOther common params F) k = none := by
          apply kwGet_none_of
          intro f hf hfe
          have := ((memO f).mp hf).2
          rw [hfe, hp, hc] at this
          simp at this
        have hcF := h3 (k, c) (kwGet_some_mem hc) hp
        have : kwGet F k = some c := kwGet_of_mem hF hcF
        have hv : kwGet F k = some v := kwGet_of_mem hF h
        rw [this] at hv
        simp only [hnone, Option.getD_none]
        exact congrArg (Prod.mk k) (Option.some.inj hv)

theorem full_keys : ∀ (sig : List (Param V)) (vals : List V), vals.length = sig.length →
    (full sig vals).map (·.1) = names sig
  | [], [], _ => rfl
  | [], _ :: _, h => by simp at h
  | _ :: _, [], h => by simp at h
  | p :: ps, v :: vs, h => by
    simp only [full, names, List.map_cons, List.cons.injEq, true_and]
    exact full_keys ps vs (by simpa using h)

/-- the batch path is a spelling: when `{**common_args, **params}` is a way of writing the call that assigns `vals`
    (every entry agrees with `vals`, everything missing has its default), the batch path binds and the dictionary
    `PreSerializedCall` ends up with has exactly the entries of the direct call's dictionary -/
theorem batch_is_spelling (sig : List (Param V)) (vals : List V) (common params : List (Str × V))
    (hn : (names sig).Nodup) (hC : (common.map (·.1)).Nodup)
    (h : Spelling [] sig [] vals (mergeDict common params)) :
    ∃ d, batchCall sig common params = some d ∧ d.Perm (full sig vals) := by
  have hb := spellings_same_arguments [] sig [] vals (mergeDict common params) (by simpa using hn) h
  simp only [List.nil_append] at hb
  obtain ⟨_, lenK, hs, _⟩ := h
  refine ⟨batchDict common (batchOther common params (full sig vals)), by simp only [batchCall, hb], ?_⟩
  apply batch_dict_perm common params (full sig vals) (by rw [full_keys sig vals lenK]; exact hn) hC
  · intro e he hp
    apply hs
    simp only [mergeDict, List.mem_append, List.mem_map]
    exact Or.inl ⟨e, he, by simp [hp]⟩
  · intro e he
    cases hc : kwGet common e.1 with
    | none =>
      have : e ∈ mergeDict common params := by
        simp only [mergeDict, List.mem_append, List.mem_filter]
        exact Or.inr ⟨he, by simp [hc]⟩
      exact List.mem_map_of_mem (f := (·.1)) (hs e this)
    | some c =>
      have hm := kwGet_some_mem hc
      have : (e.1, (kwGet params e.1).getD c) ∈ mergeDict common params := by
        simp only [mergeDict, List.mem_append, List.mem_map]
        exact Or.inl ⟨(e.1, c), hm, rfl⟩
      exact List.mem_map_of_mem (f := (·.1)) (hs _ this)

/-- serialization of a dictionary, argument by argument (`serialize_arguments`) -/
def serArgsBy (serK : Str → V → Str) (d : List (Str × V)) : List (Str × Str) := d.map (fun p => (p.1, serK p.1 p.2))

theorem batch_same_identity {H : ByteArray → Str} (t : TaskId) (serK : Str → V → Str)
    (sig : List (Param V)) (vals : List V) (common params : List (Str × V))
    (hn : (names sig).Nodup) (hC : (common.map (·.1)).Nodup)
    (h : Spelling [] sig [] vals (mergeDict common params)) :
    ∃ d, batchCall sig common params = some d ∧
      callIdOf H t (serArgsBy serK d) = callIdOf H t (serArgsBy serK (full sig vals)) := by
  obtain ⟨d, hd, hp⟩ := batch_is_spelling sig vals common params hn hC h
  refine ⟨d, hd, callId_eq_of t (hp.map _) ?_⟩
  have hk : (serArgsBy serK d).map (·.1) = d.map (·.1) := by simp [serArgsBy]
  simp only [KeysNodup, hk]
  have : (d.map (·.1)).Perm ((full sig vals).map (·.1)) := hp.map _
  rw [this.nodup_iff, full_keys sig vals h.lenK]
  exact hn
end batch
end Pynenc.C15P
