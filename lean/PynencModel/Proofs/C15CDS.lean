import PynencModel.Model.CDS
namespace Pynenc.C15P
open Pynenc Pynenc.CDS

section amap
variable {α β : Type} [DecidableEq α]

theorem AMap.get?_some_mem {m : AMap α β} {k : α} {v : β} (h : AMap.get? m k = some v) : (k, v) ∈ m := by
  induction m with
  | nil => simp [AMap.get?] at h
  | cons p t ih =>
    obtain ⟨k', v'⟩ := p
    simp only [AMap.get?] at h
    split at h
    · simp_all
    · exact List.mem_cons_of_mem _ (ih h)

theorem AMap.mem_set {m : AMap α β} {k : α} {v : β} {e : α × β} (h : e ∈ AMap.set m k v) : e = (k, v) ∨ e ∈ m := by
  induction m with
  | nil => simp [AMap.set] at h; exact Or.inl h
  | cons p t ih =>
    obtain ⟨k', v'⟩ := p
    simp only [AMap.set] at h
    split at h
    · rcases List.mem_cons.mp h with h | h
      · exact Or.inl h
      · exact Or.inr (List.mem_cons_of_mem _ h)
    · rcases List.mem_cons.mp h with h | h
      · exact Or.inr (h ▸ List.mem_cons_self)
      · rcases ih h with h | h
        · exact Or.inl h
        · exact Or.inr (List.mem_cons_of_mem _ h)

theorem AMap.mem_erase {m : AMap α β} {k : α} {e : α × β} (h : e ∈ AMap.erase m k) : e ∈ m := by
  simp only [AMap.erase, List.mem_filter] at h
  exact h.1
end amap

section
variable {V : Type}

theorem mem_moveToEnd {l : AMap Str V} {k : Str} {e : Str × V} (h : e ∈ moveToEnd l k) : e ∈ l := by
  unfold moveToEnd at h
  split at h
  · rename_i v hv
    rcases List.mem_append.mp h with h | h
    · exact AMap.mem_erase h
    · simp only [List.mem_singleton] at h
      exact h ▸ AMap.get?_some_mem hv
  · exact h

theorem mem_cachePut {c : Conf} {l l' : AMap Str V} {k : Str} {o : V} (h : cachePut c l k o = some l')
    {e : Str × V} (he : e ∈ l') : e = (k, o) ∨ e ∈ l := by
  unfold cachePut at h
  split at h
  · cases l with
    | nil => simp at h
    | cons p t =>
      simp only [Option.some.injEq] at h
      subst h
      rcases AMap.mem_set he with h | h
      · exact Or.inl h
      · exact Or.inr (List.mem_cons_of_mem _ h)
  · simp only [Option.some.injEq] at h
    subst h
    exact AMap.mem_set he

theorem cachePut_isSome {c : Conf} (hc : 1 ≤ c.cacheSize) (l : AMap Str V) (k : Str) (o : V) :
    ∃ l', cachePut c l k o = some l' := by
  unfold cachePut
  split
  · cases l with
    | nil => simp at *; omega
    | cons p t => exact ⟨_, rfl⟩
  · exact ⟨_, rfl⟩

theorem startsWith_append (p s : Str) : startsWith p (p ++ s) = true := by
  induction p with
  | nil => simp [startsWith]
  | cons c t ih => simp [startsWith, ih]

theorem isRef_genKey (H : Str → Str) (s : Str) : isRef (genKey H s) = true := by
  simp [isRef, genKey, startsWith_append]

theorem genKey_inj {H : Str → Str} {a b : Str} (h : genKey H a = genKey H b) : H a = H b := by
  simp only [genKey] at h
  have := List.append_cancel_left h
  simpa using this

/-- What holds of every store that the operations can produce: each stored text is the serialization of some
    value, filed under the key of its own content, and each cached object is filed under the key of its
    serialization.  `S` is the set of texts that occur in the history (the hash is only assumed collision free
    on `S`). -/
structure Coherent (ser : V → Str) (H : Str → Str) (S : Str → Prop) (st : Store V) : Prop where
  ext : ∀ k s, (k, s) ∈ st.ext → k = genKey H s ∧ S s ∧ ∃ v, s = ser v
  lru : ∀ k o, (k, o) ∈ st.lru → k = genKey H (ser o) ∧ S (ser o)

/-- no two texts of `S` have the same digest -/
def NoColl (H : Str → Str) (S : Str → Prop) : Prop := ∀ a b, S a → S b → H a = H b → a = b

theorem coherent_empty (ser : V → Str) (H : Str → Str) (S : Str → Prop) : Coherent ser H S ({} : Store V) := by
  constructor
  · intro k s h; cases h
  · intro k o h; cases h

variable {ser : V → Str} {deser : Str → Option V} {asStr : V → Option Str} {H : Str → Str} {S : Str → Prop}

theorem ser_injective (hrt : ∀ v, deser (ser v) = some v) {a b : V} (h : ser a = ser b) : a = b := by
  have h1 := hrt a
  rw [h, hrt b] at h1
  exact (Option.some.inj h1).symm

theorem coherent_set_ext {st : Store V} (hco : Coherent ser H S st) (o : V) (hS : S (ser o)) :
    Coherent ser H S { st with ext := AMap.set st.ext (genKey H (ser o)) (ser o) } := by
  refine ⟨?_, hco.lru⟩
  intro k s h
  rcases AMap.mem_set h with h | h
  · cases h; exact ⟨rfl, hS, o, rfl⟩
  · exact hco.ext k s h

theorem maybeStore_cases (c : Conf) (ext : AMap Str Str) (s : Str) :
    (external c s.length = true ∧ maybeStore H c ext s = (AMap.set ext (genKey H s) s, genKey H s)) ∨
    (external c s.length = false ∧ maybeStore H c ext s = (ext, s)) := by
  unfold maybeStore
  cases external c s.length <;> simp

theorem serialize_coherent (hnr : ∀ v, isRef (ser v) = false) (c : Conf) {st : Store V}
    (hco : Coherent ser H S st) (o : V) (hS : S (ser o)) (d : Bool) :
    Coherent ser H S (serialize ser asStr H c st o d).1 := by
  unfold serialize
  split
  · exact hco
  · split
    · exact hco
    · rcases maybeStore_cases (H := H) c st.ext (ser o) with ⟨_, h⟩ | ⟨_, h⟩
      · simp only [h, isRef_genKey, if_true]
        have hc2 := coherent_set_ext hco o hS
        split
        · rename_i l hl
          refine ⟨hc2.ext, ?_⟩
          intro k o' hm
          rcases mem_cachePut hl hm with h | h
          · cases h; exact ⟨rfl, hS⟩
          · exact hco.lru k o' h
        · exact hc2
      · simp only [h, hnr, Bool.false_eq_true, if_false]
        exact hco

theorem resolve_coherent (hrt : ∀ v, deser (ser v) = some v) (c : Conf) {st : Store V}
    (hco : Coherent ser H S st) (data : Str) :
    Coherent ser H S (resolve deser c st data).1 := by
  unfold resolve
  split
  · split
    · refine ⟨hco.ext, ?_⟩
      intro k o hm
      exact hco.lru k o (mem_moveToEnd hm)
    · split
      · exact hco
      · rename_i s hs
        obtain ⟨hk, hSs, v, hv⟩ := hco.ext _ _ (AMap.get?_some_mem hs)
        split
        · exact hco
        · rename_i o ho
          rw [hv, hrt v] at ho
          cases ho
          split
          · rename_i l hl
            refine ⟨hco.ext, ?_⟩
            intro k o' hm
            rcases mem_cachePut hl hm with h | h
            · cases h; exact ⟨hv ▸ hk, hv ▸ hSs⟩
            · exact hco.lru k o' h
          · exact hco
  · split <;> exact hco

/-- the backend of `st2` still holds everything `st1` held -/
def ExtExtends (st1 st2 : Store V) : Prop := ∀ k s, AMap.get? st1.ext k = some s → AMap.get? st2.ext k = some s

theorem extExtends_refl (st : Store V) : ExtExtends st st := fun _ _ h => h
theorem extExtends_trans {a b c : Store V} (h1 : ExtExtends a b) (h2 : ExtExtends b c) : ExtExtends a c :=
  fun k s h => h2 k s (h1 k s h)

theorem set_ext_extends (hnc : NoColl H S) {st : Store V} (hco : Coherent ser H S st) (o : V) (hS : S (ser o)) :
    ExtExtends st { st with ext := AMap.set st.ext (genKey H (ser o)) (ser o) } := by
  intro k s h
  by_cases hk : k = genKey H (ser o)
  · subst hk
    obtain ⟨hk', hSs, _⟩ := hco.ext _ _ (AMap.get?_some_mem h)
    have : s = ser o := hnc _ _ hSs hS (genKey_inj hk').symm
    subst this
    exact AMap.get?_set_self _ _ _
  · show AMap.get? (AMap.set st.ext (genKey H (ser o)) (ser o)) k = some s
    rw [AMap.get?_set_other _ _ _ _ hk]; exact h

theorem serialize_ext_extends (hnr : ∀ v, isRef (ser v) = false) (hnc : NoColl H S) (c : Conf) {st : Store V}
    (hco : Coherent ser H S st) (o : V) (hS : S (ser o)) (d : Bool) :
    ExtExtends st (serialize ser asStr H c st o d).1 := by
  unfold serialize
  split
  · exact extExtends_refl _
  · split
    · exact extExtends_refl _
    · rcases maybeStore_cases (H := H) c st.ext (ser o) with ⟨_, h⟩ | ⟨_, h⟩
      · simp only [h, isRef_genKey, if_true]
        have := set_ext_extends hnc hco o hS
        split <;> exact this
      · simp only [h, hnr, Bool.false_eq_true, if_false]
        exact extExtends_refl _

theorem resolve_ext_eq (c : Conf) (st : Store V) (data : Str) : (resolve deser c st data).1.ext = st.ext := by
  unfold resolve
  repeat' split
  all_goals rfl

/-- the values a history serializes all have their text in `S` -/
def OpsIn (ser : V → Str) (S : Str → Prop) : List (Op V) → Prop
  | [] => True
  | .serialize o _ :: r => S (ser o) ∧ OpsIn ser S r
  | .foreign o :: r => S (ser o) ∧ OpsIn ser S r
  | .resolve _ :: r => OpsIn ser S r

theorem run_coherent_extends (hrt : ∀ v, deser (ser v) = some v) (hnr : ∀ v, isRef (ser v) = false)
    (hnc : NoColl H S) (c : Conf) (ops : List (Op V)) : ∀ (st : Store V), Coherent ser H S st → OpsIn ser S ops →
    Coherent ser H S (run ser deser asStr H c st ops) ∧ ExtExtends st (run ser deser asStr H c st ops) := by
  induction ops with
  | nil => intro st hco _; exact ⟨hco, extExtends_refl _⟩
  | cons op r ih =>
    intro st hco hin
    simp only [run, List.foldl_cons]
    cases op with
    | serialize o d =>
      have h1 := serialize_coherent (asStr := asStr) hnr c hco o hin.1 d
      have h2 := serialize_ext_extends (asStr := asStr) hnr hnc c hco o hin.1 d
      have := ih _ h1 hin.2
      exact ⟨this.1, extExtends_trans h2 this.2⟩
    | resolve data =>
      have h1 := resolve_coherent (deser := deser) hrt c hco data
      have h2 : ExtExtends st (resolve deser c st data).1 := by
        intro k s h; rw [resolve_ext_eq]; exact h
      have := ih _ h1 hin
      exact ⟨this.1, extExtends_trans h2 this.2⟩
    | foreign o =>
      have h1 := coherent_set_ext hco o hin.1
      have h2 := set_ext_extends hnc hco o hin.1
      have := ih _ h1 hin.2
      exact ⟨this.1, extExtends_trans h2 this.2⟩

/-- `resolve` of the data produced for `v` gives `v` back in any later coherent store that still holds the
    backend entries -/
theorem resolve_of_serialized (hrt : ∀ v, deser (ser v) = some v) (hnr : ∀ v, isRef (ser v) = false)
    (hnc : NoColl H S) (c : Conf) (hc : 1 ≤ c.cacheSize) (st : Store V) (v : V) (hS : S (ser v)) (dis : Bool)
    (guard : ∀ s, asStr v = some s → isRef s = false) :
    ∃ st1 data, serialize ser asStr H c st v dis = (st1, some data) ∧
      (data = ser v ∨ (data = genKey H (ser v) ∧ AMap.get? st1.ext data = some (ser v))) ∧
      ∀ (c2 : Conf) (st2 : Store V), 1 ≤ c2.cacheSize → Coherent ser H S st2 → ExtExtends st1 st2 →
        ∃ st3, resolve deser c2 st2 data = (st3, .ok v) := by
  have inline : ∀ (c2 : Conf) (st2 : Store V), ∃ st3, resolve deser c2 st2 (ser v) = (st3, .ok v) := by
    intro c2 st2
    refine ⟨st2, ?_⟩
    simp [resolve, hnr, hrt]
  unfold serialize
  split
  · exact ⟨st, ser v, rfl, Or.inl rfl, fun c2 st2 _ _ _ => inline c2 st2⟩
  · have hf : (asStr v).filter isRef = none := by
      cases h : asStr v with
      | none => rfl
      | some s => simp [Option.filter, guard s h]
    simp only [hf]
    rcases maybeStore_cases (H := H) c st.ext (ser v) with ⟨_, h⟩ | ⟨_, h⟩
    · simp only [h, isRef_genKey, if_true]
      obtain ⟨l, hl⟩ := cachePut_isSome hc st.lru (genKey H (ser v)) v
      simp only [hl]
      refine ⟨_, _, rfl, Or.inr ⟨rfl, AMap.get?_set_self _ _ _⟩, ?_⟩
      intro c2 st2 hc2 hco2 hext
      have hget : AMap.get? st2.ext (genKey H (ser v)) = some (ser v) := hext _ _ (AMap.get?_set_self _ _ _)
      simp only [resolve, isRef_genKey, if_true]
      cases hl2 : AMap.get? st2.lru (genKey H (ser v)) with
      | some o =>
        obtain ⟨hk, hSo⟩ := hco2.lru _ _ (AMap.get?_some_mem hl2)
        have : ser o = ser v := hnc _ _ hSo hS (genKey_inj hk).symm
        have : o = v := ser_injective hrt this
        subst this
        exact ⟨_, rfl⟩
      | none =>
        simp only [hget, hrt]
        obtain ⟨l2, hl2'⟩ := cachePut_isSome hc2 st2.lru (genKey H (ser v)) v
        simp only [hl2']
        exact ⟨_, rfl⟩
    · simp only [h, hnr, Bool.false_eq_true, if_false]
      exact ⟨_, ser v, rfl, Or.inl rfl, fun c2 st2 _ _ _ => inline c2 st2⟩

theorem external_iff (c : Conf) (n : Nat) :
    external c n = true ↔ c.minSize ≤ n ∧ (c.maxSize = 0 ∨ n ≤ c.maxSize) := by
  unfold external
  by_cases h1 : n < c.minSize
  · simp [h1]; omega
  · by_cases h2 : c.maxSize > 0 ∧ n > c.maxSize
    · simp [h1, h2]; omega
    · have : ¬ ((decide (c.maxSize > 0) && decide (n > c.maxSize)) = true) := by simpa using h2
      simp only [h1, this, if_false]
      simp; omega

theorem serialize_routing (hnr : ∀ v, isRef (ser v) = false) (c : Conf) (hc : 1 ≤ c.cacheSize) (st : Store V)
    (v : V) (dis : Bool) (guard : ∀ s, asStr v = some s → isRef s = false) :
    (serialize ser asStr H c st v dis).2 =
      some (if c.disabled || dis || !(external c (ser v).length) then ser v else genKey H (ser v)) := by
  unfold serialize
  by_cases h0 : (c.disabled || dis) = true
  · simp [h0]
  · simp only [h0]
    have hf : (asStr v).filter isRef = none := by
      cases h : asStr v with
      | none => rfl
      | some s => simp [Option.filter, guard s h]
    simp only [hf]
    rcases maybeStore_cases (H := H) c st.ext (ser v) with ⟨he, h⟩ | ⟨he, h⟩
    · simp only [h, isRef_genKey, if_true]
      obtain ⟨l, hl⟩ := cachePut_isSome hc st.lru (genKey H (ser v)) v
      simp [hl, he]
    · simp [h, hnr, he]
end
end Pynenc.C15P
