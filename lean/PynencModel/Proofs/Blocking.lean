import PynencModel.Model.Blocking
/-
  Helper lemmas for C09 part A: the functional view of `AMap`, Python sets as lists, the exact
  effect of the two loops of `MemBlockingControl`, and the inductive invariants.
-/
namespace Pynenc

namespace AMap
variable {α β : Type} [DecidableEq α]

theorem get?_erase_self (m : AMap α β) (k : α) : get? (erase m k) k = none := by
  induction m with
  | nil => rfl
  | cons p rest ih =>
    obtain ⟨k', v⟩ := p
    by_cases h : k' = k
    · simp [erase, List.filter, h] at ih ⊢; exact ih
    · simp [erase, List.filter, h, get?] at ih ⊢; exact ih

theorem get?_erase_other (m : AMap α β) (k k2 : α) (h : k2 ≠ k) :
    get? (erase m k) k2 = get? m k2 := by
  induction m with
  | nil => rfl
  | cons p rest ih =>
    obtain ⟨k', v⟩ := p
    by_cases h1 : k' = k
    · subst h1
      have : ¬ k' = k2 := fun e => h e.symm
      simp [erase, List.filter, get?, this] at ih ⊢; exact ih
    · by_cases h2 : k' = k2
      · subst h2
        simp [erase, List.filter, h1, get?]
      · simp [erase, List.filter, h1, get?, h2] at ih ⊢; exact ih

theorem has_set (m : AMap α β) (k k2 : α) (v : β) :
    has (set m k v) k2 = (decide (k2 = k) || has m k2) := by
  unfold has
  by_cases h : k2 = k
  · subst h; simp [get?_set_self]
  · simp [get?_set_other _ _ _ _ h, h]

theorem has_erase (m : AMap α β) (k k2 : α) :
    has (erase m k) k2 = (!decide (k2 = k) && has m k2) := by
  unfold has
  by_cases h : k2 = k
  · subst h; simp [get?_erase_self]
  · simp [get?_erase_other _ _ _ h, h]

end AMap

namespace Blocking
variable {α : Type} [DecidableEq α]

/-! ### sets -/

theorem mem_sadd (l : List α) (x y : α) : y ∈ sadd l x ↔ y ∈ l ∨ y = x := by
  unfold sadd
  by_cases h : x ∈ l
  · simp only [h, if_true]
    constructor
    · exact Or.inl
    · rintro (h1 | h1)
      · exact h1
      · subst h1; exact h
  · simp [h]

theorem mem_sdel (l : List α) (x y : α) : y ∈ sdel l x ↔ y ∈ l ∧ y ≠ x := by
  simp [sdel]

theorem nodup_sadd (l : List α) (x : α) (h : l.Nodup) : (sadd l x).Nodup := by
  unfold sadd
  by_cases hx : x ∈ l
  · simp [hx, h]
  · simp only [hx, if_false]
    rw [List.nodup_append]
    refine ⟨h, by simp, ?_⟩
    intro a ha b hb
    simp at hb
    subst hb
    intro e; subst e; exact hx ha

theorem nodup_sdel (l : List α) (x : α) (h : l.Nodup) : (sdel l x).Nodup :=
  h.sublist List.filter_sublist

theorem sadd_ne_nil (l : List α) (x : α) : sadd l x ≠ [] := by
  intro h
  have : x ∈ sadd l x := (mem_sadd l x x).2 (Or.inr rfl)
  rw [h] at this
  simp at this

omit [DecidableEq α] in
theorem ne_nil_iff_exists_mem (l : List α) : l ≠ [] ↔ ∃ y, y ∈ l := by
  cases l with
  | nil => simp
  | cons a t => simp

/-! ### the `look` view of the two dictionaries -/

theorem look_set_self (m : AMap α (List α)) (k : α) (v : List α) : look (m.set k v) k = v := by
  simp [look, AMap.get?_set_self]

theorem look_set_other (m : AMap α (List α)) (k k2 : α) (v : List α) (h : k2 ≠ k) :
    look (m.set k v) k2 = look m k2 := by
  simp [look, AMap.get?_set_other _ _ _ _ h]

theorem look_erase_self (m : AMap α (List α)) (k : α) : look (m.erase k) k = [] := by
  simp [look, AMap.get?_erase_self]

theorem look_erase_other (m : AMap α (List α)) (k k2 : α) (h : k2 ≠ k) :
    look (m.erase k) k2 = look m k2 := by
  simp [look, AMap.get?_erase_other _ _ _ h]

theorem has_of_look_ne_nil (m : AMap α (List α)) (k : α) (h : look m k ≠ []) : m.has k = true := by
  unfold look at h
  unfold AMap.has
  cases hg : m.get? k with
  | none => simp [hg] at h
  | some v => rfl

/-! ### one iteration of the `waiting_for_results` loop -/

theorem waitOne_wf (w : α) (s : MemBC α) (x w' y : α) :
    y ∈ look (waitOne w s x).waitingFor w' ↔ y ∈ look s.waitingFor w' ∨ (w' = w ∧ y = x) := by
  unfold waitOne
  simp only
  by_cases h : w' = w
  · subst h
    rw [look_set_self, mem_sadd]
    simp
  · rw [look_set_other _ _ _ _ h]
    simp [h]

theorem waitOne_wfhas (w : α) (s : MemBC α) (x w' : α) :
    (waitOne w s x).waitingFor.has w' = (decide (w' = w) || s.waitingFor.has w') := by
  unfold waitOne
  simp only
  exact AMap.has_set _ _ _ _

theorem waitOne_wb (w : α) (s : MemBC α) (x x' w' : α) :
    w' ∈ look (waitOne w s x).waitedBy x' ↔ w' ∈ look s.waitedBy x' ∨ (w' = w ∧ x' = x) := by
  unfold waitOne
  simp only
  by_cases h : x' = x
  · subst h
    rw [look_set_self, mem_sadd]
    simp
  · rw [look_set_other _ _ _ _ h]
    simp [h]

theorem waitOne_wbhas (w : α) (s : MemBC α) (x x' : α) :
    (waitOne w s x).waitedBy.has x' = (decide (x' = x) || s.waitedBy.has x') := by
  unfold waitOne
  simp only
  exact AMap.has_set _ _ _ _

theorem waitOne_ready (w : α) (s : MemBC α) (x y : α) :
    y ∈ (waitOne w s x).ready ↔
      y ∈ s.ready ∨ (y = x ∧ x ≠ w ∧ s.waitingFor.has x = false) := by
  unfold waitOne
  simp only
  rw [AMap.has_set]
  by_cases hx : x = w
  · subst hx; simp
  · by_cases hh : s.waitingFor.has x = true
    · simp [hx, hh]
    · simp only [Bool.not_eq_true] at hh
      simp [hx, hh, mem_sadd]

theorem waitOne_ready_nodup (w : α) (s : MemBC α) (x : α) (h : s.ready.Nodup) :
    (waitOne w s x).ready.Nodup := by
  unfold waitOne
  simp only
  split
  · exact h
  · exact nodup_sadd _ _ h

/-! ### the whole `for waited_id in ids` loop -/

theorem waitLoop_wf (w : α) (ids : List α) (s : MemBC α) (w' y : α) :
    y ∈ look (ids.foldl (waitOne w) s).waitingFor w' ↔
      y ∈ look s.waitingFor w' ∨ (w' = w ∧ y ∈ ids) := by
  induction ids generalizing s with
  | nil => simp
  | cons x rest ih =>
    rw [List.foldl_cons, ih, waitOne_wf]
    simp only [List.mem_cons]
    constructor
    · rintro ((h | ⟨h1, h2⟩) | ⟨h1, h2⟩)
      · exact Or.inl h
      · exact Or.inr ⟨h1, Or.inl h2⟩
      · exact Or.inr ⟨h1, Or.inr h2⟩
    · rintro (h | ⟨h1, h2 | h2⟩)
      · exact Or.inl (Or.inl h)
      · exact Or.inl (Or.inr ⟨h1, h2⟩)
      · exact Or.inr ⟨h1, h2⟩

theorem waitLoop_wfhas (w : α) (ids : List α) (s : MemBC α) (w' : α) :
    (ids.foldl (waitOne w) s).waitingFor.has w' = true ↔
      s.waitingFor.has w' = true ∨ (w' = w ∧ ids ≠ []) := by
  induction ids generalizing s with
  | nil => simp
  | cons x rest ih =>
    rw [List.foldl_cons, ih, waitOne_wfhas]
    by_cases h : w' = w <;> simp [h]

theorem waitLoop_wb (w : α) (ids : List α) (s : MemBC α) (x' w' : α) :
    w' ∈ look (ids.foldl (waitOne w) s).waitedBy x' ↔
      w' ∈ look s.waitedBy x' ∨ (w' = w ∧ x' ∈ ids) := by
  induction ids generalizing s with
  | nil => simp
  | cons x rest ih =>
    rw [List.foldl_cons, ih, waitOne_wb]
    simp only [List.mem_cons]
    constructor
    · rintro ((h | ⟨h1, h2⟩) | ⟨h1, h2⟩)
      · exact Or.inl h
      · exact Or.inr ⟨h1, Or.inl h2⟩
      · exact Or.inr ⟨h1, Or.inr h2⟩
    · rintro (h | ⟨h1, h2 | h2⟩)
      · exact Or.inl (Or.inl h)
      · exact Or.inl (Or.inr ⟨h1, h2⟩)
      · exact Or.inr ⟨h1, h2⟩

theorem waitLoop_wbhas (w : α) (ids : List α) (s : MemBC α) (x' : α) :
    (ids.foldl (waitOne w) s).waitedBy.has x' = true ↔
      s.waitedBy.has x' = true ∨ x' ∈ ids := by
  induction ids generalizing s with
  | nil => simp
  | cons x rest ih =>
    rw [List.foldl_cons, ih, waitOne_wbhas]
    by_cases h : x' = x <;> simp [h]

theorem waitLoop_ready (w : α) (ids : List α) (s : MemBC α) (y : α) (hy : y ≠ w) :
    y ∈ (ids.foldl (waitOne w) s).ready ↔
      y ∈ s.ready ∨ (y ∈ ids ∧ s.waitingFor.has y = false) := by
  induction ids generalizing s with
  | nil => simp
  | cons x rest ih =>
    rw [List.foldl_cons, ih, waitOne_ready, waitOne_wfhas]
    simp only [List.mem_cons, hy, decide_false, Bool.false_or]
    constructor
    · rintro ((h | ⟨h1, _, h3⟩) | ⟨h1, h2⟩)
      · exact Or.inl h
      · subst h1; exact Or.inr ⟨Or.inl rfl, h3⟩
      · exact Or.inr ⟨Or.inr h1, h2⟩
    · rintro (h | ⟨h1 | h1, h2⟩)
      · exact Or.inl (Or.inl h)
      · subst h1; exact Or.inl (Or.inr ⟨rfl, hy, h2⟩)
      · exact Or.inr ⟨h1, h2⟩

theorem waitLoop_ready_nodup (w : α) (ids : List α) (s : MemBC α) (h : s.ready.Nodup) :
    (ids.foldl (waitOne w) s).ready.Nodup := by
  induction ids generalizing s with
  | nil => exact h
  | cons x rest ih =>
    rw [List.foldl_cons]
    exact ih _ (waitOne_ready_nodup w s x h)

/-! ### one iteration of the `release_waiters` loop -/

theorem releaseOne_wb (x : α) (s : MemBC α) (w : α) : (releaseOne x s w).waitedBy = s.waitedBy := by
  unfold releaseOne
  simp only
  split <;> rfl

theorem releaseOne_wf (x : α) (s : MemBC α) (w w' y : α) :
    y ∈ look (releaseOne x s w).waitingFor w' ↔
      y ∈ look s.waitingFor w' ∧ ¬ (w' = w ∧ y = x) := by
  unfold releaseOne
  simp only
  by_cases hw : w' = w
  · subst hw
    split
    · rename_i hrem
      rw [look_erase_self]
      constructor
      · intro h; simp at h
      · rintro ⟨h1, h2⟩
        have : y ∈ sdel (look s.waitingFor w') x := (mem_sdel _ _ _).2 ⟨h1, fun e => h2 ⟨rfl, e⟩⟩
        rw [hrem] at this
        simp at this
    · rw [look_set_self, mem_sdel]
      simp
  · split
    · rw [look_erase_other _ _ _ hw]; simp [hw]
    · rw [look_set_other _ _ _ _ hw]; simp [hw]

theorem releaseOne_wfhas (x : α) (s : MemBC α) (w w' : α) :
    (releaseOne x s w).waitingFor.has w' =
      if w' = w then decide (sdel (look s.waitingFor w) x ≠ []) else s.waitingFor.has w' := by
  unfold releaseOne
  simp only
  by_cases hw : w' = w
  · subst hw
    split
    · rename_i hrem
      simp [AMap.has_erase, hrem]
    · rename_i hrem
      simp [AMap.has_set, hrem]
  · split
    · simp [AMap.has_erase, hw]
    · simp [AMap.has_set, hw]

theorem releaseOne_ready (x : α) (s : MemBC α) (w y : α) :
    y ∈ (releaseOne x s w).ready ↔
      y ∈ s.ready ∨ (y = w ∧ sdel (look s.waitingFor w) x = [] ∧ s.waitedBy.has w = true) := by
  unfold releaseOne
  simp only
  split
  · rename_i hrem
    by_cases hb : s.waitedBy.has w = true
    · simp [hb, hrem, mem_sadd]
    · simp [hb]
  · rename_i hrem
    simp [hrem]

theorem releaseOne_ready_nodup (x : α) (s : MemBC α) (w : α) (h : s.ready.Nodup) :
    (releaseOne x s w).ready.Nodup := by
  unfold releaseOne
  simp only
  split
  · split
    · exact nodup_sadd _ _ h
    · exact h
  · exact h

/-! ### invariants of the in-memory control -/

/-- `_ready` is what its comment says it is; stored sets are never empty; every recorded wait has
    its reverse entry -/
structure MemOK (s : MemBC α) : Prop where
  ready_def : ∀ y, y ∈ s.ready ↔ (s.waitedBy.has y = true ∧ s.waitingFor.has y = false)
  ready_nodup : s.ready.Nodup
  wf_nonempty : ∀ w, s.waitingFor.has w = true → look s.waitingFor w ≠ []
  wb_nonempty : ∀ x, s.waitedBy.has x = true → look s.waitedBy x ≠ []
  cross : ∀ w x, x ∈ look s.waitingFor w → w ∈ look s.waitedBy x

theorem memOK_init : MemOK ({} : MemBC α) := by
  refine ⟨?_, ?_, ?_, ?_, ?_⟩ <;> simp [AMap.has, AMap.get?, look]

theorem memOK_wait (s : MemBC α) (w : α) (ids : List α) (hne : ids ≠ []) (h : MemOK s) :
    MemOK (memWaitRaw s w ids) := by
  unfold memWaitRaw
  refine ⟨?_, ?_, ?_, ?_, ?_⟩
  · intro y
    simp only
    rw [mem_sdel]
    by_cases hy : y = w
    · subst hy
      have : (ids.foldl (waitOne y) s).waitingFor.has y = true :=
        (waitLoop_wfhas y ids s y).2 (Or.inr ⟨rfl, hne⟩)
      simp [this]
    · rw [waitLoop_ready w ids s y hy, h.ready_def y]
      have hwf : (ids.foldl (waitOne w) s).waitingFor.has y = s.waitingFor.has y := by
        have := waitLoop_wfhas w ids s y
        simp only [hy, false_and, or_false] at this
        cases h1 : (ids.foldl (waitOne w) s).waitingFor.has y <;>
          cases h2 : s.waitingFor.has y <;> simp_all
      have hwb := waitLoop_wbhas w ids s y
      rw [hwf]
      constructor
      · rintro ⟨(⟨h1, h2⟩ | ⟨h1, h2⟩), _⟩
        · exact ⟨hwb.2 (Or.inl h1), h2⟩
        · exact ⟨hwb.2 (Or.inr h1), h2⟩
      · rintro ⟨h1, h2⟩
        refine ⟨?_, hy⟩
        rcases hwb.1 h1 with h3 | h3
        · exact Or.inl ⟨h3, h2⟩
        · exact Or.inr ⟨h3, h2⟩
  · exact nodup_sdel _ _ (waitLoop_ready_nodup w ids s h.ready_nodup)
  · intro w' hw'
    simp only at hw' ⊢
    rw [ne_nil_iff_exists_mem]
    rcases (waitLoop_wfhas w ids s w').1 hw' with h1 | ⟨h1, _⟩
    · obtain ⟨y, hy⟩ := (ne_nil_iff_exists_mem _).1 (h.wf_nonempty w' h1)
      exact ⟨y, (waitLoop_wf w ids s w' y).2 (Or.inl hy)⟩
    · obtain ⟨y, hy⟩ := (ne_nil_iff_exists_mem _).1 hne
      exact ⟨y, (waitLoop_wf w ids s w' y).2 (Or.inr ⟨h1, hy⟩)⟩
  · intro x' hx'
    simp only at hx' ⊢
    rw [ne_nil_iff_exists_mem]
    rcases (waitLoop_wbhas w ids s x').1 hx' with h1 | h1
    · obtain ⟨y, hy⟩ := (ne_nil_iff_exists_mem _).1 (h.wb_nonempty x' h1)
      exact ⟨y, (waitLoop_wb w ids s x' y).2 (Or.inl hy)⟩
    · exact ⟨w, (waitLoop_wb w ids s x' w).2 (Or.inr ⟨rfl, h1⟩)⟩
  · intro w' x' hx'
    simp only at hx' ⊢
    rcases (waitLoop_wf w ids s w' x').1 hx' with h1 | ⟨h1, h2⟩
    · exact (waitLoop_wb w ids s x' w').2 (Or.inl (h.cross _ _ h1))
    · exact (waitLoop_wb w ids s x' w').2 (Or.inr ⟨h1, h2⟩)

theorem memOK_releaseOne (x : α) (s : MemBC α) (w : α) (h : MemOK s) : MemOK (releaseOne x s w) := by
  refine ⟨?_, ?_, ?_, ?_, ?_⟩
  · intro y
    rw [releaseOne_ready, releaseOne_wb, releaseOne_wfhas, h.ready_def y]
    by_cases hy : y = w
    · subst hy
      simp only [true_and, if_true]
      by_cases hrem : sdel (look s.waitingFor y) x = []
      · simp [hrem]
        intro h1 _; exact h1
      · have hhas : s.waitingFor.has y = true := by
          apply has_of_look_ne_nil
          intro e; rw [e] at hrem; simp [sdel] at hrem
        simp [hrem, hhas]
    · simp [hy]
  · exact releaseOne_ready_nodup x s w h.ready_nodup
  · intro w' hw'
    rw [releaseOne_wfhas] at hw'
    rw [ne_nil_iff_exists_mem]
    by_cases hw : w' = w
    · subst hw
      simp only [if_true, decide_eq_true_eq] at hw'
      obtain ⟨y, hy⟩ := (ne_nil_iff_exists_mem _).1 hw'
      rw [mem_sdel] at hy
      exact ⟨y, (releaseOne_wf x s w' w' y).2 ⟨hy.1, fun e => hy.2 e.2⟩⟩
    · simp only [hw, if_false] at hw'
      obtain ⟨y, hy⟩ := (ne_nil_iff_exists_mem _).1 (h.wf_nonempty w' hw')
      exact ⟨y, (releaseOne_wf x s w w' y).2 ⟨hy, fun e => hw e.1⟩⟩
  · intro x' hx'
    rw [releaseOne_wb] at hx' ⊢
    exact h.wb_nonempty x' hx'
  · intro w' x' hx'
    rw [releaseOne_wb]
    exact h.cross _ _ ((releaseOne_wf x s w w' x').1 hx').1

theorem memOK_releaseLoop (x : α) (ws : List α) (s : MemBC α) (h : MemOK s) :
    MemOK (ws.foldl (releaseOne x) s) := by
  induction ws generalizing s with
  | nil => exact h
  | cons w rest ih => rw [List.foldl_cons]; exact ih _ (memOK_releaseOne x s w h)

theorem releaseLoop_wb (x : α) (ws : List α) (s : MemBC α) :
    (ws.foldl (releaseOne x) s).waitedBy = s.waitedBy := by
  induction ws generalizing s with
  | nil => rfl
  | cons w rest ih => rw [List.foldl_cons, ih, releaseOne_wb]

theorem releaseLoop_wf (x : α) (ws : List α) (s : MemBC α) (w' y : α) :
    y ∈ look (ws.foldl (releaseOne x) s).waitingFor w' ↔
      y ∈ look s.waitingFor w' ∧ ¬ (w' ∈ ws ∧ y = x) := by
  induction ws generalizing s with
  | nil => simp
  | cons w rest ih =>
    rw [List.foldl_cons, ih, releaseOne_wf]
    simp only [List.mem_cons]
    constructor
    · rintro ⟨⟨h1, h2⟩, h3⟩
      refine ⟨h1, ?_⟩
      rintro ⟨h4 | h4, h5⟩
      · exact h2 ⟨h4, h5⟩
      · exact h3 ⟨h4, h5⟩
    · rintro ⟨h1, h2⟩
      exact ⟨⟨h1, fun e => h2 ⟨Or.inl e.1, e.2⟩⟩, fun e => h2 ⟨Or.inr e.1, e.2⟩⟩

/-- after the loop nobody's `waiting_for` entry mentions `x` any more -/
theorem releaseLoop_clears (x : α) (s : MemBC α) (h : MemOK s) (w' : α) :
    x ∉ look ((look s.waitedBy x).foldl (releaseOne x) s).waitingFor w' := by
  intro hx
  have := (releaseLoop_wf x _ s w' x).1 hx
  exact this.2 ⟨h.cross _ _ this.1, rfl⟩

theorem memOK_release (s : MemBC α) (x : α) (h : MemOK s) : MemOK (memRelease s x) := by
  have hl := memOK_releaseLoop x (look s.waitedBy x) s h
  have hclr := releaseLoop_clears x s h
  unfold memRelease
  generalize hs' : (look s.waitedBy x).foldl (releaseOne x) s = s' at hl hclr
  refine ⟨?_, ?_, ?_, ?_, ?_⟩
  · intro y
    simp only
    rw [mem_sdel, hl.ready_def y, AMap.has_erase, AMap.has_erase]
    by_cases hy : y = x <;> simp [hy]
  · exact nodup_sdel _ _ hl.ready_nodup
  · intro w hw
    simp only at hw ⊢
    rw [AMap.has_erase] at hw
    have hne : w ≠ x := by intro e; subst e; simp at hw
    rw [look_erase_other _ _ _ hne]
    apply hl.wf_nonempty
    simpa [hne] using hw
  · intro y hy
    simp only at hy ⊢
    rw [AMap.has_erase] at hy
    have hne : y ≠ x := by intro e; subst e; simp at hy
    rw [look_erase_other _ _ _ hne]
    apply hl.wb_nonempty
    simpa [hne] using hy
  · intro w y hy
    simp only at hy ⊢
    have hwx : w ≠ x := by
      intro e; subst e; rw [look_erase_self] at hy; simp at hy
    rw [look_erase_other _ _ _ hwx] at hy
    have hyx : y ≠ x := by
      intro e; subst e; exact hclr w hy
    rw [look_erase_other _ _ _ hyx]
    exact hl.cross _ _ hy

theorem memOK_step (s : MemBC α) (op : Op α) (h : MemOK s) : MemOK (memStep s op) := by
  cases op with
  | wait w ids =>
    simp only [memStep]
    split
    · exact h
    · rename_i hne; exact memOK_wait s w ids hne h
  | release x => exact memOK_release s x h

theorem memOK_foldl (hist : List (Op α)) (s : MemBC α) (h : MemOK s) : MemOK (hist.foldl memStep s) := by
  induction hist generalizing s with
  | nil => exact h
  | cons op rest ih => rw [List.foldl_cons]; exact ih _ (memOK_step s op h)

theorem memOK_run (hist : List (Op α)) : MemOK (memRun hist) := memOK_foldl hist _ memOK_init

/-! ### simulation of the specification by both implementations -/

theorem sqlWait_mem (e : SqlBC α) (w : α) (ids : List α) (a b : α) :
    (a, b) ∈ sqlWait e w ids ↔ (a, b) ∈ e ∨ (a = w ∧ b ∈ ids) := by
  unfold sqlWait
  induction ids generalizing e with
  | nil => simp
  | cons x rest ih =>
    rw [List.foldl_cons, ih]
    by_cases hm : (w, x) ∈ e
    · simp only [hm, if_true, List.mem_cons]
      constructor
      · rintro (h | ⟨h1, h2⟩)
        · exact Or.inl h
        · exact Or.inr ⟨h1, Or.inr h2⟩
      · rintro (h | ⟨h1, h2 | h2⟩)
        · exact Or.inl h
        · subst h1; subst h2; exact Or.inl hm
        · exact Or.inr ⟨h1, h2⟩
    · simp only [hm, if_false, List.mem_append, List.mem_cons, List.mem_nil_iff, or_false, Prod.mk.injEq]
      constructor
      · rintro ((h | ⟨h1, h2⟩) | ⟨h1, h2⟩)
        · exact Or.inl h
        · exact Or.inr ⟨h1, Or.inl h2⟩
        · exact Or.inr ⟨h1, Or.inr h2⟩
      · rintro (h | ⟨h1, h2 | h2⟩)
        · exact Or.inl (Or.inl h)
        · exact Or.inl (Or.inr ⟨h1, h2⟩)
        · exact Or.inr ⟨h1, h2⟩

/-- what the two stores record, against the standing declarations `g`; `rel` = ids released so far.
    The in-memory `waiting_for` entry of a *released* id is the one place that may fall short. -/
structure Sim (s : MemBC α) (e : SqlBC α) (g : Ref α) (rel : List α) : Prop where
  wb_ref : ∀ w x, w ∈ look s.waitedBy x ↔ g w x = true
  wf_ref : ∀ w x, w ∉ rel → (x ∈ look s.waitingFor w ↔ g w x = true)
  sql_ref : ∀ w x, (w, x) ∈ e ↔ g w x = true

theorem sim_step (s : MemBC α) (e : SqlBC α) (g : Ref α) (rel : List α) (op : Op α)
    (_hok : MemOK s) (h : Sim s e g rel) :
    Sim (memStep s op) (sqlStep e op) (refStep g op) (released [op] ++ rel) := by
  cases op with
  | wait w ids =>
    simp only [memStep, sqlStep, refStep, released, List.nil_append]
    by_cases hne : ids = []
    · subst hne
      simp only [if_true]
      refine ⟨?_, ?_, ?_⟩
      · intro a b; simp [h.wb_ref a b]
      · intro a b hr; simp [h.wf_ref a b hr]
      · intro a b; simp [h.sql_ref a b]
    · simp only [hne, if_false]
      refine ⟨?_, ?_, ?_⟩
      · intro a b
        unfold memWaitRaw
        simp only
        rw [waitLoop_wb, h.wb_ref]
        simp [Bool.or_eq_true]
      · intro a b hr
        unfold memWaitRaw
        simp only
        rw [waitLoop_wf, h.wf_ref a b hr]
        simp [Bool.or_eq_true]
      · intro a b
        rw [sqlWait_mem, h.sql_ref]
        simp [Bool.or_eq_true]
  | release x =>
    simp only [memStep, sqlStep, refStep, released, List.cons_append, List.nil_append]
    refine ⟨?_, ?_, ?_⟩
    · intro a b
      unfold memRelease
      simp only
      rw [releaseLoop_wb]
      by_cases hb : b = x
      · subst hb; rw [look_erase_self]; simp
      · rw [look_erase_other _ _ _ hb, h.wb_ref]; simp [hb]
    · intro a b hr
      simp only [List.mem_cons, not_or] at hr
      unfold memRelease
      simp only
      rw [look_erase_other _ _ _ hr.1, releaseLoop_wf, h.wf_ref a b hr.2, h.wb_ref]
      by_cases hb : b = x
      · subst hb; simp
      · simp [hb]
    · intro a b
      unfold sqlRelease
      simp only [List.mem_filter, h.sql_ref a b]
      by_cases hb : b = x <;> simp [hb]

omit [DecidableEq α] in
theorem released_append (h1 h2 : List (Op α)) : released (h1 ++ h2) = released h1 ++ released h2 := by
  induction h1 with
  | nil => rfl
  | cons op rest ih => cases op <;> simp [released, ih]

theorem sim_foldl (hist : List (Op α)) (s : MemBC α) (e : SqlBC α) (g : Ref α) (rel : List α)
    (hok : MemOK s) (h : Sim s e g rel) :
    ∃ rel', (∀ x, x ∈ rel' ↔ x ∈ released hist ∨ x ∈ rel) ∧
      Sim (hist.foldl memStep s) (hist.foldl sqlStep e) (hist.foldl refStep g) rel' := by
  induction hist generalizing s e g rel with
  | nil => exact ⟨rel, by simp [released], h⟩
  | cons op rest ih =>
    simp only [List.foldl_cons]
    obtain ⟨rel', hr, hs⟩ := ih _ _ _ _ (memOK_step s op hok) (sim_step s e g rel op hok h)
    refine ⟨rel', ?_, hs⟩
    intro x
    rw [hr x]
    cases op with
    | wait w ids => simp [released]
    | release y =>
      simp only [released, List.cons_append, List.nil_append, List.mem_cons]
      constructor
      · rintro (h1 | h1 | h1)
        · exact Or.inl (Or.inr h1)
        · exact Or.inl (Or.inl h1)
        · exact Or.inr h1
      · rintro ((h1 | h1) | h1)
        · exact Or.inr (Or.inl h1)
        · exact Or.inl h1
        · exact Or.inr (Or.inr h1)

theorem sim_run (hist : List (Op α)) :
    ∃ rel, (∀ x, x ∈ rel ↔ x ∈ released hist) ∧ Sim (memRun hist) (sqlRun hist) (refRun hist) rel := by
  have h0 : Sim ({} : MemBC α) ([] : SqlBC α) (fun _ _ => false) [] := by
    refine ⟨?_, ?_, ?_⟩ <;> simp [look, AMap.get?]
  obtain ⟨rel, hr, hs⟩ := sim_foldl hist _ _ _ _ memOK_init h0
  exact ⟨rel, by intro x; simpa using hr x, hs⟩

/-! ### limits -/

omit [DecidableEq α] in
theorem scan_eq_take (avail : α → Bool) (l : List α) (n : Int) (hn : 0 < n) :
    scan avail l n = (l.filter avail).take n.toNat := by
  induction l generalizing n with
  | nil => simp [scan]
  | cons x xs ih =>
    unfold scan
    by_cases ha : avail x = true
    · simp only [ha, if_true, List.filter_cons_of_pos]
      have hnat : n.toNat = (n - 1).toNat + 1 := by omega
      rw [hnat, List.take_succ_cons]
      by_cases h1 : n - 1 = 0
      · simp [h1]
      · simp only [h1, if_false]
        rw [ih (n - 1) (by omega)]
    · simp only [ha]
      rw [List.filter_cons_of_neg (by simpa using ha)]
      exact ih n hn

omit [DecidableEq α] in
theorem memBlocking_eq_take (s : MemBC α) (limit : Int) (avail : α → Bool) :
    memBlocking s limit avail = (memBlockingAll s avail).take limit.toNat := by
  unfold memBlocking memBlockingAll
  by_cases h : limit ≤ 0
  · have : limit.toNat = 0 := by omega
    simp [h, this]
  · simp only [h, if_false]
    exact scan_eq_take avail s.ready limit (by omega)

theorem mem_dedup (l : List α) (y : α) : y ∈ dedup l ↔ y ∈ l := by
  induction l with
  | nil => simp [dedup]
  | cons x xs ih =>
    simp only [dedup, List.mem_cons, List.mem_filter, ih]
    by_cases h : y = x <;> simp [h]

theorem nodup_dedup (l : List α) : (dedup l).Nodup := by
  induction l with
  | nil => simp [dedup]
  | cons x xs ih =>
    simp only [dedup, List.nodup_cons]
    refine ⟨by simp, ih.sublist List.filter_sublist⟩

end Blocking
end Pynenc
