import PynencModel.Model.Json
namespace Pynenc.C15P
open Pynenc.Json Pynenc.Gen

mutual
theorem pre_plain : ∀ v, isPlain v = true → pre v = v
  | .none, _ => rfl
  | .bool _, _ => rfl
  | .int _, _ => rfl
  | .float _, _ => rfl
  | .str _, _ => rfl
  | .list xs, h => by
    simp only [isPlain] at h
    simp only [pre, preList_plain xs h]
  | .dict kvs, h => by
    simp only [isPlain] at h
    simp only [pre, preDict_plain kvs h]
  | .tuple _, h => by simp [isPlain] at h
  | .enum .., h => by simp [isPlain] at h
  | .exc .., h => by simp [isPlain] at h
  | .obj .., h => by simp [isPlain] at h
theorem preList_plain : ∀ xs, isPlainList xs = true → preList xs = xs
  | .nil, _ => rfl
  | .cons v rest, h => by
    simp only [isPlainList, Bool.and_eq_true] at h
    simp only [preList, pre_plain v h.1, preList_plain rest h.2]
theorem preDict_plain : ∀ kvs, isPlainDict kvs = true → preDict kvs = kvs
  | .nil, _ => rfl
  | .cons k v rest, h => by
    simp only [isPlainDict, Bool.and_eq_true] at h
    simp only [preDict, pre_plain v h.1, preDict_plain rest h.2]
end

mutual
theorem enc_plain : ∀ v, isPlain v = true → enc v = v
  | .none, _ => rfl
  | .bool _, _ => rfl
  | .int _, _ => rfl
  | .float _, _ => rfl
  | .str _, _ => rfl
  | .list xs, h => by
    simp only [isPlain] at h
    simp only [enc, encList_plain xs h]
  | .dict kvs, h => by
    simp only [isPlain] at h
    simp only [enc, encDict_plain kvs h]
  | .tuple _, h => by simp [isPlain] at h
  | .enum .., h => by simp [isPlain] at h
  | .exc .., h => by simp [isPlain] at h
  | .obj .., h => by simp [isPlain] at h
theorem encList_plain : ∀ xs, isPlainList xs = true → encList xs = xs
  | .nil, _ => rfl
  | .cons v rest, h => by
    simp only [isPlainList, Bool.and_eq_true] at h
    simp only [encList, enc_plain v h.1, encList_plain rest h.2]
theorem encDict_plain : ∀ kvs, isPlainDict kvs = true → encDict kvs = kvs
  | .nil, _ => rfl
  | .cons k v rest, h => by
    simp only [isPlainDict, Bool.and_eq_true] at h
    simp only [encDict, enc_plain v h.1, encDict_plain rest h.2]
end

theorem get_encDict_preDict : ∀ (kvs : PyDict) (n : String),
    (encDict (preDict kvs)).get n = (kvs.get n).map (fun v => enc (pre v))
  | .nil, _ => rfl
  | .cons k v rest, n => by
    simp only [preDict, encDict, PyDict.get]
    split
    · rfl
    · exact get_encDict_preDict rest n

theorem falsy_fixed : ∀ v, isFalsy v = true → enc (pre v) = v ∧ truthy v = false
  | .none, _ => ⟨rfl, rfl⟩
  | .bool b, h => by cases b <;> simp_all [isFalsy, pre, enc, truthy]
  | .int i, h => by simp_all [isFalsy, pre, enc, truthy]
  | .float b, h => by
    simp only [isFalsy, Bool.or_eq_true, beq_iff_eq] at h
    rcases h with h | h <;> subst h <;> simp [pre, enc, truthy]
  | .str s, h => by simp_all [isFalsy, pre, enc, truthy]
  | .list .nil, _ => ⟨rfl, rfl⟩
  | .dict .nil, _ => ⟨rfl, rfl⟩
  | .list (.cons ..), h => by simp [isFalsy] at h
  | .dict (.cons ..), h => by simp [isFalsy] at h
  | .tuple _, h => by simp [isFalsy] at h
  | .enum .., h => by simp [isFalsy] at h
  | .exc .., h => by simp [isFalsy] at h
  | .obj .., h => by simp [isFalsy] at h

/-- a user dictionary without truthy reserved payloads is not mistaken for an envelope -/
theorem truthyGet_none_of_noReserved (kvs : PyDict) (h : noReservedTruthy kvs = true) (r : String)
    (hr : r ∈ reservedKeys) : truthyGet (encDict (preDict kvs)) r = none := by
  simp only [noReservedTruthy, List.all_eq_true] at h
  have := h r hr
  simp only [truthyGet, get_encDict_preDict]
  cases hg : kvs.get r with
  | none => rfl
  | some v =>
    simp only [hg] at this
    have := falsy_fixed v this
    simp [this.1, this.2]

theorem reserved_distinct : reservedKeys.Nodup ∧ Reserved.clientData ∉ reservedKeys := by decide

section
variable (reg : Registry)

theorem recon_enumEnvelope (m q : String) (native : Bool) (v : PyVal) (members : PyList)
    (hl : reg.lookup m q = some (.enum native members)) (hm : members.contains v = true) :
    recon reg (enumEnvelope m q v) = .ok (.enum m q native v) := by
  simp [enumEnvelope, envelope, d3, recon, truthyGet, PyDict.get, truthy, Reserved.enum, Reserved.error,
    Reserved.clientException, Reserved.jsonSerializable, reconEnum, hl, hm]

theorem recon_errorEnvelope (q : String) (args : PyList) (msg : String) (hb : reg.builtinHas q = true) :
    recon reg (errorEnvelope q args msg) = .ok (.exc "builtins" q args msg) := by
  simp [errorEnvelope, envelope, d3, recon, truthyGet, PyDict.get, truthy, Reserved.error, reconError, hb, splat]

theorem recon_clientExcEnvelope (m q : String) (args : PyList) (msg : String)
    (hl : reg.lookup m q = some .exc) :
    recon reg (clientExcEnvelope m q args msg) = .ok (.exc m q args msg) := by
  simp [clientExcEnvelope, envelope, d4, recon, truthyGet, PyDict.get, truthy, Reserved.error,
    Reserved.clientException, reconClientExc, hl, splat]

theorem recon_objEnvelope (m q : String) (data : PyVal) (hl : reg.lookup m q = some .obj) :
    recon reg (objEnvelope m q data) = .ok (.obj m q data) := by
  simp [objEnvelope, envelope, d3, recon, truthyGet, PyDict.get, truthy, Reserved.error,
    Reserved.clientException, Reserved.jsonSerializable, reconObj, hl]
end

section
variable (reg : Registry)

mutual
theorem recon_encode : ∀ v, wf reg v = true → recon reg (enc (pre v)) = .ok v
  | .none, _ => rfl
  | .bool _, _ => rfl
  | .int _, _ => rfl
  | .float _, _ => rfl
  | .str _, _ => rfl
  | .tuple _, h => by simp [wf] at h
  | .list xs, h => by
    simp only [wf] at h
    simp only [pre, enc, recon, reconList_encode xs h]
  | .dict kvs, h => by
    simp only [wf, Bool.and_eq_true] at h
    have hk := truthyGet_none_of_noReserved kvs h.1
    simp only [pre, enc, recon]
    rw [hk Reserved.error (by simp [reservedKeys]), hk Reserved.clientException (by simp [reservedKeys]),
      hk Reserved.jsonSerializable (by simp [reservedKeys]), hk Reserved.enum (by simp [reservedKeys])]
    simp only [reconDict_encode kvs h.2]
  | .enum m q native v, h => by
    simp only [wf, Bool.and_eq_true] at h
    obtain ⟨hp, hreg⟩ := h
    have e1 : enc (enumEnvelope m q v) = enumEnvelope m q v := by
      simp [enumEnvelope, envelope, d3, enc, encDict, enc_plain v hp]
    simp only [pre, e1]
    cases hl : reg.lookup m q with
    | none => simp [hl] at hreg
    | some k =>
      cases k with
      | exc => simp [hl] at hreg
      | obj => simp [hl] at hreg
      | enum n members =>
        simp only [hl, Bool.and_eq_true, beq_iff_eq] at hreg
        obtain ⟨rfl, hm⟩ := hreg
        exact recon_enumEnvelope reg m q n v members hl hm
  | .exc m q args msg, h => by
    simp only [wf, Bool.and_eq_true] at h
    obtain ⟨hp, hreg⟩ := h
    simp only [pre, enc, encList_plain args hp]
    by_cases hb : m = "builtins"
    · subst hb
      simp only [if_true] at hreg ⊢
      exact recon_errorEnvelope reg q args msg hreg
    · simp only [hb, if_false] at hreg ⊢
      cases hl : reg.lookup m q with
      | none => simp [hl] at hreg
      | some k =>
        cases k with
        | exc => exact recon_clientExcEnvelope reg m q args msg hl
        | obj => simp [hl] at hreg
        | enum n members => simp [hl] at hreg
  | .obj m q data, h => by
    simp only [wf, Bool.and_eq_true] at h
    obtain ⟨hp, hreg⟩ := h
    simp only [pre, enc, enc_plain data hp]
    cases hl : reg.lookup m q with
    | none => simp [hl] at hreg
    | some k =>
      cases k with
      | obj => exact recon_objEnvelope reg m q data hl
      | exc => simp [hl] at hreg
      | enum n members => simp [hl] at hreg
theorem reconList_encode : ∀ xs, wfList reg xs = true → reconList reg (encList (preList xs)) = .ok xs
  | .nil, _ => rfl
  | .cons v rest, h => by
    simp only [wfList, Bool.and_eq_true] at h
    simp only [preList, encList, reconList, recon_encode v h.1, reconList_encode rest h.2]
theorem reconDict_encode : ∀ kvs, wfDict reg kvs = true → reconDict reg (encDict (preDict kvs)) = .ok kvs
  | .nil, _ => rfl
  | .cons k v rest, h => by
    simp only [wfDict, Bool.and_eq_true] at h
    simp only [preDict, encDict, reconDict, recon_encode v h.1, reconDict_encode rest h.2]
end

/-- `deserialize (serialize v) = v` on the round-trip domain -/
theorem json_roundtrip (v : PyVal) (h : wf reg v = true) : roundtrip reg v = .ok v :=
  recon_encode reg v h
end
end Pynenc.C15P
