import PynencModel.Model.ThreadRunner
import PynencModel.Model.TreeProg
/-
  Inductive invariant of the thread-runner model (C09 part B) and its preservation by every step.
-/
namespace Pynenc.TR

/-- action `pc` of the body has been executed -/
def passed : NState → Nat → Bool
  | .run p, pc => pc < p
  | .declared p, pc => pc < p
  | .spin p, pc => pc < p
  | .final, _ => true
  | _, _ => false

structure Good (P : Prog) (s : Sys) : Prop where
  thr_live : ∀ i, i ∈ s.threads → (s.node i).live = true
  spin_wait : ∀ i pc, s.node i = .spin pc → i ∈ s.waiting
  decl_edges : ∀ i pc, (s.node i = .declared pc ∨ s.node i = .spin pc) →
    ∃ cs, (P.body i)[pc]? = some (Act.wait cs) ∧ ∀ c ∈ cs, s.node c ≠ .final → (i, c) ∈ s.edges
  noout : ∀ c z, (s.node c = .absent ∨ s.node c = .registered) → (c, z) ∉ s.edges
  launched : ∀ (i pc : Nat) (cs : List Nat) (c : Nat), (P.body i)[pc]? = some (Act.launch cs) → c ∈ cs →
    (s.node c ≠ .absent ↔ passed (s.node i) pc = true)
  root_reg : s.node P.root = .registered → s = init P
  root_ne : s.node P.root ≠ .absent

theorem upd_same (f : Nat → NState) (i : Nat) (v : NState) : upd f i v i = v := by simp [upd]
theorem upd_other (f : Nat → NState) (i j : Nat) (v : NState) (h : j ≠ i) : upd f i v j = f j := by
  simp [upd, h]

theorem good_init (P : Prog) (hwf : WF P) : Good P (init P) := by
  refine ⟨?_, ?_, ?_, ?_, ?_, ?_, ?_⟩
  · intro i h; simp [init] at h
  · intro i pc h
    simp only [init, upd] at h
    split at h <;> simp at h
  · intro i pc h
    simp only [init, upd] at h
    rcases h with h | h <;> (split at h <;> simp at h)
  · intro c z _; simp [init]
  · intro i pc cs c ha hc
    have hroot : c ≠ P.root := fun e => hwf.rootFree i pc cs ha (e ▸ hc)
    simp only [init, upd, hroot, if_false]
    constructor
    · intro h; exact absurd rfl h
    · intro h
      split at h <;> simp [passed] at h
  · intro _; rfl
  · simp [init, upd]

/-! ### the claim relation (what a poll does) -/

/-- `s'` is `s` after claiming exactly the (registered) ids `C` -/
structure Claimed (s : Sys) (C : List Nat) (s' : Sys) : Prop where
  reg : ∀ x ∈ C, s.node x = .registered
  node : s'.node = updMany s.node C (.run 0)
  threads : s'.threads = s.threads ++ C
  edges : s'.edges = s.edges
  waiting : s'.waiting = s.waiting

theorem claimed_refl (s : Sys) : Claimed s [] s :=
  ⟨by simp, by funext j; simp [updMany], by simp, rfl, rfl⟩

theorem claimed_trans {s s1 s2 : Sys} {C1 C2 : List Nat} (h1 : Claimed s C1 s1) (h2 : Claimed s1 C2 s2) :
    Claimed s (C1 ++ C2) s2 := by
  refine ⟨?_, ?_, ?_, ?_, ?_⟩
  · intro x hx
    rcases List.mem_append.1 hx with hx | hx
    · exact h1.reg x hx
    · have := h2.reg x hx
      rw [h1.node] at this
      simp only [updMany] at this
      split at this
      · simp at this
      · exact this
  · rw [h2.node, h1.node]
    funext j
    simp only [updMany, List.mem_append]
    by_cases a : j ∈ C1 <;> by_cases b : j ∈ C2 <;> simp [a, b]
  · rw [h2.threads, h1.threads, List.append_assoc]
  · rw [h2.edges, h1.edges]
  · rw [h2.waiting, h1.waiting]

theorem claimed_claim (s : Sys) (x : Nat) (h : s.node x = .registered) : Claimed s [x] (claim s x) := by
  refine ⟨by simpa using h, ?_, rfl, rfl, rfl⟩
  funext j
  simp [claim, upd, updMany]

theorem claimed_foldl (bs : List Nat) (s : Sys) (hreg : ∀ x ∈ bs, s.node x = .registered) (hnd : bs.Nodup) :
    Claimed s bs (bs.foldl claim s) := by
  induction bs generalizing s with
  | nil => exact claimed_refl s
  | cons x rest ih =>
    rw [List.foldl_cons]
    have h1 := claimed_claim s x (hreg x (by simp))
    have hnd' := List.nodup_cons.1 hnd
    have h2 := ih (claim s x) (by
      intro y hy
      have hne : y ≠ x := fun e => hnd'.1 (e ▸ hy)
      simp only [claim, upd, hne, if_false]
      exact hreg y (by simp [hy])) hnd'.2
    exact claimed_trans h1 h2

theorem claimed_pops (m : Nat) (q : List Nat) (s : Sys) :
    ∃ C, Claimed s C (pops m s q) := by
  induction q generalizing m s with
  | nil => exact ⟨[], ⟨by simp, by funext j; simp [pops, updMany], by simp [pops], rfl, rfl⟩⟩
  | cons a rest ih =>
    unfold pops
    by_cases hm : m = 0
    · simp only [hm, if_true]
      exact ⟨[], ⟨by simp, by funext j; simp [updMany], by simp, rfl, rfl⟩⟩
    · simp only [hm, if_false]
      by_cases hr : s.node a = .registered
      · simp only [hr, if_true]
        obtain ⟨C, hC⟩ := ih (m - 1) (claim s a)
        exact ⟨[a] ++ C, claimed_trans (claimed_claim s a hr) hC⟩
      · simp only [hr, if_false]
        exact ih m s

theorem blocking_registered (s : Sys) (x : Nat) (h : blocking s x = true) : s.node x = .registered := by
  simp only [blocking, Bool.and_eq_true, beq_iff_eq] at h
  exact h.1.1

theorem claimed_poll (cfg : Cfg) (s : Sys) (bs : List Nat) (hb : ∀ x ∈ bs, blocking s x = true)
    (hnd : bs.Nodup) : ∃ C, Claimed s (bs ++ C) (doPoll cfg s bs) := by
  unfold doPoll
  have h1 := claimed_foldl bs s (fun x hx => blocking_registered s x (hb x hx)) hnd
  obtain ⟨C, h2⟩ := claimed_pops (avail cfg s - bs.length) (bs.foldl claim s).queue (bs.foldl claim s)
  exact ⟨C, claimed_trans h1 h2⟩

theorem good_claimed (P : Prog) (s s' : Sys) (C : List Nat) (hC : C ≠ []) (hg : Good P s)
    (h : Claimed s C s') : Good P s' := by
  have hnode : ∀ j, s'.node j = if j ∈ C then .run 0 else s.node j := by
    intro j; rw [h.node]; rfl
  -- a claimed state is never the initial one, and the root is not registered afterwards
  refine ⟨?_, ?_, ?_, ?_, ?_, ?_, ?_⟩
  · intro i hi
    rw [h.threads] at hi
    rw [hnode]
    rcases List.mem_append.1 hi with hi | hi
    · by_cases hc : i ∈ C
      · simp [hc, NState.live]
      · simp only [hc, if_false]; exact hg.thr_live i hi
    · simp [hi, NState.live]
  · intro i pc hi
    rw [hnode] at hi
    rw [h.waiting]
    split at hi
    · simp at hi
    · exact hg.spin_wait i pc hi
  · intro i pc hi
    have hi' : s.node i = .declared pc ∨ s.node i = .spin pc := by
      rw [hnode] at hi
      split at hi
      · simp at hi
      · exact hi
    obtain ⟨cs, hb, he⟩ := hg.decl_edges i pc hi'
    refine ⟨cs, hb, ?_⟩
    intro c hc hne
    rw [h.edges]
    apply he c hc
    intro hf
    apply hne
    rw [hnode]
    have : c ∉ C := by
      intro hcC
      have := h.reg c hcC
      rw [hf] at this; simp at this
    simp [this, hf]
  · intro c z hc
    rw [h.edges]
    apply hg.noout c z
    rw [hnode] at hc
    split at hc
    · simp at hc
    · exact hc
  · intro i pc cs c ha hc
    rw [hnode, hnode]
    have hL := hg.launched i pc cs c ha hc
    by_cases hcC : c ∈ C
    · -- c was registered, so its launch site has been passed already; claiming the parent is impossible then
      have hreg := h.reg c hcC
      have hp : passed (s.node i) pc = true := hL.1 (by rw [hreg]; simp)
      have hiC : i ∉ C := by
        intro hiC
        have := h.reg i hiC
        rw [this] at hp; simp [passed] at hp
      simp [hcC, hiC, hp]
    · by_cases hiC : i ∈ C
      · have hreg := h.reg i hiC
        have hnp : passed (s.node i) pc = false := by rw [hreg]; rfl
        have hca : s.node c = .absent := by
          by_cases hne : s.node c = .absent
          · exact hne
          · have := hL.1 hne
            rw [hnp] at this; simp at this
        simp [hcC, hiC, hca, passed]
      · simp only [hcC, hiC, if_false]; exact hL
  · intro hr
    exfalso
    rw [hnode] at hr
    split at hr
    · simp at hr
    · -- the root is still registered, so `s` is the initial state and the claim took nothing else
      rename_i hroot
      have hs := hg.root_reg hr
      obtain ⟨x, hx⟩ := List.exists_mem_of_ne_nil C hC
      have hxr := h.reg x hx
      rw [hs] at hxr
      simp only [init, upd] at hxr
      split at hxr
      · rename_i e; subst e; exact hroot hx
      · simp at hxr
  · rw [hnode]
    split
    · simp
    · exact hg.root_ne

theorem init_not_live (P : Prog) (i : Nat) : ((init P).node i).live = false := by
  simp only [init, upd]
  split <;> rfl

theorem good_advance (P : Prog) (s : Sys) (i pc : Nat) (cs : List Nat) (hg : Good P s)
    (hn : s.node i = .run pc ∨ s.node i = .declared pc ∨ s.node i = .spin pc)
    (ha : (P.body i)[pc]? = some (Act.wait cs)) :
    Good P { s with node := upd s.node i (.run (pc + 1)) } := by
  have hlive : (s.node i).live = true := by rcases hn with h | h | h <;> simp [h, NState.live]
  refine ⟨?_, ?_, ?_, ?_, ?_, ?_, ?_⟩
  · intro j hj
    simp only [upd]
    split
    · rfl
    · exact hg.thr_live j hj
  · intro j p hj
    simp only [upd] at hj
    split at hj
    · simp at hj
    · exact hg.spin_wait j p hj
  · intro j p hj
    simp only [upd] at hj
    split at hj
    · simp at hj
    · obtain ⟨cs', hb, he⟩ := hg.decl_edges j p hj
      refine ⟨cs', hb, ?_⟩
      intro c hc hne
      apply he c hc
      intro hf
      simp only [upd] at hne
      split at hne
      · rename_i e; subst e; rw [hf] at hlive; simp [NState.live] at hlive
      · exact hne hf
  · intro c z hc
    simp only [upd] at hc
    split at hc
    · simp at hc
    · exact hg.noout c z hc
  · intro i0 pc0 cs0 c ha0 hc0
    have hL := hg.launched i0 pc0 cs0 c ha0 hc0
    have e1 : (upd s.node i (.run (pc + 1)) c ≠ .absent) ↔ (s.node c ≠ .absent) := by
      simp only [upd]
      split
      · rename_i e; subst e
        constructor
        · intro _ h; rw [h] at hlive; simp [NState.live] at hlive
        · intro _; simp
      · exact Iff.rfl
    have e2 : passed (upd s.node i (.run (pc + 1)) i0) pc0 = passed (s.node i0) pc0 := by
      simp only [upd]
      split
      · rename_i e; subst e
        have hne : pc0 ≠ pc := by
          intro e; subst e; rw [ha] at ha0; simp at ha0
        rcases hn with h | h | h <;> simp [h, passed] <;> omega
      · rfl
    simp only
    rw [e1, e2]; exact hL
  · intro hr
    exfalso
    simp only [upd] at hr
    split at hr
    · simp at hr
    · have := hg.root_reg hr
      rw [this, init_not_live] at hlive
      simp at hlive
  · simp only [upd]
    split
    · simp
    · exact hg.root_ne

theorem good_toSpin (P : Prog) (s : Sys) (i pc : Nat) (hg : Good P s) (hn : s.node i = .declared pc) :
    Good P { s with node := upd s.node i (.spin pc),
                    waiting := if s.waiting.contains i then s.waiting else s.waiting ++ [i] } := by
  have hlive : (s.node i).live = true := by simp [hn, NState.live]
  have hw : ∀ j, j ∈ s.waiting ∨ j = i → j ∈ (if s.waiting.contains i then s.waiting else s.waiting ++ [i]) := by
    intro j hj
    by_cases hc : s.waiting.contains i = true
    · simp only [hc, if_true]
      rcases hj with h | h
      · exact h
      · subst h; simpa using hc
    · simp only [hc]
      rcases hj with h | h <;> simp [h]
  refine ⟨?_, ?_, ?_, ?_, ?_, ?_, ?_⟩
  · intro j hj
    simp only [upd]
    split
    · rfl
    · exact hg.thr_live j hj
  · intro j p hj
    simp only [upd] at hj
    split at hj
    · rename_i e; exact hw j (Or.inr e)
    · exact hw j (Or.inl (hg.spin_wait j p hj))
  · intro j p hj
    have hj' : s.node j = .declared p ∨ s.node j = .spin p := by
      simp only [upd] at hj
      split at hj
      · rename_i e; subst e
        rcases hj with h | h
        · simp at h
        · simp at h; subst h; exact Or.inl hn
      · exact hj
    obtain ⟨cs', hb, he⟩ := hg.decl_edges j p hj'
    refine ⟨cs', hb, ?_⟩
    intro c hc hne
    apply he c hc
    intro hf
    simp only [upd] at hne
    split at hne
    · rename_i e; subst e; rw [hf] at hlive; simp [NState.live] at hlive
    · exact hne hf
  · intro c z hc
    simp only [upd] at hc
    split at hc
    · simp at hc
    · exact hg.noout c z hc
  · intro i0 pc0 cs0 c ha0 hc0
    have hL := hg.launched i0 pc0 cs0 c ha0 hc0
    have e1 : (upd s.node i (.spin pc) c ≠ .absent) ↔ (s.node c ≠ .absent) := by
      simp only [upd]
      split
      · rename_i e; subst e
        constructor
        · intro _ h; rw [h] at hlive; simp [NState.live] at hlive
        · intro _; simp
      · exact Iff.rfl
    have e2 : passed (upd s.node i (.spin pc) i0) pc0 = passed (s.node i0) pc0 := by
      simp only [upd]
      split
      · rename_i e; subst e; simp [hn, passed]
      · rfl
    simp only
    rw [e1, e2]; exact hL
  · intro hr
    exfalso
    simp only [upd] at hr
    split at hr
    · simp at hr
    · have := hg.root_reg hr
      rw [this, init_not_live] at hlive
      simp at hlive
  · simp only [upd]
    split
    · simp
    · exact hg.root_ne

theorem good_declare (P : Prog) (s : Sys) (i pc : Nat) (cs D : List Nat) (hg : Good P s)
    (hn : s.node i = .run pc) (ha : (P.body i)[pc]? = some (Act.wait cs))
    (hDn : ∀ c ∈ cs, s.node c ≠ .final → c ∈ D) :
    Good P (doDeclare s i pc D) := by
  have hlive : (s.node i).live = true := by simp [hn, NState.live]
  unfold doDeclare
  refine ⟨?_, ?_, ?_, ?_, ?_, ?_, ?_⟩
  · intro j hj
    simp only [upd]
    split
    · rfl
    · exact hg.thr_live j hj
  · intro j p hj
    simp only [upd] at hj
    split at hj
    · simp at hj
    · exact hg.spin_wait j p hj
  · intro j p hj
    have hfin : ∀ c, upd s.node i (.declared pc) c ≠ .final → s.node c ≠ .final := by
      intro c hne hf
      simp only [upd] at hne
      split at hne
      · rename_i e; subst e; rw [hf] at hlive; simp [NState.live] at hlive
      · exact hne hf
    simp only [upd] at hj
    split at hj
    · rename_i e; subst e
      have hp : p = pc := by rcases hj with h | h <;> simp at h; exact h.symm
      subst hp
      refine ⟨cs, ha, ?_⟩
      intro c hc hne
      simp only [List.mem_append, List.mem_map]
      exact Or.inr ⟨c, hDn c hc (hfin c hne), rfl⟩
    · obtain ⟨cs', hb, he⟩ := hg.decl_edges j p hj
      refine ⟨cs', hb, ?_⟩
      intro c hc hne
      simp only [List.mem_append]
      exact Or.inl (he c hc (hfin c hne))
  · intro c z hc hmem
    simp only [upd] at hc
    split at hc
    · simp at hc
    · rename_i hci
      simp only [List.mem_append, List.mem_map, Prod.mk.injEq] at hmem
      rcases hmem with h | ⟨_, _, h, _⟩
      · exact hg.noout c z hc h
      · exact hci h.symm
  · intro i0 pc0 cs0 c ha0 hc0
    have hL := hg.launched i0 pc0 cs0 c ha0 hc0
    have e1 : (upd s.node i (.declared pc) c ≠ .absent) ↔ (s.node c ≠ .absent) := by
      simp only [upd]
      split
      · rename_i e; subst e
        constructor
        · intro _ h; rw [h] at hlive; simp [NState.live] at hlive
        · intro _; simp
      · exact Iff.rfl
    have e2 : passed (upd s.node i (.declared pc) i0) pc0 = passed (s.node i0) pc0 := by
      simp only [upd]
      split
      · rename_i e; subst e; simp [hn, passed]
      · rfl
    simp only
    rw [e1, e2]; exact hL
  · intro hr
    exfalso
    simp only [upd] at hr
    split at hr
    · simp at hr
    · have := hg.root_reg hr
      rw [this, init_not_live] at hlive
      simp at hlive
  · simp only [upd]
    split
    · simp
    · exact hg.root_ne

theorem good_finish (P : Prog) (s : Sys) (i pc : Nat) (hg : Good P s)
    (hn : s.node i = .run pc) (ha : (P.body i)[pc]? = none) :
    Good P (doFinish s i) := by
  have hlive : (s.node i).live = true := by simp [hn, NState.live]
  unfold doFinish
  refine ⟨?_, ?_, ?_, ?_, ?_, ?_, ?_⟩
  · intro j hj
    simp only [List.mem_filter, decide_eq_true_eq] at hj
    simp only [upd, hj.2, if_false]
    exact hg.thr_live j hj.1
  · intro j p hj
    simp only [upd] at hj
    split at hj
    · simp at hj
    · rename_i hji
      simp only [List.mem_filter, decide_eq_true_eq]
      exact ⟨hg.spin_wait j p hj, hji⟩
  · intro j p hj
    simp only [upd] at hj
    split at hj
    · simp at hj
    · obtain ⟨cs', hb, he⟩ := hg.decl_edges j p hj
      refine ⟨cs', hb, ?_⟩
      intro c hc hne
      simp only [upd] at hne
      split at hne
      · simp at hne
      · rename_i hci
        simp only [List.mem_filter, decide_eq_true_eq]
        exact ⟨he c hc hne, hci⟩
  · intro c z hc hmem
    simp only [upd] at hc
    split at hc
    · simp at hc
    · exact hg.noout c z hc (List.mem_filter.1 hmem).1
  · intro i0 pc0 cs0 c ha0 hc0
    have hL := hg.launched i0 pc0 cs0 c ha0 hc0
    have e1 : (upd s.node i .final c ≠ .absent) ↔ (s.node c ≠ .absent) := by
      simp only [upd]
      split
      · rename_i e; subst e
        constructor
        · intro _ h; rw [h] at hlive; simp [NState.live] at hlive
        · intro _; simp
      · exact Iff.rfl
    have e2 : passed (upd s.node i .final i0) pc0 = passed (s.node i0) pc0 := by
      simp only [upd]
      split
      · rename_i e; subst e
        have h1 : pc0 < (P.body i0).length := by
          have := List.getElem?_eq_some_iff.1 ha0
          exact this.1
        have h2 : (P.body i0).length ≤ pc := List.getElem?_eq_none_iff.1 ha
        simp [hn, passed]; omega
      · rfl
    simp only
    rw [e1, e2]; exact hL
  · intro hr
    exfalso
    simp only [upd] at hr
    split at hr
    · simp at hr
    · have := hg.root_reg hr
      rw [this, init_not_live] at hlive
      simp at hlive
  · simp only [upd]
    split
    · simp
    · exact hg.root_ne

theorem good_launch (P : Prog) (hwf : WF P) (s : Sys) (i pc : Nat) (cs : List Nat) (hg : Good P s)
    (hn : s.node i = .run pc) (ha : (P.body i)[pc]? = some (Act.launch cs)) :
    Good P (doLaunch s i pc cs) := by
  have hlive : (s.node i).live = true := by simp [hn, NState.live]
  have hics : i ∉ cs := fun h => Nat.lt_irrefl i (hwf.down i pc cs ha i h)
  have habs : ∀ c ∈ cs, s.node c = .absent := by
    intro c hc
    have hL := hg.launched i pc cs c ha hc
    by_cases h : s.node c = .absent
    · exact h
    · have := hL.1 h
      simp [hn, passed] at this
  have hnode : ∀ j, (doLaunch s i pc cs).node j =
      if j ∈ cs then .registered else if j = i then .run (pc + 1) else s.node j := by
    intro j; simp [doLaunch, updMany, upd]
  have hfin : ∀ c, (doLaunch s i pc cs).node c ≠ .final → s.node c ≠ .final := by
    intro c hne hf
    rw [hnode] at hne
    by_cases h1 : c ∈ cs
    · rw [habs c h1] at hf; simp at hf
    · by_cases h2 : c = i
      · subst h2; rw [hf] at hlive; simp [NState.live] at hlive
      · simp [h1, h2, hf] at hne
  refine ⟨?_, ?_, ?_, ?_, ?_, ?_, ?_⟩
  · intro j hj
    have hl := hg.thr_live j hj
    rw [hnode]
    by_cases h1 : j ∈ cs
    · rw [habs j h1] at hl; simp [NState.live] at hl
    · by_cases h2 : j = i
      · simp [h2, hics, NState.live]
      · simp [h1, h2, hl]
  · intro j p hj
    rw [hnode] at hj
    by_cases h1 : j ∈ cs
    · simp [h1] at hj
    · by_cases h2 : j = i
      · simp [h2, hics] at hj
      · simp only [h1, h2, if_false] at hj
        exact hg.spin_wait j p hj
  · intro j p hj
    have hj' : s.node j = .declared p ∨ s.node j = .spin p := by
      rw [hnode] at hj
      by_cases h1 : j ∈ cs
      · simp [h1] at hj
      · by_cases h2 : j = i
        · simp [h2, hics] at hj
        · simpa [h1, h2] using hj
    obtain ⟨cs', hb, he⟩ := hg.decl_edges j p hj'
    exact ⟨cs', hb, fun c hc hne => he c hc (hfin c hne)⟩
  · intro c z hc
    show (c, z) ∉ s.edges
    apply hg.noout c z
    rw [hnode] at hc
    by_cases h1 : c ∈ cs
    · exact Or.inl (habs c h1)
    · by_cases h2 : c = i
      · simp [h2, hics] at hc
      · simpa [h1, h2] using hc
  · intro i0 pc0 cs0 c0 ha0 hc0
    have hL := hg.launched i0 pc0 cs0 c0 ha0 hc0
    rw [hnode, hnode]
    by_cases hc : c0 ∈ cs
    · obtain ⟨e1, e2⟩ := hwf.uniq i pc cs i0 pc0 cs0 ha ha0 c0 hc hc0
      subst e1; subst e2
      simp [hc, hics, passed]
    · have e1 : ((if c0 = i then NState.run (pc + 1) else s.node c0) ≠ .absent) ↔ s.node c0 ≠ .absent := by
        by_cases h2 : c0 = i
        · subst h2; simp [hn]
        · simp [h2]
      simp only [hc, if_false]
      rw [e1, hL]
      by_cases h1 : i0 ∈ cs
      · simp [h1, habs i0 h1, passed]
      · by_cases h2 : i0 = i
        · subst h2
          have hne : pc0 ≠ pc := by
            intro e; subst e
            rw [ha] at ha0
            simp only [Option.some.injEq, Act.launch.injEq] at ha0
            subst ha0; exact hc hc0
          simp only [h1, if_false, if_true, hn, passed, decide_eq_true_eq]
          omega
        · simp [h1, h2]
  · intro hr
    exfalso
    rw [hnode] at hr
    have h1 : P.root ∉ cs := hwf.rootFree i pc cs ha
    by_cases h2 : P.root = i
    · simp [h2, hics] at hr
    · simp only [h1, h2, if_false] at hr
      have := hg.root_reg hr
      rw [this, init_not_live] at hlive
      simp at hlive
  · rw [hnode]
    have h1 : P.root ∉ cs := hwf.rootFree i pc cs ha
    by_cases h2 : P.root = i
    · simp [h2, hics]
    · simp only [h1, h2, if_false]
      exact hg.root_ne


theorem pops_threads_len (m : Nat) (q : List Nat) (s : Sys) :
    s.threads.length ≤ (pops m s q).threads.length := by
  induction q generalizing m s with
  | nil => simp [pops]
  | cons a rest ih =>
    unfold pops
    by_cases hm : m = 0
    · simp [hm]
    · simp only [hm, if_false]
      by_cases hr : s.node a = .registered
      · simp only [hr, if_true]
        have h1 := ih (m - 1) (claim s a)
        have h2 : (claim s a).threads.length = s.threads.length + 1 := by simp [claim]
        omega
      · simp only [hr, if_false]; exact ih m s

theorem good_step (P : Prog) (hwf : WF P) (cfg : Cfg) (s s' : Sys) (hg : Good P s)
    (h : Step P cfg s s') : Good P s' := by
  cases h with
  | poll bs hb hnd hlen hfirst hclaims =>
    obtain ⟨C, hC⟩ := claimed_poll cfg s bs hb hnd
    have hne : bs ++ C ≠ [] := by
      intro e
      apply hclaims
      rw [hC.threads, e]; simp
    exact good_claimed P s _ _ hne hg hC
  | launch i pc cs hn ha => exact good_launch P hwf s i pc cs hg hn ha
  | waitPass i pc cs hn ha hf => exact good_advance P s i pc cs hg (Or.inl hn) ha
  | declare i pc cs D hn ha hD hDn => exact good_declare P s i pc cs D hg hn ha hDn
  | declPass i pc cs hn ha hf => exact good_advance P s i pc cs hg (Or.inr (Or.inl hn)) ha
  | toSpin i pc hn => exact good_toSpin P s i pc hg hn
  | spinPass i pc cs hn ha hf => exact good_advance P s i pc cs hg (Or.inr (Or.inr hn)) ha
  | finish i pc hn ha => exact good_finish P s i pc hg hn ha

theorem good_reach (P : Prog) (hwf : WF P) (cfg : Cfg) (s : Sys) (h : Reach P cfg s) : Good P s := by
  induction h with
  | init => exact good_init P hwf
  | step s s' _ hs ih => exact good_step P hwf cfg s s' ih hs

/-- remaining work of one node: strictly smaller after every step of that node -/
def wt (L : Nat) : NState → Nat
  | .absent => 3 * L + 5
  | .registered => 3 * L + 4
  | .run pc => 3 * (L - pc) + 3
  | .declared pc => 3 * (L - pc) + 2
  | .spin pc => 3 * (L - pc) + 1
  | .final => 0

def sumTo : Nat → (Nat → Nat) → Nat
  | 0, _ => 0
  | n + 1, f => sumTo n f + f n

/-- the termination measure: total remaining work of the nodes of the tree -/
def mu (P : Prog) (s : Sys) : Nat := sumTo P.size fun i => wt (P.body i).length (s.node i)

theorem sumTo_le (n : Nat) (f g : Nat → Nat) (h : ∀ i, i < n → f i ≤ g i) : sumTo n f ≤ sumTo n g := by
  induction n with
  | zero => simp [sumTo]
  | succ n ih =>
    simp only [sumTo]
    have := ih (fun i hi => h i (by omega))
    have := h n (by omega)
    omega

theorem sumTo_lt (n : Nat) (f g : Nat → Nat) (h : ∀ i, i < n → f i ≤ g i) (k : Nat) (hk : k < n)
    (hlt : f k < g k) : sumTo n f < sumTo n g := by
  induction n with
  | zero => omega
  | succ n ih =>
    simp only [sumTo]
    by_cases hkn : k = n
    · subst hkn
      have := sumTo_le k f g (fun i hi => h i (by omega))
      omega
    · have := ih (fun i hi => h i (by omega)) (by omega)
      have := h n (by omega)
      omega

/-- every created node is a node of the tree -/
def InRange (P : Prog) (s : Sys) : Prop := ∀ i, s.node i ≠ .absent → i < P.size

theorem inRange_init (P : Prog) (hwf : WF P) : InRange P (init P) := by
  intro i hi
  simp only [init, upd] at hi
  split at hi
  · rename_i e; subst e; exact hwf.rootIn
  · exact absurd rfl hi

/-- how one step changes the nodes: pointwise the weight does not grow, and some node of the tree
    gets strictly lighter; no node outside the tree is created -/
theorem step_weights (P : Prog) (hwf : WF P) (cfg : Cfg) (s s' : Sys) (hg : Good P s) (hr : InRange P s)
    (h : Step P cfg s s') :
    InRange P s' ∧
    (∀ j, wt (P.body j).length (s'.node j) ≤ wt (P.body j).length (s.node j)) ∧
    ∃ k, k < P.size ∧ wt (P.body k).length (s'.node k) < wt (P.body k).length (s.node k) := by
  -- a step that only rewrites node `i` (live before and after, lighter after)
  have single : ∀ (i : Nat) (v : NState) (nd : Nat → NState), nd = upd s.node i v →
      s.node i ≠ .absent → v ≠ .absent →
      wt (P.body i).length v < wt (P.body i).length (s.node i) →
      (∀ j, nd j ≠ .absent → j < P.size) ∧
      (∀ j, wt (P.body j).length (nd j) ≤ wt (P.body j).length (s.node j)) ∧
      ∃ k, k < P.size ∧ wt (P.body k).length (nd k) < wt (P.body k).length (s.node k) := by
    intro i v nd hnd hi hv hlt
    subst hnd
    refine ⟨?_, ?_, ⟨i, hr i hi, by simpa [upd] using hlt⟩⟩
    · intro j hj
      simp only [upd] at hj
      split at hj
      · rename_i e; subst e; exact hr j hi
      · exact hr j hj
    · intro j
      simp only [upd]
      split
      · rename_i e; subst e; exact Nat.le_of_lt hlt
      · exact Nat.le_refl _
  have pcLt : ∀ (i pc : Nat) (a : Act), (P.body i)[pc]? = some a → pc < (P.body i).length :=
    fun i pc a ha => (List.getElem?_eq_some_iff.1 ha).1
  cases h with
  | poll bs hb hnd hlen hfirst hclaims =>
    obtain ⟨C, hC⟩ := claimed_poll cfg s bs hb hnd
    have hne : bs ++ C ≠ [] := by
      intro e
      apply hclaims
      rw [hC.threads, e]; simp
    have hnode : ∀ j, (doPoll cfg s bs).node j = if j ∈ bs ++ C then .run 0 else s.node j := by
      intro j; rw [hC.node]; rfl
    refine ⟨?_, ?_, ?_⟩
    · intro j hj
      rw [hnode] at hj
      by_cases hm : j ∈ bs ++ C
      · exact hr j (by rw [hC.reg j hm]; simp)
      · simp only [hm, if_false] at hj; exact hr j hj
    · intro j
      rw [hnode]
      by_cases hm : j ∈ bs ++ C
      · simp only [hm, if_true, hC.reg j hm, wt]; omega
      · simp [hm]
    · obtain ⟨k, hk⟩ := List.exists_mem_of_ne_nil _ hne
      refine ⟨k, hr k (by rw [hC.reg k hk]; simp), ?_⟩
      rw [hnode]
      simp only [hk, if_true, hC.reg k hk, wt]; omega
  | launch i pc cs hn ha =>
    have hics : i ∉ cs := fun h => Nat.lt_irrefl i (hwf.down i pc cs ha i h)
    have habs : ∀ c ∈ cs, s.node c = .absent := by
      intro c hc
      have hL := hg.launched i pc cs c ha hc
      by_cases h : s.node c = .absent
      · exact h
      · have := hL.1 h
        simp [hn, passed] at this
    have hnode : ∀ j, (doLaunch s i pc cs).node j =
        if j ∈ cs then .registered else if j = i then .run (pc + 1) else s.node j := by
      intro j; simp [doLaunch, updMany, upd]
    have hpc := pcLt i pc _ ha
    refine ⟨?_, ?_, ?_⟩
    · intro j hj
      rw [hnode] at hj
      by_cases h1 : j ∈ cs
      · exact hwf.bounded i pc cs ha j h1
      · by_cases h2 : j = i
        · subst h2; exact hr j (by rw [hn]; simp)
        · simp only [h1, h2, if_false] at hj; exact hr j hj
    · intro j
      rw [hnode]
      by_cases h1 : j ∈ cs
      · simp only [h1, if_true, habs j h1, wt]; omega
      · by_cases h2 : j = i
        · subst h2; simp only [h1, if_false, if_true, hn, wt]; omega
        · simp [h1, h2]
    · refine ⟨i, hr i (by rw [hn]; simp), ?_⟩
      rw [hnode]
      simp only [hics, if_false, if_true, hn, wt]; omega
  | waitPass i pc cs hn ha hf =>
    have hpc := pcLt i pc _ ha
    exact single i (.run (pc + 1)) _ rfl (by rw [hn]; simp) (by simp) (by simp only [hn, wt]; omega)
  | declare i pc cs D hn ha hD hDn =>
    exact single i (.declared pc) _ rfl (by rw [hn]; simp) (by simp) (by simp only [hn, wt]; omega)
  | declPass i pc cs hn ha hf =>
    have hpc := pcLt i pc _ ha
    exact single i (.run (pc + 1)) _ rfl (by rw [hn]; simp) (by simp) (by simp only [hn, wt]; omega)
  | toSpin i pc hn =>
    exact single i (.spin pc) _ rfl (by rw [hn]; simp) (by simp) (by simp only [hn, wt]; omega)
  | spinPass i pc cs hn ha hf =>
    have hpc := pcLt i pc _ ha
    exact single i (.run (pc + 1)) _ rfl (by rw [hn]; simp) (by simp) (by simp only [hn, wt]; omega)
  | finish i pc hn ha =>
    exact single i .final _ rfl (by rw [hn]; simp) (by simp) (by simp only [hn, wt]; omega)

theorem reach_good_range (P : Prog) (hwf : WF P) (cfg : Cfg) (s : Sys) (h : Reach P cfg s) :
    Good P s ∧ InRange P s := by
  induction h with
  | init => exact ⟨good_init P hwf, inRange_init P hwf⟩
  | step s s' _ hs ih =>
    exact ⟨good_step P hwf cfg s s' ih.1 hs, (step_weights P hwf cfg s s' ih.1 ih.2 hs).1⟩

theorem mu_decreases (P : Prog) (hwf : WF P) (cfg : Cfg) (s s' : Sys) (hr : Reach P cfg s)
    (h : Step P cfg s s') : mu P s' < mu P s := by
  obtain ⟨hg, hin⟩ := reach_good_range P hwf cfg s hr
  obtain ⟨_, hle, k, hk, hlt⟩ := step_weights P hwf cfg s s' hg hin h
  exact sumTo_lt P.size _ _ (fun j _ => hle j) k hk hlt


/-! ### the executable well-formedness check -/

theorem getD_some_lt (bodies : List (List Act)) (i pc : Nat) (a : Act)
    (h : (bodies.getD i [])[pc]? = some a) : i < bodies.length ∧ pc < (bodies.getD i []).length := by
  have hpc : pc < (bodies.getD i []).length := (List.getElem?_eq_some_iff.1 h).1
  refine ⟨?_, hpc⟩
  apply Classical.byContradiction
  intro hi
  have : bodies.getD i [] = [] := by
    simp [List.getD, List.getElem?_eq_none (Nat.le_of_not_lt hi)]
  rw [this] at hpc
  simp at hpc

theorem wfb_at (bodies : List (List Act)) (h : wfb bodies = true) (i pc : Nat)
    (hi : i < bodies.length) (hpc : pc < (bodies.getD i []).length) :
    launchOK bodies i pc = true ∧ waitOK bodies i pc = true := by
  unfold wfb at h
  simp only [Bool.and_eq_true, List.all_eq_true, List.mem_range] at h
  exact h.2 i hi pc hpc


end Pynenc.TR
