import PynencModel.Model.BrokerTxn
import PynencModel.Gen.BrokerSend
/-
  C08 under a refused COMMIT: a call that returns did its work exactly once, a call that raises did nothing — so no message is
  duplicated or lost by a fault of this kind; and the retry inside the open transaction is what duplicates.
-/
namespace Pynenc.C08T
open Pynenc.BrokerTxn

variable {α : Type}

/-- a routing that RETURNS has queued the message exactly once, at the tail; one that RAISES has queued nothing -/
theorem send_once_or_nothing (q : List α) (i : α) (c : Commit) :
    ((send q i c).2 = true → (send q i c).1 = q ++ [i]) ∧ ((send q i c).2 = false → (send q i c).1 = q) := by
  cases c <;> simp [send]

/-- a retrieval that RETURNS a message has removed exactly the oldest one; one that RAISES (or finds nothing) removed none -/
theorem retrieve_once_or_nothing (q : List α) (c : Commit) :
    (∀ x, (retrieve q c).2 = some (some x) → q = x :: (retrieve q c).1) ∧
    ((retrieve q c).2 = none → (retrieve q c).1 = q) ∧
    ((retrieve q c).2 = some none → q = [] ∧ (retrieve q c).1 = []) := by
  cases c <;> cases q <;> simp [retrieve]

/-- the retry inside the open transaction returns normally with the message queued TWICE after one refused COMMIT
    (k + 1 times after k refusals) -/
theorem retry_in_transaction_duplicates (q : List α) (i : α) :
    retryInTxn { rows := q } i [.refused, .ok] = ({ rows := q ++ [i, i] }, true) := by
  simp [retryInTxn]

theorem retry_in_transaction_copies (q : List α) (i : α) (k : Nat) (pend : List α) :
    (retryInTxn { rows := q, pending := pend } i (List.replicate k .refused ++ [.ok])).1.rows
      = q ++ (pend ++ List.replicate (k + 1) i) ∧
    (retryInTxn { rows := q, pending := pend } i (List.replicate k .refused ++ [.ok])).2 = true := by
  induction k generalizing pend with
  | zero => simp [retryInTxn]
  | succ n ih =>
    simp only [List.replicate_succ, List.cons_append, retryInTxn]
    obtain ⟨h1, h2⟩ := ih (pend ++ [i])
    refine ⟨?_, h2⟩
    rw [h1]
    simp [List.replicate_succ, List.append_assoc]

/-- tie to the source (regenerated on every run): both operations are straight-line inside one `with` block — no loop, no handler —
    and consist of exactly these statements; routing one invocation is one `send_message` -/
theorem code_is_straight_line :
    Gen.BrokerSend.sendBody = ["execute:INSERT", "commit"] ∧ Gen.BrokerSend.sendHasLoopOrHandler = false ∧
    Gen.BrokerSend.retrieveBody = ["execute:BEGIN", "execute:SELECT", "execute:DELETE", "commit"] ∧
    Gen.BrokerSend.retrieveHasLoopOrHandler = false ∧ Gen.BrokerSend.routeCalls = ["send_message"] := by decide

end Pynenc.C08T
