import PynencModel.Model.Stop
import PynencModel.Gen.StatusTable
import PynencModel.Gen.Programs
/-
  C11 — stopping a runner leaves none of its invocations owned or unqueued.

  The per-invocation system (task thread × stop procedure, Model/Stop.lean) is finite; the theorems enumerate EVERY
  interleaving, for every moment at which the stop request finds the task thread (every program point), every outcome
  of the body, whether the invocation was still PENDING or already RUNNING.  Enumeration is done by the kernel
  (`decide +kernel`), which is a proof here because the quantified space is genuinely finite.
-/
namespace Pynenc.C11
open Pynenc Pynenc.Stop

/-- the states in which the stop request can find a claimed invocation: PENDING (thread not yet RUNNING) or RUNNING,
    owned by this runner, the thread at any point of its program consistent with that status -/
def initials : List St :=
  [Script.ok, .fail, .retry].flatMap fun sc =>
    [ { sr := ⟨.pending, self⟩, queued := 0, t := .start, k := .check, script := sc },
      { sr := ⟨.running, self⟩, queued := 0, t := .body, k := .check, script := sc },
      { sr := ⟨.running, self⟩, queued := 0, t := .store, k := .check, script := sc },
      { sr := ⟨.running, self⟩, queued := 0, t := .publish, k := .check, script := sc } ] ++
  -- thread already finished before the stop request: the status it left behind
  [ { sr := ⟨.success, none⟩, queued := 0, t := .done, k := .check, script := .ok },
    { sr := ⟨.failed, none⟩, queued := 0, t := .done, k := .check, script := .fail },
    { sr := ⟨.retry, none⟩, queued := 1, t := .done, k := .check, script := .retry },
    { sr := ⟨.retry, none⟩, queued := 0, t := .push, k := .check, script := .retry } ]

/-- ST1 (`stop_terminates_partial`, `stop_postcondition_partial`). For every workload whose task threads terminate
    without needing this runner again (independent and retrying tasks), whatever the moment of the stop request and
    whatever the interleaving of the loop thread with the task thread: no execution gets stuck — the stop completes —
    and when it has completed the invocation is final, or in an available status, queued, and owned by nobody:
    nothing stays PENDING, RUNNING or KILLED under the stopped runner. -/
theorem stop_postcondition_partial :
    ∀ s0 ∈ initials, ∀ s ∈ terminals Gen.table 16 s0, stopped s = true ∧ s.t = .done ∧ post Gen.table s = true := by
  decide +kernel

/-- 16 steps are enough: no terminal state is cut off by the fuel (every run of the two straight-line programs
    has at most 12 steps), so ST1 really covers every complete execution. -/
theorem fuel_suffices :
    ∀ s0 ∈ initials, (terminals Gen.table 16 s0).length = (terminals Gen.table 20 s0).length ∧
      (terminals Gen.table 16 s0) ≠ [] := by
  decide +kernel

/-- the states in which the stop request can find an invocation whose THREAD ENDS WITHOUT A FINAL STATUS: the body asks for a
    pause (RUNNING stays), or the store fails at the RUNNING write (PENDING stays) — before, while and after the thread ends -/
def initialsEnded : List St :=
  [ { sr := ⟨.pending, self⟩, queued := 0, t := .start, k := .check, script := .pause },
    { sr := ⟨.running, self⟩, queued := 0, t := .body, k := .check, script := .pause },
    { sr := ⟨.running, self⟩, queued := 0, t := .done, k := .check, script := .pause },
    { sr := ⟨.pending, self⟩, queued := 0, t := .start, k := .check, script := .startFault },
    { sr := ⟨.pending, self⟩, queued := 0, t := .done, k := .check, script := .startFault } ]

/-- ST1' . The same postcondition for threads that end WITHOUT a final status (pause request, store fault at the RUNNING
    write): whenever the stop request comes — also after the thread has ended, the loop not having pruned it yet — the stop
    completes and the invocation is re-queued, available and nobody's.  This is what the "already-dead thread: join, then
    kill-and-reroute" branch of `_on_stop` is for. -/
theorem stop_postcondition_ended_threads :
    ∀ s0 ∈ initialsEnded, (terminals Gen.table 16 s0) ≠ [] ∧
      ∀ s ∈ terminals Gen.table 16 s0, stopped s = true ∧ s.t = .done ∧ post Gen.table s = true ∧
        s.sr = ⟨.rerouted, none⟩ ∧ s.queued = 1 := by
  decide +kernel

/-- …and the stop that prunes ended threads first (as the loop's slot reclaim does) and only handles the alive ones strands
    them: the paused invocation stays RUNNING, the faulted one PENDING, under the stopped runner, in no queue. -/
theorem pruning_ended_threads_strands_them :
    (∀ s ∈ terminalsV false Gen.table 16 { sr := ⟨.running, self⟩, queued := 0, t := .done, k := .check, script := .pause },
        stopped s = true ∧ s.sr = ⟨.running, self⟩ ∧ s.queued = 0 ∧ post Gen.table s = false) ∧
    (∀ s ∈ terminalsV false Gen.table 16 { sr := ⟨.pending, self⟩, queued := 0, t := .done, k := .check, script := .startFault },
        stopped s = true ∧ s.sr = ⟨.pending, self⟩ ∧ s.queued = 0 ∧ post Gen.table s = false) ∧
    terminalsV false Gen.table 16 { sr := ⟨.running, self⟩, queued := 0, t := .done, k := .check, script := .pause } ≠ [] := by
  decide +kernel

/-- ST2 (refutation, known finding). A task thread waiting for a sub-task that nobody runs any more (its own runner
    is the one being stopped) never ends: after the kill-and-reroute the loop thread blocks in `join`, so `run()`
    never returns.  Every terminal state of this workload is stuck with the stop procedure not finished. -/
theorem stop_hangs_on_waiting_parent :
    let s0 : St := { sr := ⟨.running, self⟩, queued := 0, t := .body, k := .check, script := .waitChild }
    (terminals Gen.table 16 s0) ≠ [] ∧
    ∀ s ∈ terminals Gen.table 16 s0, stopped s = false ∧ s.k = .join ∧ s.t = .waiting ∧
      -- the invocation itself was re-queued correctly; it is the stop that never completes
      s.sr = ⟨.rerouted, none⟩ ∧ s.queued = 1 := by
  decide +kernel

/-- tie: the model's kill-and-reroute is the traced one (KILLED, REROUTED, push — each status write followed by its
    history hand-over) -/
theorem kill_program_matches :
    Gen.Programs.killRerouteP.filter (fun e => e.1 == "transition" || e.1 == "push") =
      [("transition", "killed"), ("transition", "rerouted"), ("push", "")] := by decide

/-- non-vacuity: one concrete interleaving — the stop request arrives while the body runs, the thread finishes with
    SUCCESS refused, the invocation ends REROUTED and queued -/
example : ({ sr := ⟨.rerouted, none⟩, queued := 1, t := .done, k := .done, script := .ok } : St) ∈
    terminals Gen.table 16 { sr := ⟨.running, self⟩, queued := 0, t := .body, k := .check, script := .ok } := by
  decide +kernel

end Pynenc.C11
