import PynencModel.Model.Recovery
import PynencModel.Props.C01
import PynencModel.Gen.Programs
/-
  C04 — recovery re-queues stuck PENDING / RUNNING work and never steals live work.

  Scans (`Model/Orch.lean`): exact characterisations, boundary comparisons included, and equality of the
  in-memory algorithm (set of active runners, then difference) with the SQLite one (LEFT JOIN … IS NULL OR <).
  Run (`Model/Recovery.lean`): a recovery run interleaved with an arbitrary environment re-queues every
  invocation it took; a scan result that became stale is refused by the status machine.
-/
namespace Pynenc.C04
open Pynenc Pynenc.Recovery Pynenc.C01

/-- T1. The pending scan returns exactly the PENDING records whose timestamp is at or before
    `now − max_pending` (an invocation PENDING for *exactly* the limit is selected, one µs less is not). -/
theorem pendingScan_spec (o : Orch) (now mp : Int) (id : String) :
    id ∈ o.pendingScan now mp ↔ ∃ r, (id, r) ∈ o.recs ∧ r.status = .pending ∧ r.ts ≤ now - mp := by
  simp only [Orch.pendingScan, List.mem_map, List.mem_filter, Bool.and_eq_true, decide_eq_true_eq]
  constructor
  · rintro ⟨⟨i, r⟩, ⟨hm, hs, ht⟩, rfl⟩; exact ⟨r, hm, hs, ht⟩
  · rintro ⟨r, hm, hs, ht⟩; exact ⟨(id, r), ⟨hm, hs, ht⟩, rfl⟩

/-- T1'. Recovery never selects an invocation that has been PENDING for less than the limit, nor one that is not PENDING. -/
theorem pendingScan_never_fresh (o : Orch) (hn : o.recs.NodupKeys) (now mp : Int) (id : String) (r : ORec)
    (hg : o.get id = some r) (hfresh : r.status ≠ .pending ∨ r.ts > now - mp) : id ∉ o.pendingScan now mp := by
  rw [pendingScan_spec]
  rintro ⟨r', hm, hs, ht⟩
  have := AMap.get?_of_mem o.recs hn id r' hm
  have heq : r' = r := by simpa [Orch.get, this] using hg
  subst heq
  rcases hfresh with h | h
  · exact h hs
  · omega

/-- T2. The (SQLite) running scan returns exactly the RUNNING records with an owner that has no
    heartbeat row or whose last beat — its own or reported by its parent, it is the same table — is
    strictly older than `now − timeout`. -/
theorem runningScan_spec (o : Orch) (now to : Int) (id : String) :
    id ∈ o.runningScanSql now to ↔
      ∃ r ow, (id, r) ∈ o.recs ∧ r.status = .running ∧ r.owner = some ow ∧
        (o.hb.get? ow = none ∨ ∃ h, o.hb.get? ow = some h ∧ h.last < now - to) := by
  simp only [Orch.runningScanSql, List.mem_map, List.mem_filter, Bool.and_eq_true, decide_eq_true_eq]
  constructor
  · rintro ⟨⟨i, r⟩, ⟨hm, hs, hc⟩, rfl⟩
    cases hr : r.owner with
    | none => simp [hr] at hc
    | some ow =>
      simp only [hr] at hc
      refine ⟨r, ow, hm, hs, hr, ?_⟩
      cases hh : o.hb.get? ow with
      | none => left; rfl
      | some h => right; simp only [hh, decide_eq_true_eq] at hc; exact ⟨h, rfl, hc⟩
  · rintro ⟨r, ow, hm, hs, hr, hc⟩
    refine ⟨(id, r), ⟨hm, hs, ?_⟩, rfl⟩
    simp only [hr]
    rcases hc with h | ⟨h, hh, hl⟩
    · simp [h]
    · simp [hh, hl]

/-- T2'. A RUNNING invocation whose owner has a fresh heartbeat (≥ cut-off) is never selected. -/
theorem runningScan_never_live (o : Orch) (hn : o.recs.NodupKeys) (now to : Int) (id : String) (r : ORec) (ow : String) (h : HB)
    (hg : o.get id = some r) (ho : r.owner = some ow) (hb : o.hb.get? ow = some h) (hfresh : h.last ≥ now - to) :
    id ∉ o.runningScanSql now to := by
  rw [runningScan_spec]
  rintro ⟨r', ow', hm, _, ho', hc⟩
  have := AMap.get?_of_mem o.recs hn id r' hm
  have heq : r' = r := by simpa [Orch.get, this] using hg
  subst heq
  rw [ho] at ho'; injection ho' with ho'; subst ho'
  rcases hc with h0 | ⟨h', hh', hl⟩
  · rw [hb] at h0; exact absurd h0 (by simp)
  · rw [hb] at hh'; injection hh' with hh'; subst hh'; omega

private theorem active_contains (hbm : AMap String HB) (hn : hbm.NodupKeys) (cut : Int) (ow : String) :
    ((hbm.filter fun (_, h) => decide (h.last ≥ cut)).map (·.1)).contains ow = true ↔
      ∃ h, hbm.get? ow = some h ∧ h.last ≥ cut := by
  simp only [List.contains_iff_mem, List.mem_map, List.mem_filter, decide_eq_true_eq]
  constructor
  · rintro ⟨⟨k, h⟩, ⟨hm, hl⟩, rfl⟩; exact ⟨h, AMap.get?_of_mem hbm hn k h hm, hl⟩
  · rintro ⟨h, hg, hl⟩; exact ⟨(ow, h), ⟨AMap.mem_of_get? hbm ow h hg, hl⟩, rfl⟩

/-- T3. The two backends' running scans agree (as lists, in record order) whenever RUNNING records
    have truthy owners — an invariant of every state reached through the status machine, because
    entering PENDING needs a truthy runner id (C02.claim_only_from_available) — and runner ids are
    unique in the heartbeat table. -/
theorem runningScanMem_eq_Sql (o : Orch) (hn : o.hb.NodupKeys)
    (hown : ∀ p ∈ o.recs, p.2.status = .running → p.2.owner = none ∨ truthy p.2.owner = true) (now to : Int) :
    o.runningScanMem now to = o.runningScanSql now to := by
  unfold Orch.runningScanMem Orch.runningScanSql
  simp only []
  congr 1
  apply List.filter_congr
  rintro ⟨i, r⟩ hm
  by_cases hs : r.status = .running
  · simp only [hs, decide_true, Bool.true_and]
    cases hr : r.owner with
    | none => simp [truthy]
    | some ow =>
      have ht : truthy (some ow) = true := by
        rcases hown (i, r) hm hs with h | h
        · simp [hr] at h
        · simpa [hr] using h
      simp only [ht, Bool.true_and]
      have key := active_contains o.hb hn (now - to) ow
      generalize ((o.hb.filter fun (_, h) => decide (h.last ≥ now - to)).map (·.1)).contains ow = b at key ⊢
      cases hg : o.hb.get? ow with
      | none =>
        have : b = false := by
          cases b with
          | false => rfl
          | true => obtain ⟨h, hh, _⟩ := key.1 rfl; rw [hg] at hh; exact absurd hh (by simp)
        simp [this]
      | some h =>
        by_cases hl : h.last ≥ now - to
        · have : b = true := key.2 ⟨h, hg, hl⟩
          have h2 : ¬ h.last < now - to := by omega
          simp [this, h2]
        · have : b = false := by
            cases b with
            | false => rfl
            | true =>
              obtain ⟨h', hh', hl'⟩ := key.1 rfl
              rw [hg] at hh'; injection hh' with hh'; subst hh'; exact absurd hl' hl
          have h2 : h.last < now - to := by omega
          simp [this, h2]
  · simp [hs]

/-! ### a stale scan result loses against the status machine -/

/-- T4. If the owner started the invocation (PENDING → RUNNING) after the pending scan listed it, the
    run's PENDING_RECOVERY request is refused: RUNNING work is never taken by the pending recovery;
    nor is anything final ever taken by either recovery. -/
theorem stale_scan_refused :
    (∀ (o : Option String) (rid : Option String), step Gen.table (some ⟨.running, o⟩) .pendingRecovery rid = .error .transition) ∧
    (∀ (c : SRec) (rid : Option String), c.status ∈ finals →
        step Gen.table (some c) .pendingRecovery rid = .error .transition ∧
        step Gen.table (some c) .runningRecovery rid = .error .transition) := by
  refine ⟨fun o rid => rfl, fun c rid hc => ⟨finals_absorbing c hc _ rid, finals_absorbing c hc _ rid⟩⟩

/-- T5. What recovery leaves behind can be completed by any runner: after `*_RECOVERY → REROUTED` the
    record is REROUTED with no owner, and a claim by any runner with a truthy id is accepted. -/
theorem recovered_can_complete (c : SRec) (hc : c.status ∈ recovery) (rid : Option String) (r2 : String) (h2 : r2 ≠ "") :
    step Gen.table (some c) .rerouted rid = .ok ⟨.rerouted, none⟩ ∧
    step Gen.table (some ⟨.rerouted, none⟩) .pending (some r2) = .ok ⟨.pending, some r2⟩ := by
  obtain ⟨s, o⟩ := c
  simp only [recovery, List.mem_cons, List.mem_nil_iff, or_false] at hc
  have ht : truthy (some r2) = true := by simp [truthy, h2]
  constructor
  · rcases hc with h | h <;> subst h <;> rfl
  · simp [step, validTransition, validOwnership, newOwner, Gen.table, ht]

/-! ### the run re-queues everything it took -/

/-- environment requests leave the invocations in `ids` alone once they are in a recovery status:
    nobody but the recovery run itself requests REROUTED for them (only one run of each recovery
    task exists at a time: `running_concurrency=TASK`) -/
def EnvSparesTaken (env : List Req) (ids : List String) : Prop :=
  ∀ q ∈ env, q.2.1 = .rerouted → q.1 ∉ ids

private theorem setStatus_other (T : Table) (o : Orch) (i j : String) (s : Status) (r : Option String) (hne : j ≠ i) :
    (o.setStatus T i s r 0).1.get j = o.get j := by
  unfold Orch.setStatus
  cases hg : o.get i with
  | none => rfl
  | some cur =>
    simp only []
    cases hs : step T (some cur.srec) s r with
    | error e => rfl
    | ok r' => simp only [Orch.get]; exact AMap.get?_set_other _ _ _ _ hne

/-- a record in a recovery status is only moved by a REROUTED request -/
private theorem recovery_stays (o : Orch) (i : String) (s : Status) (r : Option String) (j : String) (c : ORec)
    (hj : o.get j = some c) (hc : c.status ∈ recovery) (hq : s = .rerouted → i ≠ j) :
    (o.setStatus Gen.table i s r 0).1.get j = some c := by
  by_cases hij : i = j
  · subst hij
    have hs : s ≠ .rerouted := fun h => (hq h) rfl
    unfold Orch.setStatus
    simp only [hj]
    have : ∃ e, step Gen.table (some c.srec) s r = .error e := by
      obtain ⟨cs, co, ct⟩ := c
      simp only [recovery, List.mem_cons, List.mem_nil_iff, or_false] at hc
      rcases hc with h | h <;> subst h <;> cases s <;> first | exact ⟨_, rfl⟩ | exact absurd rfl hs
    obtain ⟨e, he⟩ := this
    rw [he]; exact hj
  · rw [setStatus_other _ _ _ _ _ _ (fun h => hij h.symm)]; exact hj

private theorem applyEnv_keeps (o : Orch) (env : List Req) (ids : List String) (henv : EnvSparesTaken env ids)
    (j : String) (hjm : j ∈ ids) (c : ORec) (hj : o.get j = some c) (hc : c.status ∈ recovery) :
    (applyEnv Gen.table o env).get j = some c := by
  induction env generalizing o with
  | nil => exact hj
  | cons q rest ih =>
    obtain ⟨i, s, r⟩ := q
    simp only [applyEnv]
    apply ih
    · intro q hq; exact henv q (List.mem_cons_of_mem _ hq)
    · apply recovery_stays o i s r j c hj hc
      intro hs hij
      exact henv (i, s, r) (List.mem_cons_self) hs (hij ▸ hjm)

/-- T6. Whatever the owners and other runners do in between (any number of environment requests before
    each of the run's own requests, as long as nobody else re-routes the taken invocations), the
    re-route phase never aborts and pushes exactly the invocations the run had switched to
    `*_RECOVERY`, each once, in order — none stays behind in a recovery status un-queued. -/
theorem recovery_run_requeues_all_taken (rid : Option String) (o : Orch) (q : List String)
    (plan : List (String × List Req)) (hnd : (plan.map (·.1)).Nodup)
    (hrec : ∀ p ∈ plan, ∃ c, o.get p.1 = some c ∧ c.status ∈ recovery)
    (henv : ∀ p ∈ plan, EnvSparesTaken p.2 (plan.map (·.1))) :
    (reroutePhase Gen.table rid o q plan).2.1 = q ++ plan.map (·.1) ∧
    (reroutePhase Gen.table rid o q plan).2.2 = true := by
  induction plan generalizing o q with
  | nil => simp [reroutePhase]
  | cons p rest ih =>
    obtain ⟨i, env⟩ := p
    simp only [List.map_cons, List.nodup_cons] at hnd
    obtain ⟨c, hc1, hc2⟩ := hrec (i, env) List.mem_cons_self
    have henv0 : EnvSparesTaken env (i :: rest.map (·.1)) := by
      have := henv (i, env) List.mem_cons_self; simpa using this
    have hkeep := applyEnv_keeps o env (i :: rest.map (·.1)) henv0 i List.mem_cons_self c hc1 hc2
    simp only [reroutePhase]
    -- the REROUTED request on a record in a recovery status is accepted
    have hok : ∃ nr, ((applyEnv Gen.table o env).setStatus Gen.table i .rerouted rid 0).2 = .ok nr := by
      unfold Orch.setStatus
      simp only [hkeep]
      obtain ⟨cs, co, ct⟩ := c
      simp only [recovery, List.mem_cons, List.mem_nil_iff, or_false] at hc2
      rcases hc2 with h | h <;> subst h <;> exact ⟨_, rfl⟩
    obtain ⟨nr, hnr⟩ := hok
    cases hres : (applyEnv Gen.table o env).setStatus Gen.table i .rerouted rid 0 with
    | mk o2 res =>
      rw [hres] at hnr; simp only at hnr; subst hnr
      simp only []
      have := ih o2 (q ++ [i]) hnd.2 ?_ ?_
      · simpa using this
      · -- the other taken invocations are still in their recovery status
        intro p hp
        obtain ⟨c', hc1', hc2'⟩ := hrec p (List.mem_cons_of_mem _ hp)
        refine ⟨c', ?_, hc2'⟩
        have hne : p.1 ≠ i := by
          intro h; apply hnd.1; rw [← h]; exact List.mem_map_of_mem hp
        have h1 := applyEnv_keeps o env (i :: rest.map (·.1)) henv0 p.1
          (List.mem_cons_of_mem _ (List.mem_map_of_mem hp)) c' hc1' hc2'
        have h2 := setStatus_other Gen.table (applyEnv Gen.table o env) i p.1 .rerouted rid hne
        rw [hres] at h2; simp only at h2
        rw [h2]; exact h1
      · intro p hp q' hq' hs hmem
        exact henv p (List.mem_cons_of_mem _ hp) q' hq' hs (List.mem_cons_of_mem _ hmem)

/-- T7. In the take phase the run only ever switches invocations that its scan listed, and a listed
    invocation is taken exactly when its `*_RECOVERY` request is accepted at that moment. -/
theorem take_only_scanned (target : Status) (rid : Option String) (o : Orch) (plan : List (String × List Req)) :
    ∀ i ∈ (takePhase Gen.table target rid o plan).2, i ∈ plan.map (·.1) := by
  induction plan generalizing o with
  | nil => simp [takePhase]
  | cons p rest ih =>
    obtain ⟨i, env⟩ := p
    intro j hj
    simp only [takePhase] at hj
    cases hres : (applyEnv Gen.table o env).setStatus Gen.table i target rid 0 with
    | mk o2 res =>
      rw [hres] at hj
      cases res with
      | error e => simp only at hj; exact List.mem_cons_of_mem _ (ih o2 j hj)
      | ok r =>
        simp only [List.mem_cons] at hj
        rcases hj with h | h
        · subst h; simp
        · exact List.mem_cons_of_mem _ (ih o2 j h)

/-- T8 (tie, traced from the real code on every run). A live runner refreshes its own heartbeat on EVERY check for
    the global services (`should_run_atomic_service`), also when it is already among the active runners — this is the
    only self-heartbeat of a thread runner / parent runner, so skipping it would let its stamp age past the timeout
    while it is alive. -/
theorem live_runner_heartbeats_every_check :
    Gen.Programs.atomicCheckTwiceP.filter (fun e => e.1 == "heartbeat") = [("heartbeat", "rLive"), ("heartbeat", "rLive")] := by
  decide

/-- non-vacuity: two stale PENDING invocations, the owner of the second starts it between scan and
    transition (the history that stranded the first one before the fix): the first is taken and
    re-queued, the second is left RUNNING with its owner. -/
example :
    let o0 : Orch := { recs := [("a", ⟨.pending, some "r1", 0⟩), ("b", ⟨.pending, some "r2", 0⟩)] }
    let t := takePhase Gen.table .pendingRecovery (some "rec") o0 [("a", []), ("b", [("b", .running, some "r2")])]
    t.2 = ["a"] ∧ (reroutePhase Gen.table (some "rec") t.1 [] [("a", [])]).2 = (["a"], true) ∧
    t.1.get "b" = some ⟨.running, some "r2", 0⟩ := by decide

end Pynenc.C04
