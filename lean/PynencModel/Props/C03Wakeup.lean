import PynencModel.Model.Wakeup
import PynencModel.Gen.StatusTable
import PynencModel.Gen.Programs
/-
  C03 / C04 / C11 / C19, the common core of four seeded changes: re-queueing writes the available status BEFORE it pushes
  the message.  With that order no interleaving of any number of polls by any number of runners loses the message; with the
  other order one poll at the wrong moment does.  The order is a fact about the traced programs of the real code
  (Gen/Programs.lean, regenerated on every run).
-/
namespace Pynenc.C03W
open Pynenc Pynenc.Wakeup

/-- the invariant of the code's order: an available, un-held invocation has a queued message or its push is still to come,
    and before the actor's first effect the status is not available -/
def Inv (s : S) : Prop :=
  (s.avail = true → s.held = false → (s.queued ≥ 1 ∨ s.pc = 1)) ∧ (s.pc = 0 → s.avail = false)

theorem inv_step (s s' : S) (h : Inv s) (st : Step .statusThenPush s s') : Inv s' := by
  obtain ⟨h1, h2⟩ := h
  cases st with
  | requeue hr =>
    unfold requeueStep at hr
    split at hr <;> simp at hr <;> subst hr <;> constructor <;> simp_all <;> omega
  | poll hp =>
    unfold pollStep at hp
    split at hp
    · simp at hp
    · split at hp
      · simp at hp; subst hp; constructor <;> simp_all
      · rename_i hq hc
        simp at hp; subst hp
        constructor
        · intro ha hh
          simp only [Bool.and_eq_true, Bool.not_eq_true', not_and, Bool.not_eq_false] at hc
          exact absurd hh (by simp [hc ha])
        · exact h2

/-- **No lost message, any schedule, any number of pollers**: starting from a non-available invocation with any number of
    stale copies already queued, after the re-queueing actor has done both effects (status, then push) the invocation is
    never available, un-held and in no queue. -/
theorem status_then_push_never_loses (q0 : Nat) (s : S)
    (hr : Reach .statusThenPush { avail := false, held := false, queued := q0, pc := 0 } s) : ¬ Lost s := by
  have hinv : Inv s := by
    induction hr with
    | refl => exact ⟨by simp, by simp⟩
    | step s s' _ st ih => exact inv_step s s' ih st
  rintro ⟨ha, hh, hq, hp⟩
  rcases hinv.1 ha hh with h | h <;> omega

/-- … and once both effects are done an available invocation is reachable for pickup -/
theorem status_then_push_reachable (q0 : Nat) (s : S)
    (hr : Reach .statusThenPush { avail := false, held := false, queued := q0, pc := 0 } s) (hdone : s.pc = 2)
    (ha : s.avail = true) : Reachable s := by
  by_cases hh : s.held = true
  · exact Or.inl hh
  · have hl := status_then_push_never_loses q0 s hr
    right
    by_cases hq : s.queued = 0
    · exact absurd ⟨ha, by simpa using hh, hq, hdone⟩ hl
    · omega

/-- **the other order loses it**: push · (a poll pops the message while the status is still KILLED / *_RECOVERY and drops
    it) · status.  The invocation ends available, un-owned, in no queue - invisible to pollers and to both recovery scans. -/
theorem push_then_status_loses :
    ∃ s, Reach .pushThenStatus { avail := false, held := false, queued := 0, pc := 0 } s ∧ Lost s := by
  refine ⟨{ avail := true, held := false, queued := 0, pc := 2 }, ?_, by simp [Lost]⟩
  refine .step _ _ (.step _ _ (.step _ _ .refl (.requeue _ { avail := false, held := false, queued := 1, pc := 1 } rfl))
    (.poll _ { avail := false, held := false, queued := 0, pc := 1 } rfl)) (.requeue _ _ rfl)

/-- tie to the code: in every traced operation that re-queues an invocation (worker retry, kill-and-reroute, recovery) the
    LAST two relevant effects are a transition to a status that the regenerated table marks available, then the push -/
theorem programs_write_status_before_push :
    (∀ prog ∈ [Gen.Programs.runRetryP, Gen.Programs.killRerouteP, Gen.Programs.recoverPendingP],
      ∃ st, ((prog.filter (fun e => e.1 == "transition" || e.1 == "push")).reverse.take 2).reverse = [("transition", st), ("push", "")] ∧
        st ∈ ["retry", "rerouted"]) ∧
    (Gen.table (some .retry)).available = true ∧ (Gen.table (some .rerouted)).available = true ∧
    (Gen.table (some .killed)).available = false ∧ (Gen.table (some .pendingRecovery)).available = false ∧
    (Gen.table (some .runningRecovery)).available = false := by
  refine ⟨?_, by decide, by decide, by decide, by decide, by decide⟩
  intro prog hp
  simp only [List.mem_cons, List.mem_nil_iff, or_false] at hp
  rcases hp with rfl | rfl | rfl
  · exact ⟨"retry", by decide, by simp⟩
  · exact ⟨"rerouted", by decide, by simp⟩
  · exact ⟨"rerouted", by decide, by simp⟩

/-- non-vacuity: a schedule with two polls around the push reaches a state where the invocation is held by a poller -/
example : Reach .statusThenPush { avail := false, held := false, queued := 1, pc := 0 }
    { avail := false, held := true, queued := 1, pc := 2 } :=
  .step _ _ (.step _ _ (.step _ _ .refl (.requeue _ { avail := true, held := false, queued := 1, pc := 1 } rfl))
    (.poll _ { avail := false, held := true, queued := 0, pc := 1 } rfl)) (.requeue _ _ rfl)

end Pynenc.C03W
