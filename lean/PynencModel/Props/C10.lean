import PynencModel.Model.History
import PynencModel.Props.C01
import PynencModel.Gen.Programs
/-
  C10 — the recorded history of an invocation is exactly its sequence of status changes.
-/
namespace Pynenc.C10
open Pynenc Pynenc.History

/-- H0 (tie). In every traced real program each accepted transition is followed by exactly one history
    hand-over for the same status before the next transition, and registration hands over REGISTERED. -/
def transThenHist : List (String × String) → Bool
  | [] => true
  | (k, st) :: rest =>
    if k == "transition" then
      -- the next transition-or-history effect must be the hand-over for this status
      match rest.find? (fun x => x.1 == "transition" || x.1 == "hist_enqueue") with
      | some h => h == ("hist_enqueue", st) && transThenHist rest
      | none => false
    else transThenHist rest

theorem transition_followed_by_history :
    transThenHist Gen.Programs.runOkP = true ∧ transThenHist Gen.Programs.runFailP = true ∧
    transThenHist Gen.Programs.runRetryP = true ∧ transThenHist Gen.Programs.killRerouteP = true ∧
    transThenHist Gen.Programs.recoverPendingP = true ∧ transThenHist Gen.Programs.pollClaimP = true ∧
    Gen.Programs.clientSingleP.filter (fun x => x.1 == "hist_enqueue") = [("hist_enqueue", "registered")] ∧
    Gen.Programs.clientBatchP.filter (fun x => x.1 == "hist_enqueue") = [("hist_enqueue", "registered")] := by
  decide

/-- H1. Conservation: at every moment of every execution, what is stored, plus what writer threads still
    hold, plus what acting threads have not handed over yet, is a permutation of the transitions so far. -/
theorem conservation (s : Sys) (hr : Reach {} s) : (s.stored ++ s.queue ++ s.held).Perm s.log := by
  induction hr with
  | refl => simp
  | step s s' _ st ih =>
    cases st with
    | transition e =>
      simp only []
      have : ((s.stored ++ s.queue) ++ e :: s.held).Perm (e :: ((s.stored ++ s.queue) ++ s.held)) :=
        List.perm_middle
      exact this.trans ((List.Perm.cons e ih).trans (List.perm_append_singleton e s.log).symm)
    | enqueue e he =>
      simp only []
      refine List.Perm.trans ?_ ih
      have h1 : (e :: s.held.erase e).Perm s.held := (List.perm_cons_erase he).symm
      have : (s.stored ++ e :: s.queue ++ s.held.erase e).Perm (s.stored ++ s.queue ++ e :: s.held.erase e) := by
        simp only [List.append_assoc, List.cons_append]
        exact List.Perm.append_left _ (List.perm_middle.symm)
      exact this.trans (List.Perm.append_left _ h1)
    | write e he =>
      simp only []
      refine List.Perm.trans ?_ ih
      have h1 : (e :: s.queue.erase e).Perm s.queue := (List.perm_cons_erase he).symm
      have : (e :: s.stored ++ s.queue.erase e ++ s.held).Perm (s.stored ++ (e :: s.queue.erase e) ++ s.held) := by
        simp only [List.append_assoc, List.cons_append]
        exact List.perm_middle.symm
      exact this.trans (List.Perm.append_right _ (List.Perm.append_left _ h1))

/-- H2 (`history_multiset_eq_transitions`). Once pending history writes have been flushed, the history stored
    for an invocation is, as a multiset, exactly the accepted status changes of that invocation — none missing,
    none duplicated, none recorded under another invocation, each naming the runner that made the change —
    whatever the interleaving of runners and of the background writers. -/
theorem history_multiset_eq_transitions (s : Sys) (hr : Reach {} s) (hf : Flushed s) (i : String) :
    (ofInv i s.stored).Perm (ofInv i s.log) := by
  have h := conservation s hr
  obtain ⟨h1, h2⟩ := hf
  rw [h1, h2] at h
  simp only [List.append_nil] at h
  exact h.filter _

/-- H3 (`history_sorted_is_the_change_sequence`). If the changes of one invocation happened at strictly increasing
    times (the atomic transition stamps the record inside its critical section), then ANY arrangement of its
    flushed history that is ordered by the time of the change is exactly the sequence of its status changes in the
    order they happened — which by C01 is a path of the documented graph from REGISTERED to the current status. -/
theorem history_sorted_is_the_change_sequence (s : Sys) (hr : Reach {} s) (hf : Flushed s) (i : String)
    (hmono : (ofInv i s.log).Pairwise (fun a b => a.time < b.time))
    (l : List Entry) (hl : l.Perm (ofInv i s.stored)) (hsorted : l.Pairwise (fun a b => a.time < b.time)) :
    l = ofInv i s.log := by
  have hp : l.Perm (ofInv i s.log) := hl.trans (history_multiset_eq_transitions s hr hf i)
  exact List.Perm.eq_of_pairwise (le := fun a b => a.time < b.time)
    (fun a b _ _ h1 h2 => absurd h1 (by omega)) hsorted hmono hp

/-- H4. Nothing is ever stored that was not an accepted status change (also before flushing), and it is stored
    under the invocation it belongs to. -/
theorem stored_subset_log (s : Sys) (hr : Reach {} s) (e : Entry) (he : e ∈ s.stored) : e ∈ s.log := by
  have h := conservation s hr
  exact h.subset (by simp [he])

/-- non-vacuity: two transitions of one invocation by two runners, writers running in the opposite order -/
example : ∃ s, Reach {} s ∧ Flushed s ∧
    s.stored = [⟨"i", .registered, "c", 1⟩, ⟨"i", .pending, "r", 2⟩] ∧ s.log = [⟨"i", .registered, "c", 1⟩, ⟨"i", .pending, "r", 2⟩] := by
  let e1 : Entry := ⟨"i", .registered, "c", 1⟩
  let e2 : Entry := ⟨"i", .pending, "r", 2⟩
  refine ⟨{ log := [e1, e2], held := [], queue := [], stored := [e1, e2] }, ?_, ⟨rfl, rfl⟩, rfl, rfl⟩
  have s1 : Reach {} { log := [e1], held := [e1] } := .step _ _ .refl (.transition {} e1)
  have s2 : Reach {} { log := [e1, e2], held := [e2, e1] } := .step _ _ s1 (.transition _ e2)
  have s3 : Reach {} { log := [e1, e2], held := [e1], queue := [e2] } := by
    have := Reach.step _ _ s2 (Step.enqueue _ e2 (by simp)); simpa using this
  have s4 : Reach {} { log := [e1, e2], held := [], queue := [e1, e2] } := by
    have := Reach.step _ _ s3 (Step.enqueue _ e1 (by simp)); simpa using this
  have s5 : Reach {} { log := [e1, e2], held := [], queue := [e1], stored := [e2] } := by
    have := Reach.step _ _ s4 (Step.write _ e2 (by simp)); simpa [e1, e2] using this
  have s6 := Reach.step _ _ s5 (Step.write _ e1 (by simp))
  simpa using s6

end Pynenc.C10
