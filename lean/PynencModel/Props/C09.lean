import PynencModel.Proofs.Blocking
import PynencModel.Proofs.ThreadRunner
import PynencModel.Model.TreeProg
import PynencModel.Gen.StatusTable
/-
  C09 — waiting on sub-tasks is tracked exactly and can never deadlock a runner.

  Part A (this section): the wait-graph.  `Model/Blocking.lean` follows `MemBlockingControl` and
  `SQLiteBlockingControl` as they are coded now; the specification `Ref` records which wait
  declarations are still standing.  All theorems quantify over every history of the two public
  operations (`waiting_for_results`, `release_waiters`), of any length, over any id type.
-/
namespace Pynenc.C09
open Pynenc Pynenc.Blocking

variable {α : Type} [DecidableEq α]

/-! ## A. wait-graph -/

/-- A1. After ANY history of `waiting_for_results` / `release_waiters` the incrementally maintained
    `_ready` set of `MemBlockingControl` is exactly its definition: the ids that are a key of
    `waited_by` and not a key of `waiting_for` — and it has no duplicates. -/
theorem ready_eq_definition (h : List (Op α)) (y : α) :
    (y ∈ (memRun h).ready ↔
      ((memRun h).waitedBy.has y = true ∧ (memRun h).waitingFor.has y = false)) ∧
    (memRun h).ready.Nodup :=
  ⟨(memOK_run h).ready_def y, (memOK_run h).ready_nodup⟩

/-- A1'. The auxiliary invariants behind A1: no empty set is ever stored in `waiting_for` or
    `waited_by`, and every entry `x ∈ waiting_for[w]` has its reverse entry `w ∈ waited_by[x]`. -/
theorem wait_graph_invariants (h : List (Op α)) :
    (∀ w, (memRun h).waitingFor.has w = true → look (memRun h).waitingFor w ≠ []) ∧
    (∀ x, (memRun h).waitedBy.has x = true → look (memRun h).waitedBy x ≠ []) ∧
    (∀ w x, x ∈ look (memRun h).waitingFor w → w ∈ look (memRun h).waitedBy x) :=
  ⟨(memOK_run h).wf_nonempty, (memOK_run h).wb_nonempty, (memOK_run h).cross⟩

/-- The guard in `BaseOrchestrator.waiting_for_results` (empty list → return) matters: the raw
    `MemBlockingControl.waiting_for_results(w, [])` discards `w` from `_ready` although `w` is
    still awaited and not waiting, so A1 would fail for it. -/
theorem raw_empty_wait_breaks_ready :
    let s := memWaitRaw (memRun [Op.wait 1 [0]]) (0 : Nat) []
    s.waitedBy.has 0 = true ∧ s.waitingFor.has 0 = false ∧ 0 ∉ s.ready := by decide

/-- A2 (what both stores record). For every history: `w ∈ waited_by[x]` ⇔ the row `(w, x)` exists
    ⇔ `w` has declared that it waits on `x` and `x` has not been released since; and for a waiter
    that has never been released itself, `x ∈ waiting_for[w]` says the same. -/
theorem stores_record_standing_waits (h : List (Op α)) (w x : α) :
    (w ∈ look (memRun h).waitedBy x ↔ refRun h w x = true) ∧
    ((w, x) ∈ sqlRun h ↔ refRun h w x = true) ∧
    (w ∉ released h → (x ∈ look (memRun h).waitingFor w ↔ refRun h w x = true)) := by
  obtain ⟨rel, hr, hs⟩ := sim_run h
  refine ⟨hs.wb_ref w x, hs.sql_ref w x, ?_⟩
  intro hw
  exact hs.wf_ref w x (fun e => hw ((hr w).1 e))

/-- A3 (`release_waiters` clears). Right after `release_waiters(x)` — which `set_invocation_status`
    calls on every final status — nothing is recorded as waiting on `x`: not in any `waiting_for`
    set, not as a key of `waited_by`, not in `_ready`, not as a `waited_id` row, and not in the
    specification. -/
theorem release_clears (h : List (Op α)) (x : α) :
    (∀ w, x ∉ look (memRun (h ++ [Op.release x])).waitingFor w) ∧
    (memRun (h ++ [Op.release x])).waitedBy.has x = false ∧
    x ∉ (memRun (h ++ [Op.release x])).ready ∧
    (∀ w, (w, x) ∉ sqlRun (h ++ [Op.release x])) ∧
    (∀ w, refRun (h ++ [Op.release x]) w x = false) := by
  have hmem : memRun (h ++ [Op.release x]) = memRelease (memRun h) x := by
    simp [memRun, List.foldl_append, memStep]
  have hsql : sqlRun (h ++ [Op.release x]) = sqlRelease (sqlRun h) x := by
    simp [sqlRun, List.foldl_append, sqlStep]
  have href : refRun (h ++ [Op.release x]) = refStep (refRun h) (Op.release x) := by
    simp [refRun, List.foldl_append]
  have hok := memOK_run h
  refine ⟨?_, ?_, ?_, ?_, ?_⟩
  · intro w hx
    rw [hmem] at hx
    unfold memRelease at hx
    simp only at hx
    by_cases hw : w = x
    · subst hw; rw [look_erase_self] at hx; simp at hx
    · rw [look_erase_other _ _ _ hw] at hx
      exact releaseLoop_clears x (memRun h) hok w hx
  · rw [hmem]; unfold memRelease; simp [AMap.has_erase]
  · rw [hmem]; unfold memRelease; simp [mem_sdel]
  · intro w; rw [hsql]; simp [sqlRelease]
  · intro w; rw [href]; simp [refStep]

omit [DecidableEq α] in
private theorem ref_releases_keep_false [DecidableEq α] (l : List α) (g : Ref α) (a b : α) (hg : g a b = false) :
    (l.map Op.release).foldl refStep g a b = false := by
  induction l generalizing g with
  | nil => exact hg
  | cons y ys ih =>
    simp only [List.map_cons, List.foldl_cons]
    exact ih _ (by simp [refStep, hg])

private theorem ref_releases_clear (l : List α) (g : Ref α) (a x : α) (hx : x ∈ l) :
    (l.map Op.release).foldl refStep g a x = false := by
  induction l generalizing g with
  | nil => cases hx
  | cons y ys ih =>
    simp only [List.map_cons, List.foldl_cons]
    by_cases hy : x ∈ ys
    · exact ih _ hy
    · have : x = y := by
        cases hx with
        | head => rfl
        | tail _ h => exact absurd h hy
      subst this
      exact ref_releases_keep_false ys _ a x (by simp [refStep])

/-- A3' (`BaseOrchestrator.waiting_for_results` = record the declarations, then `release_waiters` for
    every awaited id `filter_final` returns).  Whatever happened before, whoever announces and whatever
    else is announced in the same call: an awaited id that had ALREADY finished when the announcement
    was recorded (`x ∈ fin`) has nothing recorded as waiting on it afterwards — not in the
    specification, not as a row, not in `waited_by`.  This is the window between the reader's status
    check in `DistributedInvocation.result` and its announcement: the sub-task's own release ran
    before the edge existed. -/
theorem announce_on_finished_records_nothing (h : List (Op α)) (w : α) (ids fin : List α) (x a : α)
    (hx : x ∈ fin) :
    let h' := h ++ Op.wait w ids :: fin.map Op.release
    refRun h' a x = false ∧ (a, x) ∉ sqlRun h' ∧ a ∉ look (memRun h').waitedBy x := by
  intro h'
  have href : refRun h' a x = false := by
    show (h ++ Op.wait w ids :: fin.map Op.release).foldl refStep _ a x = false
    rw [List.foldl_append, List.foldl_cons]
    exact ref_releases_clear fin _ a x hx
  obtain ⟨h1, h2, _⟩ := stores_record_standing_waits h' a x
  refine ⟨href, ?_, ?_⟩
  · intro hm; rw [h2.1 hm] at href; cases href
  · intro hm; rw [h1.1 hm] at href; cases href

/-- …and the announcement alone (the code before the repair) left the declaration standing on the
    finished invocation, in both stores. -/
theorem announce_alone_left_an_edge_on_finished :
    let h : List (Op Nat) := [Op.release 1, Op.wait 0 [1]]
    refRun h 0 1 = true ∧ ((0, 1) ∈ sqlRun h) ∧ 0 ∈ look (memRun h).waitedBy 1 := by decide

private theorem memAll_spec (h : List (Op α)) (avail : α → Bool)
    (hprem : ∀ x ∈ released h, avail x = false) :
    (memBlockingAll (memRun h) avail).Nodup ∧
    ∀ x, x ∈ memBlockingAll (memRun h) avail ↔ SpecBlocking (refRun h) avail x := by
  obtain ⟨rel, hr, hs⟩ := sim_run h
  have hok := memOK_run h
  refine ⟨?_, ?_⟩
  · exact hok.ready_nodup.sublist List.filter_sublist
  · intro x
    unfold memBlockingAll SpecBlocking
    rw [List.mem_filter, hok.ready_def x]
    constructor
    · rintro ⟨⟨h1, h2⟩, h3⟩
      have hx : x ∉ rel := by
        intro e
        have := hprem x ((hr x).1 e)
        rw [this] at h3; exact absurd h3 (by simp)
      refine ⟨?_, ?_, h3⟩
      · obtain ⟨w, hw⟩ := (ne_nil_iff_exists_mem _).1 (hok.wb_nonempty x h1)
        exact ⟨w, (hs.wb_ref w x).1 hw⟩
      · intro z
        cases hg : refRun h x z with
        | false => rfl
        | true =>
          have hz : z ∈ look (memRun h).waitingFor x := (hs.wf_ref x z hx).2 hg
          have := has_of_look_ne_nil _ _ ((ne_nil_iff_exists_mem _).2 ⟨z, hz⟩)
          rw [this] at h2; exact absurd h2 (by simp)
    · rintro ⟨⟨w, hw⟩, h2, h3⟩
      have hx : x ∉ rel := by
        intro e
        have := hprem x ((hr x).1 e)
        rw [this] at h3; exact absurd h3 (by simp)
      refine ⟨⟨?_, ?_⟩, h3⟩
      · exact has_of_look_ne_nil _ _ ((ne_nil_iff_exists_mem _).2 ⟨w, (hs.wb_ref w x).2 hw⟩)
      · cases hh : (memRun h).waitingFor.has x with
        | false => rfl
        | true =>
          obtain ⟨z, hz⟩ := (ne_nil_iff_exists_mem _).1 (hok.wf_nonempty x hh)
          have := (hs.wf_ref x z hx).1 hz
          rw [h2 z] at this; exact absurd this (by simp)

/-- A4 (`get_blocking_invocations`, in-memory). Premise: `release_waiters` has only been applied to
    ids that are not runnable any more (the lifecycle calls it on final statuses only, and finals
    are absorbing — C01).  Then the reported list is a prefix, of length `min(limit, n)`, of a
    duplicate-free enumeration of EXACTLY the ids the property names: somebody declared it waits
    on them and they have not finished, they wait on nothing, and they are runnable.  Hence: only
    such ids, no duplicates, never more than `limit` (none for `limit ≤ 0`), all of them when
    `limit ≥ n` (spelled out in `prefix_facts`). -/
theorem blocking_spec (h : List (Op α)) (avail : α → Bool) (limit : Int)
    (hprem : ∀ x ∈ released h, avail x = false) :
    ∃ all : List α, all.Nodup ∧ (∀ x, x ∈ all ↔ SpecBlocking (refRun h) avail x) ∧
      memBlocking (memRun h) limit avail = all.take limit.toNat :=
  ⟨memBlockingAll (memRun h) avail, (memAll_spec h avail hprem).1, (memAll_spec h avail hprem).2,
    memBlocking_eq_take _ _ _⟩

private theorem sqlAll_spec (h : List (Op α)) (avail : α → Bool) :
    (sqlBlockingAll (sqlRun h) avail).Nodup ∧
    ∀ x, x ∈ sqlBlockingAll (sqlRun h) avail ↔ SpecBlocking (refRun h) avail x := by
  obtain ⟨rel, _, hs⟩ := sim_run h
  refine ⟨nodup_dedup _, ?_⟩
  intro x
  unfold sqlBlockingAll SpecBlocking
  rw [mem_dedup, List.mem_filter]
  simp only [List.mem_map, Prod.exists, exists_eq_right, Bool.and_eq_true, Bool.not_eq_true',
    List.contains_eq_mem, decide_eq_false_iff_not, exists_and_right, not_exists]
  constructor
  · rintro ⟨⟨w, hw⟩, h2, h3⟩
    refine ⟨⟨w, (hs.sql_ref w x).1 hw⟩, ?_, h3⟩
    intro z
    cases hg : refRun h x z with
    | false => rfl
    | true => exact absurd ((hs.sql_ref x z).2 hg) (h2 z)
  · rintro ⟨⟨w, hw⟩, h2, h3⟩
    refine ⟨⟨w, (hs.sql_ref w x).2 hw⟩, ?_, h3⟩
    intro z hz
    have := (hs.sql_ref x z).1 hz
    rw [h2 z] at this; exact absurd this (by simp)

/-- A4 for SQLite, with no premise at all: `SELECT DISTINCT waited_id … NOT IN (waiters) AND status
    IN (…) LIMIT max(limit,0)` is a prefix of a duplicate-free enumeration of exactly the
    specified set. -/
theorem blocking_spec_sql (h : List (Op α)) (avail : α → Bool) (limit : Int) :
    ∃ all : List α, all.Nodup ∧ (∀ x, x ∈ all ↔ SpecBlocking (refRun h) avail x) ∧
      sqlBlocking (sqlRun h) limit avail = all.take limit.toNat :=
  ⟨sqlBlockingAll (sqlRun h) avail, (sqlAll_spec h avail).1, (sqlAll_spec h avail).2, rfl⟩

omit [DecidableEq α] in
/-- consequences of the prefix form, spelled out once (used for both backends) -/
theorem prefix_facts (all out : List α) (limit : Int) (hnd : all.Nodup)
    (hout : out = all.take limit.toNat) :
    (∀ x ∈ out, x ∈ all) ∧ out.Nodup ∧ (out.length : Int) ≤ max limit 0 ∧
    out.length = min limit.toNat all.length ∧
    ((all.length : Int) ≤ limit → ∀ x, x ∈ all → x ∈ out) := by
  subst hout
  refine ⟨fun x hx => List.mem_of_mem_take hx, hnd.sublist (List.take_sublist _ _), ?_, ?_, ?_⟩
  · rw [List.length_take]; omega
  · rw [List.length_take]
  · intro hle x hx
    rw [List.take_of_length_le (by omega)]; exact hx

/-- A5. Under the same premise as A4 the two backends report the same SET of blocking invocations
    for an unbounded limit, and the same NUMBER of them for every limit. -/
theorem mem_blocking_eq_sql_blocking (h : List (Op α)) (avail : α → Bool) (limit : Int)
    (hprem : ∀ x ∈ released h, avail x = false) :
    (∀ x, x ∈ memBlockingAll (memRun h) avail ↔ x ∈ sqlBlockingAll (sqlRun h) avail) ∧
    (memBlocking (memRun h) limit avail).length = (sqlBlocking (sqlRun h) limit avail).length := by
  obtain ⟨n1, m1⟩ := memAll_spec h avail hprem
  obtain ⟨n2, m2⟩ := sqlAll_spec h avail
  have hiff : ∀ x, x ∈ memBlockingAll (memRun h) avail ↔ x ∈ sqlBlockingAll (sqlRun h) avail :=
    fun x => (m1 x).trans (m2 x).symm
  refine ⟨hiff, ?_⟩
  have hperm := (List.perm_ext_iff_of_nodup n1 n2).2 hiff
  rw [memBlocking_eq_take]
  unfold sqlBlocking
  rw [List.length_take, List.length_take, hperm.length_eq]

/-- A5 is false without the premise (raw public API, `release_waiters` on an id that stays
    runnable): wait(0,[2]) · wait(1,[0]) · release(0) · wait(3,[0]).  SQLite keeps 0's own
    outgoing edge (0 → 2), the in-memory control forgot it: memory reports 0, SQLite does not.
    The lifecycle never does this (release only follows a final status), so it is a backend
    divergence of the raw API (C16), not a wrong blocking report. -/
theorem mem_sql_diverge_without_premise :
    let h : List (Op Nat) := [.wait 0 [2], .wait 1 [0], .release 0, .wait 3 [0]]
    memBlockingAll (memRun h) (fun _ => true) = [2, 0] ∧
    sqlBlockingAll (sqlRun h) (fun _ => true) = [2] := by decide

/-- non-vacuity of the premise of A4/A5: a history with a release, a status assignment that
    satisfies the premise, and a non-empty answer on both backends -/
example :
    let h : List (Op Nat) := [.wait 0 [1, 2], .wait 1 [3], .release 3, .wait 4 [0]]
    let avail : Nat → Bool := fun x => x != 3
    (∀ x ∈ released h, avail x = false) ∧
    memBlocking (memRun h) 5 avail = [2, 1] ∧ sqlBlocking (sqlRun h) 5 avail = [1, 2] ∧
    memBlocking (memRun h) 1 avail = [2] ∧ memBlocking (memRun h) 0 avail = [] ∧
    memBlocking (memRun h) (-1) avail = [] ∧ sqlBlocking (sqlRun h) (-1) avail = [] := by decide

/-- The premise of A4/A5 is what the lifecycle provides: `release_waiters` runs on final statuses
    only, and (regenerated status table) a final status is never available for run. -/
theorem final_not_available :
    ∀ s ∈ Status.all, (Gen.table (some s)).isFinal = true → (Gen.table (some s)).available = false := by
  decide

/-! ## B. no deadlock on a thread runner -/
section partB
open Pynenc.TR

/-- a waiting thread that keeps polling because one of the awaited children is not final -/
def Stuck (P : Prog) (s : Sys) (i : Nat) : Prop :=
  ∃ pc cs c, s.node i = .spin pc ∧ (P.body i)[pc]? = some (Act.wait cs) ∧ c ∈ cs ∧ s.node c ≠ .final

private theorem live_step_or_stuck (P : Prog) (cfg : Cfg) (s : Sys) (i : Nat) (hg : Good P s)
    (hl : (s.node i).live = true) : (∃ s', Step P cfg s s') ∨ Stuck P s i := by
  cases hn : s.node i with
  | absent => rw [hn] at hl; simp [NState.live] at hl
  | registered => rw [hn] at hl; simp [NState.live] at hl
  | final => rw [hn] at hl; simp [NState.live] at hl
  | run pc =>
    left
    cases ha : (P.body i)[pc]? with
    | none => exact ⟨_, Step.finish s i pc hn ha⟩
    | some a =>
      cases a with
      | launch cs => exact ⟨_, Step.launch s i pc cs hn ha⟩
      | wait cs => exact ⟨_, Step.declare s i pc cs cs hn ha (fun _ h => h) (fun _ h _ => h)⟩
  | declared pc => exact Or.inl ⟨_, Step.toSpin s i pc hn⟩
  | spin pc =>
    obtain ⟨cs, ha, _⟩ := hg.decl_edges i pc (Or.inr hn)
    by_cases hf : allFinal s cs = true
    · exact Or.inl ⟨_, Step.spinPass s i pc cs hn ha hf⟩
    · right
      have hex : ∃ c, c ∈ cs ∧ s.node c ≠ .final := by
        apply Classical.byContradiction
        intro hno
        apply hf
        simp only [allFinal, List.all_eq_true, beq_iff_eq]
        intro c hc
        by_cases h : s.node c = .final
        · exact h
        · exact absurd ⟨c, hc, h⟩ hno
      obtain ⟨c, hc, hne⟩ := hex
      exact ⟨pc, cs, c, hn, ha, hc, hne⟩

private theorem chain (P : Prog) (hwf : WF P) (s : Sys) (hg : Good P s)
    (hall : ∀ i, (s.node i).live = true → Stuck P s i) :
    ∀ n i, P.size - i ≤ n → Stuck P s i → ∃ x, blocking s x = true := by
  intro n
  induction n with
  | zero =>
    intro i hi ⟨pc, cs, c, hn, ha, hc, hne⟩
    obtain ⟨pc', cs', hlt, ha', hc'⟩ := hwf.waitsOwn i pc cs ha c hc
    have h1 := hwf.down i pc' cs' ha' c hc'
    have h2 := hwf.bounded i pc' cs' ha' c hc'
    omega
  | succ n ih =>
    intro i hi ⟨pc, cs, c, hn, ha, hc, hne⟩
    obtain ⟨pc', cs', hlt, ha', hc'⟩ := hwf.waitsOwn i pc cs ha c hc
    have h1 := hwf.down i pc' cs' ha' c hc'
    have h2 := hwf.bounded i pc' cs' ha' c hc'
    have hcre : s.node c ≠ .absent := by
      apply (hg.launched i pc' cs' c ha' hc').2
      simp [hn, passed, hlt]
    obtain ⟨cs2, ha2, hedge⟩ := hg.decl_edges i pc (Or.inr hn)
    have hcs : cs2 = cs := by rw [ha] at ha2; simp at ha2; exact ha2.symm
    subst hcs
    have he : (i, c) ∈ s.edges := hedge c hc hne
    cases hcn : s.node c with
    | absent => exact absurd hcn hcre
    | final => exact absurd hcn hne
    | registered =>
      refine ⟨c, ?_⟩
      simp only [blocking, Bool.and_eq_true, beq_iff_eq, Bool.not_eq_true']
      refine ⟨⟨hcn, ?_⟩, ?_⟩
      · exact List.any_eq_true.2 ⟨(i, c), he, by simp⟩
      · cases hany : s.edges.any (fun e => e.1 == c) with
        | false => rfl
        | true =>
          obtain ⟨e, hmem, heq⟩ := List.any_eq_true.1 hany
          have : e = (c, e.2) := by
            have : e.1 = c := by simpa using heq
            rw [← this]
          rw [this] at hmem
          exact absurd hmem (hg.noout c e.2 (Or.inr hcn))
    | run p => exact ih c (by omega) (hall c (by simp [hcn, NState.live]))
    | declared p => exact ih c (by omega) (hall c (by simp [hcn, NState.live]))
    | spin p => exact ih c (by omega) (hall c (by simp [hcn, NState.live]))

/-- B1 (`no_deadlock_single_slot`, safety core). A thread runner with at least one slot executing
    any finite tree of nested calls (any depth, any fan-out; single results, groups, mixed) is
    never stuck: in EVERY reachable state in which the root invocation is not final, some step
    that changes the state is enabled — a thread can go on, or the next poll claims an
    invocation (the child a waiting thread is polling is registered, awaited and not waiting, so
    it is reported as blocking and claimed first; the waiting threads do not occupy the slot). -/
theorem progress_enabled (P : Prog) (hwf : WF P) (cfg : Cfg) (hslots : 1 ≤ cfg.slots)
    (hfw : cfg.freeWaiting = true) (s : Sys) (hr : Reach P cfg s) (hroot : s.node P.root ≠ .final) :
    ∃ s', Step P cfg s s' := by
  have hg := good_reach P hwf cfg s hr
  by_cases hreg : s.node P.root = .registered
  · have hs := hg.root_reg hreg
    subst hs
    refine ⟨_, Step.poll (init P) [] (by simp) (by simp) (by simp) ?_ ?_⟩
    · intro _; right; intro x; simp [blocking, init]
    · have hav : avail cfg (init P) = cfg.slots := by simp [avail, init]
      have hq : (init P).queue = [P.root] := rfl
      have hn0 : cfg.slots - 0 ≠ 0 := by omega
      simp only [doPoll, List.foldl_nil, List.length_nil, hav, hq, pops, hn0, if_false, hreg, if_true]
      simp [claim, init]
  · have hlive : (s.node P.root).live = true := by
      cases hn : s.node P.root with
      | absent => exact absurd hn hg.root_ne
      | registered => exact absurd hn hreg
      | final => exact absurd hn hroot
      | run p => rfl
      | declared p => rfl
      | spin p => rfl
    by_cases H : ∃ i, (s.node i).live = true ∧ ¬ Stuck P s i
    · obtain ⟨i, hl, hns⟩ := H
      rcases live_step_or_stuck P cfg s i hg hl with h | h
      · exact h
      · exact absurd h hns
    · have hall : ∀ i, (s.node i).live = true → Stuck P s i := by
        intro i hl
        by_cases hst : Stuck P s i
        · exact hst
        · exact absurd ⟨i, hl, hst⟩ H
      obtain ⟨x, hx⟩ := chain P hwf s hg hall (P.size - P.root) P.root (Nat.le_refl _) (hall _ hlive)
      have havail : avail cfg s = cfg.slots := by
        have : (s.threads.filter fun i => !(cfg.freeWaiting && s.waiting.contains i)) = [] := by
          rw [List.filter_eq_nil_iff]
          intro i hi
          obtain ⟨pc, _, _, hn, _⟩ := hall i (hg.thr_live i hi)
          have := hg.spin_wait i pc hn
          simp [hfw, this]
        unfold avail
        rw [this]; simp
      refine ⟨_, Step.poll s [x] (by simpa using hx) (by simp) (by simp [havail]; omega) (by simp) ?_⟩
      intro heq
      have h1 := pops_threads_len (avail cfg s - [x].length) (List.foldl claim s [x]).queue (List.foldl claim s [x])
      have h2 : (List.foldl claim s [x]).threads.length = s.threads.length + 1 := by simp [claim]
      unfold doPoll at heq
      simp only at heq
      rw [heq] at h1
      omega


/-- B0. The executable check the driver runs on every generated call tree implies the
    well-formedness the theorems assume: the numbered bodies form a finite tree rooted at 0. -/
theorem wfb_sound (bodies : List (List Act)) (h : wfb bodies = true) : WF (progOf bodies) := by
  have hL : ∀ (i pc : Nat) (cs : List Nat), ((progOf bodies).body i)[pc]? = some (Act.launch cs) →
      i < bodies.length ∧ pc < (bodies.getD i []).length ∧ launchAt bodies i pc = some cs := by
    intro i pc cs ha
    have ha' : (bodies.getD i [])[pc]? = some (Act.launch cs) := ha
    obtain ⟨h1, h2⟩ := getD_some_lt bodies i pc _ ha'
    exact ⟨h1, h2, by unfold launchAt; rw [ha']⟩
  have hA : ∀ (i pc : Nat) (cs : List Nat), ((progOf bodies).body i)[pc]? = some (Act.launch cs) →
      (∀ c ∈ cs, i < c ∧ c < bodies.length) ∧
      (∀ (i' pc' : Nat) (cs' : List Nat), ((progOf bodies).body i')[pc']? = some (Act.launch cs') →
        ∀ c, c ∈ cs → c ∈ cs' → i = i' ∧ pc = pc') := by
    intro i pc cs ha
    obtain ⟨h1, h2, h3⟩ := hL i pc cs ha
    have := (wfb_at bodies h i pc h1 h2).1
    unfold launchOK at this
    rw [h3] at this
    simp only [Bool.and_eq_true, List.all_eq_true, List.mem_range, decide_eq_true_eq] at this
    refine ⟨this.1, ?_⟩
    intro i' pc' cs' ha' c hc hc'
    obtain ⟨g1, g2, g3⟩ := hL i' pc' cs' ha'
    have := this.2 i' g1 pc' g2
    rw [g3] at this
    simp only [List.all_eq_true, Bool.or_eq_true, Bool.not_eq_true', Bool.and_eq_true, beq_iff_eq] at this
    rcases this c hc with h4 | h4
    · simp [hc'] at h4
    · exact h4
  have hpos : 0 < bodies.length := by
    unfold wfb at h
    simp only [Bool.and_eq_true, decide_eq_true_eq] at h
    exact h.1
  refine ⟨?_, ?_, ?_, ?_, ?_, ?_⟩
  · intro i pc cs ha c hc; exact ((hA i pc cs ha).1 c hc).2
  · intro i pc cs ha c hc; exact ((hA i pc cs ha).1 c hc).1
  · intro i pc cs i' pc' cs' ha ha' c hc hc'; exact (hA i pc cs ha).2 i' pc' cs' ha' c hc hc'
  · intro i pc cs ha hroot
    have := ((hA i pc cs ha).1 _ hroot).1
    simp [progOf] at this
  · exact hpos
  · intro i pc cs ha c hc
    have ha' : (bodies.getD i [])[pc]? = some (Act.wait cs) := ha
    obtain ⟨h1, h2⟩ := getD_some_lt bodies i pc _ ha'
    have := (wfb_at bodies h i pc h1 h2).2
    have hw : waitAt bodies i pc = some cs := by unfold waitAt; rw [ha']
    unfold waitOK at this
    rw [hw] at this
    simp only [List.all_eq_true, List.any_eq_true, List.mem_range] at this
    obtain ⟨pc', hlt, hm⟩ := this c hc
    cases hla : launchAt bodies i pc' with
    | none => rw [hla] at hm; simp at hm
    | some cs' =>
      rw [hla] at hm
      refine ⟨pc', cs', hlt, ?_, by simpa using hm⟩
      unfold launchAt at hla
      show (bodies.getD i [])[pc']? = some (Act.launch cs')
      split at hla
      · rename_i cs'' heq; simp at hla; subst hla; exact heq
      · simp at hla


/-- B2 (`progress_measure_decreases`). Every step of a reachable state strictly decreases the
    total remaining work `mu` (per node: not created > registered > claimed > … > final, three
    units per action left), so a call tree admits no infinite sequence of steps. -/
theorem step_decreases (P : Prog) (hwf : WF P) (cfg : Cfg) (s s' : Sys) (hr : Reach P cfg s)
    (h : Step P cfg s s') : mu P s' < mu P s :=
  mu_decreases P hwf cfg s s' hr h

/-- `n` consecutive steps -/
inductive Run (P : Prog) (cfg : Cfg) : Sys → Nat → Sys → Prop where
  | nil (s : Sys) : Run P cfg s 0 s
  | cons (s s' s'' : Sys) (n : Nat) : Step P cfg s s' → Run P cfg s' n s'' → Run P cfg s (n + 1) s''

private theorem run_bound (P : Prog) (hwf : WF P) (cfg : Cfg) (s s' : Sys) (n : Nat)
    (hr : Reach P cfg s) (h : Run P cfg s n s') : Reach P cfg s' ∧ n + mu P s' ≤ mu P s := by
  induction h with
  | nil s => exact ⟨hr, by omega⟩
  | cons s s1 s2 n hs _ ih =>
    have h1 := Reach.step s s1 hr hs
    have h2 := mu_decreases P hwf cfg s s1 hr hs
    obtain ⟨h3, h4⟩ := ih h1
    exact ⟨h3, by omega⟩

/-- B3 (`tree_completes`). A thread runner with at least one slot completes every finite tree of
    nested calls: any execution from the initial state takes at most `mu (init)` steps, and the
    only states in which no step is possible are those whose root is final.  So whenever the
    scheduler is weakly fair — it does not idle for ever while a step is enabled — the root
    invocation reaches its final status, for every depth and fan-out, with a single slot too. -/
theorem tree_completes (P : Prog) (hwf : WF P) (cfg : Cfg) (hslots : 1 ≤ cfg.slots)
    (hfw : cfg.freeWaiting = true) (n : Nat) (s : Sys) (h : Run P cfg (init P) n s) :
    n ≤ mu P (init P) ∧ ((∀ s', ¬ Step P cfg s s') → s.node P.root = .final) := by
  obtain ⟨hr, hb⟩ := run_bound P hwf cfg (init P) s n Reach.init h
  refine ⟨by omega, ?_⟩
  intro hno
  by_cases hf : s.node P.root = .final
  · exact hf
  · obtain ⟨s', hs'⟩ := progress_enabled P hwf cfg hslots hfw s hr hf
    exact absurd hs' (hno s')

/-! ### the mutant in the model, and non-vacuity -/

def P2 : Prog := progOf [[Act.launch [1], Act.wait [1]], []]
def cfgBusy : Cfg := { slots := 1, freeWaiting := false }
def d1 : Sys := doPoll cfgBusy (init P2) []
def d2 : Sys := doLaunch d1 0 0 [1]
def d3 : Sys := doDeclare d2 0 1 [1]
def d4 : Sys := { d3 with node := upd d3.node 0 (.spin 1),
                          waiting := if d3.waiting.contains 0 then d3.waiting else d3.waiting ++ [0] }

private theorem d1_node (j : Nat) : d1.node j = if j = 0 then .run 0 else .absent := by
  simp [d1, doPoll, init, P2, progOf, pops, avail, cfgBusy, claim, upd]
  by_cases h : j = 0 <;> simp [h]

private theorem d4_node (j : Nat) : d4.node j = if j = 0 then .spin 1 else if j = 1 then .registered else .absent := by
  simp only [d4, d3, d2, doDeclare, doLaunch, upd, updMany, d1_node]
  by_cases h0 : j = 0
  · simp [h0]
  · by_cases h1 : j = 1 <;> simp [h0, h1]

private theorem d4_threads : d4.threads = [0] := by
  simp [d4, d3, d2, d1, doDeclare, doLaunch, doPoll, init, P2, progOf, pops, avail, cfgBusy, claim, upd]
private theorem d4_waiting : d4.waiting = [0] := by
  simp [d4, d3, d2, d1, doDeclare, doLaunch, doPoll, init, P2, progOf, pops, avail, cfgBusy, claim, upd]

private theorem reach_d4 : Reach P2 cfgBusy d4 := by
  have r0 : Reach P2 cfgBusy (init P2) := Reach.init
  have r1 : Reach P2 cfgBusy d1 := by
    refine Reach.step _ _ r0 (Step.poll (init P2) [] (by simp) (by simp) (by simp) ?_ ?_)
    · intro _; right; intro x; simp [blocking, init]
    · simp [doPoll, init, P2, progOf, pops, avail, cfgBusy, claim, upd]
  have r2 : Reach P2 cfgBusy d2 :=
    Reach.step _ _ r1 (Step.launch d1 0 0 [1] (by simp [d1_node]) (by simp [P2, progOf]))
  have h2 : d2.node 0 = .run 1 := by simp [d2, doLaunch, upd, updMany]
  have r3 : Reach P2 cfgBusy d3 :=
    Reach.step _ _ r2 (Step.declare d2 0 1 [1] [1] h2 (by simp [P2, progOf]) (fun _ h => h) (fun _ h _ => h))
  have h3 : d3.node 0 = .declared 1 := by simp [d3, doDeclare, upd]
  exact Reach.step _ _ r3 (Step.toSpin d3 0 1 h3)

/-- B4 (the hand-made mutant, in the model). If waiting threads keep occupying their slot
    (`_reclaim_available_slots` without the waiting-set subtraction) a single-slot runner deadlocks
    on the smallest nested call: the parent polls its child for ever, the child is registered and
    reported as blocking, and the poll asks for 0 invocations. -/
theorem deadlock_if_waiting_counts_busy :
    ∃ s, Reach P2 cfgBusy s ∧ s.node P2.root ≠ .final ∧ ∀ s', ¬ Step P2 cfgBusy s s' := by
  refine ⟨d4, reach_d4, by simp [d4_node, P2, progOf], ?_⟩
  have hav : avail cfgBusy d4 = 0 := by simp [avail, cfgBusy, d4_threads]
  have hrun : ∀ i pc, d4.node i ≠ .run pc := by
    intro i pc; rw [d4_node]; split
    · simp
    · split <;> simp
  have hdecl : ∀ i pc, d4.node i ≠ .declared pc := by
    intro i pc; rw [d4_node]; split
    · simp
    · split <;> simp
  intro s' hstep
  generalize hd : d4 = s at hstep
  cases hstep with
  | poll bs hb hnd hlen hfirst hclaims =>
    subst hd
    rw [hav] at hlen
    have : bs = [] := List.eq_nil_of_length_eq_zero (by omega)
    subst this
    apply hclaims
    simp only [doPoll, List.foldl_nil, List.length_nil, hav]
    cases hq : d4.queue with
    | nil => simp [pops]
    | cons a t => simp [pops]
  | launch i pc cs hn ha => subst hd; exact hrun i pc hn
  | waitPass i pc cs hn ha hf => subst hd; exact hrun i pc hn
  | declare i pc cs D hn ha hD hDn => subst hd; exact hrun i pc hn
  | declPass i pc cs hn ha hf => subst hd; exact hdecl i pc hn
  | toSpin i pc hn => subst hd; exact hdecl i pc hn
  | spinPass i pc cs hn ha hf =>
    subst hd
    rw [d4_node] at hn
    by_cases h0 : i = 0
    · subst h0
      simp at hn
      subst hn
      have : cs = [1] := by simpa [P2, progOf] using ha.symm
      subst this
      simp [allFinal, d4_node] at hf
    · simp only [h0, if_false] at hn
      split at hn <;> simp at hn
  | finish i pc hn ha => subst hd; exact hrun i pc hn


/-- non-vacuity of B1–B3: a well-formed tree (checked by `wfb`), a reachable state with an
    unfinished root, and a positive measure -/
example : WF P2 ∧ Reach P2 { slots := 1 } (init P2) ∧ (init P2).node P2.root ≠ .final ∧
    mu P2 (init P2) = 15 :=
  ⟨wfb_sound _ (by decide), Reach.init, by simp [init, upd], by decide⟩

/-- a deeper well-formed tree: root → group of two → one of them calls a leaf -/
example : WF (progOf [[Act.launch [1, 2], Act.wait [1, 2]], [Act.launch [3], Act.wait [3]], [], []]) :=
  wfb_sound _ (by decide)

end partB

end Pynenc.C09
