import PynencModel.Model.Broker
/-
  C08 — the broker delivers each routed message exactly once, first in first out.

  `Spec` is the abstract FIFO list.  `mem_refines_queue` / `sql_refines_queue` show that the models of
  `MemBroker` and `SQLiteBroker` (Model/Broker.lean) return, for every operation sequence, what the
  abstract queue returns (SQLite: under a clock that never runs backwards — without that hypothesis the
  statement is false, `sql_fifo_needs_monotone_clock`).  Every other theorem is about *histories*:
  lists of `(actor, operation)` pairs, i.e. arbitrary interleavings of the atomic operations of any
  number of concurrent routers / retrievers.  What a history "routed" and "delivered" is read off the
  observable trace only (`ledger`), exactly as an external observer of the real broker would.
-/
namespace Pynenc.C08
open Pynenc.Broker

variable {α : Type}

/-! ### MemBroker refines the queue -/

private theorem mem_routeMany_q (b : Mem α) (is : List α) : (b.routeMany is).q = b.q ++ is := by
  induction is generalizing b with
  | nil => simp [Mem.routeMany]
  | cons i is ih => simp [Mem.routeMany, ih, Mem.route]

private theorem mem_step (b : Mem α) (op : Op α) :
    (Mem.step b op).1.q = (Spec.step b.q op).1 ∧ (Mem.step b op).2 = (Spec.step b.q op).2 := by
  cases op with
  | route i => simp [Mem.step, Spec.step, Mem.route]
  | routeMany is => simp [Mem.step, Spec.step, mem_routeMany_q]
  | retrieve =>
    obtain ⟨q⟩ := b
    cases q <;> simp [Mem.step, Spec.step, Mem.retrieve]
  | count => simp [Mem.step, Spec.step, Mem.count]
  | purge => simp [Mem.step, Spec.step, Mem.purge]

/-- **MemBroker is the FIFO queue.**  From any deque content, any sequence of `route_invocation`,
    `route_invocations` (the loop), `retrieve_invocation` (`popleft`), `count_invocations`, `purge`
    leaves the deque equal to the abstract queue and returns exactly what the abstract queue returns. -/
theorem mem_refines_queue (b : Mem α) (ops : List (Op α)) :
    (Mem.final b ops).q = Spec.final b.q ops ∧ Mem.outs b ops = Spec.outs b.q ops := by
  induction ops generalizing b with
  | nil => exact ⟨rfl, rfl⟩
  | cons op ops ih =>
    obtain ⟨h1, h2⟩ := mem_step b op
    obtain ⟨i1, i2⟩ := ih (Mem.step b op).1
    simp only [Mem.final, Mem.outs, Spec.final, Spec.outs]
    rw [i1, i2, h1, h2]
    exact ⟨rfl, rfl⟩

/-! ### SQLiteBroker refines the queue under a non-decreasing clock -/

/-- rows in rowid order are also in index order: ids strictly increase, `created_at` never decreases -/
def Ordered (rows : List (Row α)) : Prop :=
  rows.Pairwise (fun a b => a.id < b.id ∧ a.created ≤ b.created)

/-- Table invariant relative to the clock readings still to come (`future`): rows ordered, every id
    at most the AUTOINCREMENT high-water mark, every stored `created_at` at most every future reading. -/
structure WF (s : Sql α) (future : List Nat) : Prop where
  ordered : Ordered s.rows
  ids : ∀ r ∈ s.rows, r.id ≤ s.seq
  clock : ∀ r ∈ s.rows, ∀ t ∈ future, r.created ≤ t

/-- a freshly created (or purged) table is well-formed whatever its AUTOINCREMENT counter -/
theorem wf_empty (k : Nat) (future : List Nat) : WF ({ rows := [], seq := k } : Sql α) future :=
  ⟨List.Pairwise.nil, by simp, by simp⟩

private theorem wf_insert (s : Sql α) (t : Nat) (i : α) (fut : List Nat)
    (h : WF s (t :: fut)) (hp : (t :: fut).Pairwise (· ≤ ·)) :
    WF (s.insert t i) fut ∧ (s.insert t i).queue = s.queue ++ [i] := by
  obtain ⟨ho, hi, hc⟩ := h
  rw [List.pairwise_cons] at hp
  refine ⟨⟨?_, ?_, ?_⟩, by simp [Sql.insert, Sql.queue]⟩
  · show Ordered (s.rows ++ [_])
    unfold Ordered
    rw [List.pairwise_append]
    refine ⟨ho, by simp, ?_⟩
    intro a ha b hb
    simp only [List.mem_singleton] at hb
    subst hb
    have := hi a ha
    have := hc a ha t (by simp)
    exact ⟨by simp only; omega, by simpa using this⟩
  · intro r hr
    simp only [Sql.insert, List.mem_append, List.mem_singleton] at hr ⊢
    rcases hr with hr | hr
    · have := hi r hr; omega
    · subst hr; simp
  · intro r hr t' ht'
    simp only [Sql.insert, List.mem_append, List.mem_singleton] at hr
    rcases hr with hr | hr
    · exact hc r hr t' (by simp [ht'])
    · subst hr; exact hp.1 t' ht'

private theorem wf_insertMany (s : Sql α) (tis : List (Nat × α)) (fut : List Nat)
    (h : WF s (tis.map (·.1) ++ fut)) (hp : (tis.map (·.1) ++ fut).Pairwise (· ≤ ·)) :
    WF (s.insertMany tis) fut ∧ (s.insertMany tis).queue = s.queue ++ tis.map (·.2) := by
  induction tis generalizing s with
  | nil => simpa [Sql.insertMany] using h
  | cons ti rest ih =>
    obtain ⟨t, i⟩ := ti
    simp only [List.map_cons, List.cons_append] at h hp
    obtain ⟨h1, h2⟩ := wf_insert s t i _ h hp
    obtain ⟨h3, h4⟩ := ih (s.insert t i) h1 (List.Pairwise.of_cons hp)
    exact ⟨h3, by simp [Sql.insertMany, h4, h2]⟩

private theorem minRow_ordered (rows : List (Row α)) (h : Ordered rows) : minRow rows = rows.head? := by
  induction rows with
  | nil => rfl
  | cons r rs ih =>
    have hrs : Ordered rs := List.Pairwise.of_cons h
    unfold Ordered at h
    rw [List.pairwise_cons] at h
    simp only [minRow, ih hrs]
    cases rs with
    | nil => rfl
    | cons m rest =>
      have := h.1 m (by simp)
      have hb : m.before r = false := by
        simp only [Row.before, Bool.or_eq_false_iff, Bool.and_eq_false_iff, decide_eq_false_iff_not,
          beq_eq_false_iff_ne]
        omega
      simp [hb]

private theorem deleteId_head (r : Row α) (rs : List (Row α)) (h : Ordered (r :: rs)) :
    deleteId (r :: rs) r.id = rs := by
  unfold Ordered at h
  rw [List.pairwise_cons] at h
  simp only [deleteId, List.filter_cons, bne_self_eq_false, Bool.false_eq_true, if_false]
  rw [List.filter_eq_self]
  intro a ha
  have := h.1 a ha
  simp only [bne_iff_ne, ne_eq]
  omega

private theorem wf_tail (r : Row α) (rs : List (Row α)) (k : Nat) (fut : List Nat)
    (h : WF ({ rows := r :: rs, seq := k } : Sql α) fut) : WF ({ rows := rs, seq := k } : Sql α) fut :=
  ⟨List.Pairwise.of_cons h.ordered, fun x hx => h.ids x (by simp [hx]), fun x hx => h.clock x (by simp [hx])⟩

private theorem sql_step (s : Sql α) (op : TOp α) (fut : List Nat)
    (h : WF s (op.stamps ++ fut)) (hp : (op.stamps ++ fut).Pairwise (· ≤ ·)) :
    WF (Sql.step s op).1 fut ∧ (Sql.step s op).1.queue = (Spec.step s.queue op.erase).1 ∧
      (Sql.step s op).2 = (Spec.step s.queue op.erase).2 := by
  cases op with
  | route t i =>
    obtain ⟨h1, h2⟩ := wf_insert s t i fut h hp
    exact ⟨h1, by simpa [Sql.step, Spec.step, TOp.erase] using h2, rfl⟩
  | routeMany tis =>
    obtain ⟨h1, h2⟩ := wf_insertMany s tis fut h hp
    exact ⟨h1, by simpa [Sql.step, Spec.step, TOp.erase] using h2, rfl⟩
  | retrieve =>
    obtain ⟨rows, k⟩ := s
    simp only [TOp.stamps, List.nil_append] at h
    have hm := minRow_ordered rows h.ordered
    cases rows with
    | nil => simpa [Sql.step, Sql.retrieve, minRow, Spec.step, Sql.queue, TOp.erase] using h
    | cons r rs =>
      simp only [List.head?_cons] at hm
      have hd := deleteId_head r rs h.ordered
      refine ⟨?_, ?_, ?_⟩
      · simpa [Sql.step, Sql.retrieve, hm, hd] using wf_tail r rs k fut h
      · simp [Sql.step, Sql.retrieve, hm, hd, Spec.step, Sql.queue, TOp.erase]
      · simp [Sql.step, Sql.retrieve, hm, Spec.step, Sql.queue, TOp.erase]
  | count =>
    simp only [TOp.stamps, List.nil_append] at h
    exact ⟨h, rfl, by simp [Sql.step, Spec.step, Sql.count, Sql.queue, TOp.erase]⟩
  | purge =>
    exact ⟨wf_empty s.seq fut, rfl, rfl⟩

/-- **SQLiteBroker is the FIFO queue, provided the clock never runs backwards.**  Start from any
    well-formed table (e.g. empty, with any AUTOINCREMENT counter — `wf_empty`).  For every sequence of
    operations whose INSERT statements read non-decreasing clock values (equal readings allowed:
    `julianday('now')` has millisecond resolution), the messages in the table, read in
    `(created_at, rowid)` order, are the abstract queue, every `retrieve_invocation` /
    `count_invocations` returns what the abstract queue returns, and the table stays well-formed. -/
theorem sql_refines_queue (s : Sql α) (ops : List (TOp α))
    (hwf : WF s (ops.flatMap TOp.stamps)) (hclock : (ops.flatMap TOp.stamps).Pairwise (· ≤ ·)) :
    (Sql.final s ops).queue = Spec.final s.queue (ops.map TOp.erase) ∧
      Sql.outs s ops = Spec.outs s.queue (ops.map TOp.erase) ∧ WF (Sql.final s ops) [] := by
  induction ops generalizing s with
  | nil => exact ⟨rfl, rfl, by simpa [Sql.final] using hwf⟩
  | cons op ops ih =>
    simp only [List.flatMap_cons] at hwf hclock
    obtain ⟨h1, h2, h3⟩ := sql_step s op _ hwf hclock
    obtain ⟨i1, i2, i3⟩ := ih (Sql.step s op).1 h1 (List.pairwise_append.mp hclock).2.1
    simp only [Sql.final, Sql.outs, Spec.final, Spec.outs, List.map_cons]
    rw [i1, i2, h2, h3]
    exact ⟨rfl, rfl, i3⟩

/-- The clock hypothesis of `sql_refines_queue` is necessary: if the wall clock steps back between two
    `route_invocation` calls (here 5 then 3), `ORDER BY created_at` hands out the *later* message first. -/
theorem sql_fifo_needs_monotone_clock :
    Sql.outs ({} : Sql String) [.route 5 "a", .route 3 "b", .retrieve] = [.unit, .unit, .got (some "b")] ∧
    Spec.outs ([] : List String) [.route "a", .route "b", .retrieve] = [.unit, .unit, .got (some "a")] := by
  decide

/-- Equal clock readings are harmless: the index breaks ties by rowid (non-vacuity of the hypothesis
    of `sql_refines_queue` with ties, and a run that exercises the tie-break). -/
example : Sql.outs ({} : Sql String) [.routeMany [(7, "a"), (7, "b"), (7, "a")], .retrieve, .count, .retrieve, .retrieve, .retrieve]
    = [.unit, .got (some "a"), .n 2, .got (some "b"), .got (some "a"), .got none] := by decide
example : WF ({} : Sql String) [7, 7, 9] ∧ [7, 7, 9].Pairwise (· ≤ ·) := ⟨wf_empty 0 _, by decide⟩

/-! ### histories: any interleaving of atomic operations by any number of actors -/

/-- one completed operation as seen from outside: who called, what, and what came back -/
structure Ev (α : Type) where
  actor : Nat
  op : Op α
  out : Out α

/-- the observable trace of a history (a list of `(actor, operation)` in the order the atomic steps
    took effect) run on the abstract queue from content `q` -/
def trace (q : List α) : List (Nat × Op α) → List (Ev α)
  | [] => []
  | e :: h => ⟨e.1, e.2, (Spec.step q e.2).2⟩ :: trace (Spec.step q e.2).1 h

/-- the trace is just the history zipped with the outputs, so it is the same for every broker that
    returns the same outputs (`mem_refines_queue`, `sql_refines_queue`) -/
theorem trace_eq_zip (q : List α) (h : List (Nat × Op α)) :
    trace q h = List.zipWith (fun e o => ⟨e.1, e.2, o⟩) h (Spec.outs q (h.map (·.2))) := by
  induction h generalizing q with
  | nil => rfl
  | cons e h ih => simp [trace, Spec.outs, ih]

private theorem trace_append (q : List α) (a b : List (Nat × Op α)) :
    trace q (a ++ b) = trace q a ++ trace (Spec.final q (a.map (·.2))) b := by
  induction a generalizing q with
  | nil => rfl
  | cons e a ih => simp [trace, Spec.final, ih]

private theorem trace_length (q : List α) (h : List (Nat × Op α)) : (trace q h).length = h.length := by
  induction h generalizing q with
  | nil => rfl
  | cons e h ih => simp [trace, ih]

/-- What an observer has seen since the last purge: the messages routed (in order) and the messages
    handed out (in order, with the actor that received each). -/
structure Ledger (α : Type) where
  routed : List α := []
  delivered : List (Nat × α) := []

def Ledger.record (l : Ledger α) (e : Ev α) : Ledger α :=
  match e.op with
  | .route i => { l with routed := l.routed ++ [i] }
  | .routeMany is => { l with routed := l.routed ++ is }
  | .retrieve =>
    match e.out with
    | .got (some x) => { l with delivered := l.delivered ++ [(e.actor, x)] }
    | _ => l
  | .count => l
  | .purge => { routed := [], delivered := [] }

def ledger (l : Ledger α) (tr : List (Ev α)) : Ledger α := tr.foldl Ledger.record l

/-- messages received, in order, by everybody -/
def Ledger.got (l : Ledger α) : List α := l.delivered.map (·.2)

/-- messages received, in order, by actor `a` -/
def Ledger.gotBy (l : Ledger α) (a : Nat) : List α := (l.delivered.filter (fun p => p.1 == a)).map (·.2)

private theorem conservation_gen (q : List α) (l : Ledger α) (h : List (Nat × Op α))
    (h0 : l.routed = l.got ++ q) :
    (ledger l (trace q h)).routed = (ledger l (trace q h)).got ++ Spec.final q (h.map (·.2)) := by
  induction h generalizing q l with
  | nil => simpa [trace, ledger, Spec.final] using h0
  | cons e h ih =>
    obtain ⟨a, op⟩ := e
    simp only [trace, ledger, List.foldl_cons, List.map_cons, Spec.final]
    apply ih
    cases op with
    | route i => simp [Ledger.record, Spec.step, Ledger.got] at *; simp [h0]
    | routeMany is => simp [Ledger.record, Spec.step, Ledger.got] at *; simp [h0]
    | retrieve =>
      cases q with
      | nil => simpa [Ledger.record, Spec.step, Ledger.got] using h0
      | cons x r => simp [Ledger.record, Spec.step, Ledger.got] at *; simp [h0]
    | count => simpa [Ledger.record, Spec.step, Ledger.got] using h0
    | purge => simp [Ledger.record, Spec.step, Ledger.got]

/-- **Exactly once, in order, nothing lost** (`each_message_once` + `fifo`).  For every history —
    any interleaving of route / batch route / retrieve / count / purge steps by any number of actors,
    ids repeated at will — the messages routed since the last purge are *exactly* the messages handed
    out since then, in the same order, followed by what is still queued.  As an equation of lists this
    says at once: every routed message is either delivered or still queued (none disappears), none is
    delivered twice or invented (multiplicities agree, also for repeated ids), and delivery order is
    routing order. -/
theorem each_message_once (h : List (Nat × Op α)) :
    (ledger {} (trace [] h)).routed =
      (ledger {} (trace [] h)).got ++ Spec.final [] (h.map (·.2)) :=
  conservation_gen [] {} h rfl

/-- FIFO, stated on the delivered sequence: what has been handed out is a prefix of what was routed. -/
theorem fifo (h : List (Nat × Op α)) :
    (ledger {} (trace [] h)).got <+: (ledger {} (trace [] h)).routed :=
  ⟨_, (each_message_once h).symm⟩

private theorem trace_at (pre post : List (Nat × Op α)) (a : Nat) (op : Op α) :
    (trace [] (pre ++ (a, op) :: post))[pre.length]? =
      some ⟨a, op, (Spec.step (Spec.final [] (pre.map (·.2))) op).2⟩ := by
  rw [trace_append, List.getElem?_append_right (by simp [trace_length])]
  simp [trace_length, trace]

/-- **The reported length is routed − retrieved.**  Wherever a `count_invocations` call sits in a
    history (after any prefix `pre`, before any continuation `post`, called by any actor), it returns
    the number of messages routed minus the number handed out since the last purge. -/
theorem count_eq_routed_minus_retrieved (pre post : List (Nat × Op α)) (a : Nat) :
    (trace [] (pre ++ (a, .count) :: post))[pre.length]? =
      some ⟨a, .count, .n ((ledger {} (trace [] pre)).routed.length - (ledger {} (trace [] pre)).delivered.length)⟩ := by
  rw [trace_at]
  have h := congrArg List.length (each_message_once pre)
  simp only [List.length_append, Ledger.got, List.length_map] at h
  simp only [Spec.step]
  congr 3
  omega

/-- **First in, first out, at every retrieval.**  Wherever a `retrieve_invocation` call sits in a
    history, it returns the oldest message routed since the last purge that has not been handed out
    yet (the element of `routed` at index `#delivered`), or `None` when there is none. -/
theorem retrieve_returns_oldest_undelivered (pre post : List (Nat × Op α)) (a : Nat) :
    (trace [] (pre ++ (a, .retrieve) :: post))[pre.length]? =
      some ⟨a, .retrieve, .got ((ledger {} (trace [] pre)).routed[(ledger {} (trace [] pre)).delivered.length]?)⟩ := by
  rw [trace_at]
  have h := each_message_once pre
  rw [h]
  have hl : (ledger {} (trace [] pre)).delivered.length = (ledger {} (trace [] pre)).got.length := by
    simp [Ledger.got]
  rw [hl, List.getElem?_append_right (Nat.le_refl _)]
  cases Spec.final [] (pre.map (·.2)) <;> simp [Spec.step]

/-- **An empty queue yields nothing, and only an empty queue does.**  A `retrieve_invocation` call
    returns `None` exactly when every message routed since the last purge has already been handed out;
    in that case the queue is left as it was. -/
theorem empty_yields_none (pre post : List (Nat × Op α)) (a : Nat) :
    ((trace [] (pre ++ (a, .retrieve) :: post))[pre.length]? = some ⟨a, .retrieve, .got none⟩ ↔
      (ledger {} (trace [] pre)).routed.length = (ledger {} (trace [] pre)).delivered.length) ∧
    Spec.step ([] : List α) .retrieve = ([], .got none) := by
  refine ⟨?_, rfl⟩
  rw [retrieve_returns_oldest_undelivered]
  have h := congrArg List.length (each_message_once pre)
  simp only [List.length_append, Ledger.got, List.length_map] at h
  constructor
  · intro he
    have : (ledger {} (trace [] pre)).routed[(ledger {} (trace [] pre)).delivered.length]? = none := by
      simpa using he
    rw [List.getElem?_eq_none_iff] at this
    omega
  · intro he
    have : (ledger {} (trace [] pre)).routed[(ledger {} (trace [] pre)).delivered.length]? = none := by
      rw [List.getElem?_eq_none_iff]; omega
    rw [this]

/-! ### concurrent retrievers: nobody gets somebody else's message, nothing disappears -/

private theorem flatMap_congr' {β : Type} (l : List Nat) (f g : Nat → List β) (h : ∀ a ∈ l, f a = g a) :
    l.flatMap f = l.flatMap g := by
  induction l with
  | nil => rfl
  | cons a l ih =>
    simp only [List.flatMap_cons]
    rw [h a (by simp), ih (fun b hb => h b (by simp [hb]))]

private theorem flatMap_pick {β : Type} (actors : List Nat) (a : Nat) (x : β) (f : Nat → List β)
    (hn : actors.Nodup) (ha : a ∈ actors) :
    (actors.flatMap (fun b => if b = a then x :: f b else f b)).Perm (x :: actors.flatMap f) := by
  induction actors with
  | nil => simp at ha
  | cons b bs ih =>
    rw [List.nodup_cons] at hn
    simp only [List.flatMap_cons]
    by_cases hb : b = a
    · subst hb
      have : bs.flatMap (fun c => if c = b then x :: f c else f c) = bs.flatMap f := by
        apply flatMap_congr'
        intro c hc
        have : c ≠ b := fun e => hn.1 (e ▸ hc)
        simp [this]
      simp [this]
    · have ha' : a ∈ bs := by
        rcases List.mem_cons.mp ha with h | h
        · exact absurd h.symm hb
        · exact h
      simp only [hb, if_false]
      exact (List.Perm.append_left _ (ih hn.2 ha')).trans List.perm_middle

private theorem gotBy_partition (log : List (Nat × α)) (actors : List Nat) (hn : actors.Nodup)
    (hc : ∀ p ∈ log, p.1 ∈ actors) :
    (actors.flatMap (fun a => (log.filter (fun p => p.1 == a)).map (·.2))).Perm (log.map (·.2)) := by
  induction log with
  | nil => simp
  | cons p log ih =>
    obtain ⟨a, x⟩ := p
    have ha : a ∈ actors := hc (a, x) (by simp)
    have hc' : ∀ p ∈ log, p.1 ∈ actors := fun p hp => hc p (by simp [hp])
    have e : (fun b => (((a, x) :: log).filter (fun p => p.1 == b)).map (·.2)) =
        (fun b => if b = a then x :: (log.filter (fun p => p.1 == b)).map (·.2)
                  else (log.filter (fun p => p.1 == b)).map (·.2)) := by
      funext b
      by_cases hb : b = a
      · subst hb; simp
      · have : (a == b) = false := by simpa using fun e => hb e.symm
        simp [hb, this]
    rw [e, List.map_cons]
    exact (flatMap_pick actors a x _ hn ha).trans (List.Perm.cons _ (ih hc'))

private theorem delivered_actors (q : List α) (l : Ledger α) (h : List (Nat × Op α)) (actors : List Nat)
    (h0 : ∀ p ∈ l.delivered, p.1 ∈ actors) (hc : ∀ e ∈ h, e.1 ∈ actors) :
    ∀ p ∈ (ledger l (trace q h)).delivered, p.1 ∈ actors := by
  induction h generalizing q l with
  | nil => simpa [trace, ledger] using h0
  | cons e h ih =>
    obtain ⟨a, op⟩ := e
    simp only [trace, ledger, List.foldl_cons]
    apply ih
    · have ha : a ∈ actors := hc (a, op) (by simp)
      cases op with
      | retrieve =>
        cases q with
        | nil => simpa [Ledger.record, Spec.step] using h0
        | cons x r =>
          intro p hp
          simp only [Ledger.record, Spec.step, List.mem_append, List.mem_singleton] at hp
          rcases hp with hp | hp
          · exact h0 p hp
          · subst hp; exact ha
      | purge => simp [Ledger.record]
      | _ => simpa [Ledger.record] using h0
    · exact fun e he => hc e (by simp [he])

/-- **Concurrent retrievers partition the routed messages.**  Take any number of actors and any
    interleaving of their atomic route / retrieve / count / purge steps.  Then the messages received by
    the individual actors, put together, plus the messages still queued, are — as a multiset — exactly
    the messages routed since the last purge: no message reaches two retrievers, none vanishes.
    Moreover what each single actor received is a subsequence of the routed messages (each retriever
    sees routing order). -/
theorem concurrent_retrieve_partition (h : List (Nat × Op α)) (actors : List Nat)
    (hn : actors.Nodup) (hc : ∀ e ∈ h, e.1 ∈ actors) :
    (actors.flatMap (fun a => (ledger {} (trace [] h)).gotBy a) ++ Spec.final [] (h.map (·.2))).Perm
        (ledger {} (trace [] h)).routed ∧
    ∀ a, ((ledger {} (trace [] h)).gotBy a).Sublist (ledger {} (trace [] h)).routed := by
  have hd := delivered_actors [] {} h actors (by simp) hc
  refine ⟨?_, ?_⟩
  · rw [each_message_once h]
    exact List.Perm.append_right _ (gotBy_partition _ actors hn hd)
  · intro a
    rw [each_message_once h]
    exact ((List.filter_sublist.map _)).trans (List.sublist_append_left _ _)

private theorem inj_of_nodup_map {β γ : Type} (f : β → γ) : ∀ {l : List β}, (l.map f).Nodup →
    ∀ {a b}, a ∈ l → b ∈ l → f a = f b → a = b
  | [], _, _, _, ha, _, _ => by simp at ha
  | c :: l, hn, a, b, ha, hb, e => by
    rw [List.map_cons, List.nodup_cons] at hn
    rcases List.mem_cons.mp ha with ha' | ha' <;> rcases List.mem_cons.mp hb with hb' | hb'
    · rw [ha', hb']
    · rw [ha'] at e; exact absurd (List.mem_map.mpr ⟨b, hb', e.symm⟩ : f c ∈ l.map f) hn.1
    · rw [hb'] at e; exact absurd (List.mem_map.mpr ⟨a, ha', e⟩ : f c ∈ l.map f) hn.1
    · exact inj_of_nodup_map f hn.2 ha' hb' e

/-- **No double delivery, message by message.**  If the messages routed since the last purge are
    pairwise distinct (e.g. tag every routing with a serial number — by `oblivious` the broker cannot
    tell), then no message is handed out twice, no two actors receive the same message, a delivered
    message is no longer queued, and every routed message is delivered or still queued. -/
theorem no_double_delivery (h : List (Nat × Op α)) (hd : (ledger {} (trace [] h)).routed.Nodup) :
    (ledger {} (trace [] h)).got.Nodup ∧
    (∀ a b x, (a, x) ∈ (ledger {} (trace [] h)).delivered → (b, x) ∈ (ledger {} (trace [] h)).delivered → a = b) ∧
    (∀ x ∈ (ledger {} (trace [] h)).got, x ∉ Spec.final [] (h.map (·.2))) ∧
    (∀ x ∈ (ledger {} (trace [] h)).routed, x ∈ (ledger {} (trace [] h)).got ∨ x ∈ Spec.final [] (h.map (·.2))) := by
  have e := each_message_once h
  rw [e, List.nodup_append] at hd
  obtain ⟨h1, _, h3⟩ := hd
  refine ⟨h1, ?_, ?_, ?_⟩
  · intro a b x ha hb
    exact congrArg Prod.fst (inj_of_nodup_map _ h1 ha hb rfl)
  · intro x hx hq
    exact h3 x hx x hq rfl
  · intro x hx
    rw [e] at hx
    exact List.mem_append.mp hx

/-- non-vacuity of `no_double_delivery` and of the actor hypothesis of
    `concurrent_retrieve_partition`: three actors, serial-numbered messages with a repeated id. -/
example :
    let h : List (Nat × Op (String × Nat)) :=
      [(0, .routeMany [("a", 0), ("b", 1), ("a", 2)]), (1, .retrieve), (2, .retrieve), (0, .route ("c", 3)), (1, .retrieve)]
    (ledger {} (trace [] h)).routed.Nodup ∧ (ledger {} (trace [] h)).gotBy 1 = [("a", 0), ("a", 2)] ∧
      (ledger {} (trace [] h)).gotBy 2 = [("b", 1)] ∧ Spec.final [] (h.map (·.2)) = [("c", 3)] := by
  decide

/-! ### the broker never looks at an id: repeated ids are distinct messages -/

private theorem step_map {β : Type} (f : α → β) (q : List α) (op : Op α) :
    Spec.step (q.map f) (op.map f) = (((Spec.step q op).1).map f, ((Spec.step q op).2).map f) := by
  cases op with
  | retrieve => cases q <;> simp [Spec.step, Op.map, Out.map]
  | _ => simp [Spec.step, Op.map, Out.map]

/-- **Obliviousness.**  Renaming messages commutes with running the queue: for every function `f` on
    messages (in particular the one that erases a serial number attached to each routing), running the
    renamed operations gives the renamed results and the renamed queue.  Hence two routings of the same
    invocation id are two messages: each is delivered once (`no_double_delivery` on the numbered
    history transfers to the unnumbered one). -/
theorem oblivious {β : Type} (f : α → β) (q : List α) (ops : List (Op α)) :
    Spec.final (q.map f) (ops.map (Op.map f)) = (Spec.final q ops).map f ∧
    Spec.outs (q.map f) (ops.map (Op.map f)) = (Spec.outs q ops).map (Out.map f) := by
  induction ops generalizing q with
  | nil => exact ⟨rfl, rfl⟩
  | cons op ops ih =>
    obtain ⟨i1, i2⟩ := ih (Spec.step q op).1
    simp only [List.map_cons, Spec.final, Spec.outs, step_map]
    exact ⟨i1, by rw [i2]⟩

/-- **A batch is its single routes.**  `route_invocations(ids)` is a loop of `route_invocation` in both
    brokers — not one transaction.  Sequentially that makes no difference: the batch leaves the queue
    exactly as the single routes do.  Concurrently the single routes of a batch are separate atomic
    steps between which other actors may act; such an execution is just another history, covered by the
    theorems above with the batch written as its `route` steps. -/
theorem routeMany_is_routes (q : List α) (is : List α) :
    Spec.final q [.routeMany is] = Spec.final q (is.map .route) ∧ Spec.final q (is.map .route) = q ++ is := by
  have h : ∀ (is q : List α), Spec.final q (is.map .route) = q ++ is := by
    intro is
    induction is with
    | nil => intro q; simp [Spec.final]
    | cons i is ih => intro q; simp [Spec.final, Spec.step, ih]
  exact ⟨by simp [Spec.final, Spec.step, h], h is q⟩

/-! ### SQL-statement granularity: the write lock makes `retrieve_invocation` atomic -/

private theorem wf_future_mono (s : Sql α) (f g : List Nat) (h : WF s f) (hs : ∀ t ∈ g, t ∈ f) : WF s g :=
  ⟨h.ordered, h.ids, fun r hr t ht => h.clock r hr t (hs t ht)⟩

/-- what holds in every reachable state of the statement-level system when BEGIN IMMEDIATE is in place -/
private structure SInv (s : SState α) (future : List Nat) : Prop where
  wf : WF s.tbl future
  idle : ∀ a, s.lock ≠ some a → s.pc a = .idle
  holder : ∀ a, s.lock = some a →
    s.pc a = .begun ∨ s.pc a = .selected (minRow s.tbl.rows) ∨ ∃ r, s.pc a = .deleted r ∧ minRow s.tbl.rows = some r
  cons : s.inserted = s.delivered.map (·.2) ++ s.tbl.queue

private theorem sinv_init (k : Nat) (future : List Nat) :
    SInv ({ tbl := { rows := [], seq := k } } : SState α) future :=
  ⟨wf_empty k future, fun _ _ => rfl, fun a h => by simp at h, by simp [Sql.queue]⟩

private theorem lock_of_busy (s : SState α) (hidle : ∀ a, s.lock ≠ some a → s.pc a = .idle) (a : Nat)
    (h : s.pc a ≠ .idle) : s.lock = some a :=
  Decidable.byContradiction fun hne => h (hidle a hne)

private theorem sinv_step (s s' : SState α) (st : Stmt α) (fut : List Nat)
    (hi : SInv s (st.stamps ++ fut)) (hp : (st.stamps ++ fut).Pairwise (· ≤ ·))
    (he : SState.exec true s st = some s') : SInv s' fut := by
  obtain ⟨hwf, hidle, hhold, hcons⟩ := hi
  cases st with
  | begin_ a =>
    simp only [Stmt.stamps, List.nil_append] at hwf
    cases hpc : s.pc a <;> cases hl : s.lock <;> simp [SState.exec, hpc, hl] at he
    subst he
    refine ⟨hwf, ?_, ?_, hcons⟩
    · intro b hb
      have : b ≠ a := fun e => hb (by simp [e])
      simp only [SState.setPc, this, if_false]
      exact hidle b (by simp [hl])
    · intro b hb
      simp only [Option.some.injEq] at hb
      subst hb
      left; simp [SState.setPc]
  | select a =>
    simp only [Stmt.stamps, List.nil_append] at hwf
    cases hpc : s.pc a <;> simp [SState.exec, hpc] at he
    subst he
    have hla : s.lock = some a := lock_of_busy s hidle a (by simp [hpc])
    refine ⟨hwf, ?_, ?_, hcons⟩
    · intro b hb
      have : b ≠ a := fun e => hb (by simp [SState.setPc, e, hla])
      simp only [SState.setPc, this, if_false]
      exact hidle b hb
    · intro b hb
      have : b = a := by simpa [SState.setPc, hla] using hb.symm
      subst this
      right; left; simp [SState.setPc]
  | delete a =>
    simp only [Stmt.stamps, List.nil_append] at hwf
    cases hpc : s.pc a <;> simp [SState.exec, hpc] at he
    rename_i r
    cases r <;> simp at he
    rename_i r
    subst he
    have hla : s.lock = some a := lock_of_busy s hidle a (by simp [hpc])
    refine ⟨hwf, ?_, ?_, hcons⟩
    · intro b hb
      have : b ≠ a := fun e => hb (by simp [SState.setPc, e, hla])
      simp only [SState.setPc, this, if_false]
      exact hidle b hb
    · intro b hb
      have : b = a := by simpa [SState.setPc, hla] using hb.symm
      subst this
      right; right
      refine ⟨r, by simp [SState.setPc], ?_⟩
      rcases hhold b hla with h | h | ⟨r', h, _⟩
      · rw [hpc] at h; cases h
      · rw [hpc] at h; injection h with h; exact h.symm
      · rw [hpc] at h; cases h
  | commit a =>
    simp only [Stmt.stamps, List.nil_append] at hwf
    have hothers : ∀ b, b ≠ a → s.pc a ≠ .idle → s.pc b = .idle := by
      intro b hb hne
      have hla := lock_of_busy s hidle a hne
      exact hidle b (by rw [hla]; simpa using fun e => hb e.symm)
    cases hpc : s.pc a <;> simp [SState.exec, hpc] at he
    · -- selected none
      rename_i r
      cases r <;> simp at he
      subst he
      have hla : s.lock = some a := lock_of_busy s hidle a (by simp [hpc])
      refine ⟨hwf, ?_, ?_, hcons⟩
      · intro b _
        by_cases hb : b = a
        · simp [SState.setPc, hb]
        · simp only [SState.setPc, hb, if_false]
          exact hothers b hb (by simp [hpc])
      · intro b hb
        simp [hla] at hb
    · -- deleted r
      rename_i r
      subst he
      have hla : s.lock = some a := lock_of_busy s hidle a (by simp [hpc])
      have hmin : minRow s.tbl.rows = some r := by
        rcases hhold a hla with h | h | ⟨r', h, hm⟩
        · rw [hpc] at h; cases h
        · rw [hpc] at h; cases h
        · rw [hpc] at h; injection h with h; subst h; exact hm
      obtain ⟨rows, k, htbl⟩ : ∃ rows k, s.tbl = { rows := rows, seq := k } := ⟨_, _, rfl⟩
      rw [htbl] at hwf hmin
      have hh := minRow_ordered rows hwf.ordered
      rw [hmin] at hh
      cases rows with
      | nil => simp at hh
      | cons r0 rest =>
        simp only [List.head?_cons, Option.some.injEq] at hh
        subst hh
        have hd := deleteId_head r rest hwf.ordered
        refine ⟨?_, ?_, ?_, ?_⟩
        · simpa [SState.setPc, htbl, hd] using wf_tail r rest k fut hwf
        · intro b _
          by_cases hb : b = a
          · simp [SState.setPc, hb]
          · simp only [SState.setPc, hb, if_false]
            exact hothers b hb (by simp [hpc])
        · intro b hb
          simp [hla] at hb
        · simp [SState.setPc, htbl, hd, hcons, Sql.queue]
  | insert a t i =>
    cases hpc : s.pc a <;> cases hl : s.lock <;> simp [SState.exec, hpc, hl] at he
    subst he
    simp only [Stmt.stamps, List.singleton_append] at hwf hp
    obtain ⟨h1, h2⟩ := wf_insert s.tbl t i fut hwf hp
    refine ⟨h1, ?_, ?_, ?_⟩
    · intro b _
      exact hidle b (by simp [hl])
    · intro b hb
      simp at hb
    · simp [h2, hcons]


private theorem sinv_run (s : SState α) (sts : List (Stmt α))
    (hi : SInv s (sts.flatMap Stmt.stamps)) (hp : (sts.flatMap Stmt.stamps).Pairwise (· ≤ ·)) :
    SInv (SState.run true s sts) [] := by
  induction sts generalizing s with
  | nil => simpa [SState.run] using hi
  | cons st rest ih =>
    simp only [List.flatMap_cons] at hi hp
    have hp' := (List.pairwise_append.mp hp).2.1
    simp only [SState.run]
    cases he : SState.exec true s st with
    | some s' => exact ih s' (sinv_step s s' st _ hi hp he) hp'
    | none =>
      refine ih s ⟨wf_future_mono _ _ _ hi.wf (fun t ht => by simp [ht]), hi.idle, hi.holder, hi.cons⟩ hp'

/-- **With `BEGIN IMMEDIATE`, statement-level interleaving cannot break exactly-once / FIFO.**  Any
    number of connections execute the statements of `retrieve_invocation` (BEGIN IMMEDIATE, SELECT
    oldest, DELETE by id, COMMIT) and `send_message` (INSERT, committed) in any interleaving whatsoever;
    a statement that cannot run (the write lock is held by someone else, or it is not that connection's
    next statement) is skipped and may be retried later.  With non-decreasing clock readings, in every
    reachable state the messages inserted so far (commit order) are exactly the messages delivered so far
    (commit order) followed by the committed queue content — the conservation law of `each_message_once`,
    now at SQL-statement granularity — and only the holder of the write lock is ever inside a
    transaction. -/
theorem stmt_locked_exactly_once_fifo (k : Nat) (sts : List (Stmt α))
    (hclock : (sts.flatMap Stmt.stamps).Pairwise (· ≤ ·)) :
    let s := SState.run true ({ tbl := { rows := [], seq := k } } : SState α) sts
    s.inserted = s.delivered.map (·.2) ++ s.tbl.queue ∧ (∀ a, s.lock ≠ some a → s.pc a = .idle) := by
  have h := sinv_run _ sts (sinv_init k _) hclock
  exact ⟨h.cons, h.idle⟩

/-- **Without it, one message is delivered twice.**  The same model with the `BEGIN IMMEDIATE`
    statement removed (`locked = false`: the SELECT runs outside the write lock) has a two-connection
    schedule — both SELECT the only row, then both DELETE and COMMIT — in which message `m1`, inserted
    once, is returned by both retrievals.  With the lock (`locked = true`) the very same statement
    sequence delivers it once: connection 1 cannot even begin. -/
theorem stmt_unlocked_double_delivery :
    let sched : List (Stmt String) :=
      [.insert 9 0 "m1", .begin_ 0, .select 0, .begin_ 1, .select 1, .delete 0, .commit 0, .delete 1, .commit 1]
    (SState.run false {} sched).delivered = [(0, "m1"), (1, "m1")] ∧
    (SState.run false {} sched).inserted = ["m1"] ∧
    (SState.run true {} sched).delivered = [(0, "m1")] ∧ (SState.run true {} sched).tbl.queue = [] := by
  decide

/-- non-vacuity: a locked schedule in which connection 1 really waits (its BEGIN IMMEDIATE is skipped
    twice), a router inserts between the two retrievals, and both messages come out in order -/
example :
    let sched : List (Stmt String) :=
      [.insert 9 0 "a", .begin_ 0, .begin_ 1, .insert 9 0 "lost?", .select 0, .begin_ 1, .delete 0, .commit 0,
       .insert 9 1 "b", .begin_ 1, .select 1, .delete 1, .commit 1, .begin_ 0, .select 0, .delete 0, .commit 0,
       .begin_ 0, .select 0, .commit 0]
    (SState.run true {} sched).delivered = [(0, "a"), (1, "b")] ∧ (SState.run true {} sched).inserted = ["a", "b"] ∧
    (SState.run true {} sched).lock = none := by
  decide

/-! ### both brokers, end to end -/

/-- the observable trace of a history run on a concrete broker: the history zipped with the results that
    broker returned -/
def observed (h : List (Nat × Op α)) (outs : List (Out α)) : List (Ev α) :=
  List.zipWith (fun e o => ⟨e.1, e.2, o⟩) h outs

/-- **MemBroker, observed from outside.**  Run any history (any interleaving of the atomic operations
    of any actors) on the `MemBroker` model, starting empty, and keep the ledger from its results alone:
    routed-since-purge = delivered-since-purge followed by the deque content. -/
theorem mem_each_message_once (h : List (Nat × Op α)) :
    let tr := observed h (Mem.outs ({} : Mem α) (h.map (·.2)))
    (ledger {} tr).routed = (ledger {} tr).got ++ (Mem.final ({} : Mem α) (h.map (·.2))).q := by
  obtain ⟨m1, m2⟩ := mem_refines_queue ({} : Mem α) (h.map (·.2))
  simp only [observed, m1, m2]
  rw [← trace_eq_zip]
  exact each_message_once h

/-- **SQLiteBroker, observed from outside.**  The same for the `SQLiteBroker` model (fresh or purged
    table, any AUTOINCREMENT counter, non-decreasing clock readings): routed-since-purge =
    delivered-since-purge followed by the table content in `(created_at, rowid)` order. -/
theorem sql_each_message_once (k : Nat) (h : List (Nat × TOp α))
    (hclock : ((h.map (·.2)).flatMap TOp.stamps).Pairwise (· ≤ ·)) :
    let tr := observed (h.map fun e => (e.1, e.2.erase)) (Sql.outs ({ rows := [], seq := k } : Sql α) (h.map (·.2)))
    (ledger {} tr).routed = (ledger {} tr).got ++ (Sql.final ({ rows := [], seq := k } : Sql α) (h.map (·.2))).queue := by
  obtain ⟨s1, s2, _⟩ := sql_refines_queue ({ rows := [], seq := k } : Sql α) (h.map (·.2)) (wf_empty k _) hclock
  simp only [observed, s1, s2]
  have e : (h.map (·.2)).map TOp.erase = (h.map fun e => (e.1, e.2.erase)).map (·.2) := by
    simp [List.map_map, Function.comp_def]
  have q0 : ({ rows := [], seq := k } : Sql α).queue = [] := rfl
  rw [e, q0, ← trace_eq_zip]
  exact each_message_once _

/-- **`broker_refines_queue`.**  Both implementations behave as the one abstract FIFO list, hence as
    each other: from an empty broker, for every operation sequence (SQLite: with non-decreasing clock
    readings) the in-memory broker and the SQLite broker return the same results as the abstract queue
    and end with the same queue content — so every history theorem above (`each_message_once`, `fifo`,
    `count_eq_routed_minus_retrieved`, `retrieve_returns_oldest_undelivered`, `empty_yields_none`,
    `concurrent_retrieve_partition`, `no_double_delivery`), which only reads the trace, holds of both. -/
theorem broker_refines_queue (k : Nat) (ops : List (TOp α))
    (hclock : (ops.flatMap TOp.stamps).Pairwise (· ≤ ·)) :
    Mem.outs ({} : Mem α) (ops.map TOp.erase) = Spec.outs [] (ops.map TOp.erase) ∧
    Sql.outs ({ rows := [], seq := k } : Sql α) ops = Spec.outs [] (ops.map TOp.erase) ∧
    (Mem.final ({} : Mem α) (ops.map TOp.erase)).q = Spec.final [] (ops.map TOp.erase) ∧
    (Sql.final ({ rows := [], seq := k } : Sql α) ops).queue = Spec.final [] (ops.map TOp.erase) := by
  obtain ⟨m1, m2⟩ := mem_refines_queue ({} : Mem α) (ops.map TOp.erase)
  obtain ⟨s1, s2, _⟩ := sql_refines_queue ({ rows := [], seq := k } : Sql α) ops (wf_empty k _) hclock
  exact ⟨m2, s2, m1, s1⟩

end Pynenc.C08
