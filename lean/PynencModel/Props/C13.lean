import PynencModel.Model.Trigger
/-
  C13 — a satisfied trigger condition launches its task exactly once.

  Model: `Model/Cron.lean` (what `CronCondition._is_satisfied_by` computes, abstract in the schedule, plus
  the concrete 5-field matcher) and `Model/Trigger.lean` (the trigger store of both backends, the trigger
  loop, concurrent loop iterations).  The model follows the code as it is; where the property is false of
  the code the full statement is kept as a `…Statement : Prop`, what holds is proved as `…_partial` (or
  under an explicit hypothesis), and the full statement is refuted with a concrete witness.

  Parts
  1. cron, for an arbitrary schedule (`Sched`): `cron_fires_iff`, `inWindow_iff_strictly`, `at_most_once_per_tick`,
     `no_fire_outside_window` (full statement, since the repairs 7c432be / be99e8d), `first_eligible_poll_fires`,
     `cache_sound`; what the code did before the repairs is kept as `old_…` facts;
     the concrete searches are sound (`latestOf_sound`, `nextOf_sound`, `isSatisfiedBy_sound`).
  2. store: `record_idempotent`, `record_mem_iff`, `claim_exclusive`, `cas_exclusive` (+ refutation when
     nothing is stored), `cron_step_fires_only_when_satisfied`, `reregister_keeps_last_cron`.
  3. one loop iteration: `pass_launch_le_one`, `or_occurrence_launched_exactly_once`,
     `single_condition_one_pending_launched_once`, `and_needs_all`, `and_all_then_consumes`,
     `args_from_that_occurrence_partial`, `never_twice_within_expiry`; refuted full statements:
     `OnePerOccurrenceStatement`, `ArgsFromThatOccurrenceStatement`, `NeverTwiceStatement`.
  4. any number of concurrent iterations interleaved at store-operation granularity:
     `concurrent_launch_le_one`, `concurrent_launch_eq_one_at_quiescence`, `solo_runner_is_trigger_pass`.
-/
namespace Pynenc.C13
open Pynenc Pynenc.Cron Pynenc.Trigger

/-! ## 1. cron -/


/-- `l` is the latest scheduled minute at or before minute `m` -/
def IsLatest (tick : Int → Bool) (m l : Int) : Prop :=
  tick l = true ∧ l ≤ m ∧ ∀ k, l < k → k ≤ m → tick k = false

/-- `n` is the first scheduled minute after minute `m` -/
def IsNext (tick : Int → Bool) (m n : Int) : Prop :=
  tick n = true ∧ m < n ∧ ∀ k, m < k → k < n → tick k = false

structure Sched where
  tick : Int → Bool
  latest : Int → Int
  next : Int → Int
  latest_spec : ∀ m, IsLatest tick m (latest m)
  next_spec : ∀ m, IsNext tick m (next m)

def Sched.sat (S : Sched) (c : Cfg) (t : Int) (last : Option Int) : Bool :=
  satisfiedWith c (S.tick (minOf t)) (S.latest (minOf t)) (last.map fun l => S.next (minOf l)) t last

def Sched.attributed (S : Sched) (t : Int) : Int := S.latest (minOf t)

private theorem minOf_mul_le (t : Int) : minOf t * usMin ≤ t := by
  unfold minOf usMin; omega

private theorem le_minOf_iff (n t : Int) : n ≤ minOf t ↔ n * usMin ≤ t := by
  unfold minOf usMin; omega

private theorem minOf_mono {a b : Int} (h : a ≤ b) : minOf a ≤ minOf b := by
  unfold minOf usMin; omega

private theorem next_le_iff (S : Sched) (m0 t : Int) :
    S.next m0 * usMin ≤ t ↔ m0 < S.latest (minOf t) := by
  obtain ⟨hn1, hn2, hn3⟩ := S.next_spec m0
  obtain ⟨hl1, hl2, hl3⟩ := S.latest_spec (minOf t)
  rw [← le_minOf_iff]
  constructor
  · intro h
    by_cases hlt : S.latest (minOf t) < S.next m0
    · have := hl3 _ hlt h; simp [hn1] at this
    · omega
  · intro h
    by_cases hlt : S.latest (minOf t) < S.next m0
    · have := hn3 _ h hlt; simp [hl1] at this
    · omega

/-- **When a poll fires.**  `_is_satisfied_by` answers yes at instant `t` exactly when `t` passes the window test
    against the latest scheduled minute at or before it, and either nothing has fired yet or the last firing is
    at least `min_interval_seconds` old *and* lies in a minute before that scheduled minute (which is what
    "`t` is not before the first tick after the last execution" amounts to).  For every schedule, all settings. -/
theorem cron_fires_iff (S : Sched) (c : Cfg) (t : Int) (last : Option Int) :
    S.sat c t last = true ↔
      inWindow c (S.tick (minOf t)) (S.latest (minOf t)) t = true ∧
      (last = none ∨ ∃ l, last = some l ∧ c.minInterval * usSec ≤ t - l ∧ minOf l < S.latest (minOf t)) := by
  unfold Sched.sat satisfiedWith
  cases last with
  | none => simp [lastOK]
  | some l =>
    simp only [Option.map_some, lastOK, Bool.and_eq_true, decide_eq_true_eq, next_le_iff]
    constructor
    · rintro ⟨⟨h1, h2⟩, h3⟩; exact ⟨h3, Or.inr ⟨l, rfl, h1, h2⟩⟩
    · rintro ⟨h3, h⟩
      rcases h with h | ⟨l', hl, h1, h2⟩
      · cases h
      · cases hl; exact ⟨⟨h1, h2⟩, h3⟩

/-- the property's window: within `check_window_seconds` (strict mode: also within the tolerance) after
    the scheduled minute `l` -/
def StrictlyInWindow (c : Cfg) (l t : Int) : Prop :=
  0 ≤ t - l * usMin ∧ t - l * usMin ≤ c.window * usSec ∧ (c.strict = true → t - l * usMin ≤ c.tolerance * usSec)

/-- **The code's window test is the property's window.**  Whether the poll lies inside the scheduled
    minute itself (offset from the start of that minute) or after it (distance to the latest tick), the
    test passes exactly when the poll is within `check_window_seconds` — and, in strict mode, within the
    tolerance — of the latest scheduled minute.  For every schedule and all settings, windows and
    tolerances below one minute included. -/
theorem inWindow_iff_strictly (S : Sched) (c : Cfg) (t : Int) :
    inWindow c (S.tick (minOf t)) (S.latest (minOf t)) t = true ↔ StrictlyInWindow c (S.latest (minOf t)) t := by
  obtain ⟨hl1, hl2, hl3⟩ := S.latest_spec (minOf t)
  have heq : S.tick (minOf t) = true → S.latest (minOf t) = minOf t := by
    intro h1
    by_cases hlt : S.latest (minOf t) < minOf t
    · have := hl3 _ hlt (Int.le_refl _); simp [h1] at this
    · omega
  unfold inWindow timeDiff StrictlyInWindow
  cases htk : S.tick (minOf t) with
  | true =>
    rw [heq htk]
    cases hs : c.strict <;> simp [and_assoc]
  | false =>
    cases hs : c.strict <;> simp [and_assoc]

/-- **When a poll fires.**  `_is_satisfied_by` answers yes at instant `t` exactly when `t` lies in the window of
    the latest scheduled minute at or before it, and either nothing has fired yet or the last firing is at least
    `min_interval_seconds` old *and* lies in a minute before that scheduled minute. -/
theorem cron_fires_iff_window (S : Sched) (c : Cfg) (t : Int) (last : Option Int) :
    S.sat c t last = true ↔
      StrictlyInWindow c (S.latest (minOf t)) t ∧
      (last = none ∨ ∃ l, last = some l ∧ c.minInterval * usSec ≤ t - l ∧ minOf l < S.latest (minOf t)) := by
  rw [cron_fires_iff, inWindow_iff_strictly]

private theorem runPolls_append (sat : Int → Option Int → Bool) (last : Option Int) (a b : List Int) :
    runPolls sat last (a ++ b) = runPolls sat last a ++ runPolls sat (lastAfter sat last a) b := by
  induction a generalizing last with
  | nil => simp [runPolls, lastAfter]
  | cons t ts ih =>
    simp only [List.cons_append, runPolls, lastAfter]
    split <;> simp [ih]

/-- polls never go back in time, and never before the stored last execution -/
def PollsOK (last : Option Int) (polls : List Int) : Prop :=
  polls.Pairwise (· ≤ ·) ∧ ∀ l, last = some l → ∀ t ∈ polls, l ≤ t

private theorem fired_increasing (S : Sched) (c : Cfg) (polls : List Int) (last : Option Int)
    (hp : PollsOK last polls) :
    (∀ l, last = some l → ∀ f ∈ runPolls (S.sat c) last polls, minOf l < S.attributed f) ∧
    ((runPolls (S.sat c) last polls).map S.attributed).Pairwise (· < ·) := by
  induction polls generalizing last with
  | nil => simp [runPolls]
  | cons t ts ih =>
    obtain ⟨hsorted, hlast⟩ := hp
    have hts : ts.Pairwise (· ≤ ·) := (List.pairwise_cons.1 hsorted).2
    have htle : ∀ u ∈ ts, t ≤ u := (List.pairwise_cons.1 hsorted).1
    simp only [runPolls]
    by_cases hf : S.sat c t last = true
    · simp only [hf, if_true]
      have ih' := ih (some t) ⟨hts, by intro l hl u hu; cases hl; exact htle u hu⟩
      have hatt : S.attributed t ≤ minOf t := (S.latest_spec (minOf t)).2.1
      refine ⟨?_, ?_⟩
      · intro l hl f hfm
        have hlt : l ≤ t := hlast l hl t (by simp)
        rcases List.mem_cons.1 hfm with rfl | hfm
        · subst hl
          have := (cron_fires_iff S c f (some l)).1 hf
          rcases this.2 with h | ⟨l', hl', _, h2⟩
          · cases h
          · cases hl'; exact h2
        · have := ih'.1 t rfl f hfm
          have := minOf_mono hlt
          omega
      · simp only [List.map_cons, List.pairwise_cons]
        refine ⟨?_, ih'.2⟩
        intro a ha
        obtain ⟨f, hfm, rfl⟩ := List.mem_map.1 ha
        have := ih'.1 t rfl f hfm
        omega
    · simp only [hf]
      have ih' := ih last ⟨hts, by intro l hl u hu; exact hlast l hl u (by simp [hu])⟩
      exact ⟨fun l hl f hfm => ih'.1 l hl f (by simpa using hfm), by simpa using ih'.2⟩

/-- **Every scheduled minute yields at most one occurrence.**  One runner polling at non-decreasing instants, the
    last execution updated on firing: the scheduled minutes the firings belong to are strictly increasing.  For
    every schedule, settings and poll sequence — regular, jittered, bursty or with gaps. -/
theorem at_most_once_per_tick (S : Sched) (c : Cfg) (polls : List Int) (last : Option Int)
    (hp : PollsOK last polls) :
    ((runPolls (S.sat c) last polls).map S.attributed).Pairwise (· < ·) :=
  (fired_increasing S c polls last hp).2

/-- the same, counted: no scheduled minute is the latest tick of two firings -/
theorem at_most_once_per_tick_count (S : Sched) (c : Cfg) (polls : List Int) (last : Option Int)
    (hp : PollsOK last polls) (m : Int) :
    ((runPolls (S.sat c) last polls).map S.attributed).count m ≤ 1 := by
  have h := at_most_once_per_tick S c polls last hp
  have hnd : ((runPolls (S.sat c) last polls).map S.attributed).Nodup :=
    h.imp (fun hlt => by omega)
  exact List.nodup_iff_count.1 hnd m

/-- the full statement of the property for cron windows -/
def NoFireOutsideWindowStatement : Prop :=
  ∀ (S : Sched) (c : Cfg) (last : Option Int) (polls : List Int),
    ∀ f ∈ runPolls (S.sat c) last polls, StrictlyInWindow c (S.latest (minOf f)) f

/-- **Polls outside every window yield no occurrence.**  Whatever is stored (nothing included: the first
    poll of a never-fired condition is judged like any other), whatever the settings (windows and
    tolerances below a minute included) and the poll sequence: every poll that fires lies within
    `check_window_seconds` (strict mode: within the tolerance) after the latest scheduled minute. -/
theorem no_fire_outside_window : NoFireOutsideWindowStatement := by
  intro S c last polls
  induction polls generalizing last with
  | nil => simp [runPolls]
  | cons t ts ih =>
    simp only [runPolls]
    by_cases hf : S.sat c t last = true
    · simp only [hf, if_true]
      intro f hfm
      rcases List.mem_cons.1 hfm with rfl | hfm
      · exact ((cron_fires_iff_window S c f last).1 hf).1
      · exact ih (some t) f hfm
    · simp only [hf]
      exact ih last

/-- the schedule `* * * * *` -/
def everyMinute : Sched where
  tick := fun _ => true
  latest := fun m => m
  next := fun m => m + 1
  latest_spec := by intro m; exact ⟨rfl, Int.le_refl _, by intro k h1 h2; omega⟩
  next_spec := by intro m; exact ⟨rfl, by omega, by intro k h1 h2; omega⟩

/-- the schedule "minute 0 of every day" -/
def onlyMinuteZero : Sched where
  tick := fun m => decide (m % 1440 = 0)
  latest := fun m => m / 1440 * 1440
  next := fun m => (m / 1440 + 1) * 1440
  latest_spec := by
    intro m
    refine ⟨by simp, by omega, ?_⟩
    intro k h1 h2; simp; omega
  next_spec := by
    intro m
    refine ⟨by simp, by omega, ?_⟩
    intro k h1 h2; simp; omega

/-- a daily schedule polled 12 h after its tick does not fire, stored execution or not; a window of
    10 s is honoured inside the scheduled minute (fires at +10 s, not at +45 s) -/
example : onlyMinuteZero.sat {} (720 * usMin) none = false ∧
    everyMinute.sat { window := 10 } (70 * usSec) none = true ∧
    everyMinute.sat { window := 10 } (105 * usSec) (some 0) = false := by decide

/-- **The first eligible poll fires.**  Whatever was polled before (`pre`) and whatever follows, a poll
    `t` that lies in the window of the latest scheduled minute, with nothing fired before or the
    previous firing at least the minimum interval old and lying before that scheduled minute, fires. -/
theorem first_eligible_poll_fires (S : Sched) (c : Cfg) (last0 : Option Int) (pre post : List Int) (t : Int)
    (hwin : StrictlyInWindow c (S.latest (minOf t)) t)
    (hlast : ∀ l, lastAfter (S.sat c) last0 pre = some l →
        c.minInterval * usSec ≤ t - l ∧ minOf l < S.latest (minOf t)) :
    t ∈ runPolls (S.sat c) last0 (pre ++ t :: post) := by
  rw [runPolls_append]
  apply List.mem_append_right
  have hf : S.sat c t (lastAfter (S.sat c) last0 pre) = true := by
    rw [cron_fires_iff_window]
    refine ⟨hwin, ?_⟩
    cases hl : lastAfter (S.sat c) last0 pre with
    | none => exact Or.inl rfl
    | some l => exact Or.inr ⟨l, rfl, hlast l hl⟩
  simp [runPolls, hf]

/-- The runner-local cache of the last execution is a sound shortcut: a stale (older) cached value never
    blocks a poll that the stored value would let through. -/
theorem cache_sound (S : Sched) (c : Cfg) (t cached stored : Int) (h : cached ≤ stored)
    (hs : S.sat c t (some stored) = true) : S.sat c t (some cached) = true := by
  rw [cron_fires_iff] at hs ⊢
  obtain ⟨hw, hl⟩ := hs
  refine ⟨hw, Or.inr ⟨cached, rfl, ?_⟩⟩
  rcases hl with hl | ⟨l, hl, h1, h2⟩
  · cases hl
  · cases hl
    have := minOf_mono h
    exact ⟨by omega, by omega⟩

/-! ### the code before the repairs (`fix:` 7c432be, be99e8d), kept for the record -/

namespace Old
/-- `time_diff_seconds` used to be 0 during the whole scheduled minute -/
def timeDiff (tickNow : Bool) (latest : Int) (t : Int) : Int := if tickNow then 0 else t - latest * usMin
def inWindow (c : Cfg) (tickNow : Bool) (latest : Int) (t : Int) : Bool :=
  decide (0 ≤ timeDiff tickNow latest t) && decide (timeDiff tickNow latest t ≤ c.window * usSec) &&
  !(c.strict && decide (c.tolerance * usSec < timeDiff tickNow latest t))
/-- `_should_trigger_cron_condition` used not to consult `is_satisfied_by` when nothing was stored -/
def codeFires (sat : Int → Option Int → Bool) (t : Int) (last : Option Int) : Bool :=
  match last with
  | none => true
  | some _ => sat t last
end Old

/-- before 7c432be a never-fired condition fired at its first poll whatever the schedule said -/
theorem old_first_poll_fired_unconditionally (sat : Int → Option Int → Bool) (t : Int) (ts : List Int) :
    runPolls (Old.codeFires sat) none (t :: ts) = t :: runPolls (Old.codeFires sat) (some t) ts := by
  simp [runPolls, Old.codeFires]

/-- before be99e8d a window of 10 s let a poll 45 s into the scheduled minute through -/
theorem old_short_window_ignored :
    Old.inWindow { window := 10 } true 1 (105 * usSec) = true ∧ inWindow { window := 10 } true 1 (105 * usSec) = false := by
  decide

example : everyMinute.sat {} (90 * usSec) (some (30 * usSec)) = true := by decide
example : everyMinute.sat {} (70 * usSec) (some (30 * usSec)) = false := by decide


/-! ### the concrete matcher -/

private theorem scanDown_some (p : Int → Bool) (hi : Int) (n : Nat) (l : Int) (h : scanDown p hi n = some l) :
    p l = true ∧ l ≤ hi ∧ hi - n < l ∧ ∀ k, l < k → k ≤ hi → p k = false := by
  induction n generalizing hi with
  | zero => simp [scanDown] at h
  | succ n ih =>
    simp only [scanDown] at h
    by_cases hp : p hi = true
    · simp only [hp, if_true, Option.some.injEq] at h
      subst h
      exact ⟨hp, Int.le_refl _, by omega, by intro k h1 h2; omega⟩
    · simp only [hp] at h
      obtain ⟨h1, h2, h3, h4⟩ := ih (hi - 1) h
      refine ⟨h1, by omega, by omega, ?_⟩
      intro k hk1 hk2
      by_cases hk : k = hi
      · subst hk; simpa using hp
      · exact h4 k hk1 (by omega)

private theorem scanDown_none (p : Int → Bool) (hi : Int) (n : Nat) (h : scanDown p hi n = none) :
    ∀ k, hi - n < k → k ≤ hi → p k = false := by
  induction n generalizing hi with
  | zero => intro k h1 h2; omega
  | succ n ih =>
    simp only [scanDown] at h
    by_cases hp : p hi = true
    · simp [hp] at h
    · simp only [hp] at h
      intro k h1 h2
      by_cases hk : k = hi
      · subst hk; simpa using hp
      · exact ih (hi - 1) h k (by omega) (by omega)

private theorem scanUp_some (p : Int → Bool) (lo : Int) (n : Nat) (l : Int) (h : scanUp p lo n = some l) :
    p l = true ∧ lo ≤ l ∧ l < lo + n ∧ ∀ k, lo ≤ k → k < l → p k = false := by
  induction n generalizing lo with
  | zero => simp [scanUp] at h
  | succ n ih =>
    simp only [scanUp] at h
    by_cases hp : p lo = true
    · simp only [hp, if_true, Option.some.injEq] at h
      subst h
      exact ⟨hp, Int.le_refl _, by omega, by intro k h1 h2; omega⟩
    · simp only [hp] at h
      obtain ⟨h1, h2, h3, h4⟩ := ih (lo + 1) h
      refine ⟨h1, by omega, by omega, ?_⟩
      intro k hk1 hk2
      by_cases hk : k = lo
      · subst hk; simpa using hp
      · exact h4 k (by omega) hk2

private theorem scanUp_none (p : Int → Bool) (lo : Int) (n : Nat) (h : scanUp p lo n = none) :
    ∀ k, lo ≤ k → k < lo + n → p k = false := by
  induction n generalizing lo with
  | zero => intro k h1 h2; omega
  | succ n ih =>
    simp only [scanUp] at h
    by_cases hp : p lo = true
    · simp [hp] at h
    · simp only [hp] at h
      intro k h1 h2
      by_cases hk : k = lo
      · subst hk; simpa using hp
      · exact ih (lo + 1) h k (by omega) (by omega)

/-- a schedule that factors into a day part and a time-of-day part -/
def tickOf (dayP todP : Int → Bool) (m : Int) : Bool := dayP (m / 1440) && todP (m % 1440)

/-- the bounded backward search returns the latest scheduled minute at or before `m` (when it returns at all) -/
theorem latestOf_sound (dayP todP : Int → Bool) (m l : Int) (h : latestOf dayP todP m = some l) :
    IsLatest (tickOf dayP todP) m l := by
  unfold latestOf at h
  simp only at h
  split at h
  · -- found in the day of `m`
    rename_i r' hr
    simp only [Option.some.injEq] at h
    subst h
    by_cases hd : dayP (m / 1440) = true
    · simp only [hd, if_true] at hr
      obtain ⟨h1, h2, h3, h4⟩ := scanDown_some _ _ _ _ hr
      have hr0 : 0 ≤ r' := by omega
      refine ⟨?_, by omega, ?_⟩
      · unfold tickOf
        have e1 : (m / 1440 * 1440 + r') / 1440 = m / 1440 := by omega
        have e2 : (m / 1440 * 1440 + r') % 1440 = r' := by omega
        simp [e1, e2, hd, h1]
      · intro k hk1 hk2
        unfold tickOf
        have e1 : k / 1440 = m / 1440 := by omega
        have := h4 (k % 1440) (by omega) (by omega)
        simp [this]
    · simp [hd] at hr
  · rename_i hr
    split at h
    · rename_i rmax d' hrm hdd
      simp only [Option.some.injEq] at h
      subst h
      obtain ⟨t1, t2, t3, t4⟩ := scanDown_some _ _ _ _ hrm
      obtain ⟨d1, d2, d3, d4⟩ := scanDown_some _ _ _ _ hdd
      have hr0 : 0 ≤ rmax := by omega
      refine ⟨?_, by omega, ?_⟩
      · unfold tickOf
        have e1 : (d' * 1440 + rmax) / 1440 = d' := by omega
        have e2 : (d' * 1440 + rmax) % 1440 = rmax := by omega
        simp [e1, e2, d1, t1]
      · intro k hk1 hk2
        unfold tickOf
        by_cases hkd : k / 1440 = m / 1440
        · -- same day as m: nothing there
          by_cases hd : dayP (m / 1440) = true
          · simp only [hd, if_true] at hr
            have := scanDown_none _ _ _ hr (k % 1440) (by omega) (by omega)
            simp [this]
          · simp [hkd, hd]
        · by_cases hk' : k / 1440 = d'
          · have := t4 (k % 1440) (by omega) (by omega)
            simp [this]
          · have := d4 (k / 1440) (by omega) (by omega)
            simp [this]
    · simp at h


/-- the bounded forward search returns the first scheduled minute after `m` (when it returns at all) -/
theorem nextOf_sound (dayP todP : Int → Bool) (m n : Int) (h : nextOf dayP todP m = some n) :
    IsNext (tickOf dayP todP) m n := by
  unfold nextOf at h
  simp only at h
  split at h
  · rename_i r' hr
    simp only [Option.some.injEq] at h
    subst h
    by_cases hd : dayP ((m + 1) / 1440) = true
    · simp only [hd, if_true] at hr
      obtain ⟨h1, h2, h3, h4⟩ := scanUp_some _ _ _ _ hr
      have hr1 : r' < 1440 := by omega
      have hr0 : 0 ≤ r' := by omega
      refine ⟨?_, by omega, ?_⟩
      · unfold tickOf
        have e1 : ((m + 1) / 1440 * 1440 + r') / 1440 = (m + 1) / 1440 := by omega
        have e2 : ((m + 1) / 1440 * 1440 + r') % 1440 = r' := by omega
        simp [e1, e2, hd, h1]
      · intro k hk1 hk2
        unfold tickOf
        have := h4 (k % 1440) (by omega) (by omega)
        simp [this]
    · simp [hd] at hr
  · rename_i hr
    split at h
    · rename_i rmin d' hrm hdd
      simp only [Option.some.injEq] at h
      subst h
      obtain ⟨t1, t2, t3, t4⟩ := scanUp_some _ _ _ _ hrm
      obtain ⟨d1, d2, d3, d4⟩ := scanUp_some _ _ _ _ hdd
      refine ⟨?_, by omega, ?_⟩
      · unfold tickOf
        have e1 : (d' * 1440 + rmin) / 1440 = d' := by omega
        have e2 : (d' * 1440 + rmin) % 1440 = rmin := by omega
        simp [e1, e2, d1, t1]
      · intro k hk1 hk2
        unfold tickOf
        by_cases hkd : k / 1440 = (m + 1) / 1440
        · by_cases hd : dayP ((m + 1) / 1440) = true
          · simp only [hd, if_true] at hr
            have := scanUp_none _ _ _ hr (k % 1440) (by omega) (by omega)
            simp [this]
          · simp [hkd, hd]
        · by_cases hk' : k / 1440 = d'
          · have := t4 (k % 1440) (by omega) (by omega)
            simp [this]
          · have := d4 (k / 1440) (by omega) (by omega)
            simp [this]
    · simp at h

private theorem expr_tick_eq (e : Expr) : e.tick = tickOf e.dayOK e.todOK := rfl

/-- **The concrete matcher computes what the abstract theorems talk about.**  Whenever
    `Expr.isSatisfiedBy` returns an answer, it is `satisfiedWith` applied to the latest scheduled minute
    at or before the poll and the first scheduled minute after the last execution, of the expression's
    own schedule `e.tick`. -/
theorem isSatisfiedBy_sound (e : Expr) (c : Cfg) (t : Int) (last : Option Int) (b : Bool)
    (h : e.isSatisfiedBy c t last = some b) :
    ∃ l, IsLatest e.tick (minOf t) l ∧
      match last with
      | none => b = satisfiedWith c (e.tick (minOf t)) l none t none
      | some lst => ∃ n, IsNext e.tick (minOf lst) n ∧
          b = satisfiedWith c (e.tick (minOf t)) l (some n) t (some lst) := by
  unfold Expr.isSatisfiedBy at h
  cases hl : e.latest (minOf t) with
  | none => simp [hl] at h
  | some l =>
    simp only [hl] at h
    refine ⟨l, latestOf_sound _ _ _ _ hl, ?_⟩
    cases last with
    | none => simpa using h.symm
    | some lst =>
      simp only at h
      cases hn : e.next (minOf lst) with
      | none => simp [hn] at h
      | some n =>
        simp only [hn, Option.some.injEq] at h
        exact ⟨n, nextOf_sound _ _ _ _ hn, h.symm⟩

/-- `*/20 * * * *` -/
def everyTwenty : Expr :=
  { minute := { star := false, vals := [0, 20, 40], hasStarChar := true },
    hour := { star := true, vals := [], hasStarChar := true },
    dom := { star := true, vals := [], hasStarChar := true },
    month := { star := true, vals := [], hasStarChar := true },
    dow := { star := true, vals := [], hasStarChar := true } }

/-- non-vacuity: 2023-11-14 22:20:23 UTC is inside a scheduled minute of `*/20 * * * *`; 22:15:23 is not -/
example : everyTwenty.isSatisfiedBy {} 1700000423000000 none = some true ∧
    everyTwenty.isSatisfiedBy {} 1700000123000000 none = some false ∧
    everyTwenty.isSatisfiedBy {} 1700000423000000 (some 1700000400000000) = some false := by
  decide +kernel

/-! ## 2. the trigger store -/


section upsert
variable {α κ : Type} [DecidableEq κ]

private theorem mem_upsertBy (keyOf : α → κ) (toEnd : Bool) (l : List α) (v w : α) :
    w ∈ upsertBy keyOf toEnd l v ↔ w = v ∨ (w ∈ l ∧ keyOf w ≠ keyOf v) := by
  unfold upsertBy
  cases toEnd with
  | true =>
    simp only [if_true, List.mem_append, List.mem_filter, List.mem_singleton, decide_eq_true_eq]
    constructor
    · rintro (⟨h1, h2⟩ | h) <;> simp_all
    · rintro (h | ⟨h1, h2⟩) <;> simp_all
  | false =>
    simp only [Bool.false_eq_true, if_false]
    split
    · rename_i hany
      simp only [List.any_eq_true, decide_eq_true_eq] at hany
      obtain ⟨x, hx, hkx⟩ := hany
      simp only [List.mem_map]
      constructor
      · rintro ⟨y, hy, rfl⟩
        by_cases hk : keyOf y = keyOf v
        · simp [hk]
        · simp [hk, hy]
      · rintro (rfl | ⟨h1, h2⟩)
        · exact ⟨x, hx, by simp [hkx]⟩
        · exact ⟨w, h1, by simp [h2]⟩
    · rename_i hany
      simp only [List.any_eq_true, decide_eq_true_eq, not_exists, not_and] at hany
      simp only [List.mem_append, List.mem_singleton]
      constructor
      · rintro (h | h)
        · exact Or.inr ⟨h, hany w h⟩
        · exact Or.inl h
      · rintro (h | ⟨h1, _⟩)
        · exact Or.inr h
        · exact Or.inl h1

private theorem upsertBy_idem (keyOf : α → κ) (toEnd : Bool) (l : List α) (v : α) :
    upsertBy keyOf toEnd (upsertBy keyOf toEnd l v) v = upsertBy keyOf toEnd l v := by
  unfold upsertBy
  cases toEnd with
  | true =>
    simp only [if_true, List.filter_append, List.filter_filter]
    simp
  | false =>
    simp only [Bool.false_eq_true, if_false]
    by_cases hany : l.any (fun x => decide (keyOf x = keyOf v)) = true
    · simp only [hany, if_true]
      have h2 : (l.map (fun x => if keyOf x = keyOf v then v else x)).any (fun x => decide (keyOf x = keyOf v)) = true := by
        simp only [List.any_eq_true, decide_eq_true_eq] at hany ⊢
        obtain ⟨x, hx, hk⟩ := hany
        exact ⟨v, List.mem_map.2 ⟨x, hx, by simp [hk]⟩, rfl⟩
      simp only [h2, if_true, List.map_map]
      apply List.map_congr_left
      intro x _
      by_cases hk : keyOf x = keyOf v <;> simp [hk]
    · simp only [hany]
      have h2 : (l ++ [v]).any (fun x => decide (keyOf x = keyOf v)) = true := by simp
      simp only [h2, if_true, Bool.false_eq_true, if_false]
      simp only [List.any_eq_true, decide_eq_true_eq, not_exists, not_and] at hany
      rw [List.map_append]
      congr 1
      · conv => rhs; rw [← List.map_id l]
        apply List.map_congr_left
        intro x hx
        simp [hany x hx]
      · simp
end upsert

/-- **Recording an occurrence is idempotent** (`record_valid_condition` keyed by condition id + context
    id): reporting the same occurrence again — a duplicate status report, a second runner that saw the
    same event — changes nothing, on both backends. -/
theorem record_idempotent (s : Store) (v : VC) : (s.recordValid v).recordValid v = s.recordValid v := by
  unfold Store.recordValid
  simp only [upsertBy_idem]

/-- ... and the pending occurrences afterwards are exactly: this one, plus every other one that was
    pending (an occurrence with the same key is replaced, never duplicated). -/
theorem record_mem_iff (s : Store) (v w : VC) :
    w ∈ (s.recordValid v).valid ↔ w = v ∨ (w ∈ s.valid ∧ w.key ≠ v.key) := by
  unfold Store.recordValid
  exact mem_upsertBy VC.key s.sqlite s.valid v w

/-- two occurrences that differ in what their context id is built from are kept side by side: two
    invocations failing with the same exception type, two events of one code, two statuses of one invocation -/
theorem distinct_occurrences_both_pending (s : Store) (v w : VC) (h : v.key ≠ w.key) :
    v ∈ ((s.recordValid v).recordValid w).valid ∧ w ∈ ((s.recordValid v).recordValid w).valid := by
  constructor
  · rw [record_mem_iff]; right; exact ⟨by rw [record_mem_iff]; left; rfl, h⟩
  · rw [record_mem_iff]; left; rfl

example : ({ cond := "c", ctx := { key := .exception "inv-1" "ValueError" } } : VC).key ≠
    ({ cond := "c", ctx := { key := .exception "inv-2" "ValueError" } } : VC).key := by decide


/-- results of a sequence of atomic `claim_trigger_run` calls `(run id, now, expiry)` by whoever -/
def claimSeq (s : Store) : List (RunId × Int × Int) → List (RunId × Bool)
  | [] => []
  | (r, now, x) :: rest => (r, (s.claim r now x).2) :: claimSeq (s.claim r now x).1 rest

/-- number of successful claims of run id `r` -/
def wins (r : RunId) (outs : List (RunId × Bool)) : Nat :=
  (outs.filter (fun o => decide (o.1 = r) && o.2)).length

private theorem claim_other (s : Store) (r r' : RunId) (now x : Int) (h : r' ≠ r) :
    (s.claim r' now x).1.claims.get? r = s.claims.get? r := by
  unfold Store.claim
  split
  · split
    · rfl
    · exact AMap.get?_set_other _ _ _ _ (Ne.symm h)
  · exact AMap.get?_set_other _ _ _ _ (Ne.symm h)


private theorem claim_fail_state (s : Store) (r : RunId) (now x : Int) (h : (s.claim r now x).2 = false) :
    (s.claim r now x).1 = s := by
  unfold Store.claim at h ⊢
  cases hg : s.claims.get? r with
  | none => simp [hg] at h
  | some e =>
    simp only [hg] at h ⊢
    by_cases hgt : e > now
    · simp [hgt]
    · simp [hgt] at h

private theorem claim_ok_held (s : Store) (r : RunId) (now x : Int) (h : (s.claim r now x).2 = true) :
    (s.claim r now x).1.claims.get? r = some (now + x) := by
  unfold Store.claim at h ⊢
  cases hg : s.claims.get? r with
  | none => simp [AMap.get?_set_self]
  | some e =>
    simp only [hg] at h ⊢
    by_cases hgt : e > now
    · simp [hgt] at h
    · simp [hgt, AMap.get?_set_self]

private theorem claim_fails_while_held (s : Store) (r : RunId) (now x e : Int) (hg : s.claims.get? r = some e)
    (hgt : now < e) : s.claim r now x = (s, false) := by
  unfold Store.claim
  simp [hg, hgt]

private theorem no_win_while_held (r : RunId) (T0 X : Int) (ops : List (RunId × Int × Int))
    (hwin : ∀ o ∈ ops, o.1 = r → o.2.1 < T0 + X) (s : Store) (e : Int)
    (hheld : s.claims.get? r = some e) (he : T0 + X ≤ e) : wins r (claimSeq s ops) = 0 := by
  induction ops generalizing s with
  | nil => simp [claimSeq, wins]
  | cons o rest ih =>
    obtain ⟨r', now, x⟩ := o
    have hrest : ∀ o ∈ rest, o.1 = r → o.2.1 < T0 + X := fun o ho => hwin o (List.mem_cons_of_mem _ ho)
    by_cases hr : r' = r
    · subst hr
      have hnow := hwin (r', now, x) (by simp) rfl
      have hfail : s.claim r' now x = (s, false) :=
        claim_fails_while_held s r' now x e hheld (by simp at hnow; omega)
      simp only [claimSeq, hfail, wins, List.filter_cons]
      simp only [Bool.and_false, Bool.false_eq_true, if_false]
      exact ih hrest s hheld
    · have hh : (s.claim r' now x).1.claims.get? r = some e := by rw [claim_other s r r' now x hr]; exact hheld
      simp only [claimSeq, wins, List.filter_cons, hr, decide_false, Bool.false_and, Bool.false_eq_true, if_false]
      exact ih hrest _ hh

/-- **A run id is won at most once until its claim expires.**  Take any sequence of atomic
    `claim_trigger_run` calls, by any number of runners, for any run ids, from any store state.  If all
    claims of run id `r` fall into one window `[T0, T0 + X)` and use expiry `X`, at most one of them
    succeeds. -/
theorem claim_exclusive (r : RunId) (T0 X : Int) (ops : List (RunId × Int × Int))
    (hwin : ∀ o ∈ ops, o.1 = r → T0 ≤ o.2.1 ∧ o.2.1 < T0 + X ∧ o.2.2 = X) (s : Store) :
    wins r (claimSeq s ops) ≤ 1 := by
  induction ops generalizing s with
  | nil => simp [claimSeq, wins]
  | cons o rest ih =>
    obtain ⟨r', now, x⟩ := o
    have hrest : ∀ o ∈ rest, o.1 = r → T0 ≤ o.2.1 ∧ o.2.1 < T0 + X ∧ o.2.2 = X :=
      fun o ho => hwin o (List.mem_cons_of_mem _ ho)
    by_cases hr : r' = r
    · subst hr
      obtain ⟨h1, h2, h3⟩ := hwin (r', now, x) (by simp) rfl
      simp only at h1 h2 h3
      by_cases hok : (s.claim r' now x).2 = true
      · -- won: the claim now expires after the window, nobody else wins
        have hheld := claim_ok_held s r' now x hok
        have := no_win_while_held r' T0 X rest (fun o ho hr => (hrest o ho hr).2.1) _ (now + x) hheld (by omega)
        simp only [claimSeq, wins, List.filter_cons, hok, decide_true, Bool.and_self, if_true, List.length_cons]
        simp only [wins] at this
        omega
      · have hok' : (s.claim r' now x).2 = false := by simpa using hok
        have hst := claim_fail_state s r' now x hok'
        simp only [claimSeq, wins, List.filter_cons, hok', Bool.and_false, Bool.false_eq_true, if_false, hst]
        exact ih hrest s
    · simp only [claimSeq, wins, List.filter_cons, hr, decide_false, Bool.false_and, Bool.false_eq_true, if_false]
      exact ih hrest _

/-- ... and exactly one succeeds when the run id is free (or its old claim has expired) at the first attempt. -/
theorem claim_first_wins (s : Store) (r : RunId) (now x : Int)
    (hfree : ∀ e, s.claims.get? r = some e → e ≤ now) : (s.claim r now x).2 = true := by
  unfold Store.claim
  split
  · rename_i e he
    have := hfree e he
    have h : ¬ e > now := by omega
    simp [h]
  · rfl

/-- a claim does expire: the same run id can be won again `expiry` later (what makes the relaunch of
    `relaunch_after_expiry_witness` possible) -/
theorem claim_again_after_expiry (s : Store) (r : RunId) (now x now' : Int) (h : now + x ≤ now')
    (hok : (s.claim r now x).2 = true) : ((s.claim r now x).1.claim r now' x).2 = true := by
  apply claim_first_wins
  intro e he
  rw [claim_ok_held s r now x hok] at he
  cases he; exact h

example : claimSeq {} [(("r", []), 0, 60), (("r", []), 59, 60), (("q", []), 10, 60), (("r", []), 60, 60)]
    = [(("r", []), true), (("r", []), false), (("q", []), true), (("r", []), true)] := by decide


/-- results of a sequence of atomic `store_last_cron_execution(cid, t, expected)` calls on one condition -/
def casSeq (s : Store) (cid : String) : List (Int × Option Int) → List (Option Int × Bool)
  | [] => []
  | (t, ex) :: rest => (ex, (s.casLastCron cid t ex).2) :: casSeq (s.casLastCron cid t ex).1 cid rest

/-- number of successful calls that expected the value `e` -/
def casWins (e : Option Int) (outs : List (Option Int × Bool)) : Nat :=
  (outs.filter (fun o => decide (o.1 = e) && o.2)).length

def Registered (s : Store) (cid : String) : Prop := s.sqlite = false ∨ s.conds.any (fun c => c.id = cid) = true

private theorem cas_registered (s : Store) (cid : String) (t : Int) (ex : Option Int) (h : Registered s cid) :
    Registered (s.casLastCron cid t ex).1 cid := by
  unfold Store.casLastCron
  simp only
  split
  · exact h
  · split
    · exact h
    · exact h

private theorem cas_result (s : Store) (cid : String) (t : Int) (ex : Option Int) (h : Registered s cid) :
    (ex.isSome = true ∧ s.lastCron.get? cid ≠ ex ∧ s.casLastCron cid t ex = (s, false)) ∨
    ((ex.isSome = false ∨ s.lastCron.get? cid = ex) ∧ (s.casLastCron cid t ex).2 = true ∧
      (s.casLastCron cid t ex).1.lastCron.get? cid = some t) := by
  unfold Store.casLastCron
  simp only
  by_cases h1 : (ex.isSome && s.lastCron.get? cid != ex) = true
  · left
    simp only [Bool.and_eq_true, bne_iff_ne, ne_eq] at h1
    refine ⟨h1.1, h1.2, ?_⟩
    simp [h1.1, h1.2]
  · right
    have h1' : ex.isSome = false ∨ s.lastCron.get? cid = ex := by
      simp only [Bool.and_eq_true, bne_iff_ne, ne_eq, not_and, Decidable.not_not] at h1
      by_cases hs : ex.isSome = true
      · exact Or.inr (h1 hs)
      · exact Or.inl (by simpa using hs)
    refine ⟨h1', ?_⟩
    simp only [h1, Bool.false_eq_true, if_false]
    have hreg : (s.sqlite && !(s.conds.any (fun c => decide (c.id = cid)))) = false := by
      rcases h with h | h
      · simp [h]
      · simp [h]
    simp [hreg, AMap.get?_set_self]

private theorem no_cas_win_when_moved (cid : String) (e : Int) (ops : List (Int × Option Int))
    (hne : ∀ o ∈ ops, o.1 ≠ e) (s : Store) (hreg : Registered s cid)
    (hcur : s.lastCron.get? cid ≠ some e) : casWins (some e) (casSeq s cid ops) = 0 := by
  induction ops generalizing s with
  | nil => simp [casSeq, casWins]
  | cons o rest ih =>
    obtain ⟨t, ex⟩ := o
    have hrest : ∀ o ∈ rest, o.1 ≠ e := fun o ho => hne o (List.mem_cons_of_mem _ ho)
    have hte : t ≠ e := hne (t, ex) (by simp)
    rcases cas_result s cid t ex hreg with ⟨_, _, hfail⟩ | ⟨hex, hok, hset⟩
    · simp only [casSeq, hfail, casWins, List.filter_cons, Bool.and_false, Bool.false_eq_true, if_false]
      exact ih hrest s hreg hcur
    · have hexne : ex ≠ some e := by
        rcases hex with hex | hex
        · intro h; rw [h] at hex; simp at hex
        · intro h; rw [h] at hex; exact hcur hex
      have hnext : (s.casLastCron cid t ex).1.lastCron.get? cid ≠ some e := by
        rw [hset]; intro h; cases h; exact hte rfl
      simp only [casSeq, casWins, List.filter_cons, hexne, decide_false, Bool.false_and, Bool.false_eq_true, if_false]
      exact ih hrest _ (cas_registered s cid t ex hreg) hnext

/-- **Compare-and-swap on the last cron execution is exclusive per stored value.**  Take any sequence
    of atomic `store_last_cron_execution` calls on one (registered) cron condition by any number of
    runners, with any expectations.  If every written instant differs from `e` (polls come after the
    execution they compare against), at most one of the calls that expected the stored value `e`
    succeeds: two runners that both read `e` cannot both fire. -/
theorem cas_exclusive (cid : String) (e : Int) (ops : List (Int × Option Int))
    (hne : ∀ o ∈ ops, o.1 ≠ e) (s : Store) (hreg : Registered s cid) :
    casWins (some e) (casSeq s cid ops) ≤ 1 := by
  induction ops generalizing s with
  | nil => simp [casSeq, casWins]
  | cons o rest ih =>
    obtain ⟨t, ex⟩ := o
    have hrest : ∀ o ∈ rest, o.1 ≠ e := fun o ho => hne o (List.mem_cons_of_mem _ ho)
    have hte : t ≠ e := hne (t, ex) (by simp)
    rcases cas_result s cid t ex hreg with ⟨_, _, hfail⟩ | ⟨hex, hok, hset⟩
    · simp only [casSeq, hfail, casWins, List.filter_cons, Bool.and_false, Bool.false_eq_true, if_false]
      exact ih hrest s hreg
    · have hnext : (s.casLastCron cid t ex).1.lastCron.get? cid ≠ some e := by
        rw [hset]; intro h; cases h; exact hte rfl
      have h0 := no_cas_win_when_moved cid e rest hrest _ (cas_registered s cid t ex hreg) hnext
      simp only [casSeq, casWins, List.filter_cons, hok, Bool.and_true]
      simp only [casWins] at h0
      split <;> simp [h0]

/-- the full statement: whatever two runners expected (in particular "nothing stored yet"), at most one wins -/
def CasExclusiveStatement : Prop :=
  ∀ (s : Store) (cid : String) (ex : Option Int) (ops : List (Int × Option Int)),
    Registered s cid → (∀ o ∈ ops, some o.1 ≠ ex) → casWins ex (casSeq s cid ops) ≤ 1

/-- **Refutation.**  When nothing is stored yet the comparison is skipped (`expected_last_execution is
    not None and …`): two runners that both read "never executed" both store and both fire the first tick. -/
theorem cas_exclusive_refuted_when_never_executed : ¬ CasExclusiveStatement := by
  intro h
  have := h {} "cron_* * * * *" none [(60, none), (61, none)] (Or.inl rfl) (by simp)
  revert this
  decide

example : casSeq {} "c" [(10, none), (70, some 10), (71, some 10), (130, some 70)]
    = [(none, true), (some 10, true), (some 10, false), (some 70, true)] := by decide


/-! ## 3. one loop iteration -/

/-- how many launches were made for run id `r` -/
def launchCount (r : RunId) (ls : List (RunId × Launch)) : Nat := (ls.filter (fun l => decide (l.1 = r))).length

private theorem launchCount_append (r : RunId) (a b : List (RunId × Launch)) :
    launchCount r (a ++ b) = launchCount r a + launchCount r b := by
  simp [launchCount, List.filter_append]

private theorem runPlan_acc (s : Store) (now x : Int) (rs : List Run) (acc : List (RunId × Launch)) :
    (runPlan s now x rs acc).launches = acc ++ (runPlan s now x rs []).launches ∧
    (runPlan s now x rs acc).store = (runPlan s now x rs []).store ∧
    (runPlan s now x rs acc).raised = (runPlan s now x rs []).raised := by
  induction rs generalizing s acc with
  | nil => simp [runPlan]
  | cons r rest ih =>
    simp only [runPlan]
    cases hok : (s.claim r.rid now x).2 with
    | false =>
      simp only [Bool.false_eq_true, if_false]
      exact ih _ acc
    | true =>
      simp only [if_true]
      cases hargs : r.args with
      | none => simp
      | some a =>
        obtain ⟨tag, src⟩ := a
        simp only
        have h1 := ih (s.claim r.rid now x).1 (acc ++ [(r.rid, { task := r.task, tag := tag, src := src })])
        have h2 := ih (s.claim r.rid now x).1 ([] ++ [(r.rid, { task := r.task, tag := tag, src := src })])
        refine ⟨?_, ?_, ?_⟩
        · rw [h1.1, h2.1]; simp
        · rw [h1.2.1, h2.2.1]
        · rw [h1.2.2, h2.2.2]

private theorem runPlan_none_while_held (r : RunId) (now x e : Int) (rs : List Run) (s : Store)
    (hg : s.claims.get? r = some e) (hgt : now < e) :
    launchCount r (runPlan s now x rs []).launches = 0 := by
  induction rs generalizing s with
  | nil => simp [runPlan, launchCount]
  | cons h rest ih =>
    simp only [runPlan]
    by_cases hr : h.rid = r
    · rw [hr, claim_fails_while_held s r now x e hg hgt]
      simp only [Bool.false_eq_true, if_false]
      exact ih s hg
    · have hg' : (s.claim h.rid now x).1.claims.get? r = some e := by rw [claim_other s r h.rid now x hr]; exact hg
      cases hok : (s.claim h.rid now x).2 with
      | false => simp only [Bool.false_eq_true, if_false]; exact ih _ hg'
      | true =>
        simp only [if_true]
        cases hargs : h.args with
        | none => simp [launchCount]
        | some a =>
          obtain ⟨tag, src⟩ := a
          simp only
          rw [(runPlan_acc _ now x rest _).1, launchCount_append, ih _ hg']
          simp [launchCount, hr]

/-- **Within one loop iteration a run id is launched at most once**, whatever the list of runs (run ids
    may even repeat) and whatever claims exist: the launch follows a successful claim, and a claim
    that was just won cannot be won again. -/
theorem iteration_launch_le_one (r : RunId) (now x : Int) (hx : 0 < x) (rs : List Run) (s : Store) :
    launchCount r (runPlan s now x rs []).launches ≤ 1 := by
  induction rs generalizing s with
  | nil => simp [runPlan, launchCount]
  | cons h rest ih =>
    simp only [runPlan]
    cases hok : (s.claim h.rid now x).2 with
    | false => simp only [Bool.false_eq_true, if_false]; exact ih _
    | true =>
      simp only [if_true]
      cases hargs : h.args with
      | none => simp [launchCount]
      | some a =>
        obtain ⟨tag, src⟩ := a
        simp only
        rw [(runPlan_acc _ now x rest _).1, launchCount_append]
        by_cases hr : h.rid = r
        · have hheld := claim_ok_held s h.rid now x hok
          rw [hr] at hheld
          have h0 := runPlan_none_while_held r now x (now + x) rest (s.claim h.rid now x).1 (by rw [hr]; exact hheld) (by omega)
          rw [h0]; simp [launchCount, hr]
        · have := ih (s.claim h.rid now x).1
          simp only [launchCount, List.nil_append, List.filter_cons, hr, decide_false, Bool.false_eq_true, if_false,
            List.filter_nil, List.length_nil, Nat.zero_add] at this ⊢
          exact this

/-- **... and exactly once** when the run is planned, its run id is free (or its claim expired) and no
    argument provider of the iteration raises. -/
theorem iteration_launch_eq_one (r : RunId) (now x : Int) (hx : 0 < x) (rs : List Run) (s : Store)
    (hmem : r ∈ rs.map Run.rid) (hfree : ∀ e, s.claims.get? r = some e → e ≤ now)
    (hargs : ∀ h ∈ rs, h.args ≠ none) :
    launchCount r (runPlan s now x rs []).launches = 1 := by
  induction rs generalizing s with
  | nil => simp at hmem
  | cons h rest ih =>
    have hrest : ∀ h ∈ rest, h.args ≠ none := fun h' hh => hargs h' (List.mem_cons_of_mem _ hh)
    simp only [runPlan]
    cases ha : h.args with
    | none => exact absurd ha (hargs h (by simp))
    | some a =>
      obtain ⟨tag, src⟩ := a
      by_cases hr : h.rid = r
      · have hok : (s.claim h.rid now x).2 = true := claim_first_wins s h.rid now x (by rw [hr]; exact hfree)
        simp only [hok, if_true]
        rw [(runPlan_acc _ now x rest _).1, launchCount_append]
        have hheld := claim_ok_held s h.rid now x hok
        have h0 := runPlan_none_while_held r now x (now + x) rest (s.claim h.rid now x).1 (by rw [← hr]; exact hheld) (by omega)
        rw [h0]; simp [launchCount, hr]
      · have hmem' : r ∈ rest.map Run.rid := by
          simp only [List.map_cons, List.mem_cons] at hmem
          rcases hmem with hm | hm
          · exact absurd hm.symm hr
          · exact hm
        have hfree' : ∀ e, (s.claim h.rid now x).1.claims.get? r = some e → e ≤ now := by
          intro e he; rw [claim_other s r h.rid now x hr] at he; exact hfree e he
        cases hok : (s.claim h.rid now x).2 with
        | false => simp only [Bool.false_eq_true, if_false]; exact ih _ hmem' hfree' hrest
        | true =>
          simp only [if_true]
          rw [(runPlan_acc _ now x rest _).1, launchCount_append, ih _ hmem' hfree' hrest]
          simp [launchCount, hr]


private theorem mem_dedup {α : Type} [DecidableEq α] (l : List α) (x : α) : x ∈ dedup l ↔ x ∈ l := by
  induction l with
  | nil => simp [dedup]
  | cons y ys ih =>
    simp only [dedup, List.mem_cons, List.mem_filter, decide_eq_true_eq, ih]
    constructor
    · rintro (h | ⟨h, _⟩)
      · exact Or.inl h
      · exact Or.inr h
    · rintro (h | h)
      · exact Or.inl h
      · by_cases hxy : x = y
        · exact Or.inl hxy
        · exact Or.inr ⟨h, hxy⟩

private theorem mem_triggersFor (s : Store) (c : String) (t : Trig) :
    t ∈ s.triggersFor c ↔ ∃ p ∈ s.condTrigs, p.1 = c ∧ s.trigs.get? p.2 = some t := by
  unfold Store.triggersFor
  simp only [List.mem_filterMap, List.mem_filter, decide_eq_true_eq]
  constructor
  · rintro ⟨p, ⟨hp, hc⟩, ht⟩; exact ⟨p, hp, hc, ht⟩
  · rintro ⟨p, hp, hc, ht⟩; exact ⟨p, ⟨hp, hc⟩, ht⟩

/-- `t` is stored under its own id and linked from each of its conditions (`register_trigger`) -/
def TrigRegistered (s : Store) (t : Trig) : Prop :=
  s.trigs.get? t.id = some t ∧ ∀ c ∈ t.conds, (c, t.id) ∈ s.condTrigs

/-- the store's two trigger tables are consistent: a trigger is stored under its own id, and a
    `(condition, trigger)` link exists only for conditions the trigger lists -/
def TrigsWF (s : Store) : Prop :=
  (∀ k t, s.trigs.get? k = some t → t.id = k) ∧
  (∀ p ∈ s.condTrigs, ∀ t, s.trigs.get? p.2 = some t → p.1 ∈ t.conds)

private theorem registered_mem_triggersFor (s : Store) (t : Trig) (hr : TrigRegistered s t) (c : String) (hc : c ∈ t.conds) :
    t ∈ s.triggersFor c :=
  (mem_triggersFor s c t).2 ⟨(c, t.id), hr.2 c hc, rfl, hr.1⟩

private theorem mem_affectedTrigs (s : Store) (vcs : List VC) (t : Trig) :
    t ∈ affectedTrigs s vcs ↔ ∃ v ∈ vcs, t ∈ s.triggersFor v.cond := by
  unfold affectedTrigs
  rw [mem_dedup]
  simp [List.mem_flatMap]

private theorem mem_ctxOf (s : Store) (vcs : List VC) (t : Trig) (v : VC) :
    v ∈ ctxOf s vcs t ↔ v ∈ vcs ∧ ∃ u ∈ s.triggersFor v.cond, u.id = t.id := by
  unfold ctxOf
  simp [List.mem_filter]

/-- with consistent tables, the context of a registered trigger is exactly the pending occurrences of its conditions -/
private theorem mem_ctxOf_iff (s : Store) (hwf : TrigsWF s) (vcs : List VC) (t : Trig) (hr : TrigRegistered s t) (v : VC) :
    v ∈ ctxOf s vcs t ↔ v ∈ vcs ∧ v.cond ∈ t.conds := by
  rw [mem_ctxOf]
  constructor
  · rintro ⟨hv, u, hu, hid⟩
    refine ⟨hv, ?_⟩
    obtain ⟨p, hp, hc, hget⟩ := (mem_triggersFor s v.cond u).1 hu
    have hk := hwf.1 _ _ hget
    have : u = t := by
      have h1 : s.trigs.get? t.id = some u := by rw [← hid, hk]; exact hget
      rw [hr.1] at h1; cases h1; rfl
    subst this
    rw [← hc]; exact hwf.2 p hp u hget
  · rintro ⟨hv, hc⟩
    exact ⟨hv, t, registered_mem_triggersFor s t hr v.cond hc, rfl⟩

private theorem mem_plan_runs (s : Store) (r : Run) :
    r ∈ (plan s).runs ↔ ∃ t ∈ affectedTrigs s s.valid,
      shouldTrigger t (ctxOf s s.valid t) = true ∧ r ∈ runsOf t (ctxOf s s.valid t) := by
  unfold plan affected
  simp only [List.mem_flatMap, List.mem_filter, List.mem_map]
  constructor
  · rintro ⟨p, ⟨⟨t, ht, rfl⟩, hs⟩, hr⟩; exact ⟨t, ht, hs, hr⟩
  · rintro ⟨t, ht, hs, hr⟩; exact ⟨(t, ctxOf s s.valid t), ⟨⟨t, ht, rfl⟩, hs⟩, hr⟩

/-- **An OR trigger plans one run per pending occurrence of any of its conditions**, with run id
    `trigger id + that occurrence's id`. -/
theorem or_run_planned (s : Store) (t : Trig) (hr : TrigRegistered s t) (hor : t.logic = .or)
    (v : VC) (hv : v ∈ s.valid) (hc : v.cond ∈ t.conds) :
    { rid := (t.id, [v.key]), task := t.task, args := provArgs t.prov (ctxOf s s.valid t) } ∈ (plan s).runs := by
  rw [mem_plan_runs]
  have hmem : t ∈ s.triggersFor v.cond := registered_mem_triggersFor s t hr v.cond hc
  have hctx : v ∈ ctxOf s s.valid t := (mem_ctxOf s s.valid t v).2 ⟨hv, t, hmem, rfl⟩
  refine ⟨t, (mem_affectedTrigs s s.valid t).2 ⟨v, hv, hmem⟩, ?_, ?_⟩
  · unfold shouldTrigger
    have hne : t.conds.isEmpty = false := by
      cases hcs : t.conds with
      | nil => rw [hcs] at hc; simp at hc
      | cons a b => rfl
    simp only [hne, Bool.false_eq_true, if_false, hor]
    simp only [List.any_eq_true, decide_eq_true_eq]
    exact ⟨v.cond, hc, v, hctx, rfl⟩
  · unfold runsOf
    simp only [hor, List.mem_map, List.mem_filter]
    exact ⟨v, ⟨hctx, by simpa using hc⟩, rfl⟩

private theorem sortKeys_single (k : VCKey) : sortKeys [k] = [k] := rfl

/-- **A trigger on a single condition (default logic AND) plans one run for *all* pending occurrences
    of that condition**: its run id covers the whole set. -/
theorem and_single_run_planned (s : Store) (hwf : TrigsWF s) (t : Trig) (hr : TrigRegistered s t)
    (hand : t.logic = .and) (c : String) (hc : t.conds = [c]) (v : VC) (hv : v ∈ s.valid) (hvc : v.cond = c) :
    { rid := (t.id, sortKeys ((s.valid.filter (fun w => w.cond = c)).map VC.key)), task := t.task,
      args := provArgs t.prov (ctxOf s s.valid t) } ∈ (plan s).runs := by
  rw [mem_plan_runs]
  have hcm : v.cond ∈ t.conds := by rw [hc, hvc]; simp
  have hmem : t ∈ s.triggersFor v.cond := registered_mem_triggersFor s t hr v.cond hcm
  have hctx : v ∈ ctxOf s s.valid t := (mem_ctxOf s s.valid t v).2 ⟨hv, t, hmem, rfl⟩
  have hctx_eq : (ctxOf s s.valid t).filter (fun w => t.conds.contains w.cond) = s.valid.filter (fun w => w.cond = c) := by
    unfold ctxOf
    rw [List.filter_filter]
    apply List.filter_congr
    intro w hw
    have := mem_ctxOf_iff s hwf s.valid t hr w
    rw [mem_ctxOf] at this
    by_cases hwc : w.cond = c
    · have h2 := this.2 ⟨hw, by rw [hc, hwc]; simp⟩
      obtain ⟨_, u, hu, hid⟩ := h2
      have hany : (s.triggersFor w.cond).any (fun u => decide (u.id = t.id)) = true := by
        simp only [List.any_eq_true, decide_eq_true_eq]; exact ⟨u, hu, hid⟩
      simp [hc, hwc]
      exact ⟨u, hwc ▸ hu, hid⟩
    · simp [hc, hwc]
  refine ⟨t, (mem_affectedTrigs s s.valid t).2 ⟨v, hv, hmem⟩, ?_, ?_⟩
  · unfold shouldTrigger
    simp only [hc, List.isEmpty_cons, Bool.false_eq_true, if_false, hand, List.all_cons, List.all_nil, Bool.and_true]
    simp only [List.any_eq_true, decide_eq_true_eq]
    exact ⟨v, hctx, hvc⟩
  · unfold runsOf
    simp only [hand, List.mem_singleton]
    rw [hctx_eq]



private theorem runsOf_rid (t : Trig) (ctx : List VC) (r : Run) (h : r ∈ runsOf t ctx) : r.rid.1 = t.id := by
  unfold runsOf at h
  cases hl : t.logic with
  | and => simp only [hl, List.mem_singleton] at h; rw [h]
  | or =>
    simp only [hl, List.mem_map] at h
    obtain ⟨v, _, rfl⟩ := h; rfl

private theorem affected_id_unique (s : Store) (hwf : TrigsWF s) (t : Trig) (hr : TrigRegistered s t) (u : Trig)
    (hu : u ∈ affectedTrigs s s.valid) (hid : u.id = t.id) : u = t := by
  obtain ⟨v, _, hm⟩ := (mem_affectedTrigs s s.valid u).1 hu
  obtain ⟨p, _, _, hget⟩ := (mem_triggersFor s v.cond u).1 hm
  have hk := hwf.1 _ _ hget
  have h1 : s.trigs.get? t.id = some u := by rw [← hid, hk]; exact hget
  rw [hr.1] at h1; cases h1; rfl

private theorem runPlan_valid (s : Store) (now x : Int) (rs : List Run) (acc : List (RunId × Launch)) :
    (runPlan s now x rs acc).store.valid = s.valid := by
  induction rs generalizing s acc with
  | nil => rfl
  | cons r rest ih =>
    have hv : (s.claim r.rid now x).1.valid = s.valid := by
      unfold Store.claim; split
      · split <;> rfl
      · rfl
    simp only [runPlan]
    cases hok : (s.claim r.rid now x).2 with
    | false => simp only [Bool.false_eq_true, if_false]; rw [ih]; exact hv
    | true =>
      simp only [if_true]
      cases ha : r.args with
      | none => exact hv
      | some a => obtain ⟨tag, src⟩ := a; simp only; rw [ih]; exact hv

private theorem runPlan_launch_src (s : Store) (now x : Int) (rs : List Run) (acc : List (RunId × Launch)) :
    ∀ l ∈ (runPlan s now x rs acc).launches, l ∈ acc ∨ ∃ r ∈ rs, l.1 = r.rid ∧ l.2.task = r.task ∧
      r.args = some (l.2.tag, l.2.src) := by
  induction rs generalizing s acc with
  | nil => intro l hl; exact Or.inl hl
  | cons r rest ih =>
    simp only [runPlan]
    cases hok : (s.claim r.rid now x).2 with
    | false =>
      simp only [Bool.false_eq_true, if_false]
      intro l hl
      rcases ih _ acc l hl with h | ⟨r', hr', h⟩
      · exact Or.inl h
      · exact Or.inr ⟨r', List.mem_cons_of_mem _ hr', h⟩
    | true =>
      simp only [if_true]
      cases ha : r.args with
      | none => intro l hl; exact Or.inl hl
      | some a =>
        obtain ⟨tag, src⟩ := a
        simp only
        intro l hl
        rcases ih _ _ l hl with h | ⟨r', hr', h⟩
        · rcases List.mem_append.1 h with h | h
          · exact Or.inl h
          · simp only [List.mem_singleton] at h
            subst h
            exact Or.inr ⟨r, by simp, rfl, rfl, ha⟩
        · exact Or.inr ⟨r', List.mem_cons_of_mem _ hr', h⟩

/-- pending occurrences after the trigger part of an iteration: untouched when a provider raised,
    else the snapshot minus the cleared ones -/
private theorem triggerPass_valid (s : Store) (now : Int) (v : VC) :
    v ∈ (triggerPass s now).store.valid ↔
      v ∈ s.valid ∧ ((triggerPass s now).raised = true ∨ v.key ∉ (plan s).clear) := by
  unfold triggerPass
  by_cases he : s.valid.isEmpty = true
  · simp only [he, if_true]
    have : s.valid = [] := by simpa using he
    simp [this]
  · simp only [he, Bool.false_eq_true, if_false]
    cases hr : (runPlan s now defaultExpiry (plan s).runs []).raised with
    | true => simp [runPlan_valid, hr]
    | false =>
      simp only [Bool.false_eq_true, if_false, Store.clearValid, runPlan_valid, List.mem_filter]
      simp

private theorem triggerPass_launch_src (s : Store) (now : Int) :
    ∀ l ∈ (triggerPass s now).launches, ∃ r ∈ (plan s).runs, l.1 = r.rid ∧ l.2.task = r.task ∧
      r.args = some (l.2.tag, l.2.src) := by
  unfold triggerPass
  by_cases he : s.valid.isEmpty = true
  · simp [he]
  · simp only [he, Bool.false_eq_true, if_false]
    intro l hl
    have hl' : l ∈ (runPlan s now defaultExpiry (plan s).runs []).launches := by
      split at hl <;> exact hl
    rcases runPlan_launch_src s now defaultExpiry (plan s).runs [] l hl' with h | h
    · simp at h
    · exact h

/-- **An AND trigger needs an occurrence of every one of its conditions.**  If one of its conditions
    has no pending occurrence, the iteration launches nothing for it and the occurrences already pending
    for its other conditions stay pending. -/
theorem and_needs_all (s : Store) (hwf : TrigsWF s) (t : Trig) (hr : TrigRegistered s t) (hand : t.logic = .and)
    (c : String) (hc : c ∈ t.conds) (hnone : ∀ v ∈ s.valid, v.cond ≠ c) (now : Int) :
    (∀ l ∈ (triggerPass s now).launches, l.1.1 ≠ t.id) ∧
    (∀ v ∈ s.valid, v.cond ∈ t.conds → v ∈ (triggerPass s now).store.valid) := by
  have hnot : shouldTrigger t (ctxOf s s.valid t) = false := by
    unfold shouldTrigger
    split
    · rfl
    · simp only [hand]
      apply Bool.eq_false_iff.2
      intro hall
      simp only [List.all_eq_true, List.any_eq_true, decide_eq_true_eq] at hall
      obtain ⟨v, hv, hvc⟩ := hall c hc
      exact hnone v ((mem_ctxOf s s.valid t v).1 hv).1 hvc
  constructor
  · intro l hl hid
    obtain ⟨r, hrm, hrid, _⟩ := triggerPass_launch_src s now l hl
    obtain ⟨u, hu, hready, hrun⟩ := (mem_plan_runs s r).1 hrm
    have hru := runsOf_rid u _ r hrun
    have : u = t := affected_id_unique s hwf t hr u hu (by rw [← hru, ← hrid]; exact hid)
    subst this
    rw [hnot] at hready; cases hready
  · intro v hv hvc
    rw [triggerPass_valid]
    refine ⟨hv, Or.inr ?_⟩
    unfold plan
    simp only [List.mem_map, List.mem_filter, not_exists, not_and]
    intro w hw hkey
    have hmem : t ∈ s.triggersFor v.cond := registered_mem_triggersFor s t hr v.cond hvc
    have hctx : v ∈ ctxOf s s.valid t := (mem_ctxOf s s.valid t v).2 ⟨hv, t, hmem, rfl⟩
    have haff : (t, ctxOf s s.valid t) ∈ affected s s.valid :=
      List.mem_map.2 ⟨t, (mem_affectedTrigs s s.valid t).2 ⟨v, hv, hmem⟩, rfl⟩
    have h2 := hw.2
    simp only [Bool.and_eq_true, Bool.not_eq_true', List.any_eq_false, List.mem_filter, Bool.not_eq_true',
      and_imp] at h2
    have := h2.2 (t, ctxOf s s.valid t) haff (by simpa using hnot)
    simp only [List.any_eq_true, decide_eq_true_eq, not_exists, not_and] at this
    exact this v hctx hkey.symm

private theorem triggerPass_launches (s : Store) (now : Int) (hne : s.valid.isEmpty = false) :
    (triggerPass s now).launches = (runPlan s now defaultExpiry (plan s).runs []).launches ∧
    (triggerPass s now).raised = (runPlan s now defaultExpiry (plan s).runs []).raised := by
  unfold triggerPass
  simp only [hne, Bool.false_eq_true, if_false]
  split <;> exact ⟨rfl, rfl⟩

/-- **Never twice in one iteration** — for any trigger, any logic, any store: a run id is launched at
    most once per `trigger_loop_iteration`. -/
theorem pass_launch_le_one (s : Store) (now : Int) (r : RunId) :
    launchCount r (triggerPass s now).launches ≤ 1 := by
  by_cases he : s.valid.isEmpty = true
  · unfold triggerPass; simp [he, launchCount]
  · rw [(triggerPass_launches s now (by simpa using he)).1]
    exact iteration_launch_le_one r now defaultExpiry (by decide) _ s

/-- no argument provider of the iteration raises -/
def ProvidersFit (s : Store) : Prop := ∀ r ∈ (plan s).runs, r.args ≠ none

instance (s : Store) : Decidable (ProvidersFit s) := by unfold ProvidersFit; infer_instance

/-- **An OR trigger launches exactly once per occurrence.**  Store with consistent tables, an OR
    trigger registered in it, an occurrence `v` of one of its conditions pending, its run id free (never
    claimed, or the claim expired), providers that fit: the iteration launches the trigger's task exactly
    once for `v` — however many other occurrences are pending, for this or any other condition. -/
theorem or_occurrence_launched_exactly_once (s : Store) (t : Trig) (hr : TrigRegistered s t) (hor : t.logic = .or)
    (v : VC) (hv : v ∈ s.valid) (hc : v.cond ∈ t.conds) (now : Int)
    (hfree : ∀ e, s.claims.get? (t.id, [v.key]) = some e → e ≤ now) (hfit : ProvidersFit s) :
    launchCount (t.id, [v.key]) (triggerPass s now).launches = 1 := by
  have hne : s.valid.isEmpty = false := by
    cases hs : s.valid with
    | nil => rw [hs] at hv; simp at hv
    | cons a b => rfl
  rw [(triggerPass_launches s now hne).1]
  apply iteration_launch_eq_one _ now defaultExpiry (by decide) _ s _ hfree hfit
  exact List.mem_map.2 ⟨_, or_run_planned s t hr hor v hv hc, rfl⟩

/-- **A single-condition trigger (default logic) launches exactly once when exactly one occurrence is pending.** -/
theorem single_condition_one_pending_launched_once (s : Store) (hwf : TrigsWF s) (t : Trig) (hr : TrigRegistered s t)
    (hand : t.logic = .and) (c : String) (hc : t.conds = [c]) (v : VC) (hvc : v.cond = c)
    (honly : s.valid.filter (fun w => w.cond = c) = [v]) (now : Int)
    (hfree : ∀ e, s.claims.get? (t.id, [v.key]) = some e → e ≤ now) (hfit : ProvidersFit s) :
    launchCount (t.id, [v.key]) (triggerPass s now).launches = 1 := by
  have hv : v ∈ s.valid := by
    have : v ∈ s.valid.filter (fun w => w.cond = c) := by rw [honly]; simp
    exact (List.mem_filter.1 this).1
  have hne : s.valid.isEmpty = false := by
    cases hs : s.valid with
    | nil => rw [hs] at hv; simp at hv
    | cons a b => rfl
  rw [(triggerPass_launches s now hne).1]
  apply iteration_launch_eq_one _ now defaultExpiry (by decide) _ s _ hfree hfit
  have := and_single_run_planned s hwf t hr hand c hc v hv hvc
  rw [honly] at this
  exact List.mem_map.2 ⟨_, this, rfl⟩

/-- the single run id of an AND trigger: its id + the ids of all pending occurrences of its conditions -/
def andRunId (s : Store) (t : Trig) : RunId :=
  (t.id, sortKeys (((ctxOf s s.valid t).filter (fun w => t.conds.contains w.cond)).map VC.key))

/-- **An AND trigger that has an occurrence of every condition launches once and consumes them.**
    If moreover every other trigger that depends on those occurrences is ready too, none of the
    occurrences is pending after the iteration. -/
theorem and_all_then_consumes (s : Store) (hwf : TrigsWF s) (t : Trig) (hr : TrigRegistered s t) (hand : t.logic = .and)
    (hne : t.conds ≠ []) (hall : ∀ c ∈ t.conds, ∃ v ∈ s.valid, v.cond = c)
    (hothers : ∀ u ∈ affectedTrigs s s.valid, shouldTrigger u (ctxOf s s.valid u) = true) (now : Int)
    (hfree : ∀ e, s.claims.get? (andRunId s t) = some e → e ≤ now)
    (hfit : ProvidersFit s) :
    launchCount (andRunId s t)
      (triggerPass s now).launches = 1 ∧
    (∀ l ∈ (triggerPass s now).launches, l.1.1 = t.id →
      l.1 = andRunId s t) ∧
    ((triggerPass s now).raised = false → ∀ v ∈ s.valid, v.cond ∈ t.conds → v ∉ (triggerPass s now).store.valid) := by
  obtain ⟨c0, hc0⟩ := List.exists_mem_of_ne_nil _ hne
  obtain ⟨v0, hv0, hv0c⟩ := hall c0 hc0
  have hnemp : s.valid.isEmpty = false := by
    cases hs : s.valid with
    | nil => rw [hs] at hv0; simp at hv0
    | cons a b => rfl
  have hmem0 : t ∈ s.triggersFor v0.cond := registered_mem_triggersFor s t hr v0.cond (by rw [hv0c]; exact hc0)
  have haff : t ∈ affectedTrigs s s.valid := (mem_affectedTrigs s s.valid t).2 ⟨v0, hv0, hmem0⟩
  have hready : shouldTrigger t (ctxOf s s.valid t) = true := hothers t haff
  have hrun : ({ rid := andRunId s t, task := t.task, args := provArgs t.prov (ctxOf s s.valid t) } : Run) ∈ (plan s).runs := by
    rw [mem_plan_runs]
    refine ⟨t, haff, hready, ?_⟩
    unfold runsOf andRunId; simp [hand]
  refine ⟨?_, ?_, ?_⟩
  · rw [(triggerPass_launches s now hnemp).1]
    apply iteration_launch_eq_one _ now defaultExpiry (by decide) _ s _ hfree hfit
    exact List.mem_map.2 ⟨_, hrun, rfl⟩
  · intro l hl hid
    obtain ⟨r, hrm, hrid, _⟩ := triggerPass_launch_src s now l hl
    obtain ⟨u, hu, _, hrun'⟩ := (mem_plan_runs s r).1 hrm
    have hru := runsOf_rid u _ r hrun'
    have : u = t := affected_id_unique s hwf t hr u hu (by rw [← hru, ← hrid]; exact hid)
    subst this
    unfold runsOf at hrun'
    simp only [hand, List.mem_singleton] at hrun'
    rw [hrid, hrun']; rfl
  · intro hnr v hv hvc hin
    rw [triggerPass_valid] at hin
    rcases hin.2 with h | h
    · rw [hnr] at h; cases h
    · apply h
      unfold plan
      simp only [List.mem_map, List.mem_filter]
      refine ⟨v, ⟨hv, ?_⟩, rfl⟩
      have hmem : t ∈ s.triggersFor v.cond := registered_mem_triggersFor s t hr v.cond hvc
      have h1 : (s.triggersFor v.cond).isEmpty = false := by
        cases hs : s.triggersFor v.cond with
        | nil => rw [hs] at hmem; simp at hmem
        | cons a b => rfl
      simp only [h1, Bool.not_false, Bool.true_and, Bool.not_eq_true', List.any_eq_false, List.mem_filter,
        Bool.not_eq_true', and_imp]
      intro p hp hpn
      obtain ⟨u, hu, rfl⟩ := List.mem_map.1 hp
      have := hothers u hu
      simp only at hpn
      rw [this] at hpn; cases hpn



/-! ### arguments -/

private theorem find_unique {α : Type} (p : α → Bool) (l : List α) (v : α) (hv : v ∈ l) (hp : p v = true)
    (huniq : ∀ w ∈ l, p w = true → w = v) : l.find? p = some v := by
  induction l with
  | nil => simp at hv
  | cons x xs ih =>
    simp only [List.find?]
    cases hx : p x with
    | true => simp only; rw [huniq x (by simp) hx]
    | false =>
      simp only
      rcases List.mem_cons.1 hv with h | h
      · subst h; rw [hp] at hx; cases hx
      · exact ih h (fun w hw => huniq w (List.mem_cons_of_mem _ hw))

/-- **The arguments come from that occurrence — when it is the only pending one of its kind.**
    An OR trigger whose provider reads contexts of kind `k`: every launch made for the run of
    occurrence `v` carries the arguments the callback derives from `v`'s context, provided `v` is the only
    occurrence of a matching kind in the trigger's context. -/
theorem args_from_that_occurrence_partial (s : Store) (hwf : TrigsWF s) (t : Trig) (hr : TrigRegistered s t)
    (hor : t.logic = .or) (k : Kind) (hprov : t.prov = [.ctxType k]) (v : VC) (hv : v ∈ s.valid) (hc : v.cond ∈ t.conds)
    (hk : kindMatches k v.ctx.key.kind = true)
    (honly : ∀ w ∈ ctxOf s s.valid t, kindMatches k w.ctx.key.kind = true → w = v) (now : Int) :
    ∀ l ∈ (triggerPass s now).launches, l.1 = (t.id, [v.key]) → (l.2.tag, l.2.src) = callbackArgs k v.ctx := by
  intro l hl hrid
  obtain ⟨r, hrm, hrid', _, hargs⟩ := triggerPass_launch_src s now l hl
  obtain ⟨u, hu, _, hrun⟩ := (mem_plan_runs s r).1 hrm
  have hru := runsOf_rid u _ r hrun
  have hut : u = t := affected_id_unique s hwf t hr u hu (by rw [← hru, ← hrid', hrid])
  subst hut
  have hctx : v ∈ ctxOf s s.valid u :=
    (mem_ctxOf s s.valid u v).2 ⟨hv, u, registered_mem_triggersFor s u hr v.cond hc, rfl⟩
  have hra : r.args = provArgs u.prov (ctxOf s s.valid u) := by
    unfold runsOf at hrun
    simp only [hor, List.mem_map] at hrun
    obtain ⟨w, _, rfl⟩ := hrun; rfl
  rw [hra, hprov] at hargs
  simp only [provArgs, List.findSome?, provItemArgs] at hargs
  rw [find_unique _ _ v hctx hk honly] at hargs
  simp only [Option.map_some] at hargs
  cases hcb : callbackArgs k v.ctx with
  | mk a b =>
    rw [hcb] at hargs
    simp at hargs
    rw [hargs.1, hargs.2]

/-- the full statement: whatever else is pending -/
def ArgsFromThatOccurrenceStatement : Prop :=
  ∀ (s : Store) (t : Trig) (k : Kind) (v : VC) (now : Int), TrigsWF s → TrigRegistered s t → t.logic = .or →
    t.prov = [.ctxType k] → v ∈ s.valid → v.cond ∈ t.conds → kindMatches k v.ctx.key.kind = true →
    ∀ l ∈ (triggerPass s now).launches, l.1 = (t.id, [v.key]) → (l.2.tag, l.2.src) = callbackArgs k v.ctx

def evC : Cond := { id := "ev", spec := .event "ping" }
def ev2C : Cond := { id := "ev2", spec := .event "pong" }
def trigSingle : Trig := { id := "T1", task := "target", conds := ["ev"], logic := .and, prov := [.ctxType .event] }
def trigOr : Trig := { id := "T2", task := "target2", conds := ["ev"], logic := .or, prov := [.ctxType .event] }
def trigBoth : Trig := { id := "T3", task := "target2", conds := ["ev", "ev2"], logic := .and, prov := [] }
def ping1 : Ctx := { key := .event "ping" "e1", n := "1" }
def ping2 : Ctx := { key := .event "ping" "e2", n := "2" }
/-- one trigger on the event `ping`, two `ping`s emitted before the loop runs -/
def twoPings (t : Trig) : Store :=
  (((({} : Store).registerCond evC).registerTrigger t).report ping1 "").report ping2 ""

private theorem amap_get_mem {α β : Type} [DecidableEq α] (m : AMap α β) (k : α) (v : β) (h : m.get? k = some v) : (k, v) ∈ m := by
  induction m with
  | nil => simp at h
  | cons p rest ih =>
    obtain ⟨k', v'⟩ := p
    simp only [AMap.get?] at h
    by_cases hk : k' = k
    · simp only [hk, if_true, Option.some.injEq] at h; subst h; subst hk; simp
    · simp only [hk, if_false] at h; exact List.mem_cons_of_mem _ (ih h)

/-- executable check of `TrigsWF` -/
def wfCheck (s : Store) : Bool :=
  s.trigs.all (fun p => decide (p.2.id = p.1)) &&
  s.condTrigs.all (fun p => match s.trigs.get? p.2 with | some t => t.conds.contains p.1 | none => true)

private theorem wf_of_check (s : Store) (h : wfCheck s = true) : TrigsWF s := by
  unfold wfCheck at h
  simp only [Bool.and_eq_true, List.all_eq_true, decide_eq_true_eq] at h
  refine ⟨?_, ?_⟩
  · intro k t hg; exact h.1 (k, t) (amap_get_mem _ _ _ hg)
  · intro p hp t hg
    have := h.2 p hp
    simp only [hg] at this
    simpa using this

/-- executable check of `TrigRegistered` -/
def regCheck (s : Store) (t : Trig) : Bool :=
  decide (s.trigs.get? t.id = some t) && t.conds.all (fun c => s.condTrigs.contains (c, t.id))

private theorem registered_of_check (s : Store) (t : Trig) (h : regCheck s t = true) : TrigRegistered s t := by
  unfold regCheck at h
  simp only [Bool.and_eq_true, decide_eq_true_eq, List.all_eq_true, List.contains_iff_mem] at h
  exact ⟨h.1, fun c hc => h.2 c hc⟩

/-- **Refutation.**  With two `ping`s pending, the OR trigger launches twice — both times with the
    arguments of the *first* `ping` (`ContextTypeArgumentProvider` takes the first context of its type). -/
theorem args_from_that_occurrence_refuted : ¬ ArgsFromThatOccurrenceStatement := by
  intro h
  have hw : TrigsWF (twoPings trigOr) ∧ TrigRegistered (twoPings trigOr) trigOr :=
    ⟨wf_of_check _ (by decide +kernel), registered_of_check _ _ (by decide +kernel)⟩
  have := h (twoPings trigOr) trigOr .event { cond := "ev", ctx := ping2 } 0 hw.1 hw.2 rfl rfl
    (by decide +kernel) (by decide) (by decide)
    (("T2", [("ev", .event "ping" "e2")]), { task := "target2", tag := "1", src := "event:e1" }) (by decide +kernel) rfl
  revert this
  decide

/-! ### one launch per occurrence: the full statement and why it fails for the default logic -/

/-- launches of trigger `t` in one iteration -/
def launchesOf (t : Trig) (ls : List (RunId × Launch)) : Nat := (ls.filter (fun l => decide (l.1.1 = t.id))).length

/-- the full statement of the property for triggers on one condition: one launch per pending occurrence -/
def OnePerOccurrenceStatement : Prop :=
  ∀ (s : Store) (t : Trig) (c : String) (now : Int), TrigsWF s → TrigRegistered s t → t.conds = [c] →
    s.claims = [] → ProvidersFit s →
    launchesOf t (triggerPass s now).launches = (s.valid.filter (fun v => v.cond = c)).length

/-- **Refutation.**  The default logic is AND: with two `ping`s pending, a trigger on `ping` alone
    launches once (one run id for the set) and both occurrences are cleared. -/
theorem one_per_occurrence_refuted_default_logic : ¬ OnePerOccurrenceStatement := by
  intro h
  have hw : TrigsWF (twoPings trigSingle) ∧ TrigRegistered (twoPings trigSingle) trigSingle :=
    ⟨wf_of_check _ (by decide +kernel), registered_of_check _ _ (by decide +kernel)⟩
  have := h (twoPings trigSingle) trigSingle "ev" 0 hw.1 hw.2 rfl rfl (by decide +kernel)
  revert this
  decide +kernel

/-- what the model (and the code) does with two pending `ping`s and a trigger on `ping` alone: one launch, with the
    first one's arguments, and both occurrences cleared -/
theorem default_and_coalesces_witness :
    (triggerPass (twoPings trigSingle) 0).launches.map (·.2) = [{ task := "target", tag := "1", src := "event:e1" }] ∧
    (triggerPass (twoPings trigSingle) 0).store.valid = [] := by
  decide +kernel

/-! ### never twice across iterations -/

private theorem runPlan_claim_kept (r : RunId) (now x e : Int) (rs : List Run) (s : Store) (acc : List (RunId × Launch))
    (hg : s.claims.get? r = some e) (hgt : now < e) : (runPlan s now x rs acc).store.claims.get? r = some e := by
  induction rs generalizing s acc with
  | nil => exact hg
  | cons h rest ih =>
    simp only [runPlan]
    have hg' : (s.claim h.rid now x).1.claims.get? r = some e := by
      by_cases hr : h.rid = r
      · rw [hr, claim_fails_while_held s r now x e hg hgt]; exact hg
      · rw [claim_other s r h.rid now x hr]; exact hg
    cases hok : (s.claim h.rid now x).2 with
    | false => simp only [Bool.false_eq_true, if_false]; exact ih _ _ hg'
    | true =>
      simp only [if_true]
      cases ha : h.args with
      | none => exact hg'
      | some a => obtain ⟨tag, src⟩ := a; simp only; exact ih _ _ hg'

private theorem runPlan_launched_held (r : RunId) (now x : Int) (hx : 0 < x) (rs : List Run) (s : Store)
    (h : 1 ≤ launchCount r (runPlan s now x rs []).launches) :
    (runPlan s now x rs []).store.claims.get? r = some (now + x) := by
  induction rs generalizing s with
  | nil => simp [runPlan, launchCount] at h
  | cons hd rest ih =>
    simp only [runPlan] at h ⊢
    cases hok : (s.claim hd.rid now x).2 with
    | false => simp only [hok, Bool.false_eq_true, if_false] at h ⊢; exact ih _ h
    | true =>
      simp only [hok, if_true] at h ⊢
      cases ha : hd.args with
      | none => simp [ha, launchCount] at h
      | some a =>
        obtain ⟨tag, src⟩ := a
        simp only [ha] at h ⊢
        rw [(runPlan_acc _ now x rest _).2.1]
        by_cases hr : hd.rid = r
        · have hheld := claim_ok_held s hd.rid now x hok
          rw [hr] at hheld
          exact runPlan_claim_kept r now x (now + x) rest _ [] (by rw [hr]; exact hheld) (by omega)
        · rw [(runPlan_acc _ now x rest _).1, launchCount_append] at h
          have : launchCount r ([] ++ [(hd.rid, ({ task := hd.task, tag := tag, src := src } : Launch))]) = 0 := by
            simp [launchCount, hr]
          exact ih _ (by omega)

/-- **Never twice across iterations, until the claim expires.**  If an iteration at `now₁` launched run
    `r`, no iteration at any `now₂` with `now₁ ≤ now₂ < now₁ + 60 s` launches `r` again — by the same
    runner or another, whatever has been recorded or cleared in between (any store `s'` that kept the
    claim table entry of `r`). -/
theorem never_twice_within_expiry (s s' : Store) (r : RunId) (now1 now2 : Int)
    (hl : launchCount r (triggerPass s now1).launches = 1)
    (hkeep : s'.claims.get? r = (triggerPass s now1).store.claims.get? r)
    (h2 : now2 < now1 + defaultExpiry) : launchCount r (triggerPass s' now2).launches = 0 := by
  have hne : s.valid.isEmpty = false := by
    cases hs : s.valid.isEmpty with
    | false => rfl
    | true => unfold triggerPass at hl; simp [hs, launchCount] at hl
  have hheld : (triggerPass s now1).store.claims.get? r = some (now1 + defaultExpiry) := by
    have h1 := runPlan_launched_held r now1 defaultExpiry (by decide) (plan s).runs s
      (by rw [← (triggerPass_launches s now1 hne).1, hl]; exact Nat.le_refl 1)
    unfold triggerPass
    simp only [hne, Bool.false_eq_true, if_false]
    split
    · exact h1
    · exact h1
  by_cases he : s'.valid.isEmpty = true
  · unfold triggerPass; simp [he, launchCount]
  · rw [(triggerPass_launches s' now2 (by simpa using he)).1]
    exact runPlan_none_while_held r now2 defaultExpiry (now1 + defaultExpiry) _ s' (by rw [hkeep]; exact hheld) h2

/-- the full statement: an occurrence never launches a trigger twice, however long it stays pending -/
def NeverTwiceStatement : Prop :=
  ∀ (s : Store) (r : RunId) (now1 now2 : Int), now1 ≤ now2 →
    launchCount r (triggerPass s now1).launches = 1 →
    launchCount r (triggerPass (triggerPass s now1).store now2).launches = 0

/-- one `ping` pending; `T1` depends on `ping` alone, `T3` needs `ping` AND `pong` -/
def sharedPing : Store :=
  ((((({} : Store).registerCond evC).registerCond ev2C).registerTrigger trigSingle).registerTrigger trigBoth).report ping1 ""

/-- **Refutation.**  The occurrence stays pending because the AND trigger `T3` still waits for `pong`;
    61 s later the claim of `T1`'s run has expired and `T1` launches again for the same `ping`. -/
theorem never_twice_refuted_after_expiry : ¬ NeverTwiceStatement := by
  intro h
  have := h sharedPing ("T1", [("ev", .event "ping" "e1")]) 0 61000000 (by decide) (by decide +kernel)
  revert this
  decide +kernel

/-! ### cron bookkeeping of the two stores -/

/-- **A cron condition fires only when the schedule says so — also the very first time.**  Whatever the
    runner has cached and whatever is stored (nothing included), `_should_trigger_cron_condition` records an
    occurrence only if `is_satisfied_by` holds for the stored last execution. -/
theorem cron_step_fires_only_when_satisfied (s : Store) (cache : AMap String Int) (cid : String) (e : Cron.Expr)
    (cfg : Cron.Cfg) (now : Int) (h : (cronStep s cache cid e cfg now).2.2 = true) :
    cronSat e cfg now (s.getLastCron cid) = true := by
  unfold cronStep at h
  by_cases h1 : cachedBlocks cache cid e cfg now = true
  · simp [h1] at h
  · by_cases h2 : cronSat e cfg now (s.getLastCron cid) = true
    · exact h2
    · simp [h1, h2] at h

/-- ... and when it does fire, the last execution stored is this poll -/
theorem cron_step_fired_stores_now (s : Store) (cache : AMap String Int) (cid : String) (e : Cron.Expr)
    (cfg : Cron.Cfg) (now : Int) (hreg : Registered s cid)
    (h : (cronStep s cache cid e cfg now).2.2 = true) :
    (cronStep s cache cid e cfg now).1.getLastCron cid = some now := by
  unfold cronStep at h ⊢
  by_cases h1 : cachedBlocks cache cid e cfg now = true
  · simp [h1] at h
  · by_cases h2 : cronSat e cfg now (s.getLastCron cid) = true
    · cases hok : (s.casLastCron cid now (s.getLastCron cid)).2 with
      | false => simp [h1, h2, hok] at h
      | true =>
        simp only [h1, h2, Bool.not_true, Bool.false_eq_true, if_false, if_true]
        have hset : (s.casLastCron cid now (s.getLastCron cid)).1.lastCron.get? cid = some now := by
          rcases cas_result s cid now (s.getLastCron cid) hreg with ⟨_, _, hfail⟩ | ⟨_, _, hs⟩
          · rw [hfail] at hok; cases hok
          · exact hs
        simpa [Store.getLastCron, Store.recordValid] using hset
    · simp [h1, h2] at h

/-- **Registering a cron condition again keeps its last execution, on both backends** (a second process
    starting up on the same SQLite file does not make the current minute fire again). -/
theorem reregister_keeps_last_cron (s : Store) (c : Cond) (cid : String) :
    (s.registerCond c).getLastCron cid = s.getLastCron cid := rfl

/-! ## 4. concurrent loop iterations -/

private theorem claim_fail_held (s : Store) (r : RunId) (now x : Int) (h : (s.claim r now x).2 = false) :
    ∃ e, s.claims.get? r = some e ∧ now < e := by
  unfold Store.claim at h
  cases hg : s.claims.get? r with
  | none => simp [hg] at h
  | some e =>
    simp only [hg] at h
    by_cases hgt : e > now
    · exact ⟨e, rfl, hgt⟩
    · simp [hgt] at h

/-! ### concurrent loop iterations -/

/-- run ids a runner has tried to claim so far in its iteration -/
def seenOf : PC → List RunId
  | .idle => []
  | .claiming seen _ _ => seen
  | .won seen _ _ _ => seen
  | .done seen => seen
  | .aborted => []

/-- runner state "claimed `r`, launch not yet made" -/
def holdsRun (p : PC) (r : RunId) : Prop := ∃ seen run rest clr, p = .won seen run rest clr ∧ run.rid = r

/-- the claim of `r` is held beyond the window `[T0, T0 + expiry)` -/
def Held (y : Sys) (r : RunId) (T0 : Int) : Prop :=
  ∃ e, y.store.claims.get? r = some e ∧ T0 + defaultExpiry ≤ e

/-- what holds in every reachable state of any number of concurrent loop iterations (for one run id) -/
structure ConcInv (y : Sys) (r : RunId) (T0 : Int) : Prop where
  free_or_held : (∀ e, y.store.claims.get? r = some e → e ≤ T0) ∨ Held y r T0
  held_cause : Held y r T0 → (∃ i, holdsRun (y.pcs i) r) ∨ 1 ≤ launchCount r y.launched
  holder_unique : ∀ i j, holdsRun (y.pcs i) r → holdsRun (y.pcs j) r → i = j
  holder_not_launched : ∀ i, holdsRun (y.pcs i) r → launchCount r y.launched = 0
  le_one : launchCount r y.launched ≤ 1
  seen_held : ∀ i, r ∈ seenOf (y.pcs i) → Held y r T0
  holder_held : ∀ i, holdsRun (y.pcs i) r → Held y r T0
  launched_held : 1 ≤ launchCount r y.launched → Held y r T0
  fits : ∀ i seen run rest clr, y.pcs i = .won seen run rest clr → run.rid = r → run.args ≠ none
  fits_todo : ∀ i seen todo clr, y.pcs i = .claiming seen todo clr → ∀ run ∈ todo, run.rid = r → run.args ≠ none
  fits_rest : ∀ i seen run rest clr, y.pcs i = .won seen run rest clr → ∀ q ∈ rest, q.rid = r → q.args ≠ none

private theorem updPC_self (f : Nat → PC) (i : Nat) (p : PC) : updPC f i p i = p := by simp [updPC]
private theorem updPC_other (f : Nat → PC) (i j : Nat) (p : PC) (h : j ≠ i) : updPC f i p j = f j := by simp [updPC, h]

/-- the provider of `r`'s trigger never raises, whatever is pending -/
def RunFits (s0 : Store) (r : RunId) : Prop :=
  ∀ s : Store, s.trigs = s0.trigs → s.condTrigs = s0.condTrigs → ∀ run ∈ (plan s).runs, run.rid = r → run.args ≠ none

/-- the trigger tables are those of `s0` (no step of a loop iteration registers or removes a trigger) -/
def SameTables (s0 : Store) (y : Sys) : Prop := y.store.trigs = s0.trigs ∧ y.store.condTrigs = s0.condTrigs

private theorem claim_tables (s : Store) (r : RunId) (now x : Int) :
    (s.claim r now x).1.trigs = s.trigs ∧ (s.claim r now x).1.condTrigs = s.condTrigs := by
  unfold Store.claim
  split
  · split <;> exact ⟨rfl, rfl⟩
  · exact ⟨rfl, rfl⟩

private theorem step_tables (s0 : Store) (y : Sys) (i : Nat) (now : Int) (h : SameTables s0 y) : SameTables s0 (y.step i now) := by
  unfold Sys.step SameTables
  cases hp : y.pcs i with
  | idle => simp only; split <;> exact h
  | claiming seen todo clr =>
    cases todo with
    | nil => exact h
    | cons run rest =>
      simp only
      have := claim_tables y.store run.rid now defaultExpiry
      exact ⟨by rw [this.1]; exact h.1, by rw [this.2]; exact h.2⟩
  | won seen run rest clr =>
    simp only
    cases run.args with
    | none => exact h
    | some a => obtain ⟨tag, src⟩ := a; exact h
  | done seen => exact h
  | aborted => exact h

/-- a step of runner `i` that neither touches the claim of `r` nor launches for `r`, and after which
    `i` does not hold `r` (and did not before) -/
private theorem inv_frame (y y' : Sys) (r : RunId) (T0 : Int) (i : Nat) (p' : PC) (inv : ConcInv y r T0)
    (hs : y'.store.claims.get? r = y.store.claims.get? r)
    (hl : launchCount r y'.launched = launchCount r y.launched)
    (hpcs : y'.pcs = updPC y.pcs i p')
    (hold : ¬ holdsRun (y.pcs i) r) (hnh : ¬ holdsRun p' r)
    (hseen : r ∈ seenOf p' → Held y r T0)
    (hfit2 : ∀ seen todo clr, p' = .claiming seen todo clr → ∀ run ∈ todo, run.rid = r → run.args ≠ none)
    (hfit3 : ∀ seen run rest clr, p' = .won seen run rest clr → ∀ q ∈ rest, q.rid = r → q.args ≠ none) :
    ConcInv y' r T0 := by
  have hheld : Held y' r T0 ↔ Held y r T0 := by unfold Held; rw [hs]
  have hother : ∀ j, j ≠ i → y'.pcs j = y.pcs j := fun j hj => by rw [hpcs]; exact updPC_other _ _ _ _ hj
  have hself : y'.pcs i = p' := by rw [hpcs]; exact updPC_self _ _ _
  have hholds : ∀ j, holdsRun (y'.pcs j) r → j ≠ i ∧ holdsRun (y.pcs j) r := by
    intro j hj
    by_cases hji : j = i
    · subst hji; rw [hself] at hj; exact absurd hj hnh
    · rw [hother j hji] at hj; exact ⟨hji, hj⟩
  refine ⟨?_, ?_, ?_, ?_, ?_, ?_, ?_, ?_, ?_, ?_, ?_⟩
  · rcases inv.free_or_held with h | h
    · left; rw [hs]; exact h
    · right; exact hheld.2 h
  · intro hh
    rcases inv.held_cause (hheld.1 hh) with ⟨j, hj⟩ | h
    · left
      have hji : j ≠ i := by intro e; subst e; exact hold hj
      exact ⟨j, by rw [hother j hji]; exact hj⟩
    · right; rw [hl]; exact h
  · intro a b ha hb
    exact inv.holder_unique a b (hholds a ha).2 (hholds b hb).2
  · intro a ha; rw [hl]; exact inv.holder_not_launched a (hholds a ha).2
  · rw [hl]; exact inv.le_one
  · intro a ha
    by_cases hai : a = i
    · subst hai; rw [hself] at ha; exact hheld.2 (hseen ha)
    · rw [hother a hai] at ha; exact hheld.2 (inv.seen_held a ha)
  · intro a ha; exact hheld.2 (inv.holder_held a (hholds a ha).2)
  · intro h; rw [hl] at h; exact hheld.2 (inv.launched_held h)
  · intro a seen run rest clr ha hr
    by_cases hai : a = i
    · subst hai; rw [hself] at ha; exact absurd ⟨seen, run, rest, clr, ha, hr⟩ hnh
    · rw [hother a hai] at ha; exact inv.fits a seen run rest clr ha hr
  · intro a seen todo clr ha run hrun hr
    by_cases hai : a = i
    · subst hai; rw [hself] at ha; exact hfit2 seen todo clr ha run hrun hr
    · rw [hother a hai] at ha; exact inv.fits_todo a seen todo clr ha run hrun hr
  · intro a seen run rest clr ha q hq hr
    by_cases hai : a = i
    · subst hai; rw [hself] at ha; exact hfit3 seen run rest clr ha q hq hr
    · rw [hother a hai] at ha; exact inv.fits_rest a seen run rest clr ha q hq hr

/-- the invariant `ConcInv` is preserved by every store operation of every runner inside the window -/
theorem step_preserves (s0 : Store) (y : Sys) (r : RunId) (T0 : Int) (hfit : RunFits s0 r) (htab : SameTables s0 y) (i : Nat) (now : Int)
    (h1 : T0 ≤ now) (h2 : now < T0 + defaultExpiry) (inv : ConcInv y r T0) : ConcInv (y.step i now) r T0 := by
  unfold Sys.step
  cases hp : y.pcs i with
  | idle =>
    have hold : ¬ holdsRun (y.pcs i) r := by rw [hp]; rintro ⟨_, _, _, _, h, _⟩; cases h
    simp only
    split
    · exact inv_frame y _ r T0 i (.done []) inv rfl rfl rfl hold
        (by rintro ⟨_, _, _, _, h, _⟩; cases h) (by simp [seenOf]) (by intro _ _ _ h; cases h)
        (by intro _ _ _ _ h; cases h)
    · exact inv_frame y _ r T0 i (.claiming [] (plan y.store).runs (plan y.store).clear) inv rfl rfl rfl hold
        (by rintro ⟨_, _, _, _, h, _⟩; cases h) (by simp [seenOf])
        (by intro seen todo clr h run hrun hr; injection h with _ h2 _; subst h2; exact hfit y.store htab.1 htab.2 run hrun hr)
        (by intro _ _ _ _ h; cases h)
  | done seen =>
    simp only
    exact inv
  | aborted =>
    simp only
    exact inv
  | claiming seen todo clr =>
    have hold : ¬ holdsRun (y.pcs i) r := by rw [hp]; rintro ⟨_, _, _, _, h, _⟩; cases h
    have hseen0 : r ∈ seen → Held y r T0 := fun h => inv.seen_held i (by rw [hp]; exact h)
    cases todo with
    | nil =>
      simp only
      exact inv_frame y _ r T0 i (.done seen) inv rfl rfl rfl hold
        (by rintro ⟨_, _, _, _, h, _⟩; cases h) (by simpa [seenOf] using hseen0) (by intro _ _ _ h; cases h)
        (by intro _ _ _ _ h; cases h)
    | cons run rest =>
      simp only
      have hfit_rest : ∀ q ∈ rest, q.rid = r → q.args ≠ none :=
        fun q hq hr => inv.fits_todo i seen (run :: rest) clr hp q (List.mem_cons_of_mem _ hq) hr
      by_cases hr : run.rid = r
      · -- a claim of `r`
        cases hok : (y.store.claim run.rid now defaultExpiry).2 with
        | false =>
          have hst := claim_fail_state y.store run.rid now defaultExpiry hok
          obtain ⟨e, he, hlt⟩ := claim_fail_held y.store run.rid now defaultExpiry hok
          rw [hr] at he
          have hheld : Held y r T0 := by
            rcases inv.free_or_held with h | h
            · have := h e he; omega
            · exact h
          simp only [Bool.false_eq_true, if_false]
          exact inv_frame y _ r T0 i (.claiming (run.rid :: seen) rest clr) inv (by simp [hst]) rfl rfl hold
            (by rintro ⟨_, _, _, _, h, _⟩; cases h)
            (by intro _; exact hheld)
            (by intro seen' todo' clr' h q hq hqr; injection h with _ h2 _; subst h2; exact hfit_rest q hq hqr)
            (by intro _ _ _ _ h; cases h)
        | true =>
          simp only [if_true]
          have hnotheld : ¬ Held y r T0 := by
            rintro ⟨e, he, hge⟩
            have := claim_fails_while_held y.store r now defaultExpiry e he (by omega)
            rw [hr, this] at hok; cases hok
          have hnew : (y.store.claim run.rid now defaultExpiry).1.claims.get? r = some (now + defaultExpiry) := by
            have h := claim_ok_held y.store run.rid now defaultExpiry hok
            have e : r = run.rid := hr.symm
            rw [e]; exact h
          have hnoholder : ∀ j, ¬ holdsRun (y.pcs j) r := fun j hj => hnotheld (inv.holder_held j hj)
          have hzero : launchCount r y.launched = 0 := by
            by_cases hz : 1 ≤ launchCount r y.launched
            · exact absurd (inv.launched_held hz) hnotheld
            · omega
          have hHeldAll : ∀ y' : Sys, y'.store = (y.store.claim run.rid now defaultExpiry).1 → Held y' r T0 :=
            fun y' hy' => ⟨now + defaultExpiry, by rw [hy']; exact hnew, by omega⟩
          have hHeld' := hHeldAll _ (rfl : ({ y with store := (y.store.claim run.rid now defaultExpiry).1, pcs := updPC y.pcs i (.won (run.rid :: seen) run rest clr) } : Sys).store = _)
          have hholds' : ∀ j, holdsRun (updPC y.pcs i (.won (run.rid :: seen) run rest clr) j) r → j = i := by
            intro j hj
            by_cases hji : j = i
            · exact hji
            · rw [updPC_other _ _ _ _ hji] at hj; exact absurd hj (hnoholder j)
          refine ⟨Or.inr hHeld', fun _ => Or.inl ⟨i, ?_⟩, ?_, ?_, ?_, fun _ _ => hHeld', fun _ _ => hHeld',
            fun _ => hHeld', ?_, ?_, ?_⟩
          · simp only [updPC_self]; exact ⟨_, run, rest, clr, rfl, hr⟩
          · intro a b ha hb; rw [hholds' a ha, hholds' b hb]
          · intro _ _; exact hzero
          · show launchCount r y.launched ≤ 1; omega
          · intro a sn q rs cl ha hqr
            by_cases hai : a = i
            · subst hai
              simp only [updPC_self] at ha
              injection ha with _ hq _ _
              subst hq
              exact inv.fits_todo a seen (run :: rest) clr hp run (by simp) hr
            · simp only [updPC_other _ _ _ _ hai] at ha; exact inv.fits a sn q rs cl ha hqr
          · intro a sn td cl ha q hq hqr
            by_cases hai : a = i
            · subst hai; simp only [updPC_self] at ha; cases ha
            · simp only [updPC_other _ _ _ _ hai] at ha; exact inv.fits_todo a sn td cl ha q hq hqr
          · intro a sn q rs cl ha q' hq' hqr
            by_cases hai : a = i
            · subst hai
              simp only [updPC_self] at ha
              injection ha with _ _ hrs _
              subst hrs
              exact hfit_rest q' hq' hqr
            · simp only [updPC_other _ _ _ _ hai] at ha; exact inv.fits_rest a sn q rs cl ha q' hq' hqr
      · -- a claim of another run id
        have hclaims : (y.store.claim run.rid now defaultExpiry).1.claims.get? r = y.store.claims.get? r :=
          claim_other y.store r run.rid now defaultExpiry hr
        have hseen' : r ∈ run.rid :: seen → Held y r T0 := by
          intro h
          rcases List.mem_cons.1 h with h | h
          · exact absurd h.symm hr
          · exact hseen0 h
        cases hok : (y.store.claim run.rid now defaultExpiry).2 with
        | false =>
          simp only [Bool.false_eq_true, if_false]
          exact inv_frame y _ r T0 i (.claiming (run.rid :: seen) rest clr) inv hclaims rfl rfl hold
            (by rintro ⟨_, _, _, _, h, _⟩; cases h) hseen'
            (by intro seen' todo' clr' h q hq hqr; injection h with _ h2 _; subst h2; exact hfit_rest q hq hqr)
            (by intro _ _ _ _ h; cases h)
        | true =>
          simp only [if_true]
          exact inv_frame y _ r T0 i (.won (run.rid :: seen) run rest clr) inv hclaims rfl rfl hold
            (by rintro ⟨_, q, _, _, h, hq⟩; injection h with _ h2 _ _; subst h2; exact hr hq) hseen'
            (by intro _ _ _ h; cases h)
            (by intro sn q rs cl h q' hq' hqr; injection h with _ _ h3 _; subst h3; exact hfit_rest q' hq' hqr)
  | won seen run rest clr =>
    simp only
    have hseen0 : r ∈ seen → Held y r T0 := fun h => inv.seen_held i (by rw [hp]; exact h)
    have hfit_rest : ∀ q ∈ rest, q.rid = r → q.args ≠ none := inv.fits_rest i seen run rest clr hp
    by_cases hr : run.rid = r
    · -- the holder of `r` launches
      have hholds : holdsRun (y.pcs i) r := ⟨seen, run, rest, clr, hp, hr⟩
      have hargs := inv.fits i seen run rest clr hp hr
      cases ha : run.args with
      | none => exact absurd ha hargs
      | some a =>
        obtain ⟨tag, src⟩ := a
        simp only
        have hzero := inv.holder_not_launched i hholds
        have hheld := inv.holder_held i hholds
        have hcount : launchCount r (y.launched ++ [(run.rid, ({ task := run.task, tag := tag, src := src } : Launch))]) = 1 := by
          rw [launchCount_append, hzero]; simp [launchCount, hr]
        have hnoholder : ∀ j, ¬ holdsRun (updPC y.pcs i (.claiming seen rest clr) j) r := by
          intro j hj
          by_cases hji : j = i
          · subst hji; simp only [updPC_self] at hj; obtain ⟨_, _, _, _, h, _⟩ := hj; cases h
          · rw [updPC_other _ _ _ _ hji] at hj
            exact hji (inv.holder_unique j i hj hholds)
        refine ⟨Or.inr hheld, fun _ => Or.inr (by rw [hcount]; exact Nat.le_refl 1), ?_, ?_, ?_, ?_, ?_, fun _ => hheld, ?_, ?_, ?_⟩
        · intro a b ha' _; exact absurd ha' (hnoholder a)
        · intro a ha'; exact absurd ha' (hnoholder a)
        · show launchCount r _ ≤ 1; rw [hcount]; exact Nat.le_refl 1
        · intro a ha'
          by_cases hai : a = i
          · subst hai; simp only [updPC_self, seenOf] at ha'; exact hseen0 ha'
          · simp only [updPC_other _ _ _ _ hai] at ha'; exact inv.seen_held a ha'
        · intro a ha'; exact absurd ha' (hnoholder a)
        · intro a sn q rs cl ha' hqr
          by_cases hai : a = i
          · subst hai; simp only [updPC_self] at ha'; cases ha'
          · simp only [updPC_other _ _ _ _ hai] at ha'; exact inv.fits a sn q rs cl ha' hqr
        · intro a sn td cl ha' q hq hqr
          by_cases hai : a = i
          · subst hai
            simp only [updPC_self] at ha'
            injection ha' with _ htd _
            subst htd
            exact hfit_rest q hq hqr
          · simp only [updPC_other _ _ _ _ hai] at ha'; exact inv.fits_todo a sn td cl ha' q hq hqr
        · intro a sn q rs cl ha' q' hq' hqr
          by_cases hai : a = i
          · subst hai; simp only [updPC_self] at ha'; cases ha'
          · simp only [updPC_other _ _ _ _ hai] at ha'; exact inv.fits_rest a sn q rs cl ha' q' hq' hqr
    · -- a launch (or a provider error) for another run id
      have hold : ¬ holdsRun (y.pcs i) r := by
        rw [hp]; rintro ⟨_, q, _, _, h, hq⟩; injection h with _ h2 _ _; subst h2; exact hr hq
      cases ha : run.args with
      | none =>
        simp only
        exact inv_frame y _ r T0 i .aborted inv rfl rfl rfl hold
          (by rintro ⟨_, _, _, _, h, _⟩; cases h) (by simp [seenOf]) (by intro _ _ _ h; cases h)
          (by intro _ _ _ _ h; cases h)
      | some a =>
        obtain ⟨tag, src⟩ := a
        simp only
        exact inv_frame y _ r T0 i (.claiming seen rest clr) inv rfl
          (by rw [launchCount_append]; simp [launchCount, hr]) rfl hold
          (by rintro ⟨_, _, _, _, h, _⟩; cases h) (by simpa [seenOf] using hseen0)
          (by intro sn td cl h q hq hqr; injection h with _ h2 _; subst h2; exact hfit_rest q hq hqr)
          (by intro _ _ _ _ h; cases h)


/-- the environment: runner steps at instants inside the window, and new occurrences being recorded -/
def ActsInWindow (T0 : Int) (acts : List Act) : Prop :=
  ∀ a ∈ acts, ∀ i now, a = .run i now → T0 ≤ now ∧ now < T0 + defaultExpiry

private theorem act_preserves (s0 : Store) (y : Sys) (r : RunId) (T0 : Int) (hfit : RunFits s0 r) (htab : SameTables s0 y) (a : Act)
    (hw : ∀ i now, a = .run i now → T0 ≤ now ∧ now < T0 + defaultExpiry) (inv : ConcInv y r T0) :
    ConcInv (y.act a) r T0 ∧ SameTables s0 (y.act a) := by
  cases a with
  | run i now =>
    exact ⟨step_preserves s0 y r T0 hfit htab i now (hw i now rfl).1 (hw i now rfl).2 inv, step_tables s0 y i now htab⟩
  | record v =>
    -- recording an occurrence touches neither claims, runner states, launches nor the trigger tables
    exact ⟨⟨inv.free_or_held, inv.held_cause, inv.holder_unique, inv.holder_not_launched, inv.le_one,
      inv.seen_held, inv.holder_held, inv.launched_held, inv.fits, inv.fits_todo, inv.fits_rest⟩, htab⟩

private theorem exec_preserves (s0 : Store) (y : Sys) (r : RunId) (T0 : Int) (hfit : RunFits s0 r) (htab : SameTables s0 y)
    (acts : List Act) (hw : ActsInWindow T0 acts) (inv : ConcInv y r T0) : ConcInv (y.exec acts) r T0 := by
  induction acts generalizing y with
  | nil => exact inv
  | cons a rest ih =>
    simp only [Sys.exec]
    have := act_preserves s0 y r T0 hfit htab a (fun i now h => hw a (by simp) i now h) inv
    exact ih _ this.2 (fun b hb => hw b (List.mem_cons_of_mem _ hb)) this.1

/-- all runners idle, nothing launched yet, `r` free (never claimed or expired by `T0`) -/
def Initial (y : Sys) (r : RunId) (T0 : Int) : Prop :=
  (∀ i, y.pcs i = .idle) ∧ y.launched = [] ∧ ∀ e, y.store.claims.get? r = some e → e ≤ T0

private theorem initial_inv (y : Sys) (r : RunId) (T0 : Int) (h : Initial y r T0) : ConcInv y r T0 := by
  obtain ⟨hidle, hl, hfree⟩ := h
  have hnh : ∀ i, ¬ holdsRun (y.pcs i) r := by
    intro i ⟨_, _, _, _, hh, _⟩; rw [hidle i] at hh; cases hh
  have hnotheld : ¬ Held y r T0 := by
    rintro ⟨e, he, hge⟩; have := hfree e he; simp [defaultExpiry] at hge; omega
  refine ⟨Or.inl hfree, fun hh => absurd hh hnotheld, fun i _ hi _ => absurd hi (hnh i), fun i hi => absurd hi (hnh i),
    by simp [hl, launchCount], ?_, fun i hi => absurd hi (hnh i), by simp [hl, launchCount], ?_, ?_, ?_⟩
  · intro i hi; rw [hidle i] at hi; simp [seenOf] at hi
  · intro i _ _ _ _ hh; rw [hidle i] at hh; cases hh
  · intro i _ _ _ hh; rw [hidle i] at hh; cases hh
  · intro i _ _ _ _ hh; rw [hidle i] at hh; cases hh

/-- **Never twice, however many runners execute the trigger loop at the same time.**  Any number of
    runners, each somewhere in its own `trigger_loop_iteration`, their store operations (read the valid
    conditions, claim a run, launch, clear) interleaved in any order, new occurrences being recorded in
    between, all within one claim-expiry window: a run id is launched at most once. -/
theorem concurrent_launch_le_one (y : Sys) (r : RunId) (T0 : Int) (hinit : Initial y r T0) (hfit : RunFits y.store r)
    (acts : List Act) (hw : ActsInWindow T0 acts) : launchCount r (y.exec acts).launched ≤ 1 :=
  (exec_preserves y.store y r T0 hfit ⟨rfl, rfl⟩ acts hw (initial_inv y r T0 hinit)).le_one

/-- **... and not zero times once an iteration that tried it has got past it.**  If some runner has
    attempted the claim of run `r` (it had `r` in its plan and reached it), and no runner is still
    between the claim and the launch of `r`, then `r` has been launched exactly once — by that runner or
    by the one that beat it to the claim. -/
theorem concurrent_launch_eq_one_at_quiescence (y : Sys) (r : RunId) (T0 : Int) (hinit : Initial y r T0)
    (hfit : RunFits y.store r) (acts : List Act) (hw : ActsInWindow T0 acts) (i : Nat)
    (hseen : r ∈ seenOf ((y.exec acts).pcs i))
    (hquiet : ∀ j, ¬ holdsRun ((y.exec acts).pcs j) r) : launchCount r (y.exec acts).launched = 1 := by
  have inv := exec_preserves y.store y r T0 hfit ⟨rfl, rfl⟩ acts hw (initial_inv y r T0 hinit)
  have hheld := inv.seen_held i hseen
  rcases inv.held_cause hheld with ⟨j, hj⟩ | h
  · exact absurd hj (hquiet j)
  · have := inv.le_one; omega

/-- `RunFits` is not a vacuous hypothesis: it holds for every run id when no registered trigger has an
    argument provider (and likewise for static providers, which never raise). -/
theorem runFits_of_no_provider (s0 : Store) (h : ∀ k t, s0.trigs.get? k = some t → t.prov = []) (r : RunId) :
    RunFits s0 r := by
  intro s ht _ run hrun _
  obtain ⟨t, hta, _, hr⟩ := (mem_plan_runs s run).1 hrun
  obtain ⟨v, _, hm⟩ := (mem_affectedTrigs s s.valid t).1 hta
  obtain ⟨p, _, _, hget⟩ := (mem_triggersFor s v.cond t).1 hm
  rw [ht] at hget
  have hp := h _ _ hget
  unfold runsOf at hr
  cases hl : t.logic with
  | and => simp only [hl, List.mem_singleton] at hr; rw [hr, hp]; simp [provArgs]
  | or =>
    simp only [hl, List.mem_map] at hr
    obtain ⟨w, _, rfl⟩ := hr
    rw [hp]; simp [provArgs]

/-- `n` consecutive steps of runner `i` at instant `now`, nobody else moving -/
def solo (i : Nat) (now : Int) (n : Nat) : List Act := List.replicate n (.run i now)

private theorem exec_append (y : Sys) (a b : List Act) : y.exec (a ++ b) = (y.exec a).exec b := by
  induction a generalizing y with
  | nil => rfl
  | cons x xs ih => simp only [List.cons_append, Sys.exec]; exact ih _

private theorem solo_succ (i : Nat) (now : Int) (n : Nat) (y : Sys) :
    y.exec (solo i now (n + 1)) = (y.step i now).exec (solo i now n) := by
  simp [solo, List.replicate_succ, Sys.exec, Sys.act]

private theorem step_claiming_nil (y : Sys) (i : Nat) (now : Int) (seen : List RunId) (clr : List VCKey)
    (hp : y.pcs i = .claiming seen [] clr) :
    y.step i now = { y with store := y.store.clearValid clr, pcs := updPC y.pcs i (.done seen) } := by
  unfold Sys.step; simp [hp]

private theorem step_claiming_cons (y : Sys) (i : Nat) (now : Int) (seen : List RunId) (r : Run) (rest : List Run)
    (clr : List VCKey) (hp : y.pcs i = .claiming seen (r :: rest) clr) :
    y.step i now = { y with store := (y.store.claim r.rid now defaultExpiry).1,
                            pcs := updPC y.pcs i (if (y.store.claim r.rid now defaultExpiry).2 then .won (r.rid :: seen) r rest clr
                                                  else .claiming (r.rid :: seen) rest clr) } := by
  unfold Sys.step; simp [hp]

private theorem step_won_some (y : Sys) (i : Nat) (now : Int) (seen : List RunId) (r : Run) (rest : List Run)
    (clr : List VCKey) (tag src : String) (hp : y.pcs i = .won seen r rest clr) (ha : r.args = some (tag, src)) :
    y.step i now = { y with launched := y.launched ++ [(r.rid, { task := r.task, tag := tag, src := src })],
                            pcs := updPC y.pcs i (.claiming seen rest clr) } := by
  unfold Sys.step; simp [hp, ha]

private theorem step_won_none (y : Sys) (i : Nat) (now : Int) (seen : List RunId) (r : Run) (rest : List Run)
    (clr : List VCKey) (hp : y.pcs i = .won seen r rest clr) (ha : r.args = none) :
    y.step i now = { y with pcs := updPC y.pcs i .aborted } := by
  unfold Sys.step; simp [hp, ha]

private theorem solo_claiming (i : Nat) (now : Int) (todo : List Run) :
    ∀ (y : Sys) (seen : List RunId) (clr : List VCKey), y.pcs i = .claiming seen todo clr →
    ∃ n, (y.exec (solo i now n)).launched = y.launched ++ (runPlan y.store now defaultExpiry todo []).launches ∧
      ((runPlan y.store now defaultExpiry todo []).raised = true →
        (y.exec (solo i now n)).store = (runPlan y.store now defaultExpiry todo []).store ∧
        (y.exec (solo i now n)).pcs i = .aborted) ∧
      ((runPlan y.store now defaultExpiry todo []).raised = false →
        (y.exec (solo i now n)).store = ((runPlan y.store now defaultExpiry todo []).store).clearValid clr ∧
        ∃ sn, (y.exec (solo i now n)).pcs i = .done sn) := by
  induction todo with
  | nil =>
    intro y seen clr hp
    refine ⟨1, ?_⟩
    rw [solo_succ, step_claiming_nil y i now seen clr hp]
    refine ⟨?_, ?_, ?_⟩
    · simp [solo, Sys.exec, runPlan]
    · intro h; simp [runPlan] at h
    · intro _; exact ⟨by simp [solo, Sys.exec, runPlan], seen, by simp [solo, Sys.exec, updPC_self]⟩
  | cons r rest ih =>
    intro y seen clr hp
    have hs1 := step_claiming_cons y i now seen r rest clr hp
    cases hok : (y.store.claim r.rid now defaultExpiry).2 with
    | false =>
      simp only [hok, Bool.false_eq_true, if_false] at hs1
      have hstep : (y.step i now).pcs i = .claiming (r.rid :: seen) rest clr := by rw [hs1]; exact updPC_self _ _ _
      have hst : (y.step i now).store = (y.store.claim r.rid now defaultExpiry).1 := by rw [hs1]
      have hla : (y.step i now).launched = y.launched := by rw [hs1]
      obtain ⟨n, hn⟩ := ih (y.step i now) (r.rid :: seen) clr hstep
      refine ⟨n + 1, ?_⟩
      rw [solo_succ]
      simp only [runPlan, hok, Bool.false_eq_true, if_false]
      simp only [hst, hla] at hn
      exact hn
    | true =>
      simp only [hok, if_true] at hs1
      have hstep : (y.step i now).pcs i = .won (r.rid :: seen) r rest clr := by rw [hs1]; exact updPC_self _ _ _
      have hst : (y.step i now).store = (y.store.claim r.rid now defaultExpiry).1 := by rw [hs1]
      have hla : (y.step i now).launched = y.launched := by rw [hs1]
      cases ha : r.args with
      | none =>
        refine ⟨2, ?_⟩
        rw [solo_succ, solo_succ, step_won_none (y.step i now) i now _ r rest clr hstep ha]
        simp only [solo, List.replicate, Sys.exec, runPlan, hok, if_true, ha, List.append_nil]
        exact ⟨hla, fun _ => ⟨hst, updPC_self _ _ _⟩, by intro h; cases h⟩
      | some a =>
        obtain ⟨tag, src⟩ := a
        have h2 := step_won_some (y.step i now) i now _ r rest clr tag src hstep ha
        have hp2 : ((y.step i now).step i now).pcs i = .claiming (r.rid :: seen) rest clr := by rw [h2]; exact updPC_self _ _ _
        have hst2 : ((y.step i now).step i now).store = (y.store.claim r.rid now defaultExpiry).1 := by rw [h2]; exact hst
        have hla2 : ((y.step i now).step i now).launched = y.launched ++ [(r.rid, { task := r.task, tag := tag, src := src })] := by
          rw [h2]; simp [hla]
        obtain ⟨n, hn⟩ := ih ((y.step i now).step i now) (r.rid :: seen) clr hp2
        refine ⟨n + 2, ?_⟩
        rw [solo_succ, solo_succ]
        simp only [runPlan, hok, if_true, ha]
        simp only [hst2, hla2] at hn
        have hacc := runPlan_acc (y.store.claim r.rid now defaultExpiry).1 now defaultExpiry rest
          ([] ++ [(r.rid, { task := r.task, tag := tag, src := src })])
        rw [hacc.1, hacc.2.1, hacc.2.2]
        simp only [List.nil_append, List.append_assoc] at hn ⊢
        exact hn

/-- **A runner that executes alone performs exactly `trigger_loop_iteration`.**  From `idle`, enough
    consecutive steps of one runner (nobody else moving) leave the store and the launches exactly as the
    atomic `triggerPass` of the sequential model — the model the differential correspondence tests
    against the real stores. -/
theorem solo_runner_is_trigger_pass (y : Sys) (i : Nat) (now : Int) (hidle : y.pcs i = .idle) :
    ∃ n, (y.exec (solo i now n)).store = (triggerPass y.store now).store ∧
         (y.exec (solo i now n)).launched = y.launched ++ (triggerPass y.store now).launches := by
  by_cases he : y.store.valid.isEmpty = true
  · refine ⟨1, ?_⟩
    simp [solo, List.replicate, Sys.exec, Sys.act, Sys.step, hidle, he, triggerPass]
  · have hstep : (y.step i now).pcs i = .claiming [] (plan y.store).runs (plan y.store).clear := by
      simp [Sys.step, hidle, he, updPC_self]
    have hst : (y.step i now).store = y.store := by simp [Sys.step, hidle, he]
    have hla : (y.step i now).launched = y.launched := by simp [Sys.step, hidle, he]
    obtain ⟨n, hn⟩ := solo_claiming i now (plan y.store).runs (y.step i now) [] (plan y.store).clear hstep
    refine ⟨n + 1, ?_⟩
    rw [solo_succ]
    simp only [hst, hla] at hn
    obtain ⟨h1, h2, h3⟩ := hn
    unfold triggerPass
    simp only [he, Bool.false_eq_true, if_false]
    cases hr : (runPlan y.store now defaultExpiry (plan y.store).runs []).raised with
    | true => simp only [if_true]; exact ⟨(h2 hr).1, h1⟩
    | false => simp only [Bool.false_eq_true, if_false]; exact ⟨(h3 hr).1, h1⟩


/-! ### non-vacuity of the hypotheses used above -/

/-- polls that never go back in time, after a stored last execution -/
example : PollsOK (some 0) [60 * usSec, 90 * usSec, 90 * usSec, 200 * usSec] := by
  refine ⟨by decide, ?_⟩
  intro l hl t ht
  cases hl
  simp only [List.mem_cons, List.mem_nil_iff, or_false] at ht
  rcases ht with rfl | rfl | rfl | rfl <;> decide

/-- the OR trigger on `ping` with two `ping`s pending meets the hypotheses of
    `or_occurrence_launched_exactly_once` (and both its runs are launched) -/
example : TrigsWF (twoPings trigOr) ∧ TrigRegistered (twoPings trigOr) trigOr ∧ ProvidersFit (twoPings trigOr) ∧
    launchCount ("T2", [("ev", .event "ping" "e1")]) (triggerPass (twoPings trigOr) 0).launches = 1 ∧
    launchCount ("T2", [("ev", .event "ping" "e2")]) (triggerPass (twoPings trigOr) 0).launches = 1 :=
  ⟨wf_of_check _ (by decide +kernel), registered_of_check _ _ (by decide +kernel), by decide +kernel,
   by decide +kernel, by decide +kernel⟩

/-- `sharedPing` meets the hypotheses of `and_needs_all` for the trigger on `ping` AND `pong` (no `pong` pending) -/
example : TrigsWF sharedPing ∧ TrigRegistered sharedPing trigBoth ∧ (∀ v ∈ sharedPing.valid, v.cond ≠ "ev2") :=
  ⟨wf_of_check _ (by decide +kernel), registered_of_check _ _ (by decide +kernel), by decide +kernel⟩

/-- ... and once a `pong` is there as well, of `and_all_then_consumes`: one launch, nothing left pending -/
example :
    let s := sharedPing.report { key := .event "pong" "e9", n := "9" } ""
    TrigRegistered s trigBoth ∧ (∀ u ∈ affectedTrigs s s.valid, shouldTrigger u (ctxOf s s.valid u) = true) ∧
    launchCount (andRunId s trigBoth) (triggerPass s 0).launches = 1 ∧ (triggerPass s 0).store.valid = [] := by
  refine ⟨registered_of_check _ _ (by decide +kernel), by decide +kernel, by decide +kernel, by decide +kernel⟩

/-! ### non-vacuity of the concurrent theorems -/

/-- a trigger on `ping` with a static provider (it never raises), one `ping` pending, two idle runners -/
def trigStatic : Trig := { id := "T4", task := "target", conds := ["ev"], logic := .or, prov := [.static "s"] }
def onePing : Store := ((({} : Store).registerCond evC).registerTrigger trigStatic).report ping1 ""
def twoRunners : Sys := { store := onePing, pcs := fun _ => .idle, launched := [] }
def pingRun : RunId := ("T4", [("ev", .event "ping" "e1")])

/-- both runners read the occurrence, both try to claim its run, runner 1 loses, runner 0 launches; both clear -/
def raceActs : List Act :=
  [.run 0 0, .run 1 1, .run 0 2, .run 1 3, .run 1 4, .run 0 5, .run 0 6]

example : Initial twoRunners pingRun 0 ∧ ActsInWindow 0 raceActs := by
  refine ⟨⟨fun _ => rfl, rfl, ?_⟩, ?_⟩
  · have hn : twoRunners.store.claims.get? pingRun = none := by decide +kernel
    intro e he; rw [hn] at he; cases he
  · intro a ha i now h
    simp only [raceActs, List.mem_cons, List.mem_nil_iff, or_false] at ha
    rcases ha with rfl | rfl | rfl | rfl | rfl | rfl | rfl <;> cases h <;> decide

/-- runner 1 has been past the run (it lost the claim and finished), nobody is between claim and launch,
    and there is exactly one launch — the situation `concurrent_launch_eq_one_at_quiescence` describes -/
example : launchCount pingRun (twoRunners.exec raceActs).launched = 1 ∧
    pingRun ∈ seenOf ((twoRunners.exec raceActs).pcs 1) ∧
    (twoRunners.exec raceActs).pcs 0 = .done [pingRun] ∧ (twoRunners.exec raceActs).store.valid = [] := by
  decide +kernel

end Pynenc.C13
