import PynencModel.Model.Outcome
import PynencModel.Gen.StatusTable
import PynencModel.Gen.Programs
/-
  C05 — a final status always comes with the matching result or exception.

  `final_has_outcome` is an invariant of every interleaving of workers, readers and other status traffic
  BECAUSE the worker stores the outcome before it requests the final status; that order is not assumed:
  it is read off the real code on every run (`Gen/Programs.lean`, traced effects) and compared here.
-/
namespace Pynenc.C05
open Pynenc Pynenc.Outcome

/-- effects that write an outcome or publish a final status -/
def outcomeEffect (e : String) : Bool :=
  e == "set_result" || e == "set_exception" || e == "transition success" || e == "transition failed"

/-- O0 (tie). In the traced real programs the outcome is written before the final status is requested,
    the retry path writes neither, and nothing else writes an outcome or a final status. -/
theorem worker_program_order :
    Gen.Programs.runOk.filter outcomeEffect = ["set_result", "transition success"] ∧
    Gen.Programs.runFail.filter outcomeEffect = ["set_exception", "transition failed"] ∧
    Gen.Programs.runRetry.filter outcomeEffect = [] ∧
    Gen.Programs.killReroute.filter outcomeEffect = [] ∧
    Gen.Programs.recoverPending.filter outcomeEffect = [] ∧
    Gen.Programs.pollClaim.filter outcomeEffect = [] ∧
    Gen.Programs.clientSingle.filter outcomeEffect = [] ∧
    -- storage faults: when storing the RESULT fails the run falls back to the failure path (the storage error is
    -- stored as the exception, then FAILED); when storing the EXCEPTION fails nothing is published and the
    -- invocation stays RUNNING (recoverable) — a final status is never published without its outcome
    Gen.Programs.runOkStoreFault.filter outcomeEffect = ["set_exception", "transition failed"] ∧
    Gen.Programs.runFailStoreFault.filter outcomeEffect = [] := by decide

variable {V E : Type}

structure OutInv (s : Sys V E) : Prop where
  resRet : ∀ i v, s.result i = some v → s.returned i v
  excRai : ∀ i e, s.exc i = some e → s.raised i e
  stOk   : ∀ k, (s.w k).phase = .storedOk → ∃ v, s.result (s.w k).inv = some v
  stFail : ∀ k, (s.w k).phase = .storedFail → ∃ e, s.exc (s.w k).inv = some e
  ranOk  : ∀ k v, (s.w k).phase = .ranOk v → s.returned (s.w k).inv v
  ranFl  : ∀ k e, (s.w k).phase = .ranFail e → s.raised (s.w k).inv e
  succ   : ∀ i, s.status i = some .success → ∃ v, s.result i = some v
  fail   : ∀ i, s.status i = some .failed → ∃ e, s.exc i = some e

private theorem upd_w_phase {s : Sys V E} {k j : Nat} {p : Phase V E} :
    (upd s.w k { s.w k with phase := p } j).inv = (s.w j).inv := by
  unfold upd; split
  · next h => subst h; rfl
  · rfl

/-- O1. Every atomic step of every actor preserves the invariant. -/
theorem outInv_step (s s' : Sys V E) (h : OutInv s) (st : Step s s') : OutInv s' := by
  obtain ⟨h1, h2, h3, h4, h5, h6, h7, h8⟩ := h
  cases st with
  | start k hp =>
    refine ⟨h1, h2, ?_, ?_, ?_, ?_, h7, h8⟩ <;> intro j <;> simp only [upd] <;> split <;> simp_all
  | bodyReturns k v hp =>
    refine ⟨fun i x hx => Or.inl (h1 i x hx), h2, ?_, ?_, ?_, ?_, h7, h8⟩
    · intro j; simp only [upd]; split <;> simp_all
    · intro j; simp only [upd]; split <;> simp_all
    · intro j x; simp only [upd]; split
      · next hj => subst hj; intro hx; simp at hx; subst hx; right; exact ⟨rfl, rfl⟩
      · intro hx; left; exact h5 j x hx
    · intro j x; simp only [upd]; split <;> simp_all
  | bodyRaises k e hp =>
    refine ⟨h1, fun i x hx => Or.inl (h2 i x hx), ?_, ?_, ?_, ?_, h7, h8⟩
    · intro j; simp only [upd]; split <;> simp_all
    · intro j; simp only [upd]; split <;> simp_all
    · intro j x; simp only [upd]; split <;> simp_all
    · intro j x; simp only [upd]; split
      · next hj => subst hj; intro hx; simp at hx; subst hx; right; exact ⟨rfl, rfl⟩
      · intro hx; left; exact h6 j x hx
  | storeResult k v hp =>
    refine ⟨?_, h2, ?_, ?_, ?_, ?_, ?_, h8⟩
    · intro i x; simp only [upd]; split
      · next hi => subst hi; intro hx; injection hx with hx; subst hx; exact h5 k v hp
      · exact h1 i x
    · intro j; simp only [upd]
      by_cases hj : j = k
      · subst hj; simp
      · simp only [hj, if_false]; intro hp'
        obtain ⟨x, hx⟩ := h3 j hp'
        by_cases hi : (s.w j).inv = (s.w k).inv
        · exact ⟨v, by simp [hi]⟩
        · exact ⟨x, by simp [hi, hx]⟩
    · intro j; simp only [upd]; split <;> simp_all
    · intro j x; simp only [upd]; split <;> simp_all
    · intro j x; simp only [upd]; split <;> simp_all
    · intro i hi
      obtain ⟨x, hx⟩ := h7 i hi
      simp only [upd]; split
      · exact ⟨v, rfl⟩
      · exact ⟨x, hx⟩
  | storeExc k e hp =>
    refine ⟨h1, ?_, ?_, ?_, ?_, ?_, h7, ?_⟩
    · intro i x; simp only [upd]; split
      · next hi => subst hi; intro hx; injection hx with hx; subst hx; exact h6 k e hp
      · exact h2 i x
    · intro j; simp only [upd]; split <;> simp_all
    · intro j; simp only [upd]
      by_cases hj : j = k
      · subst hj; simp
      · simp only [hj, if_false]; intro hp'
        obtain ⟨x, hx⟩ := h4 j hp'
        by_cases hi : (s.w j).inv = (s.w k).inv
        · exact ⟨e, by simp [hi]⟩
        · exact ⟨x, by simp [hi, hx]⟩
    · intro j x; simp only [upd]; split <;> simp_all
    · intro j x; simp only [upd]; split <;> simp_all
    · intro i hi
      obtain ⟨x, hx⟩ := h8 i hi
      simp only [upd]; split
      · exact ⟨e, rfl⟩
      · exact ⟨x, hx⟩
  | publishSuccess k ok hp =>
    refine ⟨h1, h2, ?_, ?_, ?_, ?_, ?_, ?_⟩
    · intro j; simp only [upd]; split <;> simp_all
    · intro j; simp only [upd]; split <;> simp_all
    · intro j x; simp only [upd]; split <;> simp_all
    · intro j x; simp only [upd]; split <;> simp_all
    · intro i; cases ok with
      | false => exact h7 i
      | true =>
        simp only [if_true, upd]; split
        · next hi => subst hi; intro _; exact h3 k hp
        · exact h7 i
    · intro i; cases ok with
      | false => exact h8 i
      | true =>
        simp only [if_true, upd]; split
        · intro hx; simp at hx
        · exact h8 i
  | publishFailed k ok hp =>
    refine ⟨h1, h2, ?_, ?_, ?_, ?_, ?_, ?_⟩
    · intro j; simp only [upd]; split <;> simp_all
    · intro j; simp only [upd]; split <;> simp_all
    · intro j x; simp only [upd]; split <;> simp_all
    · intro j x; simp only [upd]; split <;> simp_all
    · intro i; cases ok with
      | false => exact h7 i
      | true =>
        simp only [if_true, upd]; split
        · intro hx; simp at hx
        · exact h7 i
    · intro i; cases ok with
      | false => exact h8 i
      | true =>
        simp only [if_true, upd]; split
        · next hi => subst hi; intro _; exact h4 k hp
        · exact h8 i
  | env i st hs hf =>
    refine ⟨h1, h2, h3, h4, h5, h6, ?_, ?_⟩
    · intro j; simp only [upd]; split
      · intro hx; injection hx with hx; exact absurd hx hs
      · exact h7 j
    · intro j; simp only [upd]; split
      · intro hx; injection hx with hx; exact absurd hx hf
      · exact h8 j

/-- initial states: nothing finished, nothing stored, every worker idle -/
def Initial (s : Sys V E) : Prop :=
  (∀ i, s.result i = none ∧ s.exc i = none ∧ s.status i ≠ some .success ∧ s.status i ≠ some .failed) ∧
  (∀ k, (s.w k).phase = .idle)

theorem outInv_init (s : Sys V E) (h : Initial s) : OutInv s := by
  obtain ⟨hi, hw⟩ := h
  refine ⟨?_, ?_, ?_, ?_, ?_, ?_, ?_, ?_⟩
  · intro i v hv; rw [(hi i).1] at hv; exact absurd hv (by simp)
  · intro i e he; rw [(hi i).2.1] at he; exact absurd he (by simp)
  · intro k hk; rw [hw k] at hk; exact absurd hk (by simp)
  · intro k hk; rw [hw k] at hk; exact absurd hk (by simp)
  · intro k v hk; rw [hw k] at hk; exact absurd hk (by simp)
  · intro k e hk; rw [hw k] at hk; exact absurd hk (by simp)
  · intro i hs; exact absurd hs (hi i).2.2.1
  · intro i hs; exact absurd hs (hi i).2.2.2

/-- O2 (`final_has_outcome`). In every reachable state — any number of workers and readers, any
    interleaving, any other status traffic — an invocation observed SUCCESS has a stored result that was
    returned by a completed execution of its body, and one observed FAILED has a stored exception that a
    completed execution raised. -/
theorem final_has_outcome (s0 s : Sys V E) (h0 : Initial s0) (hr : Reach s0 s) (i : String) :
    (s.status i = some .success → ∃ v, s.result i = some v ∧ s.returned i v) ∧
    (s.status i = some .failed → ∃ e, s.exc i = some e ∧ s.raised i e) := by
  have hinv : OutInv s := by
    induction hr with
    | refl => exact outInv_init s0 h0
    | step s s' _ st ih => exact outInv_step s s' ih st
  constructor
  · intro hs; obtain ⟨v, hv⟩ := hinv.succ i hs; exact ⟨v, hv, hinv.resRet i v hv⟩
  · intro hs; obtain ⟨e, he⟩ := hinv.fail i hs; exact ⟨e, he, hinv.excRai i e he⟩

def isFinalGen (s : Status) : Bool := (Gen.table (some s)).isFinal

/-- O3 (`get_final_result_spec`). What a reader gets at any moment of any execution: never a value for a
    non-final invocation; for FAILED the stored exception (raised by a completed execution); for SUCCESS
    the stored result (returned by a completed execution); never "missing". -/
theorem get_final_result_spec (s0 s : Sys V E) (h0 : Initial s0) (hr : Reach s0 s) (i : String) :
    match getFinalResult isFinalGen s i with
    | .value v => s.status i = some .success ∧ s.returned i v ∨ s.status i = some .concurrencyControlledFinal
    | .raises e => s.status i = some .failed ∧ s.raised i e
    | .notFinal => ∀ st, s.status i = some st → isFinalGen st = false
    | .missing => s.status i = some .concurrencyControlledFinal := by
  have hf := final_has_outcome s0 s h0 hr i
  unfold getFinalResult
  cases hs : s.status i with
  | none => simp
  | some st =>
    simp only []
    cases st
    case success =>
      obtain ⟨v, hv, hrv⟩ := hf.1 hs
      simp [isFinalGen, Gen.table, hv, hrv]
    case failed =>
      obtain ⟨e, he, hre⟩ := hf.2 hs
      simp [isFinalGen, Gen.table, he, hre]
    case concurrencyControlledFinal =>
      cases hres : s.result i <;> simp [isFinalGen, Gen.table, hres]
    all_goals simp [isFinalGen, Gen.table]

/-- non-vacuity: a reachable SUCCESS state -/
example : ∃ s : Sys Nat Nat, Reach
    { status := fun _ => some .running, result := fun _ => none, exc := fun _ => none,
      returned := fun _ _ => False, raised := fun _ _ => False, w := fun _ => ⟨"i", .idle⟩ } s ∧
    s.status "i" = some .success ∧ s.result "i" = some 42 := by
  refine ⟨_, .step _ _ (.step _ _ (.step _ _ (.step _ _ .refl (.start _ 0 rfl)) (.bodyReturns _ 0 42 rfl)) (.storeResult _ 0 42 rfl)) (.publishSuccess _ 0 true rfl), ?_, ?_⟩ <;> simp [upd]

end Pynenc.C05
