import PynencModel.Proofs.C19
/-
  C19 — sync development mode and distributed execution give the same outcome.

  Model: `Model/Exec.lean` (task programs; `evalSync` follows `ConcurrentInvocation`, `evalDist` follows
  `DistributedInvocation.run` + orchestrator + state backend; `evalEager` is the suggested repair of sync mode).

  What the current tree satisfies, and what it does not:
    * one invocation, given what the calls of its body produce: the sync recursion and the distributed
      RUNNING → SUCCESS / RETRY (+1, re-queue) / FAILED machine agree on outcome, executions, `num_retries`
      (`invocation_sync_eq_dist`), and both obey the retry accounting rules (`retry_accounting_*`);
    * whole programs: the full statement `SyncEqDistStatement` is FALSE for the current code
      (`sync_eq_dist_refuted`): sync mode runs an invocation only when its result is read, so an invocation that
      is never read, and the members of a group behind the first failing one, are not executed at all, whereas a
      runner executes every routed invocation.  Proved instead: equality on the programs where that cannot
      happen (`sync_eq_dist`, hypothesis `safe`), and for every program: same outcome / `num_retries` / own executions, and
      sync mode executes a sub-list of what distributed mode executes (`sync_outcome_eq_dist_inorder`);
      with the repair (`evalEager`) the full statement holds (`eager_sync_eq_dist`, `eager_sync_eq_dist_any_order`);
    * group results: distributed groups deliver in completion order; every aggregate is the same for every
      order as long as at most one member failed (`group_delivery_order_irrelevant`); with two different failures the
      exception the consumer sees depends on the order (`group_failure_order_matters`);
    * the order of `set_invocation_retry` matters: counter first, RETRY second (a0b5643) gives exact accounting
      (`retry_counter_before_status_exact`); the old order let an awaited invocation be re-executed with a stale
      counter, without any bound on the executions (`retry_status_before_counter_refuted`, `…_unbounded`).
-/
namespace Pynenc.C19
open Pynenc.Exec

/-! ### one invocation -/

/-- For every task configuration (`max_retries`, `retry_for`, script) and whatever the calls of the body produce:
    running the invocation through `DistributedInvocation.run` until it is final and then reading `.result`
    gives the same outcome (value, or exception type + arguments), the same body executions, the same
    `num_retries` and the same number of own executions as `ConcurrentInvocation.result` — provided a stored
    exception comes back from the state backend unchanged (`rt`, the serializer hypothesis of C05/C15). -/
theorem invocation_sync_eq_dist {rt : Exc → Exc} (hrt : ∀ e, rt e = e) (c : Cfg) (cr : CallsRes) :
    distInvoke rt c cr = syncInvoke c cr :=
  distInvoke_eq_syncInvoke hrt c cr

/-- Retry accounting, sync mode.  If the first `k ≤ max_retries` executions of the body raise retriable
    exceptions and execution `k` either is the last one allowed (`k = max_retries`) or does not raise a
    retriable exception, then the body is executed exactly `k + 1` times, `num_retries = k`, and the caller
    sees the outcome of execution `k`. -/
theorem retry_accounting_sync (c : Cfg) (calls : Calls) (k : Nat) (hk : k ≤ c.maxRetries)
    (hbefore : ∀ j, j < k → retriableErr c.retryFor (bodyOut c (evalCalls syncMode calls) j) = true)
    (hstop : k = c.maxRetries ∨ retriableErr c.retryFor (bodyOut c (evalCalls syncMode calls) k) = false) :
    (evalSync (.node c calls)).runs = k + 1 ∧ (evalSync (.node c calls)).retries = k ∧
    (evalSync (.node c calls)).out = bodyOut c (evalCalls syncMode calls) k := by
  have h := syncLoop_accounting c (evalCalls syncMode calls) c.maxRetries 0 k (Nat.zero_le _) (by omega)
    (fun j _ hj => hbefore j hj) (by rcases hstop with h | h; exact .inl (by omega); exact .inr h)
  have e : evalSync (.node c calls) = syncLoop c (evalCalls syncMode calls) c.maxRetries 0 := by
    simp only [evalSync, eval]; rfl
  rw [e]
  exact ⟨by omega, h.2.1, h.1⟩

/-- Retry accounting, distributed mode (executions taken from the queue one after the other): same statement. -/
theorem retry_accounting_dist {rt : Exc → Exc} (hrt : ∀ e, rt e = e) (perm : List Outcome → List Outcome)
    (c : Cfg) (calls : Calls) (k : Nat) (hk : k ≤ c.maxRetries)
    (hbefore : ∀ j, j < k → retriableErr c.retryFor (bodyOut c (evalCalls (distMode rt perm) calls) j) = true)
    (hstop : k = c.maxRetries ∨
      retriableErr c.retryFor (bodyOut c (evalCalls (distMode rt perm) calls) k) = false) :
    (evalDist rt perm (.node c calls)).runs = k + 1 ∧ (evalDist rt perm (.node c calls)).retries = k ∧
    (evalDist rt perm (.node c calls)).out = bodyOut c (evalCalls (distMode rt perm) calls) k := by
  have h := syncLoop_accounting c (evalCalls (distMode rt perm) calls) c.maxRetries 0 k (Nat.zero_le _) (by omega)
    (fun j _ hj => hbefore j hj) (by rcases hstop with h | h; exact .inl (by omega); exact .inr h)
  have e : evalDist rt perm (.node c calls) =
      syncLoop c (evalCalls (distMode rt perm) calls) c.maxRetries 0 := by
    simp only [evalDist, eval]
    exact distInvoke_eq_syncInvoke hrt c _
  rw [e]
  exact ⟨by omega, h.2.1, h.1⟩

/-- A body that raises a retriable exception on every execution is executed exactly `max_retries + 1` times in
    both modes, then the invocation fails with that exception and `num_retries = max_retries`. -/
theorem always_retriable_runs_max_plus_one {rt : Exc → Exc} (hrt : ∀ e, rt e = e)
    (perm : List Outcome → List Outcome) (c : Cfg) (calls : Calls) (e : Exc)
    (hscript : ∀ k, c.actAt k = .early e) (hretr : retriable c.retryFor e = true) :
    evalSync (.node c calls) = ⟨.err e, (evalSync (.node c calls)).log, c.maxRetries, c.maxRetries + 1⟩ ∧
    evalDist rt perm (.node c calls) =
      ⟨.err e, (evalDist rt perm (.node c calls)).log, c.maxRetries, c.maxRetries + 1⟩ := by
  have hb : ∀ cr k, bodyOut c cr k = .err e := fun cr k => by simp [bodyOut, hscript k]
  have hs := retry_accounting_sync c calls c.maxRetries (Nat.le_refl _)
    (fun j _ => by simp [hb, retriableErr, hretr]) (.inl rfl)
  have hd := retry_accounting_dist hrt perm c calls c.maxRetries (Nat.le_refl _)
    (fun j _ => by simp [hb, retriableErr, hretr]) (.inl rfl)
  rw [hb] at hs hd
  constructor
  · cases h : evalSync (.node c calls); simp_all
  · cases h : evalDist rt perm (.node c calls); simp_all

/-- A body whose first `k` executions raise retriable exceptions and whose execution `k ≤ max_retries` returns
    is executed exactly `k + 1` times (it "succeeds on attempt k + 1") in both modes, `num_retries = k`. -/
theorem success_on_attempt_runs_k {rt : Exc → Exc} (hrt : ∀ e, rt e = e) (perm : List Outcome → List Outcome)
    (c : Cfg) (e : Exc) (v : Int) (k : Nat) (hk : k ≤ c.maxRetries)
    (hbefore : ∀ j, j < k → c.actAt j = .early e) (hretr : retriable c.retryFor e = true)
    (hk' : c.actAt k = .ret v) :
    (evalSync (.node c .nil)).runs = k + 1 ∧ (evalSync (.node c .nil)).retries = k ∧
    (evalSync (.node c .nil)).out = .val v ∧
    (evalDist rt perm (.node c .nil)).runs = k + 1 ∧ (evalDist rt perm (.node c .nil)).retries = k ∧
    (evalDist rt perm (.node c .nil)).out = .val v := by
  have hb : ∀ cr j, j < k → bodyOut c cr j = .err e := fun cr j hj => by simp [bodyOut, hbefore j hj]
  have hv : ∀ M, bodyOut c (evalCalls M .nil) k = .val v := fun M => by simp [bodyOut, hk', evalCalls]
  have hs := retry_accounting_sync c .nil k hk
    (fun j hj => by simp [hb _ j hj, retriableErr, hretr]) (.inr (by simp [hv, retriableErr]))
  have hd := retry_accounting_dist hrt perm c .nil k hk
    (fun j hj => by simp [hb _ j hj, retriableErr, hretr]) (.inr (by simp [hv, retriableErr]))
  rw [hv] at hs hd
  exact ⟨hs.1, hs.2.1, hs.2.2, hd.1, hd.2.1, hd.2.2⟩

/-- A non-retriable exception on the first execution fails the invocation after exactly one execution in both
    modes, whatever `max_retries` is. -/
theorem non_retriable_runs_once {rt : Exc → Exc} (hrt : ∀ e, rt e = e) (perm : List Outcome → List Outcome)
    (c : Cfg) (calls : Calls) (e : Exc) (h0 : c.actAt 0 = .early e) (hretr : retriable c.retryFor e = false) :
    (evalSync (.node c calls)).runs = 1 ∧ (evalSync (.node c calls)).retries = 0 ∧
    (evalSync (.node c calls)).out = .err e ∧
    (evalDist rt perm (.node c calls)).runs = 1 ∧ (evalDist rt perm (.node c calls)).retries = 0 ∧
    (evalDist rt perm (.node c calls)).out = .err e := by
  have hb : ∀ cr, bodyOut c cr 0 = .err e := fun cr => by simp [bodyOut, h0]
  have hs := retry_accounting_sync c calls 0 (Nat.zero_le _) (fun j hj => by omega)
    (.inr (by simp [hb, retriableErr, hretr]))
  have hd := retry_accounting_dist hrt perm c calls 0 (Nat.zero_le _) (fun j hj => by omega)
    (.inr (by simp [hb, retriableErr, hretr]))
  rw [hb] at hs hd
  exact ⟨hs.1, hs.2.1, hs.2.2, hd.1, hd.2.1, hd.2.2⟩

/-! ### whole programs -/

/-- The property as stated (in-order delivery, faithful serializer): for every program both modes give the same
    outcome and execute every node's body the same number of times with the same `num_retries` readings. -/
def SyncEqDistStatement : Prop :=
  ∀ p : Prog, (evalDist id id p).out = (evalSync p).out ∧
    ∀ entry, (evalDist id id p).log.count entry = (evalSync p).log.count entry

def retryLater : Exc := ⟨"RetryError", ["RetryError", "PynencError", "Exception"], ["later"]⟩
def valueErr : Exc := ⟨"ValueError", ["ValueError", "Exception"], ["x"]⟩
def keyErr : Exc := ⟨"KeyError", ["KeyError", "LookupError", "Exception"], ["k"]⟩
def leaf (id mr : Nat) (rf : List String) (script : List Act) (dflt : Act) : Prog :=
  .node ⟨id, mr, rf, false, script, dflt⟩ .nil

/-- the root creates an invocation (retried once) and never reads its result -/
def pForget : Prog :=
  .node ⟨1, 0, [], false, [], .ret 1⟩ (.forget (leaf 2 1 [] [.late retryLater] (.ret 3)) .nil)

/-- `parallelize` over [a member that fails, a member that returns]; the root retries once on ValueError -/
def pGroupFail : Prog :=
  .node ⟨1, 1, ["ValueError"], false, [], .ret 1⟩
    (.group false (.cons (leaf 2 0 [] [] (.early valueErr)) (.cons (leaf 3 0 [] [] (.ret 4)) .nil)) .nil)

/-- The unrestricted statement is false on the model of the current code (known finding
    `sync-lazy:unread-invocation`): the invocation `pForget` creates and never reads is executed twice by a runner
    (it retries once) and never in sync mode, where the body only runs inside `.result`. -/
theorem sync_eq_dist_refuted : ¬ SyncEqDistStatement := by
  intro h
  have := (h pForget).2 (2, 0)
  revert this
  decide

/-- Second witness (known finding `sync-lazy:group-stops-at-first-failure`): same exception for the caller, but the
    member behind the failing one runs twice (once per execution of the root) in distributed mode and never in sync
    mode, because `ConcurrentInvocationGroup.results` is a generator over `invocation.result`. -/
theorem sync_group_stops_at_first_failure :
    (evalDist id id pGroupFail).out = (evalSync pGroupFail).out ∧
    (evalSync pGroupFail).log.count (3, 0) = 0 ∧ (evalDist id id pGroupFail).log.count (3, 0) = 2 := by
  decide

/-- Sync development mode and distributed execution give the same outcome.  For every program in which every
    created invocation is read and no group has a failing member in front of another member (`safe`; the two ways a
    program can make sync mode's lazy execution visible — the known findings refuted above), for every
    `max_retries` / `retry_for` / script at every node, nested calls, plain and direct groups, every completion
    order of every group (`perm`) and a faithful serializer (`rt`): the distributed evaluation and the sync evaluation
    are equal — same outcome (value, or exception type + arguments), same body executions with the same
    `num_retries` readings (hence the same execution count for every task), same final `num_retries`. -/
theorem sync_eq_dist {rt : Exc → Exc} {perm : List Outcome → List Outcome}
    (hrt : ∀ e, rt e = e) (hperm : ∀ l, (perm l).Perm l) (p : Prog) (h : safe p = true) :
    evalDist rt perm p = evalSync p :=
  dist_eq_sync_prog hrt hperm p h

/-- a nested program with retries at three levels, a plain group, a direct group and direct singles -/
def pNested : Prog :=
  .node ⟨1, 2, ["LookupError"], false, [.late keyErr], .ret 10⟩
    (.single (.node ⟨2, 1, [], true, [.early retryLater], .ret 1⟩
        (.group false (.cons (leaf 3 1 [] [.late retryLater] (.ret 2))
          (.cons (leaf 4 0 [] [] (.ret 3)) .nil)) .nil))
      (.group true (.cons (leaf 5 0 [] [] (.ret 4))
          (.cons (leaf 6 1 ["ValueError"] [.early valueErr] (.ret 5)) .nil))
        (.single (leaf 7 3 [] [.early retryLater, .late retryLater] (.ret 6)) .nil)))

/-- a program whose last group member exhausts its retries; the exception goes up through two callers, the
    outer one retries on it -/
def pNestedFail : Prog :=
  .node ⟨1, 1, ["C19Err"], false, [], .ret 0⟩
    (.single (.node ⟨2, 0, [], false, [], .ret 1⟩
        (.group false (.cons (leaf 3 0 [] [] (.ret 2))
          (.cons (leaf 4 1 ["C19Err"] [] (.late ⟨"C19SubErr", ["C19SubErr", "C19Err", "Exception"], ["a", "1"]⟩))
            .nil)) .nil))
      .nil)

example : safe pNested = true ∧ (evalSync pNested).out = .val 31 ∧ (evalSync pNested).retries = 1 ∧
    (evalSync pNested).log.length = 24 := by decide
example : safe pNestedFail = true ∧
    (evalSync pNestedFail).out = .err ⟨"C19SubErr", ["C19SubErr", "C19Err", "Exception"], ["a", "1"]⟩ ∧
    (evalSync pNestedFail).retries = 1 ∧ (evalSync pNestedFail).log.count (4, 1) = 2 := by decide
example : evalDist id List.reverse pNested = evalSync pNested :=
  sync_eq_dist (fun _ => rfl) (fun l => List.reverse_perm l) pNested (by decide)

/-- For *every* program (unread invocations and failing groups included), with in-order delivery and a faithful
    serializer: both modes give the same outcome, the same final `num_retries` and the same number of executions
    of the root's own body, and the executions of sync mode are a sub-list of the executions of distributed
    mode — the only divergence of the current code is executions that sync mode skips. -/
theorem sync_outcome_eq_dist_inorder {rt : Exc → Exc} (hrt : ∀ e, rt e = e) (p : Prog) :
    (evalDist rt id p).out = (evalSync p).out ∧ (evalDist rt id p).retries = (evalSync p).retries ∧
    (evalDist rt id p).runs = (evalSync p).runs ∧ (evalSync p).log.Sublist (evalDist rt id p).log := by
  have h := eager_rel_sync_prog p
  simp only [evalDist, evalSync, distMode_id_eq_eager hrt]
  exact h

/-- The repair: if sync mode executed the body when the invocation is created (`evalEager`), the full statement
    would hold — for every program, distributed execution with in-order delivery equals it exactly. -/
theorem eager_sync_eq_dist {rt : Exc → Exc} (hrt : ∀ e, rt e = e) (p : Prog) :
    evalDist rt id p = evalEager p := by
  simp only [evalDist, evalEager, distMode_id_eq_eager hrt]

/-- … and for every completion order of every group, on the programs in which no group has two failing members. -/
theorem eager_sync_eq_dist_any_order {rt : Exc → Exc} {perm : List Outcome → List Outcome}
    (hrt : ∀ e, rt e = e) (hperm : ∀ l, (perm l).Perm l) (p : Prog) (h : unamb p = true) :
    evalDist rt perm p = evalEager p :=
  dist_eq_eager_prog hrt hperm p h

example : unamb pForget = true ∧ unamb pGroupFail = true ∧ unamb pNested = true := by decide
example : evalEager pGroupFail = evalDist id List.reverse pGroupFail :=
  (eager_sync_eq_dist_any_order (fun _ => rfl) (fun l => List.reverse_perm l) pGroupFail (by decide)).symm

/-! ### direct tasks -/

/-- Direct tasks return the plain value / aggregate the group results: replacing every `direct_task` wrapper of a
    program by the plain task (`t(args).result`, `sum(t.parallelize(…).results)`) changes nothing in either mode. -/
theorem direct_flavour_irrelevant (rt : Exc → Exc) (perm : List Outcome → List Outcome) (p : Prog) :
    evalSync (plainProg p) = evalSync p ∧ evalDist rt perm (plainProg p) = evalDist rt perm p :=
  ⟨eval_plain_prog syncMode syncInvoke_plain p, eval_plain_prog (distMode rt perm) (distInvoke_plain rt) p⟩

example : plainProg pNested ≠ pNested ∧ evalSync (plainProg pNested) = evalSync pNested := by
  refine ⟨by simp [pNested, plainProg, plainCalls, Cfg.plain], (direct_flavour_irrelevant id id pNested).1⟩

/-! ### group results -/

/-- `DistributedInvocationGroup.results` yields in completion order, `ConcurrentInvocationGroup.results` in list
    order.  Whatever order the members of a group complete in, the consumer computes the same sum, or sees the
    same exception, as long as at most one member failed: the results agree as multisets. -/
theorem group_delivery_order_irrelevant (outs delivered : List Outcome) (h : delivered.Perm outs)
    (h1 : (errs outs).length ≤ 1) : consume delivered = consume outs :=
  consume_perm h h1

/-- With two members failing differently, the exception the consumer of a distributed group sees depends on the
    completion order (sync mode always reports the first in list order). -/
theorem group_failure_order_matters :
    consume [.err valueErr, .err keyErr] ≠ consume [.err keyErr, .err valueErr] := by decide

/-! ### exceptions through the state backend -/

/-- what `PynencError.to_json` did before commit 5a0b1af: positional arguments were dropped -/
def dropArgs (e : Exc) : Exc := { e with args := [] }

/-- The serializer hypothesis is necessary: with a state backend that loses the arguments of the stored exception
    (the repaired C05 defect), `RetryError("later")` after `max_retries` comes back as `RetryError()` in
    distributed mode only. -/
theorem exception_identity_needs_roundtrip :
    (evalDist dropArgs id (leaf 1 1 [] [] (.late retryLater))).out ≠
      (evalSync (leaf 1 1 [] [] (.late retryLater))).out ∧
    (evalDist dropArgs id (leaf 1 1 [] [] (.late retryLater))).log =
      (evalSync (leaf 1 1 [] [] (.late retryLater))).log := by decide

/-! ### why the retry counter must be incremented before RETRY becomes visible (commit a0b5643)

  Until a0b5643 `set_invocation_retry` published RETRY first and incremented the counter afterwards; an awaited
  invocation is claimed straight from the wait graph as soon as it is RETRY, so its next execution could compare a
  stale counter with `max_retries`.  `racyRuns` models that order (`lands k` = increments that have landed when
  execution `k` reads the counter); with the repaired order every increment has landed before the next execution
  can start (`1 ≤ lands k` with at most one outstanding), which is `distLoop`'s accounting. -/

/-- Accounting of an always-failing awaited invocation as the property states it, for the old order, under every
    timing of the increments: exactly `max_retries + 1` executions whenever it is watched that long. -/
def RetryCountExactUnderAnyTimingStatement : Prop :=
  ∀ (lands : Nat → Nat) (maxRetries left : Nat), maxRetries + 1 ≤ left →
    racyRuns lands maxRetries left {} = maxRetries + 1

/-- False for the old order: if no increment lands in time, a body that always raises `RetryError` with
    `max_retries = 1` is still being retried after 5 executions. -/
theorem retry_status_before_counter_refuted : ¬ RetryCountExactUnderAnyTimingStatement := by
  intro h
  have := h (fun _ => 0) 1 5 (by decide)
  revert this
  decide

/-- … and there is no bound at all: for every `max_retries ≥ 1` and every `N`, a timing exists under which the
    first `N` executions all end in RETRY. -/
theorem retry_status_before_counter_unbounded (maxRetries : Nat) (hm : 1 ≤ maxRetries) (N : Nat) :
    racyRuns (fun _ => 0) maxRetries N {} = N := by
  have := racyRuns_none_land maxRetries hm N {} rfl
  simpa using this

/-- Under every timing the invocation is executed at least `max_retries + 1` times (the race only adds executions). -/
theorem retry_never_fewer_than_max_plus_one (lands : Nat → Nat) (maxRetries left : Nat) :
    min left (maxRetries + 1) ≤ racyRuns lands maxRetries left {} := by
  have := racyRuns_lower lands maxRetries left {} rfl (Nat.zero_le _)
  simpa using this

/-- The repaired order (counter first, RETRY second): every owed increment has landed when the next execution
    reads the counter, and the count is exactly `max_retries + 1`. -/
theorem retry_counter_before_status_exact (lands : Nat → Nat) (hl : ∀ k, 1 ≤ lands k) (maxRetries left : Nat)
    (h : maxRetries + 1 ≤ left) : racyRuns lands maxRetries left {} = maxRetries + 1 :=
  racyRuns_in_order lands hl maxRetries left {} rfl (by simp) (by simp) (by simpa using h)

example : ∃ lands : Nat → Nat, ∀ k, 1 ≤ lands k := ⟨fun _ => 1, fun _ => Nat.le_refl 1⟩

end Pynenc.C19
