import PynencModel.Model.AtomicService
import Mathlib.Tactic.Linarith
import Mathlib.Tactic.FieldSimp
import Mathlib.Tactic.Positivity
import Mathlib.Tactic.Ring
import Mathlib.Algebra.Order.Field.Rat
/-
  C12 — global services are authorised for at most one runner at any instant.

  The model applies a rounding function `fl` after every float operation the code performs.
  Theorems are proved for every `fl` that is monotone, idempotent and fixes 0 (IEEE round-to-nearest
  is such a function — trusted; the executable `rne` is compared bit-for-bit with CPython on every run),
  hence in particular for exact arithmetic (`fl = id`).
-/
namespace Pynenc.C12
open Pynenc.AS

/-- what is assumed of float rounding -/
structure FlOK (fl : Rat → Rat) : Prop where
  mono : ∀ x y, x ≤ y → fl x ≤ fl y
  idem : ∀ x, fl (fl x) = fl x
  zero : fl 0 = 0

theorem flOK_id : FlOK id := ⟨fun _ _ h => h, fun _ => rfl, rfl⟩

/-- the half-slot fallback stays below the next start (true exactly; for binary64 it follows from the
    relative error bound, see `halfSlotOK_of_relErr`) -/
def HalfSlotOK (fl : Rat → Rat) (imin : Rat) (n : Nat) : Prop :=
  ∀ p, fl (slotStart fl imin n p + fl (slotSize fl imin n / 2)) ≤ slotStart fl imin n (p + 1)

section general
variable {fl : Rat → Rat} (h : FlOK fl) {imin mmin : Rat} {n : Nat}
include h

theorem fl_nonneg {x : Rat} (hx : 0 ≤ x) : 0 ≤ fl x := by
  have := h.mono 0 x hx; rwa [h.zero] at this

theorem interval_nonneg (hi : 0 ≤ imin) : 0 ≤ interval fl imin :=
  fl_nonneg h (by positivity)

theorem margin_nonneg (hm : 0 ≤ mmin) : 0 ≤ margin fl mmin :=
  fl_nonneg h (by positivity)

theorem slotSize_nonneg (hi : 0 ≤ imin) : 0 ≤ slotSize fl imin n :=
  fl_nonneg h (div_nonneg (interval_nonneg h hi) (by positivity))

/-- starts are non-decreasing in the position -/
theorem slotStart_mono (hi : 0 ≤ imin) {p q : Nat} (hpq : p ≤ q) :
    slotStart fl imin n p ≤ slotStart fl imin n q := by
  unfold slotStart
  apply h.mono
  have hs := slotSize_nonneg (n := n) h hi
  have : (p : Rat) ≤ (q : Rat) := by exact_mod_cast hpq
  exact mul_le_mul_of_nonneg_right this hs

/-- key fact: a window ends no later than the next window starts (the end is computed *from* the next start) -/
theorem slotEnd_le_next_start (hi : 0 ≤ imin) (hm : 0 ≤ mmin) (hfb : HalfSlotOK fl imin n) (p : Nat) :
    slotEnd fl imin mmin n p ≤ slotStart fl imin n (p + 1) := by
  unfold slotEnd
  split
  · exact hfb p
  · unfold rawEnd slotStart
    have hm' := margin_nonneg h hm
    calc fl (fl (((p + 1 : Nat) : Rat) * slotSize fl imin n) - margin fl mmin)
        ≤ fl (fl (((p + 1 : Nat) : Rat) * slotSize fl imin n)) := h.mono _ _ (by linarith)
      _ = fl (((p + 1 : Nat) : Rat) * slotSize fl imin n) := h.idem _

/-- T1 (floating point, any admissible rounding). Two different positions are never both inside
    their windows at the same instant: for every runner count, cycle length, margin (including
    margin ≥ slot, where the half-slot fallback applies) and instant. -/
theorem mutual_exclusion_fl (hi : 0 ≤ imin) (hm : 0 ≤ mmin) (hfb : HalfSlotOK fl imin n)
    {p q : Nat} (hpq : p < q) (t : Rat) :
    ¬ (inSlot fl imin mmin n p t = true ∧ inSlot fl imin mmin n q t = true) := by
  rintro ⟨hp, hq⟩
  simp only [inSlot, Bool.and_eq_true, decide_eq_true_eq] at hp hq
  have h1 := slotEnd_le_next_start h hi hm hfb p (mmin := mmin)
  have h2 := slotStart_mono (n := n) h hi (Nat.succ_le_of_lt hpq)
  linarith [hp.2, hq.1]

/-- T1 lifted to `can_run_atomic_service`: with the same list of `n ≥ 2` active runners at most one
    position is authorised at any instant. -/
theorem at_most_one_authorised (hi : 0 ≤ imin) (hm : 0 ≤ mmin) (hfb : HalfSlotOK fl imin n)
    {p q : Nat} (hne : p ≠ q) (t : Rat) (hn : 2 ≤ n) :
    ¬ (canRun fl imin mmin n (some p) t = true ∧ canRun fl imin mmin n (some q) t = true) := by
  have h0 : n ≠ 0 := by omega
  have h1 : n ≠ 1 := by omega
  simp only [canRun, h0, h1, if_false]
  rcases Nat.lt_or_gt_of_ne hne with hlt | hlt
  · exact mutual_exclusion_fl h hi hm hfb hlt t
  · intro hh; exact mutual_exclusion_fl h hi hm hfb hlt t ⟨hh.2, hh.1⟩

end general

/-- a runner that is not in the active list is never authorised when there are ≥ 2 runners; none when the list is empty -/
theorem unknown_runner_never (fl : Rat → Rat) (imin mmin : Rat) (n : Nat) (t : Rat) (hn : n ≠ 1) :
    canRun fl imin mmin n none t = false := by
  unfold canRun; split <;> simp_all

/-- a single active runner is always authorised -/
theorem single_runner_always (fl : Rat → Rat) (imin mmin : Rat) (pos : Option Nat) (t : Rat) :
    canRun fl imin mmin 1 pos t = true := by
  simp [canRun]

/-! ### exact arithmetic (`fl = id`) -/

theorem halfSlotOK_id (imin : Rat) (hi : 0 ≤ imin) (n : Nat) : HalfSlotOK id imin n := by
  intro p
  have hs := slotSize_nonneg (fl := id) (n := n) flOK_id hi
  simp only [slotStart, id] at *
  push_cast
  linarith

/-- T1 (exact). -/
theorem mutual_exclusion (imin mmin : Rat) (hi : 0 ≤ imin) (hm : 0 ≤ mmin) (n : Nat)
    {p q : Nat} (hpq : p < q) (t : Rat) :
    ¬ (inSlot id imin mmin n p t = true ∧ inSlot id imin mmin n q t = true) :=
  mutual_exclusion_fl flOK_id hi hm (halfSlotOK_id imin hi n) hpq t

theorem slotSize_id (imin : Rat) (n : Nat) : slotSize id imin n = imin * 60 / n := rfl

/-- T2 (exact). When the margin fits into a slot, consecutive windows — cyclically, the last window
    and the first window of the next cycle included — are separated by exactly the margin (≥ the margin). -/
theorem margin_separation (imin mmin : Rat) (n : Nat) (hn : 0 < n)
    (hfit : mmin * 60 < imin * 60 / n) (p : Nat) (hp : p < n) :
    slotEnd id imin mmin n p = ((p : Rat) + 1) * (imin * 60 / n) - mmin * 60 ∧
    slotStart id imin n (p + 1) - slotEnd id imin mmin n p = mmin * 60 ∧
    (p + 1 = n → interval id imin + slotStart id imin n 0 - slotEnd id imin mmin n p = mmin * 60) := by
  have hraw : rawEnd id imin mmin n p = ((p : Rat) + 1) * (imin * 60 / n) - mmin * 60 := by
    simp [rawEnd, slotSize, interval, margin]
  have hst : ∀ k : Nat, slotStart id imin n k = (k : Rat) * (imin * 60 / n) := by
    intro k; simp [slotStart, slotSize, interval]
  have hnot : ¬ rawEnd id imin mmin n p ≤ slotStart id imin n p := by
    rw [hraw, hst]; intro hc; linarith
  have he : slotEnd id imin mmin n p = ((p : Rat) + 1) * (imin * 60 / n) - mmin * 60 := by
    unfold slotEnd; rw [if_neg hnot, hraw]
  refine ⟨he, ?_, ?_⟩
  · rw [he, hst]; push_cast; ring
  · intro hpn
    rw [he, hst]
    have hn' : (n : Rat) ≠ 0 := by exact_mod_cast (Nat.pos_iff_ne_zero.mp hn)
    have : ((p : Rat) + 1) = (n : Rat) := by exact_mod_cast hpn
    rw [this]
    simp only [interval, id]
    field_simp
    ring

/-- T3 (exact). Every active runner has a non-empty window inside the cycle: for every `p < n`,
    `0 ≤ start < end ≤ interval`, whatever the margin. -/
theorem every_runner_has_window (imin mmin : Rat) (hi : 0 < imin) (hm : 0 ≤ mmin) (n : Nat) (p : Nat) (hp : p < n) :
    0 ≤ slotStart id imin n p ∧ slotStart id imin n p < slotEnd id imin mmin n p ∧
    slotEnd id imin mmin n p ≤ interval id imin := by
  have hn : (0 : Rat) < n := by exact_mod_cast (Nat.lt_of_le_of_lt (Nat.zero_le p) hp)
  have hs : 0 < imin * 60 / n := by positivity
  have hst : ∀ k : Nat, slotStart id imin n k = (k : Rat) * (imin * 60 / n) := by
    intro k; simp [slotStart, slotSize, interval]
  have hlast : slotStart id imin n (p + 1) ≤ interval id imin := by
    rw [hst]; simp only [interval, id]
    have : ((p + 1 : Nat) : Rat) ≤ n := by exact_mod_cast hp
    calc ((p + 1 : Nat) : Rat) * (imin * 60 / n) ≤ (n : Rat) * (imin * 60 / n) :=
          mul_le_mul_of_nonneg_right this hs.le
      _ = imin * 60 := by field_simp
  refine ⟨by rw [hst]; positivity, ?_, ?_⟩
  · unfold slotEnd
    split
    · simp only [id, slotSize_id]; linarith
    · rename_i hc; exact lt_of_not_ge hc
  · exact le_trans (slotEnd_le_next_start flOK_id hi.le hm (halfSlotOK_id imin hi.le n) p) hlast

/-- fmod maps any instant into the cycle and is the identity shift by whole cycles -/
theorem fmod_shift (I x : Rat) (hI : 0 < I) (hx0 : 0 ≤ x) (hxI : x < I) (k : Int) :
    fmod ((k : Rat) * I + x) I = x := by
  unfold fmod
  have hdiv : ((k : Rat) * I + x) / I = (k : Rat) + x / I := by field_simp
  have hfl : (((k : Rat) * I + x) / I).floor = k := by
    rw [hdiv]
    have h1 : (0 : Rat) ≤ x / I := div_nonneg hx0 hI.le
    have h2 : x / I < 1 := by rw [div_lt_one hI]; exact hxI
    apply le_antisymm
    · have : ((k : Rat) + x / I).floor < k + 1 := by
        rw [Rat.floor_lt_iff]; push_cast; linarith
      omega
    · rw [Rat.le_floor_iff]; linarith
  rw [hfl]; ring

/-- T3' (exact). In *every* cycle `k` the runner at position `p < n` is authorised at some instant
    (the start of its window). -/
theorem authorised_in_every_cycle (imin mmin : Rat) (hi : 0 < imin) (hm : 0 ≤ mmin) (n : Nat)
    (p : Nat) (hp : p < n) (k : Int) :
    inSlot id imin mmin n p ((k : Rat) * interval id imin + slotStart id imin n p) = true := by
  obtain ⟨h0, h1, h2⟩ := every_runner_has_window imin mmin hi hm n p hp
  have hI : 0 < interval id imin := by simp only [interval, id]; positivity
  simp only [inSlot, Bool.and_eq_true, decide_eq_true_eq]
  rw [fmod_shift _ _ hI h0 (lt_of_lt_of_le h1 h2) k]
  exact ⟨le_refl _, h1⟩

/-! ### the fallback under binary64's relative error bound -/

/-- `fl` has relative error at most `ε` and halving is exact (true of binary64 away from underflow) -/
structure RelErr (fl : Rat → Rat) (ε : Rat) : Prop where
  bound : ∀ x, 0 ≤ x → (1 - ε) * x ≤ fl x ∧ fl x ≤ (1 + ε) * x
  half : ∀ x, fl (fl x / 2) = fl x / 2

/-- With relative error `ε` the half-slot fallback stays below the next start for all positions
    `p` with `ε·(2p+1) ≤ 1/2` (for binary64, `ε = 2⁻⁵³`: every `p < 2⁵¹`). -/
theorem halfSlot_le_next_of_relErr {fl : Rat → Rat} (h : FlOK fl) {ε : Rat} (hε : 0 ≤ ε) (hr : RelErr fl ε)
    (imin : Rat) (hi : 0 ≤ imin) (n p : Nat) (hp : ε * (2 * p + 1) ≤ 1 / 2) :
    fl (slotStart fl imin n p + fl (slotSize fl imin n / 2)) ≤ slotStart fl imin n (p + 1) := by
  have hs := slotSize_nonneg (n := n) h hi
  set s := slotSize fl imin n with hsdef
  have hhalf : fl (s / 2) = s / 2 := by
    have := hr.half (interval fl imin / (n : Rat))
    simpa [hsdef, slotSize] using this
  have hps : (0 : Rat) ≤ (p : Rat) * s := by positivity
  have hps1 : (0 : Rat) ≤ ((p + 1 : Nat) : Rat) * s := by positivity
  have hb1 := (hr.bound _ hps).2
  have hb2 := (hr.bound _ hps1).1
  have key : slotStart fl imin n p + fl (s / 2) ≤ slotStart fl imin n (p + 1) := by
    rw [hhalf]; unfold slotStart; rw [← hsdef]
    push_cast at hb2 ⊢
    nlinarith [mul_nonneg hε hs, mul_nonneg (mul_nonneg hε hs) (Nat.cast_nonneg (α := Rat) p)]
  calc fl (slotStart fl imin n p + fl (s / 2)) ≤ fl (slotStart fl imin n (p + 1)) := h.mono _ _ key
    _ = slotStart fl imin n (p + 1) := by unfold slotStart; exact h.idem _

/-! ### non-vacuity: concrete configurations meet the hypotheses and exercise both branches -/

example : inSlot id 5 0 9 6 200 = true ∧ inSlot id 5 0 9 5 200 = false := by decide +kernel
example : slotEnd id 6 (1/2) 3 0 = 90 ∧ slotStart id 6 3 1 = 120 := by decide +kernel   -- main branch, margin 30 s
example : slotEnd id 6 3 3 1 = 180 ∧ slotStart id 6 3 1 = 120 := by decide +kernel      -- margin ≥ slot: half-slot fallback
/-- the executable binary64 rounding agrees with the exact value where it is representable and
    rounds 1/10 like IEEE-754 does -/
example : rne 200 = 200 ∧ rne (1/10) = 3602879701896397 / 36028797018963968 := by decide +kernel

end Pynenc.C12
