/-
  C18 under transient read faults of the workflow records.  Tie to the source: `Gen/DetOp.lean` (translate/detop.py), regenerated on
  every run.
-/
import PynencModel.Model.DetOp
import PynencModel.Gen.DetOp

namespace Pynenc.C18F
open Pynenc.DetOp

/-- records are never overwritten -/
def Mono (s s' : S) : Prop := ∀ n x, s.store n = some x → s'.store n = some x

theorem serve_spec (s : S) (q : Nat) : Mono s (serve s q).1 ∧ (serve s q).1.store q = some (serve s q).2 := by
  unfold serve
  cases h : s.store q with
  | some x => exact ⟨fun _ _ h' => h', h⟩
  | none =>
    refine ⟨?_, by simp [upd]⟩
    intro n x hn
    by_cases e : n = q
    · subst e; rw [h] at hn; cases hn
    · simp [upd, e, hn]

theorem mono_trans {a b c : S} (h1 : Mono a b) (h2 : Mono b c) : Mono a c := fun n x h => h2 n x (h1 n x h)

/-- one execution under the code's rule: the k-th value handed out is the record of sequence `c + k + 1` afterwards, and no
    record changed -/
theorem exec_code (s : S) (c : Nat) (fs : List Bool) :
    Mono s (exec .code s c fs).1 ∧
    ∀ k (hk : k < (exec .code s c fs).2.length), (exec .code s c fs).1.store (c + k + 1) = some ((exec .code s c fs).2[k]) := by
  induction fs generalizing s c with
  | nil => exact ⟨fun _ _ h => h, fun k hk => by simp [exec] at hk⟩
  | cons b rest ih =>
    cases b with
    | true => exact ⟨fun _ _ h => h, fun k hk => by simp [exec] at hk⟩
    | false =>
      have hs := serve_spec s (c + 1)
      have := ih (serve s (c + 1)).1 (c + 1)
      simp only [exec]
      refine ⟨mono_trans hs.1 this.1, ?_⟩
      intro k hk
      cases k with
      | zero => simpa using this.1 _ _ hs.2
      | succ k =>
        have h2 := this.2 k (by simpa using hk)
        simpa [Nat.add_assoc, Nat.add_comm 1 k] using h2

/-- records survive a whole life -/
theorem life_mono (s : S) (fss : List (List Bool)) : Mono s (life .code s fss).1 := by
  induction fss generalizing s with
  | nil => exact fun _ _ h => h
  | cons f fs ih => simp only [life]; exact mono_trans (exec_code s 0 f).1 (ih _)

/-- C18 with transient read faults: in any life of a workflow - any number of executions, each cut short wherever a lookup
    fails - the k-th value of one execution is the record of sequence k+1 at the END of the life.  Hence any two executions that
    both reach their k-th draw hand out the same value. -/
theorem nth_value_is_the_final_record (s : S) (fss : List (List Bool)) :
    ∀ e (he : e < (life .code s fss).2.length) k (hk : k < ((life .code s fss).2[e]).length),
      (life .code s fss).1.store (k + 1) = some (((life .code s fss).2[e])[k]) := by
  induction fss generalizing s with
  | nil => intro e he; simp [life] at he
  | cons f fs ih =>
    intro e he k hk
    simp only [life] at he hk ⊢
    cases e with
    | zero =>
      have h1 := (exec_code s 0 f).2 k (by simpa using hk)
      have := life_mono (exec .code s 0 f).1 fs _ _ h1
      simpa using this
    | succ e => simpa using ih (exec .code s 0 f).1 e (by simpa using he) k (by simpa using hk)

theorem executions_agree (s : S) (fss : List (List Bool)) (e1 e2 k : Nat)
    (h1 : e1 < (life .code s fss).2.length) (h2 : e2 < (life .code s fss).2.length)
    (k1 : k < ((life .code s fss).2[e1]).length) (k2 : k < ((life .code s fss).2[e2]).length) :
    ((life .code s fss).2[e1])[k] = ((life .code s fss).2[e2])[k] := by
  have a := nth_value_is_the_final_record s fss e1 h1 k k1
  have b := nth_value_is_the_final_record s fss e2 h2 k k2
  rw [a] at b
  exact Option.some.inj b

/-- retrying the lookup after the counter has moved on shifts every later value of that execution: first execution clean,
    second one with a fault at its second draw - their second values differ -/
theorem retry_after_counting_shifts_the_values :
    (life .retryBurn init [[false, false, false], [false, true, false]]).2 = [[0, 1, 2], [0, 2, 3]] := by decide

/-- non-vacuity: three executions, the second cut short by a fault, all agree where they overlap -/
example : (life .code init [[false, false, false], [false, true, false], [false, false, false, false]]).2 = [[0, 1, 2], [0], [0, 1, 2, 3]] := by decide

/-- tie to the source (regenerated on every run): the counter is advanced exactly once per operation, outside any loop or `try`;
    then the lookup; a recorded value is returned; otherwise generate, record, return.  A lookup that fails is not caught here: it
    ends the execution. -/
theorem code_counts_once_then_looks_up :
    Gen.DetOp.events = ["seq", "lookup", "return-if-recorded", "generate", "store", "return"] ∧ Gen.DetOp.seqCalls = "1" := by decide

end Pynenc.C18F
