import PynencModel.Model.Claims
import PynencModel.Props.C01
/-
  C02 — an invocation is held by at most one runner at a time, under any interleaving.

  Graph level (over the status table regenerated from status.py): a claim (→ PENDING) is only possible
  from an *available* status, which nobody holds; so between two successful claims of one invocation
  the record went through a release, for every request sequence by any number of runners.
  System level (`Model/Claims.lean`): any number of workers of any number of runners plus an arbitrary
  environment, interleaved at the granularity of the atomic status transition: the task body is never
  executing in two workers at once unless a KILLED / RUNNING_RECOVERY transition happened since the
  first one entered.  That the transition *is* atomic in the two real orchestrators is what the
  scheduled correspondence of this check explores (bounded) — see harness/props/c02.py.
-/
namespace Pynenc.C02
open Pynenc Pynenc.C01 Pynenc.Claims

/-- statuses in which a runner holds the invocation -/
def held (s : Status) : Bool := (Gen.table (some s)).requires

private theorem edge_to_pending (s : Status) (h : edge Gen.table (some s) .pending = true) :
    (Gen.table (some s)).available = true ∧ held s = false := by
  cases s <;> first | exact ⟨rfl, rfl⟩ | (exact absurd h (by decide))

/-- G1. PENDING can only be entered from an available, un-held status; and entering it needs a runner id. -/
theorem claim_only_from_available (c : SRec) (rid : Option String) (r : SRec)
    (h : step Gen.table (some c) .pending rid = .ok r) :
    (Gen.table (some c.status)).available = true ∧ held c.status = false ∧
    truthy rid = true ∧ r = { status := .pending, owner := rid } := by
  obtain ⟨s, o⟩ := c
  have h' := (step_ok_iff Gen.table _ _ _ _).1 h
  obtain ⟨he, hown, hr⟩ := h'
  have hacq := (hown ⟨s, o⟩ rfl (by decide)).2 (by decide)
  have hp := edge_to_pending s he
  refine ⟨hp.1, hp.2, hacq, ?_⟩
  rw [← hr]; simp [newOwner, Gen.table]

/-- G2. From the same state a second claim is refused: once PENDING, another request for PENDING —
    by the same or another runner — raises. Two pollers never both obtain it from one available state. -/
theorem second_claim_refused (c : SRec) (rid rid2 : Option String) (r : SRec)
    (h : step Gen.table (some c) .pending rid = .ok r) :
    step Gen.table (some r) .pending rid2 = .error .transition := by
  have := (claim_only_from_available c rid r h).2.2.2
  subst this; rfl

/-- the statuses a record goes through under a list of requests (as `C01.runSeq`), from a given record -/
abbrev path (cur : Option SRec) (reqs : List (Status × Option String)) : List Status :=
  runSeq Gen.table cur reqs

private theorem path_pred_of_pending :
    ∀ (cur : Option SRec) (reqs : List (Status × Option String)) (pre : List Status) (a : Status) (post : List Status),
      path cur reqs = pre ++ a :: .pending :: post → (Gen.table (some a)).available = true := by
  intro cur reqs
  induction reqs generalizing cur with
  | nil => intro pre a post h; simp [path, runSeq] at h
  | cons p rest ih =>
    obtain ⟨req, rid⟩ := p
    intro pre a post h
    simp only [path, runSeq] at h
    cases hs : step Gen.table cur req rid with
    | error e => rw [hs] at h; exact ih cur pre a post h
    | ok r =>
      rw [hs] at h
      have hrs : r.status = req := by
        have := ((step_ok_iff Gen.table _ _ _ _).1 hs).2.2; rw [← this]
      cases pre with
      | cons x pre' =>
        simp only [List.cons_append, List.cons.injEq] at h
        exact ih (some r) pre' a post h.2
      | nil =>
        simp only [List.nil_append, List.cons.injEq] at h
        obtain ⟨ha, hrest⟩ := h
        -- the next successful request is PENDING, made from record r whose status is `a`
        clear ih
        induction rest generalizing post with
        | nil => simp [runSeq] at hrest
        | cons q rest' ih2 =>
          obtain ⟨req2, rid2⟩ := q
          simp only [runSeq] at hrest
          cases hs2 : step Gen.table (some r) req2 rid2 with
          | error e => rw [hs2] at hrest; exact ih2 post hrest
          | ok r2 =>
            rw [hs2] at hrest
            simp only [List.cons.injEq] at hrest
            have hr2 : r2.status = req2 := by
              have := ((step_ok_iff Gen.table _ _ _ _).1 hs2).2.2; rw [← this]
            have hreq2 : req2 = .pending := by rw [← hr2]; exact hrest.1
            subst hreq2
            have := (claim_only_from_available r rid2 r2 hs2).1
            rw [ha] at this; exact this

/-- G3. For every request sequence (any length, any requesters, any interleaving of runners — the
    atomic transition serialises them), every entry into PENDING is immediately preceded by an
    available status, which no runner holds. -/
theorem claim_preceded_by_release (cur : Option SRec) (reqs : List (Status × Option String))
    (pre : List Status) (a : Status) (post : List Status)
    (h : path cur reqs = pre ++ a :: .pending :: post) :
    (Gen.table (some a)).available = true ∧ held a = false := by
  have := path_pred_of_pending cur reqs pre a post h
  refine ⟨this, ?_⟩
  cases a <;> first | rfl | (exact absurd this (by decide))

/-- G3'. Between two successful claims of the same invocation there is always a release. -/
theorem claim_claim_has_release (cur : Option SRec) (reqs : List (Status × Option String))
    (pre mid post : List Status)
    (h : path cur reqs = pre ++ .pending :: mid ++ .pending :: post) :
    ∃ a ∈ mid, (Gen.table (some a)).available = true ∧ held a = false := by
  cases hm : mid.reverse with
  | nil =>
    have : mid = [] := by simpa using hm
    subst this
    have := claim_preceded_by_release cur reqs pre .pending post (by simpa using h)
    exact absurd this.1 (by decide)
  | cons a rm =>
    have hmid : mid = rm.reverse ++ [a] := by
      have := congrArg List.reverse hm; simpa using this
    refine ⟨a, by rw [hmid]; simp, ?_⟩
    apply claim_preceded_by_release cur reqs (pre ++ .pending :: rm.reverse) a post
    rw [h, hmid]; simp

/-- G4. While PENDING or RUNNING only the owner moves an invocation, recovery excepted (from C01). -/
theorem only_owner_moves (c : SRec) (hc : c.status = .pending ∨ c.status = .running) (req : Status)
    (hreq : req ∉ recovery) (rid : Option String) (hne : rid ≠ c.owner) :
    ∃ e, step Gen.table (some c) req rid = .error e :=
  non_owner_rejected c (by rcases hc with h | h <;> simp [owned, h]) req hreq rid hne

/-- G5. A RUNNING invocation can only be re-run after it left RUNNING through KILLED, RUNNING_RECOVERY,
    or a status only its owner can request (RETRY / SUCCESS / FAILED / PAUSED). -/
theorem running_exits :
    (Gen.table (some .running)).allowed.all (fun s => s == .killed || s == .runningRecovery || s == .retry
      || s == .success || s == .failed || s == .paused) = true ∧
    (Gen.table (some .running)).requires = true := by decide

/-! ### system level -/

/-- invariant: an un-killed worker inside a body owns a RUNNING record; two workers inside the same
    body are never both un-killed; a runner never has two workers inside the same body -/
structure BodyInv (s : Sys) : Prop where
  owns : ∀ k, (s.w k).phase = .inBody → (s.w k).killed = false →
      s.recs (s.w k).inv = some { status := .running, owner := some (s.w k).runner }
  excl : ∀ k1 k2, k1 ≠ k2 → (s.w k1).inv = (s.w k2).inv → (s.w k1).phase = .inBody →
      (s.w k2).phase = .inBody → (s.w k1).killed = true ∨ (s.w k2).killed = true
  noSelf : ∀ k1 k2, k1 ≠ k2 → (s.w k1).inv = (s.w k2).inv → (s.w k1).runner = (s.w k2).runner →
      (s.w k1).phase = .inBody → (s.w k2).phase = .inBody → False

private theorem edge_to_running (s : Status) (h : edge Gen.table (some s) .running = true) : s = .pending := by
  cases s <;> first | rfl | (exact absurd h (by decide))

private theorem step_running_from (c r : SRec) (rid : Option String)
    (h : step Gen.table (some c) .running rid = .ok r) :
    c.status = .pending ∧ rid = c.owner ∧ r = { status := .running, owner := c.owner } := by
  obtain ⟨s, o⟩ := c
  have h' := (step_ok_iff Gen.table _ _ _ _).1 h
  obtain ⟨he, hown, hr⟩ := h'
  simp only [Option.map_some] at he
  have hs : s = .pending := edge_to_running s he
  subst hs
  have := (hown ⟨.pending, o⟩ rfl rfl).1 rfl
  refine ⟨rfl, this, ?_⟩
  rw [← hr]; simp [newOwner, Gen.table]

private theorem step_from_running (o : Option String) (req : Status) (rid : Option String) (r : SRec)
    (h : step Gen.table (some ⟨.running, o⟩) req rid = .ok r) :
    isKill req = true ∨ (rid = o ∧ (Gen.table (some req)).overrides = false) := by
  have h' := (step_ok_iff Gen.table _ _ _ _).1 h
  obtain ⟨he, hown, _⟩ := h'
  simp only [Option.map_some] at he
  cases req <;> first
    | (left; rfl)
    | (exact absurd he (by decide))
    | (right; exact ⟨(hown ⟨.running, o⟩ rfl rfl).1 rfl, rfl⟩)

private theorem not_pending_from_running (o : Option String) (rid : Option String) (r : SRec) :
    step Gen.table (some ⟨.running, o⟩) .pending rid ≠ .ok r := by
  intro h
  have := (claim_only_from_available _ _ _ h).1
  simp [Gen.table] at this

/-- S1. The invariant is preserved by every atomic step of every actor. -/
theorem bodyInv_step (s s' : Sys) (hs : BodyInv s) (st : Step Gen.table s s') : BodyInv s' := by
  obtain ⟨hA, hB, hC⟩ := hs
  cases st with
  | env i req rid c r hrec hstep henv hnk =>
    refine ⟨?_, hB, hC⟩
    intro k hp hk
    by_cases hi : (s.w k).inv = i
    · have := hA k hp hk
      rw [hi, hrec] at this
      injection this with this
      subst this
      rcases step_from_running _ _ _ _ hstep with hkill | ⟨hrid, hov⟩
      · rw [hkill] at hnk; exact absurd hnk (by decide)
      · rcases henv _ hrec rfl hrid with h1 | h1
        · rw [h1] at hnk; exact absurd hnk (by decide)
        · rw [h1] at hov; exact absurd hov (by decide)
    · simp only [upd, hi, if_false]; exact hA k hp hk
  | envKill i req rid c r hrec hstep hkill =>
    refine ⟨?_, ?_, ?_⟩
    · intro k hp hk
      simp only [markKilled_phase, markKilled_inv, markKilled_runner] at hp ⊢
      by_cases hi : (s.w k).inv = i
      · have hk' : (markKilled s.w i k).killed = false := hk
        rw [markKilled_hit s.w i k hi hp] at hk'; exact absurd hk' (by decide)
      · have hk' : (markKilled s.w i k).killed = false := hk
        rw [markKilled_miss s.w i k hi] at hk' 
        simp only [upd, hi, if_false]; exact hA k hp hk'
    · intro k1 k2 hne hinv h1 h2
      simp only [markKilled_phase, markKilled_inv] at hinv h1 h2
      rcases hB k1 k2 hne hinv h1 h2 with h | h
      · left; exact markKilled_mono _ _ _ h
      · right; exact markKilled_mono _ _ _ h
    · intro k1 k2 hne hinv hr h1 h2
      simp only [markKilled_phase, markKilled_inv, markKilled_runner] at hinv hr h1 h2
      exact hC k1 k2 hne hinv hr h1 h2
  | claimOk k c r hph hrec hstep =>
    have hnb : ∀ j, (s.w j).phase = .inBody → (s.w j).killed = false → (s.w j).inv ≠ (s.w k).inv := by
      intro j hp hk hi
      have := hA j hp hk
      rw [hi, hrec] at this
      injection this with this
      subst this
      exact not_pending_from_running _ _ _ hstep
    refine ⟨?_, ?_, ?_⟩
    · intro j hp hk
      by_cases hj : j = k
      · subst hj; simp [upd] at hp
      · simp only [upd, hj, if_false] at hp hk ⊢
        have := hnb j hp hk
        simp only [this, if_false]; exact hA j hp hk
    · intro k1 k2 hne hinv h1 h2
      by_cases e1 : k1 = k
      · subst e1; simp [upd] at h1
      · by_cases e2 : k2 = k
        · subst e2; simp [upd] at h2
        · simp only [upd, e1, e2, if_false] at hinv h1 h2 ⊢; exact hB k1 k2 hne hinv h1 h2
    · intro k1 k2 hne hinv hr h1 h2
      by_cases e1 : k1 = k
      · subst e1; simp [upd] at h1
      · by_cases e2 : k2 = k
        · subst e2; simp [upd] at h2
        · simp only [upd, e1, e2, if_false] at hinv hr h1 h2; exact hC k1 k2 hne hinv hr h1 h2
  | claimFail k hph =>
    refine ⟨?_, ?_, ?_⟩
    · intro j hp hk
      by_cases hj : j = k
      · subst hj; simp [upd] at hp
      · simp only [upd, hj, if_false] at hp hk ⊢; exact hA j hp hk
    · intro k1 k2 hne hinv h1 h2
      by_cases e1 : k1 = k
      · subst e1; simp [upd] at h1
      · by_cases e2 : k2 = k
        · subst e2; simp [upd] at h2
        · simp only [upd, e1, e2, if_false] at hinv h1 h2 ⊢; exact hB k1 k2 hne hinv h1 h2
    · intro k1 k2 hne hinv hr h1 h2
      by_cases e1 : k1 = k
      · subst e1; simp [upd] at h1
      · by_cases e2 : k2 = k
        · subst e2; simp [upd] at h2
        · simp only [upd, e1, e2, if_false] at hinv hr h1 h2; exact hC k1 k2 hne hinv hr h1 h2
  | startFail k hph =>
    refine ⟨?_, ?_, ?_⟩
    · intro j hp hk
      by_cases hj : j = k
      · subst hj; simp [upd] at hp
      · simp only [upd, hj, if_false] at hp hk ⊢; exact hA j hp hk
    · intro k1 k2 hne hinv h1 h2
      by_cases e1 : k1 = k
      · subst e1; simp [upd] at h1
      · by_cases e2 : k2 = k
        · subst e2; simp [upd] at h2
        · simp only [upd, e1, e2, if_false] at hinv h1 h2 ⊢; exact hB k1 k2 hne hinv h1 h2
    · intro k1 k2 hne hinv hr h1 h2
      by_cases e1 : k1 = k
      · subst e1; simp [upd] at h1
      · by_cases e2 : k2 = k
        · subst e2; simp [upd] at h2
        · simp only [upd, e1, e2, if_false] at hinv hr h1 h2; exact hC k1 k2 hne hinv hr h1 h2
  | finishRefused k hph =>
    refine ⟨?_, ?_, ?_⟩
    · intro j hp hk
      by_cases hj : j = k
      · subst hj; simp [upd] at hp
      · simp only [upd, hj, if_false] at hp hk ⊢; exact hA j hp hk
    · intro k1 k2 hne hinv h1 h2
      by_cases e1 : k1 = k
      · subst e1; simp [upd] at h1
      · by_cases e2 : k2 = k
        · subst e2; simp [upd] at h2
        · simp only [upd, e1, e2, if_false] at hinv h1 h2 ⊢; exact hB k1 k2 hne hinv h1 h2
    · intro k1 k2 hne hinv hr h1 h2
      by_cases e1 : k1 = k
      · subst e1; simp [upd] at h1
      · by_cases e2 : k2 = k
        · subst e2; simp [upd] at h2
        · simp only [upd, e1, e2, if_false] at hinv hr h1 h2; exact hC k1 k2 hne hinv hr h1 h2
  | startOk k c r hph hns hrec hstep =>
    obtain ⟨hcs, hrid, hr⟩ := step_running_from c r _ hstep
    -- nobody un-killed is inside this body: the record is PENDING, not RUNNING
    have hnb : ∀ j, (s.w j).phase = .inBody → (s.w j).killed = false → (s.w j).inv ≠ (s.w k).inv := by
      intro j hp hk hi
      have := hA j hp hk
      rw [hi, hrec] at this
      injection this with this
      rw [this] at hcs; simp at hcs
    refine ⟨?_, ?_, ?_⟩
    · intro j hp hk
      by_cases hj : j = k
      · subst hj
        simp only [upd, if_true]
        rw [hr, ← hrid]
      · simp only [upd, hj, if_false] at hp hk ⊢
        have := hnb j hp hk
        simp only [this, if_false]; exact hA j hp hk
    · intro k1 k2 hne hinv h1 h2
      by_cases e1 : k1 = k
      · subst e1
        have e2 : k2 ≠ k1 := fun e => hne e.symm
        simp only [upd, e2, if_false, if_true] at hinv h1 h2 ⊢
        right
        cases hk2 : (s.w k2).killed with
        | true => rfl
        | false => exact absurd hinv.symm (hnb k2 h2 hk2)
      · by_cases e2 : k2 = k
        · subst e2
          simp only [upd, e1, if_false, if_true] at hinv h1 h2 ⊢
          left
          cases hk1 : (s.w k1).killed with
          | true => rfl
          | false => exact absurd hinv (hnb k1 h1 hk1)
        · simp only [upd, e1, e2, if_false] at hinv h1 h2 ⊢; exact hB k1 k2 hne hinv h1 h2
    · intro k1 k2 hne hinv hrn h1 h2
      by_cases e1 : k1 = k
      · subst e1
        have e2 : k2 ≠ k1 := fun e => hne e.symm
        simp only [upd, e2, if_false, if_true] at hinv hrn h1 h2
        exact hns k2 e2 ⟨hinv.symm, hrn.symm, h2⟩
      · by_cases e2 : k2 = k
        · subst e2
          simp only [upd, e1, if_false, if_true] at hinv hrn h1 h2
          exact hns k1 e1 ⟨hinv, hrn, h1⟩
        · simp only [upd, e1, e2, if_false] at hinv hrn h1 h2; exact hC k1 k2 hne hinv hrn h1 h2
  | finishOk k outcome c r hph hout hrec hstep =>
    refine ⟨?_, ?_, ?_⟩
    · intro j hp hk
      by_cases hj : j = k
      · subst hj; simp [upd] at hp
      · simp only [upd, hj, if_false] at hp hk ⊢
        by_cases hi : (s.w j).inv = (s.w k).inv
        · -- j un-killed inside the same body: then k is a zombie of another runner, its request is refused
          exfalso
          have hj' := hA j hp hk
          rw [hi, hrec] at hj'
          injection hj' with hj'
          subst hj'
          rcases step_from_running _ _ _ _ hstep with hkill | ⟨hrid, _⟩
          · rcases hout with h | h | h <;> subst h <;> exact absurd hkill (by decide)
          · injection hrid with hrid
            exact hC k j (fun e => hj e.symm) hi.symm hrid hph hp
        · simp only [hi, if_false]; exact hA j hp hk
    · intro k1 k2 hne hinv h1 h2
      by_cases e1 : k1 = k
      · subst e1; simp [upd] at h1
      · by_cases e2 : k2 = k
        · subst e2; simp [upd] at h2
        · simp only [upd, e1, e2, if_false] at hinv h1 h2 ⊢; exact hB k1 k2 hne hinv h1 h2
    · intro k1 k2 hne hinv hr h1 h2
      by_cases e1 : k1 = k
      · subst e1; simp [upd] at h1
      · by_cases e2 : k2 = k
        · subst e2; simp [upd] at h2
        · simp only [upd, e1, e2, if_false] at hinv hr h1 h2; exact hC k1 k2 hne hinv hr h1 h2

/-- initial states: nobody is inside a body yet (any store content, any number of workers) -/
theorem bodyInv_init (s0 : Sys) (h : ∀ k, (s0.w k).phase ≠ .inBody) : BodyInv s0 :=
  ⟨fun k hp => absurd hp (h k), fun k1 _ _ _ hp => absurd hp (h k1), fun k1 _ _ _ _ hp => absurd hp (h k1)⟩

/-- S2 (system-level half of the property, all interleavings, any number of runners and workers).
    In every reachable state, if two different workers are both executing the body of the same
    invocation, a KILLED or RUNNING_RECOVERY transition of that invocation happened since one of them
    entered; and a worker that has not been killed/recovered owns the RUNNING record. -/
theorem no_double_body (s0 s : Sys) (h0 : ∀ k, (s0.w k).phase ≠ .inBody) (hr : Reach Gen.table s0 s) :
    (∀ k1 k2, k1 ≠ k2 → (s.w k1).inv = (s.w k2).inv → (s.w k1).phase = .inBody → (s.w k2).phase = .inBody →
        (s.w k1).killed = true ∨ (s.w k2).killed = true) ∧
    (∀ k, (s.w k).phase = .inBody → (s.w k).killed = false →
        s.recs (s.w k).inv = some { status := .running, owner := some (s.w k).runner }) := by
  have : BodyInv s := by
    induction hr with
    | refl => exact bodyInv_init s0 h0
    | step s s' _ st ih => exact bodyInv_step s s' ih st
  exact ⟨this.excl, this.owns⟩

/-- non-vacuity: a concrete reachable state with a worker inside a body (claim, start), and the
    second worker's claim from the same state is refused -/
example :
    ∃ s, Reach Gen.table
      { recs := fun i => if i = "i" then some ⟨.registered, some "client"⟩ else none,
        w := fun k => ⟨if k = 0 then "rA" else "rB", "i", .idle, false⟩ } s ∧
      (s.w 0).phase = .inBody ∧ s.recs "i" = some ⟨.running, some "rA"⟩ := by
  refine ⟨_, .step _ _ (.step _ _ .refl (Step.claimOk _ 0 ⟨.registered, some "client"⟩ ⟨.pending, some "rA"⟩ rfl rfl rfl))
    (Step.startOk _ 0 ⟨.pending, some "rA"⟩ ⟨.running, some "rA"⟩ rfl ?_ rfl rfl), rfl, rfl⟩
  intro j hj hh
  have : (if j = 0 then Worker.mk "rA" "i" .claimed false else ⟨if j = 0 then "rA" else "rB", "i", .idle, false⟩).phase = .inBody := hh.2.2
  split at this <;> simp at this

/-- **Registration is no way round a claim**: registering an invocation the orchestrator already knows (a client re-sending
    its batch) changes nothing at all - in particular not the status, the owner or the retry count of a held invocation.
    (`_register_new_invocations`: "if they don't exist yet"; both backends since repair c3ec40c.) -/
theorem reregistration_changes_nothing (o : Orch) (id : String) (inf : InvInfo) (rid : Option String) (now : Int)
    (h : o.recs.has id = true) : o.registerInv id inf rid now = o ∧ o.register id rid now = o := by
  simp [Orch.registerInv, Orch.register, h]

/-- … and registration of an unknown id creates exactly a REGISTERED record owned by the registrant -/
theorem registration_creates_registered (o : Orch) (id : String) (rid : Option String) (now : Int)
    (h : o.recs.has id = false) : (o.register id rid now).get id = some { status := .registered, owner := rid, ts := now } := by
  simp [Orch.register, Orch.get, h, AMap.get?_set_self]

end Pynenc.C02
