import PynencModel.Model.Sanitize
import PynencModel.Gen.TableNames
/-
  C17 — applications with different ids are fully isolated, for any id string.

  What is proved, over **all** id strings (`List Char`, i.e. every string `str.encode()` accepts) and
  all 8-hex-digit suffixes, against the component / table / index templates regenerated from the
  `Tables` classes and from the SQL of a probe application on every run (`Gen/TableNames.lean`):

  * the storage prefix is a plain SQL identifier (`sanitize_identifier_safe`, `table_names_identifier_safe`,
    `keep_not_meta`), whatever `str.isdigit` thinks of non-ASCII digits (`stemWith_eq_stem`);
  * two applications' table names coincide only if stems are case-equal and the hash suffixes are equal
    (`table_names_distinct`, `apps_disjoint`); inside one application no two tables coincide (`pairs_nodup`);
  * `purge()` (exact names) touches exactly the purging component's tables (`purge_touches_only_own`,
    `exact_purge_isolated`, `purge_keeps_tables`), while the legacy `LIKE prefix%` purge is refuted with a
    witness that needs neither a wildcard nor a collision (`prefix_purge_hits_other_app`,
    `prefix_purge_not_isolated`);
  * every statement names only the issuing application's tables and indexes (`ops_touch_only_own_tables`,
    `index_name_not_a_table`).
  * no id yields a name SQLite reserves (`never_reserved`, `reserved_iff_stem`); the scheme before commit
    c2764ff did (`old_scheme_reserved`, about `stemOld`).

  SHA-256 is not modelled: the suffix is a parameter and "no collision" (`ha ≠ hb`) a visible hypothesis.
  Property theorems only; helper lemmas are `private`.
-/
namespace Pynenc.C17
open Pynenc Pynenc.San

private theorem keep_underscore : keep '_' = true := by decide

private theorem keep_subst (c : Char) : keep (subst c) = true := by
  unfold subst
  split
  · assumption
  · exact keep_underscore

private theorem subst_of_keep {c : Char} (h : keep c = true) : subst c = c := by simp [subst, h]

private theorem hex_keep {c : Char} (h : isHexLower c = true) : keep c = true := by
  simp only [isHexLower, isAsciiDigit, keep, isAlpha, isLower, isUpper, Bool.or_eq_true, Bool.and_eq_true, decide_eq_true_eq] at *
  omega

private theorem hex_not_upper {c : Char} (h : isHexLower c = true) : isUpper c = false := by
  simp only [isHexLower, isAsciiDigit, isUpper, Bool.or_eq_true, Bool.and_eq_true, decide_eq_true_eq, Bool.and_eq_false_iff, decide_eq_false_iff_not] at *
  omega

private theorem not_reserved_of_head {c : Char} (l : List Char) (h : fold c ≠ 's') : isReserved (c :: l) = false := by
  simp [isReserved, foldS, List.take_succ_cons, h]

/-- the stem in a form without the emptiness test -/
private theorem stemWith_cons (isdigit : Char → Bool) (c : Char) (cs : List Char) :
    stemWith isdigit (c :: cs) =
      if (isdigit (subst c) || isReserved (subst c :: cs.map subst ++ ['_'])) = true
      then '_' :: subst c :: cs.map subst else subst c :: cs.map subst := by
  unfold stemWith stemGen
  simp only [List.map_cons, Bool.true_and]
  split <;> rfl

private theorem stemWith_nil (isdigit : Char → Bool) : stemWith isdigit [] = defaultStem := rfl

/-- `str.isdigit` cannot tell apart what the regular expression leaves.  Python's `isdigit` is true of many
    non-ASCII characters ('٣', '３', '²' …), but `sanitize_table_prefix` applies it to the first character
    *after* `re.sub(r"[^a-zA-Z0-9_]", "_", ·)`: for **every** digit test that agrees with `[0-9]` on the
    characters of the class `[a-zA-Z0-9_]` (checked against CPython on every run) the sanitised stem is
    the one computed with the ASCII test — for every id. -/
theorem stemWith_eq_stem (isdigit : Char → Bool)
    (hd : ∀ c, keep c = true → isdigit c = isAsciiDigit c) (id : List Char) :
    stemWith isdigit id = stem id := by
  cases id with
  | nil => rfl
  | cons c cs => rw [stem, stemWith_cons, stemWith_cons, hd (subst c) (keep_subst c)]

private theorem stem_all_keep (id : List Char) : ∀ c ∈ stem id, keep c = true := by
  cases id with
  | nil => decide
  | cons c cs =>
    rw [stem, stemWith_cons]
    have hm : ∀ x ∈ subst c :: cs.map subst, keep x = true := by
      intro x hx
      rcases List.mem_cons.mp hx with h | h
      · rw [h]; exact keep_subst c
      · obtain ⟨y, _, rfl⟩ := List.mem_map.mp h; exact keep_subst y
    split
    · intro x hx
      rcases List.mem_cons.mp hx with h | h
      · rw [h]; exact keep_underscore
      · exact hm x h
    · exact hm

/-- first character of the stem: a letter or `_`, never a digit -/
private theorem stem_head (id : List Char) : ∃ c cs, stem id = c :: cs ∧ (isAlpha c || c == '_') = true := by
  cases id with
  | nil => exact ⟨'_', _, rfl, by decide⟩
  | cons c cs =>
    rw [stem, stemWith_cons]
    split
    · exact ⟨'_', _, rfl, by decide⟩
    · rename_i h
      refine ⟨subst c, _, rfl, ?_⟩
      have hk := keep_subst c
      simp only [keep, Bool.or_eq_true] at hk
      simp only [Bool.or_eq_true] at h ⊢
      rcases hk with (hk | hk) | hk
      · exact Or.inl hk
      · exact absurd (Or.inl hk) h
      · exact Or.inr hk


private theorem all_keep_of_forall {l : List Char} (h : ∀ c ∈ l, keep c = true) : l.all keep = true :=
  List.all_eq_true.mpr h

private theorem isIdent_of {c : Char} {cs : List Char} (h1 : (isAlpha c || c == '_') = true) (h2 : ∀ x ∈ cs, keep x = true) :
    isIdent (c :: cs) = true := by
  simp only [isIdent, Bool.and_eq_true]
  exact ⟨h1, all_keep_of_forall h2⟩

/-- **the prefix is a plain SQL identifier.**  For every application id (any Unicode string, empty included)
    and every 8-hex-digit suffix, `sanitize_table_prefix(id)` matches `[A-Za-z_][A-Za-z0-9_]*`: it is not
    empty, does not start with a digit, and consists of `[a-zA-Z0-9_]` only — so no quote, semicolon,
    blank, `%`, comment marker or any other character of the id reaches an SQL statement
    (see `keep_not_meta`). -/
theorem sanitize_identifier_safe (id h : List Char) (hh : IsHex8 h) :
    isIdent (sprefix id h) = true ∧ ∀ c ∈ sprefix id h, keep c = true := by
  obtain ⟨c, cs, hs, hc⟩ := stem_head id
  have hk := stem_all_keep id
  have hall : ∀ x ∈ sprefix id h, keep x = true := by
    intro x hx
    simp only [sprefix, List.mem_append, List.mem_cons] at hx
    rcases hx with hx | hx | hx
    · exact hk x hx
    · rw [hx]; exact keep_underscore
    · exact hex_keep (hh.2 x hx)
  refine ⟨?_, hall⟩
  have : sprefix id h = c :: (cs ++ '_' :: h) := by simp [sprefix, hs]
  rw [this] at hall ⊢
  exact isIdent_of hc (fun x hx => hall x (List.mem_cons_of_mem _ hx))

/-- the characters that mean something to SQL or to `LIKE` (other than `_`) are outside `[a-zA-Z0-9_]` -/
theorem keep_not_meta {c : Char} (h : keep c = true) :
    c ∉ ['\'', '"', ';', ' ', '%', '-', '`', '[', ']', '(', ')', ',', '.', '*', '/', '\\', '\n', '\t', '\x00', '=', '<', '>', '|', '&', '+', ':', '?', '@', '$', '#', '!', '{', '}', '~', '^'] := by
  intro hm
  simp only [List.mem_cons, List.not_mem_nil, or_false] at hm
  rcases hm with h' | h' | h' | h' | h' | h' | h' | h' | h' | h' | h' | h' | h' | h' | h' | h' | h' | h' | h' | h' | h' | h' | h' | h' | h' | h' | h' | h' | h' | h' | h' | h' | h' | h' | h' <;>
    (rw [h'] at h; revert h; decide)


/-! ### table names -/

/-- `"__" ++ component ++ "_" ++ table` -/
def endOf (p : List Char × List Char) : List Char := '_' :: '_' :: p.1 ++ '_' :: p.2

abbrev pairs : List (List Char × List Char) := pairsOf Gen.components

private theorem tableName_eq (id h : List Char) (p : List Char × List Char) :
    tableName id h p.1 p.2 = sprefix id h ++ endOf p := by
  simp [tableName, tablePrefix, endOf, List.append_assoc]

private theorem foldS_append (a b : List Char) : foldS (a ++ b) = foldS a ++ foldS b := by simp [foldS]

private theorem foldS_length (a : List Char) : (foldS a).length = a.length := by simp [foldS]

private theorem foldS_hex {h : List Char} (hh : ∀ c ∈ h, isHexLower c = true) : foldS h = h := by
  unfold foldS
  conv => rhs; rw [← List.map_id h]
  apply List.map_congr_left
  intro c hc
  simp [fold, hex_not_upper (hh c hc)]

/-- no table ending of the source tree is a suffix of another one (up to ASCII case) -/
private theorem ends_suffix_free :
    ∀ p ∈ pairs, ∀ q ∈ pairs, (foldS (endOf p)).isSuffixOf (foldS (endOf q)) = true → p = q := by decide

private theorem append_suffix_cases {α : Type} {x y e f : List α} (h : x ++ e = y ++ f) : e <:+ f ∨ f <:+ e := by
  rcases List.append_eq_append_iff.mp h with ⟨a', _, h2⟩ | ⟨c', _, h2⟩
  · exact Or.inr ⟨a', h2.symm⟩
  · exact Or.inl ⟨c', h2.symm⟩

/-- **table names are distinct.**  If a table name of application `(a, ha)` and a table name of application
    `(b, hb)` denote the same SQLite table (SQLite compares names ASCII-case-insensitively), then the
    sanitised stems are equal up to case **and** the hash suffixes are equal **and** it is the same
    component and the same table.  So ids that differ in punctuation (`my-app`/`my_app`), in case
    (`App`/`app`), or where one looks like a storage prefix of the other, share a table only on a
    collision of the 32-bit SHA-256 prefix (`ha = hb`) — the residual hypothesis, stated, not assumed. -/
theorem table_names_distinct (a b ha hb : List Char) (hha : IsHex8 ha) (hhb : IsHex8 hb)
    (p q : List Char × List Char) (hp : p ∈ pairs) (hq : q ∈ pairs)
    (heq : ieq (tableName a ha p.1 p.2) (tableName b hb q.1 q.2) = true) :
    foldS (stem a) = foldS (stem b) ∧ ha = hb ∧ p = q := by
  rw [tableName_eq, tableName_eq] at heq
  simp only [ieq, beq_iff_eq, foldS_append] at heq
  have hpq : p = q := by
    rcases append_suffix_cases heq with hs | hs
    · exact ends_suffix_free p hp q hq (by simpa using hs)
    · exact (ends_suffix_free q hq p hp (by simpa using hs)).symm
  subst hpq
  have h1 := List.append_cancel_right heq
  simp only [sprefix, foldS_append] at h1
  have h2 := List.append_inj' h1 (by simp [foldS_length, hha.1, hhb.1])
  refine ⟨h2.1, ?_, rfl⟩
  have h3 := h2.2
  simp only [foldS, List.map_cons, List.cons.injEq] at h3
  have := h3.2
  rw [show List.map fold ha = foldS ha from rfl, show List.map fold hb = foldS hb from rfl,
    foldS_hex hha.2, foldS_hex hhb.2] at this
  exact this

/-- what is assumed of `sha256(·).hexdigest()[:8]`: 8 lower-case hex digits — *no* injectivity -/
def HashOK (H : List Char → List Char) : Prop := ∀ x, IsHex8 (H x)

private theorem mem_appTables {id h n : List Char} (hn : n ∈ appTables Gen.components id h) :
    ∃ p ∈ pairs, n = tableName id h p.1 p.2 := by
  simp only [appTables, List.mem_map] at hn
  obtain ⟨p, hp, rfl⟩ := hn
  exact ⟨p, hp, rfl⟩

private theorem mem_compTables {id h n : List Char} {comp : String} (hn : n ∈ compTables Gen.components id h comp) :
    ∃ p ∈ pairs, p.1 = comp.toList ∧ n = tableName id h p.1 p.2 := by
  simp only [compTables, List.mem_map, List.mem_filter, beq_iff_eq] at hn
  obtain ⟨p, ⟨hp, hc⟩, rfl⟩ := hn
  exact ⟨p, hp, hc, rfl⟩

/-- two applications whose hash suffixes differ share no table, whatever their ids look like
    (`H` is any function producing 8 hex digits; `H a ≠ H b` is the no-collision hypothesis) -/
theorem apps_disjoint (H : List Char → List Char) (hH : HashOK H) (a b : List Char) (hne : H a ≠ H b) :
    ∀ n ∈ appTables Gen.components a (H a), ∀ m ∈ appTables Gen.components b (H b), ieq n m = false := by
  intro n hn m hm
  obtain ⟨p, hp, rfl⟩ := mem_appTables hn
  obtain ⟨q, hq, rfl⟩ := mem_appTables hm
  cases h : ieq (tableName a (H a) p.1 p.2) (tableName b (H b) q.1 q.2) with
  | false => rfl
  | true => exact absurd (table_names_distinct a b _ _ (hH a) (hH b) p q hp hq h).2.1 hne

/-! ### purge -/

private theorem foldl_deleteFrom {ρ : Type} (names : List (List Char)) (db : DB ρ) :
    names.foldl deleteFrom db =
      db.map fun e => if names.any (fun x => ieq e.1 x) then (e.1, []) else e := by
  induction names generalizing db with
  | nil => simp
  | cons n rest ih =>
    rw [List.foldl_cons, ih, deleteFrom, List.map_map]
    apply List.map_congr_left
    intro e _
    obtain ⟨k, rows⟩ := e
    simp only [Function.comp, List.any_cons]
    by_cases h : ieq k n = true
    · simp [h]
    · simp [h]

/-- what `delete_tables` does to one stored table -/
def touchExact {ρ : Type} (db : DB ρ) (names : List (List Char)) (e : List Char × List ρ) : List Char × List ρ :=
  if names.any (fun x => (db.map (·.1)).contains x && ieq e.1 x) then (e.1, []) else e

private theorem purgeExact_eq {ρ : Type} (db : DB ρ) (names : List (List Char)) :
    purgeExact db names = db.map (touchExact db names) := by
  rw [purgeExact, foldl_deleteFrom]
  apply List.map_congr_left
  intro e _
  simp only [touchExact, List.any_filter]


private theorem touchExact_id {ρ : Type} (db : DB ρ) (names : List (List Char)) (e : List Char × List ρ)
    (h : ∀ x ∈ names, ieq e.1 x = false) : touchExact db names e = e := by
  unfold touchExact
  have : names.any (fun x => (db.map (·.1)).contains x && ieq e.1 x) = false := by
    apply List.any_eq_false.mpr
    intro x hx
    simp [h x hx]
  rw [this]; simp

private theorem ieq_refl (a : List Char) : ieq a a = true := by simp [ieq]

/-- **purge touches only the purging component's own tables.**  `comp.purge()` of application `(a, ha)`
    (= `delete_tables(path, Tables(a).all_table_names())`) maps the database entry by entry; an entry is
    left exactly as it was unless its name is (case-insensitively) one of the purging component's own
    table names.  Consequently, for **every** database content, ids and hash suffixes: (1) every table of an
    application whose (case-folded stem, hash) differs — in particular every application with another hash
    suffix — and every table of *another component of the same application* keeps all its rows; (2) every
    existing table of the purging component ends up empty.  (`touchExact` is the per-table effect.) -/
theorem purge_touches_only_own {ρ : Type} (db : DB ρ) (a ha : List Char) (hha : IsHex8 ha) (comp : String) :
    let own := compTables Gen.components a ha comp
    purgeExact db own = db.map (touchExact db own) ∧
    -- every table of an application with another (stem, hash), and every table of another component
    -- of the same application, keeps all its rows
    (∀ (b hb : List Char) (q : List Char × List Char) (rows : List ρ), IsHex8 hb → q ∈ pairs →
        (foldS (stem b) ≠ foldS (stem a) ∨ hb ≠ ha ∨ q.1 ≠ comp.toList) →
        touchExact db own (tableName b hb q.1 q.2, rows) = (tableName b hb q.1 q.2, rows)) ∧
    -- every existing table of the purging component is emptied
    (∀ x ∈ own, ∀ rows : List ρ, (x, rows) ∈ db → touchExact db own (x, rows) = (x, [])) := by
  intro own
  refine ⟨purgeExact_eq db own, ?_, ?_⟩
  · intro b hb q rows hhb hq hdiff
    apply touchExact_id
    intro x hx
    obtain ⟨p, hp, hpc, rfl⟩ := mem_compTables hx
    cases h : ieq (tableName b hb q.1 q.2) (tableName a ha p.1 p.2) with
    | false => rfl
    | true =>
      have := table_names_distinct b a hb ha hhb hha q p hq hp h
      rcases hdiff with hd | hd | hd
      · exact absurd this.1 hd
      · exact absurd this.2.1 hd
      · exact absurd (by rw [this.2.2]; exact hpc) hd
  · intro x hx rows hmem
    unfold touchExact
    have : own.any (fun y => (db.map (·.1)).contains y && ieq x y) = true := by
      apply List.any_eq_true.mpr
      refine ⟨x, hx, ?_⟩
      simp only [Bool.and_eq_true, ieq_refl, and_true, List.contains_iff_mem, List.mem_map]
      exact ⟨(x, rows), hmem, rfl⟩
    rw [this]; simp

/-- **the model's purge is the source's purge.**  Every component of the current tree purges by exact names
    (observed on a probe application with a prefix-named decoy table next to it, regenerated every run):
    `purgeExact`, not the legacy `purgeLike`, is the model of `purge()`.  A component going back to the
    `LIKE prefix%` purge makes this stop type-checking. -/
theorem purge_is_by_exact_names :
    Gen.purgeSparesPrefixDecoy.map (·.1) = Gen.components.map (·.1) ∧
    ∀ c ∈ Gen.purgeSparesPrefixDecoy, c.2 = true := by decide

/-- purge (`DELETE FROM`, never `DROP`) neither creates nor removes tables -/
theorem purge_keeps_tables {ρ : Type} (db : DB ρ) (names : List (List Char)) :
    (purgeExact db names).map (·.1) = db.map (·.1) := by
  rw [purgeExact_eq, List.map_map]
  apply List.map_congr_left
  intro e _
  simp only [Function.comp, touchExact]
  split <;> rfl

/-! ### the legacy prefix purge (`LIKE prefix || '%'`) is *not* isolated -/

private theorem anySuffix_like_nil (s : List Char) : anySuffix (like []) s = true := by
  induction s with
  | nil => rfl
  | cons c s ih => simp [anySuffix, ih]

/-- SQLite `LIKE`: a pattern `p%` matches every string that starts with `p` (the `_` wildcards inside `p`
    only make it match more) -/
theorem like_prefix_self (p s : List Char) (hp : ∀ c ∈ p, c ≠ '%') : like (p ++ ['%']) (p ++ s) = true := by
  induction p with
  | nil =>
    show like ['%'] s = true
    simp only [like, ↓reduceIte]
    exact anySuffix_like_nil s
  | cons c ps ih =>
    have hc : c ≠ '%' := hp c (List.mem_cons_self ..)
    simp only [List.cons_append, like, hc, if_false, Bool.and_eq_true, Bool.or_eq_true, decide_eq_true_eq]
    exact ⟨Or.inr trivial, ih (fun x hx => hp x (List.mem_cons_of_mem _ hx))⟩


/-- the id `"a_" ++ ha ++ "__broker"`: the broker table prefix of application `"a"` used as an id -/
def victim (ha : List Char) : List Char := tablePrefix ['a'] ha "broker".toList

private theorem stem_of_clean {c : Char} {cs : List Char} (hc : keep c = true) (hd : isAsciiDigit c = false)
    (hr : fold c ≠ 's') (hcs : ∀ x ∈ cs, keep x = true) : stem (c :: cs) = c :: cs := by
  rw [stem, stemWith_cons, subst_of_keep hc, hd, List.cons_append, not_reserved_of_head _ hr]
  simp only [Bool.or_false, Bool.false_eq_true, if_false, List.cons.injEq, true_and]
  conv => rhs; rw [← List.map_id cs]
  apply List.map_congr_left
  intro x hx
  exact subst_of_keep (hcs x hx)

private theorem stem_victim (ha : List Char) (hha : IsHex8 ha) : stem (victim ha) = victim ha := by
  have : victim ha = 'a' :: ('_' :: ha ++ "__broker".toList) := by
    simp [victim, tablePrefix, sprefix, stem, stemWith_cons, subst, keep, isAlpha, isLower, isUpper, isAsciiDigit,
      (by decide : isReserved ['a', '_'] = false)]
  rw [this]
  apply stem_of_clean (by decide) (by decide) (by decide)
  intro x hx
  simp only [List.cons_append, List.mem_cons, List.mem_append] at hx
  rcases hx with hx | hx | hx
  · rw [hx]; decide
  · exact hex_keep (hha.2 x hx)
  · revert x; decide

/-- **For every hash function**: all tables of the application whose id is `"a_<hash(a)>__broker"` match
    the LIKE pattern that the legacy `delete_tables_with_prefix` built for the broker of application `"a"`.
    No wildcard and no collision is needed. -/
theorem prefix_purge_hits_other_app (ha hb : List Char) (hha : IsHex8 ha) (p : List Char × List Char) :
    like (tablePrefix ['a'] ha "broker".toList ++ ['%']) (tableName (victim ha) hb p.1 p.2) = true := by
  have h1 : tableName (victim ha) hb p.1 p.2 =
      tablePrefix ['a'] ha "broker".toList ++ ('_' :: hb ++ '_' :: '_' :: p.1 ++ '_' :: p.2) := by
    rw [tableName, tablePrefix, sprefix, stem_victim ha hha]
    simp [victim, tablePrefix, sprefix, List.append_assoc]
  rw [h1]
  apply like_prefix_self
  intro c hc
  have hk : keep c = true := by
    have := (sanitize_identifier_safe ['a'] ha hha).2
    simp only [tablePrefix, List.mem_append, List.mem_cons] at hc
    rcases hc with hc | hc | hc | hc
    · exact this c hc
    · rw [hc]; decide
    · rw [hc]; decide
    · revert c; decide
  intro h
  rw [h] at hk
  revert hk; decide

/-- the isolation statement the legacy purge would have to satisfy -/
def PrefixPurgeIsolated : Prop :=
  ∀ (db : DB Unit) (a b ha hb : List Char), IsHex8 ha → IsHex8 hb → ha ≠ hb →
    ∀ comp ∈ Gen.components.map (·.1.toList), ∀ q ∈ pairs, ∀ rows,
      (tableName b hb q.1 q.2, rows) ∈ db →
      (tableName b hb q.1 q.2, rows) ∈ purgeLike db (tablePrefix a ha comp)

/-- witness with the real SHA-256 prefixes: app `a` (ca978112) purging its broker empties the queue of
    app `a_ca978112__broker` (1fa30c60) -/
theorem prefix_purge_not_isolated : ¬ PrefixPurgeIsolated := by
  intro h
  have := h [("a_ca978112__broker_1fa30c60__broker_message_queue".toList, [()])]
    "a".toList "a_ca978112__broker".toList "ca978112".toList "1fa30c60".toList
    (by decide) (by decide) (by decide) "broker".toList (by decide)
    ("broker".toList, "message_queue".toList) (by decide) [()] (by decide)
  revert this
  decide


/-- the same statement for the purge the tree uses now -/
def ExactPurgeIsolated : Prop :=
  ∀ (db : DB Unit) (a b ha hb : List Char), IsHex8 ha → IsHex8 hb → ha ≠ hb →
    ∀ comp : String, ∀ q ∈ pairs, ∀ rows,
      (tableName b hb q.1 q.2, rows) ∈ db →
      (tableName b hb q.1 q.2, rows) ∈ purgeExact db (compTables Gen.components a ha comp)

/-- the purge the tree uses now (`delete_tables` with the exact names) **is** isolated, in the very form the
    legacy purge fails: rows of an application with another hash suffix survive the purge of any component -/
theorem exact_purge_isolated : ExactPurgeIsolated := by
  intro db a b ha hb hha hhb hne comp q hq rows hmem
  have h := purge_touches_only_own db a ha hha comp
  simp only at h
  rw [h.1]
  apply List.mem_map.mpr
  exact ⟨_, hmem, h.2.1 b hb q rows hhb hq (Or.inr (Or.inl (fun e => hne e.symm)))⟩

/-! ### statements name only the application's own storage -/

/-- ending of an index name: `"__" ++ component ++ "_" ++ table ++ "_" ++ suffix` -/
def iendOf (i : String × String × String) : List Char :=
  endOf (i.1.toList, i.2.1.toList) ++ '_' :: i.2.2.toList

private theorem indexName_eq (id h : List Char) (i : String × String × String) :
    indexName (tableName id h i.1.toList i.2.1.toList) i.2.2.toList =
      ("idx_".toList ++ sprefix id h) ++ iendOf i := by
  simp [indexName, tableName, tablePrefix, iendOf, endOf, List.append_assoc]

private theorem index_ends_vs_table_ends :
    ∀ i ∈ Gen.indexes, ∀ q ∈ pairs,
      (foldS (iendOf i)).isSuffixOf (foldS (endOf q)) = false ∧
      (foldS (endOf q)).isSuffixOf (foldS (iendOf i)) = false := by decide

/-- an index name `idx_<table>_<suffix>` of any application is never (case-insensitively) the name of a
    table of any application, for all ids and suffixes (SQLite keeps tables and indexes in one namespace) -/
theorem index_name_not_a_table (a b ha hb : List Char) (i : String × String × String) (hi : i ∈ Gen.indexes)
    (q : List Char × List Char) (hq : q ∈ pairs) :
    ieq (indexName (tableName a ha i.1.toList i.2.1.toList) i.2.2.toList) (tableName b hb q.1 q.2) = false := by
  cases h : ieq (indexName (tableName a ha i.1.toList i.2.1.toList) i.2.2.toList) (tableName b hb q.1 q.2) with
  | false => rfl
  | true =>
    rw [indexName_eq, tableName_eq] at h
    simp only [ieq, beq_iff_eq, foldS_append] at h
    have hh := index_ends_vs_table_ends i hi q hq
    rcases append_suffix_cases h with hs | hs
    · have : (foldS (iendOf i)).isSuffixOf (foldS (endOf q)) = true := by simpa using hs
      rw [hh.1] at this; cases this
    · have : (foldS (endOf q)).isSuffixOf (foldS (iendOf i)) = true := by simpa using hs
      rw [hh.2] at this; cases this

/-- **every statement names only the issuing application's storage.**  The tables and indexes named by the
    SQL statements of the probe scenario (regenerated from the running code) are tables / indexes of the
    components' own `Tables` objects, nothing else that looks like a storage name occurs, and — for all
    ids and hashes — such a name rendered for application `(a, ha)` is never a table of an application
    `(b, hb)` with another hash. -/
theorem ops_touch_only_own_tables :
    (Gen.nonconforming = [] ∧ Gen.badRefs = [] ∧
      (∀ r ∈ Gen.stmtRefs, (r.1.toList, r.2.toList) ∈ pairs) ∧
      (∀ i ∈ Gen.indexes, (i.1.toList, i.2.1.toList) ∈ pairs)) ∧
    ∀ (a b ha hb : List Char), IsHex8 ha → IsHex8 hb → ha ≠ hb → ∀ q ∈ pairs,
      (∀ r ∈ Gen.stmtRefs, ieq (tableName a ha r.1.toList r.2.toList) (tableName b hb q.1 q.2) = false) ∧
      (∀ i ∈ Gen.indexes,
        ieq (indexName (tableName a ha i.1.toList i.2.1.toList) i.2.2.toList) (tableName b hb q.1 q.2) = false) := by
  have hgen : (Gen.nonconforming = [] ∧ Gen.badRefs = [] ∧
      (∀ r ∈ Gen.stmtRefs, (r.1.toList, r.2.toList) ∈ pairs) ∧
      (∀ i ∈ Gen.indexes, (i.1.toList, i.2.1.toList) ∈ pairs)) := by decide
  refine ⟨hgen, ?_⟩
  intro a b ha hb hha hhb hne q hq
  refine ⟨?_, fun i hi => index_name_not_a_table a b ha hb i hi q hq⟩
  intro r hr
  cases h : ieq (tableName a ha r.1.toList r.2.toList) (tableName b hb q.1 q.2) with
  | false => rfl
  | true =>
    exact absurd (table_names_distinct a b ha hb hha hhb (r.1.toList, r.2.toList) q (hgen.2.2.1 r hr) hq h).2.1 hne


/-! ### full table names are identifiers; no two tables of one application coincide -/

private theorem ends_keep : ∀ q ∈ pairs, ∀ c ∈ endOf q, keep c = true := by decide

/-- every table name of every component of every application is a plain SQL identifier -/
theorem table_names_identifier_safe (id h : List Char) (hh : IsHex8 h) (q : List Char × List Char) (hq : q ∈ pairs) :
    isIdent (tableName id h q.1 q.2) = true ∧ ∀ c ∈ tableName id h q.1 q.2, keep c = true := by
  have hs := sanitize_identifier_safe id h hh
  have hall : ∀ c ∈ tableName id h q.1 q.2, keep c = true := by
    intro c hc
    rw [tableName_eq, List.mem_append] at hc
    rcases hc with hc | hc
    · exact hs.2 c hc
    · exact ends_keep q hq c hc
  refine ⟨?_, hall⟩
  obtain ⟨c, cs, hst, hc⟩ := stem_head id
  have : tableName id h q.1 q.2 = c :: (cs ++ '_' :: h ++ endOf q) := by
    rw [tableName_eq]; simp [sprefix, hst]
  rw [this] at hall ⊢
  exact isIdent_of hc (fun x hx => hall x (List.mem_cons_of_mem _ hx))

/-- inside one application no two (component, table) pairs are the same: components never share a table -/
theorem pairs_nodup : pairs.Nodup ∧ (pairs.map fun q => foldS (endOf q)).Nodup := by decide

/-! ### names SQLite reserves (`sqlite_…`) -/

private theorem fold_underscore : fold '_' = '_' := by decide

private theorem reserved_prefix (s r : List Char) : isReserved (s ++ '_' :: r) = isReserved (s ++ ['_']) := by
  rcases s with _ | ⟨a, _ | ⟨b, _ | ⟨c, _ | ⟨d, _ | ⟨e, _ | ⟨f, rest⟩⟩⟩⟩⟩⟩
  all_goals simp only [isReserved, foldS, List.nil_append, List.cons_append, List.take_succ_cons,
    List.map_cons, List.map_nil, fold_underscore, List.take_nil]
  · cases r <;> simp <;> decide
  · simp
  · simp
  · simp
  · simp
  · simp
  · cases rest <;> simp

/-- exactly which names are reserved: a table name is reserved iff the sanitised stem followed by `_` starts
    with `sqlite_` (any case) — independent of the hash, the component and the table -/
theorem reserved_iff_stem (id h : List Char) (q : List Char × List Char) :
    isReserved (tableName id h q.1 q.2) = isReserved (stem id ++ ['_']) := by
  rw [tableName_eq, sprefix, List.append_assoc, List.cons_append]
  exact reserved_prefix _ _

private theorem stem_not_reserved (id : List Char) : isReserved (stem id ++ ['_']) = false := by
  cases id with
  | nil => decide
  | cons c cs =>
    rw [stem, stemWith_cons]
    split
    · exact not_reserved_of_head _ (by decide)
    · rename_i h
      simp only [Bool.or_eq_true, not_or, Bool.not_eq_true] at h
      exact h.2

/-- no table name is one SQLite reserves (`CREATE TABLE sqlite_…` is refused with "object name reserved for
    internal use", so no component of such an application could be built) -/
def NeverReserved : Prop :=
  ∀ (id h : List Char), IsHex8 h → ∀ q ∈ pairs, isReserved (tableName id h q.1 q.2) = false

/-- **no id yields a reserved name.**  For every id string (`sqlite`, `SQLite-app`, `sqlite.db`, … included),
    every hash suffix, every component and table, the table name does not start with `sqlite_` in any letter
    case: the guard added by commit c2764ff prepends `_` exactly when it would. -/
theorem never_reserved : NeverReserved := by
  intro id h _ q _
  rw [reserved_iff_stem]
  exact stem_not_reserved id

/-- the same statement for the scheme as it was before commit c2764ff (`stemOld`: no `sqlite_` guard) -/
def NeverReservedOld : Prop :=
  ∀ (id h : List Char), IsHex8 h → ∀ q ∈ pairs, isReserved (tableNameOld id h q.1 q.2) = false

/-- … which was **false**: id `sqlite` (real SHA-256 prefix 0cd86668) gave `sqlite_0cd86668__broker_message_queue`.
    Reverting the guard in the source makes the sanitiser differential disagree with the model and the
    "every id yields a usable application" oracle fail on this id. -/
theorem old_scheme_reserved : ¬ NeverReservedOld := by
  intro h
  have := h "sqlite".toList "0cd86668".toList (by decide) ("broker".toList, "message_queue".toList) (by decide)
  revert this
  decide

/-! ### non-vacuity and worked instances -/

-- the scheme on concrete ids (real SHA-256 prefixes)
example : tableName "my-app".toList "4c9a75cc".toList "broker".toList "message_queue".toList
    = "my_app_4c9a75cc__broker_message_queue".toList := by decide
example : sprefix "".toList "e3b0c442".toList = "_default_e3b0c442".toList := by decide
example : sprefix "1".toList "6b86b273".toList = "_1_6b86b273".toList := by decide
example : sprefix "sqlite".toList "0cd86668".toList = "_sqlite_0cd86668".toList := by decide
example : sprefix "SQLite-app".toList "798094df".toList = "_SQLite_app_798094df".toList := by decide
example : sprefix "sqlit".toList "00000000".toList = "sqlit_00000000".toList := by decide
example : sprefix "٣x; DROP".toList "00000000".toList = "_x__DROP_00000000".toList := by decide
-- hypotheses are satisfiable
example : IsHex8 "ca978112".toList := by decide
example : ("broker".toList, "message_queue".toList) ∈ pairs := by decide
example : HashOK (fun x => if x = "a".toList then "ca978112".toList else "1fa30c60".toList) := by
  intro x
  show IsHex8 (if x = "a".toList then "ca978112".toList else "1fa30c60".toList)
  split <;> decide
-- `stemWith_eq_stem`: a digit test that (like Python's) also accepts ARABIC-INDIC DIGIT THREE meets the hypothesis
example : ∀ c, keep c = true → (isAsciiDigit c || c == '٣') = isAsciiDigit c := by
  intro c h
  have : (c == '٣') = false := by
    cases hc : c == '٣' with
    | false => rfl
    | true => rw [beq_iff_eq.mp hc] at h; revert h; decide
  simp [this]
-- `table_names_distinct`: its hypothesis is met exactly in the collision case — same hash, stems equal up to case
example : ieq (tableName "my-app".toList "4c9a75cc".toList "broker".toList "message_queue".toList)
    (tableName "MY_APP".toList "4c9a75cc".toList "broker".toList "message_queue".toList) = true := by decide
-- … and with the real, different hashes the names differ
example : ieq (tableName "my-app".toList "4c9a75cc".toList "broker".toList "message_queue".toList)
    (tableName "my_app".toList "3fe58225".toList "broker".toList "message_queue".toList) = false := by decide
-- `_` is a LIKE wildcard, matching is ASCII-case-insensitive
example : like "a_c%".toList "aXcdef".toList = true := by decide
example : like "ABC".toList "abc".toList = true := by decide
example : like "a_c".toList "ac".toList = false := by decide
-- exact purge on a two-application database: the purging broker's queue is emptied, the other application's stays
example : purgeExact (ρ := Nat)
    [("a_ca978112__broker_message_queue".toList, [1, 2]), ("a_ca978112__broker_1fa30c60__broker_message_queue".toList, [3])]
    (compTables Gen.components "a".toList "ca978112".toList "broker")
    = [("a_ca978112__broker_message_queue".toList, []), ("a_ca978112__broker_1fa30c60__broker_message_queue".toList, [3])] := by
  decide
-- the legacy purge on the same database empties both
example : purgeLike (ρ := Nat)
    [("a_ca978112__broker_message_queue".toList, [1, 2]), ("a_ca978112__broker_1fa30c60__broker_message_queue".toList, [3])]
    (tablePrefix "a".toList "ca978112".toList "broker".toList)
    = [("a_ca978112__broker_message_queue".toList, []), ("a_ca978112__broker_1fa30c60__broker_message_queue".toList, [])] := by
  decide

end Pynenc.C17
