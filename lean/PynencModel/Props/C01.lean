import PynencModel.Model.Orch
import PynencModel.Gen.StatusTable
import PynencModel.Gen.DocGraph
/-
  C01 — the invocation lifecycle follows the documented state machine; finals are absorbing;
  a forbidden change raises and leaves the record untouched.

  `Gen.table` is regenerated from `pynenc/invocation/status.py` and `Gen.doc*` from the published
  diagram / usage guide on every run, so these theorems are re-checked against what the tree says now.
  Property theorems only; helper lemmas are local and `private`.
-/
namespace Pynenc.C01
open Pynenc

/-! ### the three sets the property text itself names (pinned here, not generated) -/
def finals   : List Status := [.success, .failed, .concurrencyControlledFinal]
def owned    : List Status := [.pending, .running, .paused, .resumed]
def recovery : List Status := [.pendingRecovery, .runningRecovery]

def sameSet (a b : List Status) : Bool := a.all b.contains && b.all a.contains

/-- edge relation of the table -/
def edge (T : Table) (cur : Option Status) (req : Status) : Bool := (T cur).allowed.contains req

def allCur : List (Option Status) := none :: Status.all.map some

theorem status_all_complete (s : Status) : s ∈ Status.all := by cases s <;> decide

/-- the model knows every member of the enum, with the right value strings -/
theorem enum_covered :
    Gen.unknownStatuses = [] ∧ Gen.enumSize = Status.all.length ∧
    Gen.enumValues = Status.all.map (fun s => (s, s.name)) := by decide

/-- T1. The table's edge relation is exactly the published diagram. -/
theorem table_edges_eq_doc :
    Gen.docBadEdges = [] ∧
    ∀ cur ∈ allCur, ∀ req ∈ Status.all, edge Gen.table cur req = Gen.docEdges.contains (cur, req) := by
  decide

/-- T2. final / available / owned / recovery flags = documented categories = the sets named in the property. -/
theorem table_flags_eq_doc :
    sameSet (Status.all.filter fun s => (Gen.table (some s)).isFinal) Gen.docFinal = true ∧
    sameSet Gen.docFinal finals = true ∧
    sameSet (Status.all.filter fun s => (Gen.table (some s)).available) Gen.docAvailable = true ∧
    sameSet (Status.all.filter fun s => (Gen.table (some s)).requires) Gen.docOwned = true ∧
    sameSet Gen.docOwned owned = true ∧
    sameSet (Status.all.filter fun s => (Gen.table (some s)).overrides) Gen.docRecovery = true ∧
    sameSet Gen.docRecovery recovery = true ∧
    sameSet Gen.docAll Status.all = true := by decide

/-- T3. Exact characterisation of a successful step, for every table, record, request and
    requester (runner ids are arbitrary strings, not a finite abstraction). -/
theorem step_ok_iff (T : Table) (cur : Option SRec) (req : Status) (rid : Option String) (r : SRec) :
    step T cur req rid = .ok r ↔
      edge T (cur.map (·.status)) req = true ∧
      (∀ c, cur = some c → (T (some req)).overrides = false →
          ((T (some c.status)).requires = true → rid = c.owner) ∧
          ((T (some req)).acquires = true → truthy rid = true)) ∧
      { status := req, owner := newOwner T cur req rid } = r := by
  unfold step validTransition validOwnership edge
  cases cur with
  | none =>
    by_cases h : req ∈ (T none).allowed <;> simp [h]
  | some c =>
    simp only [Option.map_some]
    by_cases he : rid = c.owner
    · subst he
      by_cases h : req ∈ (T (some c.status)).allowed <;>
      by_cases ho : (T (some req)).overrides <;>
      by_cases hr : (T (some c.status)).requires <;>
      by_cases ha : (T (some req)).acquires <;> by_cases ht : truthy c.owner <;>
        simp [h, ho, hr, ha, ht]
    · by_cases h : req ∈ (T (some c.status)).allowed <;>
      by_cases ho : (T (some req)).overrides <;>
      by_cases hr : (T (some c.status)).requires <;>
      by_cases ha : (T (some req)).acquires <;> by_cases ht : truthy rid <;>
        simp [h, ho, hr, he, ha, ht]

/-- T4. SUCCESS, FAILED and CONCURRENCY_CONTROLLED_FINAL are never left: whatever is requested by
    whoever, the step is refused with a transition error. -/
theorem finals_absorbing (c : SRec) (hc : c.status ∈ finals) (req : Status) (rid : Option String) :
    step Gen.table (some c) req rid = .error .transition := by
  obtain ⟨s, o⟩ := c
  simp only [finals, List.mem_cons, List.mem_nil_iff, or_false] at hc
  rcases hc with h | h | h <;> subst h <;> cases req <;> rfl

/-- T5. A runner that does not own a PENDING / RUNNING / PAUSED / RESUMED invocation cannot move it,
    the two recovery statuses excepted. -/
theorem non_owner_rejected (c : SRec) (hc : c.status ∈ owned) (req : Status) (hreq : req ∉ recovery)
    (rid : Option String) (hne : rid ≠ c.owner) :
    ∃ e, step Gen.table (some c) req rid = .error e := by
  obtain ⟨s, o⟩ := c
  simp only [owned, List.mem_cons, List.mem_nil_iff, or_false] at hc
  simp only [recovery, List.mem_cons, List.mem_nil_iff, or_false, not_or] at hreq
  have hne' : (rid != o) = true := by simpa using hne
  rcases hc with h | h | h | h <;> subst h <;> cases req <;>
    simp_all [step, validTransition, validOwnership, Gen.table]

/-- ... and the owner (or recovery) is what the excepted cases are: recovery requests on an owned
    status succeed for any requester exactly when the edge exists. -/
theorem recovery_overrides (c : SRec) (req : Status) (hreq : req ∈ recovery) (rid : Option String)
    (he : edge Gen.table (some c.status) req = true) :
    step Gen.table (some c) req rid = .ok { status := req, owner := none } := by
  obtain ⟨s, o⟩ := c
  simp only [recovery, List.mem_cons, List.mem_nil_iff, or_false] at hreq
  rcases hreq with h | h <;> subst h <;> cases s <;>
    simp_all [step, validTransition, validOwnership, newOwner, edge, Gen.table]

/-! ### request sequences -/

/-- statuses taken by a record under a list of requests (failed requests change nothing) -/
def runSeq (T : Table) : Option SRec → List (Status × Option String) → List Status
  | _, [] => []
  | cur, (req, rid) :: rest =>
    match step T cur req rid with
    | .ok r => r.status :: runSeq T (some r) rest
    | .error _ => runSeq T cur rest

/-- a list of statuses is a path of the documented graph starting after `from` -/
def isDocPath : Option Status → List Status → Bool
  | _, [] => true
  | src, s :: rest => Gen.docEdges.contains (src, s) && isDocPath (some s) rest

private theorem step_ok_edge (cur : Option SRec) (req : Status) (rid : Option String) (r : SRec)
    (h : step Gen.table cur req rid = .ok r) :
    Gen.docEdges.contains (cur.map (·.status), req) = true ∧ r.status = req := by
  have h' := (step_ok_iff Gen.table cur req rid r).1 h
  obtain ⟨he, _, hr⟩ := h'
  refine ⟨?_, by rw [← hr]⟩
  have hm : cur.map (·.status) ∈ allCur := by
    cases cur with
    | none => simp [allCur]
    | some c => simp [allCur, status_all_complete]
  rw [← table_edges_eq_doc.2 _ hm _ (status_all_complete req)]
  exact he

/-- T6. For every sequence of requests (any length, any requesters), the statuses an invocation
    actually goes through form a path in the documented graph; from "no record" the first is REGISTERED. -/
theorem history_is_path (cur : Option SRec) (reqs : List (Status × Option String)) :
    isDocPath (cur.map (·.status)) (runSeq Gen.table cur reqs) = true := by
  induction reqs generalizing cur with
  | nil => simp [runSeq, isDocPath]
  | cons p rest ih =>
    obtain ⟨req, rid⟩ := p
    simp only [runSeq]
    cases h : step Gen.table cur req rid with
    | error e => simpa using ih cur
    | ok r =>
      obtain ⟨he, hr⟩ := step_ok_edge cur req rid r h
      have := ih (some r)
      simp only [isDocPath, Bool.and_eq_true]
      refine ⟨by rw [hr]; exact he, ?_⟩
      simpa [hr] using this

theorem starts_registered (reqs : List (Status × Option String)) (s : Status) (rest : List Status)
    (h : runSeq Gen.table none reqs = s :: rest) : s = .registered := by
  have hp := history_is_path none reqs
  rw [h] at hp
  simp only [Option.map_none, isDocPath, Bool.and_eq_true] at hp
  have := hp.1
  cases s <;> first | rfl | (exact absurd this (by decide))

/-- T7 (non-vacuity + reachability). Every status is reached by a legal request sequence of one runner. -/
def witnessPath : Status → List (Status × Option String)
  | .registered => [(.registered, some "r")]
  | .concurrencyControlled => [(.registered, some "r"), (.concurrencyControlled, some "r")]
  | .concurrencyControlledFinal => [(.registered, some "r"), (.concurrencyControlledFinal, some "r")]
  | .pending => [(.registered, some "r"), (.pending, some "r")]
  | .rerouted => [(.registered, some "r"), (.pending, some "r"), (.rerouted, some "r")]
  | .pendingRecovery => [(.registered, some "r"), (.pending, some "r"), (.pendingRecovery, some "q")]
  | .running => [(.registered, some "r"), (.pending, some "r"), (.running, some "r")]
  | .runningRecovery => [(.registered, some "r"), (.pending, some "r"), (.running, some "r"), (.runningRecovery, some "q")]
  | .paused => [(.registered, some "r"), (.pending, some "r"), (.running, some "r"), (.paused, some "r")]
  | .resumed => [(.registered, some "r"), (.pending, some "r"), (.running, some "r"), (.paused, some "r"), (.resumed, some "r")]
  | .killed => [(.registered, some "r"), (.pending, some "r"), (.killed, some "r")]
  | .success => [(.registered, some "r"), (.pending, some "r"), (.running, some "r"), (.success, some "r")]
  | .failed => [(.registered, some "r"), (.pending, some "r"), (.running, some "r"), (.failed, some "r")]
  | .retry => [(.registered, some "r"), (.pending, some "r"), (.running, some "r"), (.retry, some "r")]

theorem every_status_reachable (s : Status) :
    (runSeq Gen.table none (witnessPath s)).getLast? = some s ∧
    (runSeq Gen.table none (witnessPath s)).length = (witnessPath s).length := by
  cases s <;> decide

/-! ### orchestrator level: an error leaves status, owner and timestamp exactly as they were -/

/-- T8. A refused request (missing edge, wrong owner, unknown id) changes nothing in the store. -/
theorem setStatus_err_unchanged (T : Table) (o : Orch) (id : String) (req : Status)
    (rid : Option String) (now : Int) (e : SetErr)
    (h : (o.setStatus T id req rid now).2 = .error e) : (o.setStatus T id req rid now).1 = o := by
  unfold Orch.setStatus at *
  cases hg : o.get id with
  | none => simp
  | some cur =>
    simp only [hg] at h ⊢
    cases hs : step T (some cur.srec) req rid with
    | error e' => simp
    | ok r => simp [hs] at h

/-- T9. A successful request writes exactly the validated record with the new timestamp, for that id only. -/
theorem setStatus_ok_writes (T : Table) (o : Orch) (id : String) (req : Status)
    (rid : Option String) (now : Int) (nr : ORec)
    (h : (o.setStatus T id req rid now).2 = .ok nr) :
    (o.setStatus T id req rid now).1.get id = some nr ∧ nr.status = req ∧ nr.ts = now ∧
    ∀ id2, id2 ≠ id → (o.setStatus T id req rid now).1.get id2 = o.get id2 := by
  unfold Orch.setStatus at *
  cases hg : o.get id with
  | none => simp [hg] at h
  | some cur =>
    simp only [hg] at h ⊢
    cases hs : step T (some cur.srec) req rid with
    | error e' => simp [hs] at h
    | ok r =>
      simp only [hs] at h ⊢
      have hr := ((step_ok_iff T _ _ _ _).1 hs).2.2
      injection h with h
      subst h
      refine ⟨AMap.get?_set_self _ _ _, by simp [← hr], rfl, ?_⟩
      intro id2 hne
      exact AMap.get?_set_other _ _ _ _ hne

/-- non-vacuity of T8/T9: a concrete store where one request is refused and another accepted -/
example :
    ((({} : Orch).register "i" (some "c") 1).setStatus Gen.table "i" .running (some "r") 2).2
      = .error (.status .transition) ∧
    ((({} : Orch).register "i" (some "c") 1).setStatus Gen.table "i" .pending (some "r") 2).2
      = .ok { status := .pending, owner := some "r", ts := 2 } := by
  decide

end Pynenc.C01
