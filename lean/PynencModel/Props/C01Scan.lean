/-
  C01, observability through the status-filtered views of the in-memory orchestrator while a transition is under way.  Tie to the
  source: `Gen/IndexScan.lean` (translate/indexscan.py), regenerated on every run.
-/
import PynencModel.Model.IndexScan
import PynencModel.Gen.IndexScan

namespace Pynenc.C01S
open Pynenc.IndexScan

/-- what holds at every moment of the transition -/
def Inv (s : S) : Prop :=
  (s.phase = 0 → s.inA = true ∧ s.inB = false ∧ s.recB = false) ∧
  (s.phase = 1 → s.inA = false ∧ s.inB = false ∧ s.recB = false) ∧
  (s.phase = 2 → s.inA = false ∧ s.inB = true ∧ s.recB = false) ∧
  (s.phase = 3 → s.inA = false ∧ s.inB = true ∧ s.recB = true) ∧ s.phase ≤ 3

theorem scan_inv_step (s s' : S) (h : Inv s) (hs : Step .readOnly s s') : Inv s' := by
  obtain ⟨h0, h1, h2, h3, hle⟩ := h
  cases hs with
  | discardOld hp => have := h0 hp; simp_all [Inv]
  | addNew hp => have := h1 hp; simp_all [Inv]
  | writeRecord hp => have := h2 hp; simp_all [Inv]
  | scan => exact ⟨h0, h1, h2, h3, hle⟩
  | repairB hv => cases hv
  | repairA hv => cases hv

/-- C01 (observability through the status-filtered views): however the read-side scans interleave with the three steps of an
    accepted transition, once it has returned the invocation is listed under exactly its recorded status. -/
theorem scans_move_nothing {s : S} (h : Reach .readOnly s) : Consistent s := by
  have : Inv s := by
    induction h with
    | init => simp [Inv, init]
    | step s s' _ hs ih => exact scan_inv_step s s' ih hs
  intro hp
  have := this.2.2.2.1 hp
  exact ⟨this.2.2, this.2.1, this.1⟩

/-- a scan that "repairs" the index by the record drops the id from the new status' set when it runs between the index update and
    the record write: the transition returns OK and the invocation is listed nowhere -/
theorem repairing_scan_loses_the_invocation :
    ∃ s, Reach .repair s ∧ s.phase = 3 ∧ s.recB = true ∧ s.inA = false ∧ s.inB = false := by
  refine ⟨{ recB := true, inA := false, inB := false, phase := 3 }, ?_, rfl, rfl, rfl, rfl⟩
  have r1 := Reach.step _ _ (Reach.init (v := .repair)) (.discardOld _ rfl)
  have r2 := Reach.step _ _ r1 (.addNew _ rfl)
  have r3 := Reach.step _ _ r2 (.repairB _ rfl rfl rfl)
  exact Reach.step _ _ r3 (.writeRecord _ rfl)

/-- non-vacuity: a transition that completes beside scans -/
example : ∃ s, Reach .readOnly s ∧ s.phase = 3 := by
  refine ⟨{ recB := true, inA := false, inB := true, phase := 3 }, ?_, rfl⟩
  have r1 := Reach.step _ _ (Reach.init (v := .readOnly)) (.discardOld _ rfl)
  have r1' := Reach.step _ _ r1 (.scan _)
  have r2 := Reach.step _ _ r1' (.addNew _ rfl)
  exact Reach.step _ _ r2 (.writeRecord _ rfl)

/-- tie to the source (regenerated on every run): a transition discards from the old set, adds to the new one, then writes the
    record; nothing but the transition, the clean-up of a purged invocation and `purge` writes the index - no scan does. -/
theorem code_scans_only_read :
    Gen.IndexScan.indexWriters = ["_interanl_atomic_status_transition", "clean_up_invocation", "purge"] ∧
    Gen.IndexScan.transitionOrder = ["index-discard", "index-add", "record-write"] := by decide

end Pynenc.C01S
