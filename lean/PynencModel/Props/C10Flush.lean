import PynencModel.Model.HistFlush
import PynencModel.Gen.HistWriter
/-
  C10, "once pending history writes have been flushed": the flush really waits for every writer that was registered, whatever
  the number of actors recording changes and however their `add_history` calls interleave — because a writer is tracked
  before it is started and the list only ever grows.  The order and the "only grows" are facts read from the source on every
  run (Gen/HistWriter.lean).
-/
namespace Pynenc.C10F
open Pynenc.HistFlush

/-- invariant of the code: whatever was tracked is still listed; nothing starts untracked; nothing is stored unstarted -/
def Inv (s : S) : Prop :=
  (∀ j, s.tracked j = true → s.listed j = true) ∧ (∀ j, s.started j = true → s.tracked j = true) ∧
  (∀ j, s.stored j = true → s.started j = true)

theorem inv_step (s s' : S) (h : Inv s) (st : Step .keep s s') : Inv s' := by
  obtain ⟨h1, h2, h3⟩ := h
  cases st with
  | track i hi =>
    refine ⟨?_, ?_, ?_⟩
    · intro j hj
      by_cases e : j = i
      · simp [upd, e]
      · simp only [upd, e, if_false] at hj ⊢; exact h1 j hj
    · intro j hj
      by_cases e : j = i
      · simp [upd, e]
      · simp only [upd, e, if_false]; exact h2 j hj
    · exact h3
  | start i ht hs =>
    refine ⟨h1, ?_, ?_⟩
    · intro j hj
      by_cases e : j = i
      · subst e; exact ht
      · simp only [upd, e, if_false] at hj; exact h2 j hj
    · intro j hj
      by_cases e : j = i
      · simp [upd, e]
      · simp only [upd, e, if_false]; exact h3 j hj
  | store i hs hd =>
    refine ⟨h1, h2, ?_⟩
    intro j hj
    by_cases e : j = i
    · subst e; exact hs
    · simp only [upd, e, if_false] at hj; exact h3 j hj

theorem inv_reach (s : S) (hr : Reach .keep s) : Inv s := by
  induction hr with
  | init => exact ⟨by simp, by simp, by simp⟩
  | step s s' _ st ih => exact inv_step s s' ih st

/-- **The flush waits for every registered writer** (any number of writers and actors, any interleaving): when the joins of
    `wait_for_all_async_operations` have returned, every history entry whose writer was registered has been stored. -/
theorem flush_waits_for_every_writer (s : S) (hr : Reach .keep s) (hf : FlushReturns s) :
    ∀ j, s.tracked j = true → s.stored j = true :=
  fun j hj => hf j ((inv_reach s hr).1 j hj)

/-- **…and pruning "finished" writers with `is_alive()` breaks it**: A is tracked · B is tracked (A is not alive yet: forgotten) ·
    B starts and stores · A starts.  Every `add_history` call has returned, the flush returns at once — A's entry is not stored. -/
theorem pruning_lets_the_flush_return_early :
    ∃ s, Reach .prune s ∧ Quiet s ∧ FlushReturns s ∧ s.tracked 0 = true ∧ s.stored 0 = false := by
  let f0 : Nat → Bool := fun _ => false
  let s1 : S := { tracked := upd f0 0 true, listed := upd (fun j => f0 j && alive ⟨f0, f0, f0, f0⟩ j) 0 true, started := f0, stored := f0 }
  let s2 : S := { s1 with tracked := upd s1.tracked 1 true, listed := upd (fun j => s1.listed j && alive s1 j) 1 true }
  let s3 : S := { s2 with started := upd s2.started 1 true }
  let s4 : S := { s3 with stored := upd s3.stored 1 true }
  let s5 : S := { s4 with started := upd s4.started 0 true }
  have r1 : Reach .prune s1 := .step _ _ .init (.track _ 0 rfl)
  have r2 : Reach .prune s2 := .step _ _ r1 (.track _ 1 (by simp [s1, upd, f0]))
  have r3 : Reach .prune s3 := .step _ _ r2 (.start _ 1 (by simp [s2, upd]) (by simp [s2, s1, f0]))
  have r4 : Reach .prune s4 := .step _ _ r3 (.store _ 1 (by simp [s3, upd]) (by simp [s3, s2, s1, f0]))
  have r5 : Reach .prune s5 := .step _ _ r4 (.start _ 0 (by simp [s4, s3, s2, s1, upd]) (by simp [s4, s3, s2, s1, upd, f0]))
  refine ⟨s5, r5, ?_, ?_, ?_, ?_⟩
  · intro j hj
    by_cases e0 : j = 0
    · simp [s5, upd, e0]
    · by_cases e1 : j = 1
      · simp [s5, s4, s3, upd, e1]
      · simp [s5, s4, s3, s2, s1, upd, e0, e1, f0] at hj
  · intro j hj
    by_cases e1 : j = 1
    · simp [s5, s4, upd, e1]
    · simp [s5, s4, s3, s2, s1, upd, e1, alive, f0] at hj
  · simp [s5, s4, s3, s2, s1, upd]
  · simp [s5, s4, s3, s2, s1, upd, f0]

/-- tie to the source (regenerated on every run): both registration methods create the writer, track it, then start it; nothing
    else in the state backends touches the list; the flush joins every listed thread. -/
theorem code_tracks_before_start_and_never_forgets :
    Gen.HistWriter.addHistory = ["create", "track", "start"] ∧ Gen.HistWriter.addHistories = ["create", "track", "start"] ∧
    Gen.HistWriter.otherTouches = [] ∧ Gen.HistWriter.flushJoinsAll = true := by decide

/-- non-vacuity: two writers registered by two actors whose calls overlap, both stored, the flush returns -/
example : ∃ s, Reach .keep s ∧ FlushReturns s ∧ s.tracked 0 = true ∧ s.tracked 1 = true := by
  let f0 : Nat → Bool := fun _ => false
  let s1 : S := { tracked := upd f0 0 true, listed := upd f0 0 true, started := f0, stored := f0 }
  let s2 : S := { s1 with tracked := upd s1.tracked 1 true, listed := upd s1.listed 1 true }
  let s3 : S := { s2 with started := upd s2.started 1 true }
  let s4 : S := { s3 with stored := upd s3.stored 1 true }
  let s5 : S := { s4 with started := upd s4.started 0 true }
  let s6 : S := { s5 with stored := upd s5.stored 0 true }
  have r1 : Reach .keep s1 := .step _ _ .init (.track _ 0 rfl)
  have r2 : Reach .keep s2 := .step _ _ r1 (.track _ 1 (by simp [s1, upd, f0]))
  have r3 : Reach .keep s3 := .step _ _ r2 (.start _ 1 (by simp [s2, upd]) (by simp [s2, s1, f0]))
  have r4 : Reach .keep s4 := .step _ _ r3 (.store _ 1 (by simp [s3, upd]) (by simp [s3, s2, s1, f0]))
  have r5 : Reach .keep s5 := .step _ _ r4 (.start _ 0 (by simp [s4, s3, s2, s1, upd]) (by simp [s4, s3, s2, s1, upd, f0]))
  have r6 : Reach .keep s6 := .step _ _ r5 (.store _ 0 (by simp [s5, upd]) (by simp [s5, s4, s3, s2, s1, upd, f0]))
  refine ⟨s6, r6, ?_, by simp [s6, s5, s4, s3, s2, s1, upd], by simp [s6, s5, s4, s3, s2, s1, upd]⟩
  intro j hj
  by_cases e0 : j = 0
  · simp [s6, upd, e0]
  · by_cases e1 : j = 1
    · simp [s6, s5, s4, upd, e1]
    · simp [s6, s5, s4, s3, s2, s1, upd, e0, e1, f0] at hj

end Pynenc.C10F
