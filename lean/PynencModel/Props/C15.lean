import PynencModel.Proofs.C15Identity
import PynencModel.Proofs.C15CDS
import PynencModel.Proofs.C15Json
/-
  C15 — arguments and results round-trip unchanged; call identity is canonical.

  Three models: `Model/CallId` (compute_args_id pre-hash text, CallId/TaskId keys, signature binding),
  `Model/CDS` (client data store: size routing, content key, reference test, resolve, LRU) and `Model/Json`
  (envelope logic of json_serializer.py).  Hashes (SHA-256) and the serializers' text layer are parameters;
  what is assumed of them is an explicit hypothesis of each theorem.  Helper lemmas live in `Proofs/C15*.lean`.

  Where the full statement is false of the current code the proved part carries the guard as a hypothesis and a
  `…_refutation` theorem exhibits the input on which the unguarded statement fails.
-/
namespace Pynenc.C15
open Pynenc Pynenc.C15P

/-! ## 1. Call identity (`compute_args_id`, `CallId`, `TaskId`) -/
section identity
open Pynenc.CallId

/-- Python's `json.dumps(s, ensure_ascii=False)` escaping loses nothing: two different strings (any code points:
    quotes, backslashes, control characters, non-ASCII) never have the same escaped body. -/
theorem escape_injective {s t : Str} (h : escape s = escape t) : s = t := C15P.escape_injective h

/-- A JSON string literal is self-delimiting: a parser reading `encStr s` followed by *anything* returns exactly
    `s` and that rest.  No choice of key or value text can make a literal end early or swallow what follows. -/
theorem parse_encStr (s rest : Str) : parseStr (encStr s ++ rest) = some (s, rest) := C15P.parse_encStr s rest

/-- The whole pre-hash text `JSON(k)=JSON(v);…` parses back to the list of pairs it was built from (keys and
    values containing `=`, `;`, `"` and `\` included). -/
theorem preimage_parses (l : List (Str × Str)) :
    parsePairs (preimage l).length (preimage l) = some (sortPairs l) := by
  have hlen : ∀ m : List (Str × Str), m.length ≤ (encPairs m).length := by
    intro m
    induction m with
    | nil => simp
    | cons p t ih =>
      obtain ⟨k, v⟩ := p
      simp only [encPairs, encPair, encStr, List.length_cons, List.length_append]
      omega
  exact parsePairs_encPairs (sortPairs l) _ (hlen _)

/-- The byte string fed to SHA-256 determines the argument dictionary: equal pre-hash texts ⇒ the two serialized
    argument dictionaries have the same entries (as multisets; order is irrelevant by the next theorem). -/
theorem enc_injective {l1 l2 : List (Str × Str)} (h : preimage l1 = preimage l2) : l1.Perm l2 :=
  C15P.enc_injective h

/-- The identity does not depend on the insertion order of the dictionary (`sorted(keys)`; keys distinct). -/
theorem enc_perm_invariant {l1 l2 : List (Str × Str)} (hp : l1.Perm l2) (hn : KeysNodup l1) :
    preimage l1 = preimage l2 := C15P.enc_perm_invariant hp hn

/-- non-vacuity: `{"b": "1", "a": ";="}` and its reversal are permutations with distinct keys, and do get one text -/
example : preimage [("b".toList, "1".toList), ("a".toList, ";=".toList)] =
    preimage [("a".toList, ";=".toList), ("b".toList, "1".toList)] :=
  enc_perm_invariant (List.Perm.swap _ _ _) (by simp [KeysNodup])

/-- utf-8 encoding (the `.encode("utf-8")` before hashing) is injective on strings of code points. -/
theorem utf8_injective {s t : Str} (h : utf8 s = utf8 t) : s = t := C15P.utf8_injective h

/-- The literal `"no_args"` is never the identity of a non-empty dictionary (a digest has 64 hex characters). -/
theorem no_args_distinct {H : ByteArray → Str} (hH : HashShape H) {l : List (Str × Str)} (hne : l ≠ []) :
    argsId H l ≠ noArgs := C15P.no_args_distinct hH hne

/-- **Two calls have the same `call_id` exactly when task and serialized arguments are equal**, whatever the
    order of the arguments.  `⇐` is unconditional; `⇒` needs SHA-256 not to collide *on these two* pre-hash
    byte strings (`NoCollision`) and the digest to look like a digest (`HashShape`). -/
theorem callId_eq_iff {H : ByteArray → Str} (hH : HashShape H) {t1 t2 : TaskId} {s1 s2 : List (Str × Str)}
    (hn : KeysNodup s1) (hc : NoCollision H s1 s2) :
    callIdOf H t1 s1 = callIdOf H t2 s2 ↔ (t1 = t2 ∧ s1.Perm s2) := C15P.callId_eq_iff hH hn hc

/-- non-vacuity: the hypotheses of `callId_eq_iff` are met by a concrete "hash" (hex of nothing, padded) on a
    pair of equal dictionaries -/
example : ∃ (H : ByteArray → Str), HashShape H ∧
    NoCollision H [("a".toList, "1".toList)] [("a".toList, "1".toList)] ∧ KeysNodup [("a".toList, "1".toList)] := by
  refine ⟨fun _ => List.replicate 64 '0', ?_, fun _ => rfl, by simp [KeysNodup]⟩
  intro b
  refine ⟨by simp, ?_⟩
  intro c hc
  simp only [List.mem_replicate] at hc
  rw [hc.2]; decide

/-- `TaskId.from_key(t.key) = t` when module and function name are non-empty and the function name has no dot. -/
theorem taskId_key_roundtrip (t : TaskId) (hm : t.module ≠ []) (hf : t.func ≠ []) (hd : '.' ∉ t.func) :
    TaskId.fromKey t.key = some t := C15P.taskId_key_roundtrip t hm hf hd

/-- `CallId.from_key(c.key) = c` (module may contain dots and colons; the args id contains no colon). -/
theorem callId_key_roundtrip (c : CallId) (hm : c.task.module ≠ []) (hf : c.task.func ≠ [])
    (hd : '.' ∉ c.task.func) (ha : ':' ∉ c.argsId) : CallId.fromKey c.key = some c :=
  C15P.callId_key_roundtrip c hm hf hd ha

/-- every identity `Call.call_id` computes round-trips through its key: `"no_args"` and hex digests have no colon -/
theorem callId_key_roundtrip_computed {H : ByteArray → Str} (hH : HashShape H) (t : TaskId)
    (ser : List (Str × Str)) (hm : t.module ≠ []) (hf : t.func ≠ []) (hd : '.' ∉ t.func) :
    CallId.fromKey (callIdOf H t ser).key = some (callIdOf H t ser) :=
  C15P.callId_key_roundtrip _ hm hf hd (argsId_no_colon hH ser)

/-- the guard on the function name is needed: `a.b` + `c.d` parses back as module `a.b.c`, function `d` -/
theorem taskId_dotted_func_refutation :
    TaskId.fromKey (TaskId.key ⟨"a.b".toList, "c.d".toList⟩) ≠ some ⟨"a.b".toList, "c.d".toList⟩ := by decide

/-- the separator the model uses is the one in the source (`TASK_ID_SEPARATOR`, regenerated every run) -/
theorem taskSep_matches : Gen.Reserved.taskSep = String.singleton '.' := by decide

/-- **Spellings.** For a signature of positional-or-keyword parameters with distinct names, writing the first
    parameters positionally and each other one by keyword (in any order) or leaving it out when its value is the
    default, `Arguments.from_call` (bind + apply_defaults) always yields the same dictionary: parameter ↦ value
    in signature order. -/
theorem spellings_same_arguments {V : Type} (sigP sigK : List (Param V)) (pos rest : List V)
    (kw : List (Str × V)) (hn : (names (sigP ++ sigK)).Nodup) (h : Spelling sigP sigK pos rest kw) :
    bindArgs (sigP ++ sigK) pos kw = some (full (sigP ++ sigK) (pos ++ rest)) :=
  C15P.spellings_same_arguments sigP sigK pos rest kw hn h

/-- hence two spellings of one call get one identity, for any (deterministic) argument serialization `serArgs` -/
theorem spellings_same_identity {V : Type} {H : ByteArray → Str} (t : TaskId)
    (serArgs : List (Str × V) → List (Str × Str))
    (sig : List (Param V)) (vals : List V) (hn : (names sig).Nodup)
    (sigP1 sigK1 : List (Param V)) (pos1 rest1 : List V) (kw1 : List (Str × V))
    (sigP2 sigK2 : List (Param V)) (pos2 rest2 : List V) (kw2 : List (Str × V))
    (e1 : sig = sigP1 ++ sigK1) (v1 : vals = pos1 ++ rest1) (h1 : Spelling sigP1 sigK1 pos1 rest1 kw1)
    (e2 : sig = sigP2 ++ sigK2) (v2 : vals = pos2 ++ rest2) (h2 : Spelling sigP2 sigK2 pos2 rest2 kw2) :
    (bindArgs sig pos1 kw1).map (fun d => callIdOf H t (serArgs d)) =
      (bindArgs sig pos2 kw2).map (fun d => callIdOf H t (serArgs d)) := by
  have a := C15P.spellings_same_arguments sigP1 sigK1 pos1 rest1 kw1 (e1 ▸ hn) h1
  have b := C15P.spellings_same_arguments sigP2 sigK2 pos2 rest2 kw2 (e2 ▸ hn) h2
  rw [← e1, ← v1] at a
  rw [← e2, ← v2] at b
  rw [a, b]

/-- non-vacuity: `f(k, v="d", w="e")` called as `f("a", w="e")` is a spelling of `k="a", v="d", w="e"` -/
example : Spelling (V := String) [⟨"k".toList, none⟩] [⟨"v".toList, some "d"⟩, ⟨"w".toList, some "e"⟩]
    ["a"] ["d", "e"] [("w".toList, "e")] := by
  refine ⟨rfl, rfl, ?_, ?_⟩
  · intro e he; simp at he; subst he; simp [full]
  · intro pv hpv
    simp only [List.zip_cons_cons, List.zip_nil_right, List.mem_cons, List.not_mem_nil, or_false] at hpv
    rcases hpv with rfl | rfl
    · right; rfl
    · left; simp

/-- **The batch path is a spelling** (`task.parallelize(params…, common_args=…)` after the repair of
    `distribute_batch_calls` / `PreSerializedCall`): when `{**common_args, **params}` is a way of writing the call that
    assigns `vals` — every entry agrees with `vals`, every parameter left out has its default — the batch path binds, and
    the dictionary the stored call ends up with has exactly the entries of the direct call's dictionary `full sig vals`
    (per-call values override common ones, defaults are filled in). -/
theorem batch_is_spelling {V : Type} (sig : List (Param V)) (vals : List V) (common params : List (Str × V))
    (hn : (names sig).Nodup) (hC : (common.map (·.1)).Nodup)
    (h : Spelling [] sig [] vals (mergeDict common params)) :
    ∃ d, batchCall sig common params = some d ∧ d.Perm (full sig vals) :=
  C15P.batch_is_spelling sig vals common params hn hC h

/-- …hence the batch path gives the call the identity of the direct call, for any per-argument serialization -/
theorem batch_same_identity {V : Type} {H : ByteArray → Str} (t : TaskId) (serK : Str → V → Str)
    (sig : List (Param V)) (vals : List V) (common params : List (Str × V))
    (hn : (names sig).Nodup) (hC : (common.map (·.1)).Nodup)
    (h : Spelling [] sig [] vals (mergeDict common params)) :
    ∃ d, batchCall sig common params = some d ∧
      callIdOf H t (serArgsBy serK d) = callIdOf H t (serArgsBy serK (full sig vals)) :=
  C15P.batch_same_identity t serK sig vals common params hn hC h

/-- non-vacuity: `f(big, idx, opt="d")`, `common_args={"big": "B"}`, `params={"idx": "1"}` is a spelling of
    `big="B", idx="1", opt="d"`, and the batch path yields that dictionary -/
example :
    let sig : List (Param String) := [⟨"big".toList, none⟩, ⟨"idx".toList, none⟩, ⟨"opt".toList, some "d"⟩]
    Spelling [] sig [] ["B", "1", "d"] (mergeDict [("big".toList, "B")] [("idx".toList, "1")]) ∧
      batchCall sig [("big".toList, "B")] [("idx".toList, "1")] =
        some [("big".toList, "B"), ("idx".toList, "1"), ("opt".toList, "d")] := by
  refine ⟨⟨rfl, rfl, ?_, ?_⟩, by decide⟩
  · intro e he
    have : e = ("big".toList, "B") ∨ e = ("idx".toList, "1") := by
      simpa [mergeDict, kwGet] using he
    rcases this with rfl | rfl <;> simp [full]
  · intro pv hpv
    simp only [List.zip_cons_cons, List.zip_nil_right, List.mem_cons, List.not_mem_nil, or_false] at hpv
    rcases hpv with rfl | rfl | rfl
    · left; simp [mergeDict, kwGet]
    · left; simp [mergeDict, kwGet]
    · right; rfl

/-- a per-call argument overrides the common one of the same name, as in the non-batch path -/
theorem batch_override_fixed :
    batchDict [("k".toList, "B")] [("k".toList, "X"), ("v".toList, "1")] = [("k".toList, "X"), ("v".toList, "1")] := by
  decide

/-- the code before the repair (`batchDictOld`, no signature binding) was *not* a spelling: for
    `f(big, idx, opt="d")` the direct call `f("B", "1")` has `{big, idx, opt}`, the old batch path `{big, idx}` -/
theorem batch_identity_refutation_old :
    let sig : List (Param String) := [⟨"big".toList, none⟩, ⟨"idx".toList, none⟩, ⟨"opt".toList, some "d"⟩]
    ∃ d, bindArgs sig ["B", "1"] [] = some d ∧
      ¬ (batchDictOld [("big".toList, "B")] [("idx".toList, "1")]).Perm d := by
  refine ⟨_, rfl, ?_⟩
  intro h
  have := h.length_eq
  simp [batchDictOld, kwGet] at this

/-- …and on a key present in both dictionaries the old code stored the *common* value -/
theorem batch_override_refutation_old :
    batchDictOld [("k".toList, "B")] [("k".toList, "X"), ("v".toList, "1")] = [("k".toList, "B"), ("v".toList, "1")] := by
  decide

end identity

/-! ## 2. Client data store (`serialize` / `resolve`) -/
section cds
open Pynenc.CDS
variable {V : Type} {ser : V → Str} {deser : Str → Option V} {asStr : V → Option Str} {H : Str → Str}
  {S : Str → Prop}

/-- exact inline/external boundary of `_maybe_store`: external iff `min ≤ size` and (`max = 0` or `size ≤ max`) -/
theorem external_iff (c : Conf) (n : Nat) :
    external c n = true ↔ c.minSize ≤ n ∧ (c.maxSize = 0 ∨ n ≤ c.maxSize) := C15P.external_iff c n

/-- what `serialize` returns, for every configuration, threshold, disable option and store state: the inline
    serialized text when the store is disabled, the argument is in `disable_cache_args`, or the size is outside
    `[min, max]`; otherwise the content key.  (Guard: the value is not a string with the reserved prefix; the LRU
    has room for one entry.) -/
theorem serialize_routing (hnr : ∀ v, isRef (ser v) = false) (c : Conf) (hc : 1 ≤ c.cacheSize) (st : Store V)
    (v : V) (dis : Bool) (guard : ∀ s, asStr v = some s → isRef s = false) :
    (serialize ser asStr H c st v dis).2 =
      some (if c.disabled || dis || !(external c (ser v).length) then ser v else genKey H (ser v)) :=
  C15P.serialize_routing hnr c hc st v dis guard

/-- every store the operations of any number of processes can produce from a coherent one is coherent, and keeps
    every backend entry (no purge) -/
theorem store_invariant (hrt : ∀ v, deser (ser v) = some v) (hnr : ∀ v, isRef (ser v) = false)
    (hnc : NoColl H S) (c : Conf) (ops : List (Op V)) (st : Store V) (hco : Coherent ser H S st)
    (hin : OpsIn ser S ops) :
    Coherent ser H S (run ser deser asStr H c st ops) ∧ ExtExtends st (run ser deser asStr H c st ops) :=
  run_coherent_extends hrt hnr hnc c ops st hco hin

/-- **`resolve (serialize v) = v`** for every threshold, size limit, disable option and starting store, in *any*
    later store that is coherent and still holds the backend entries — the same process after more work, or a
    worker process with its own cache sharing the backend.  Hypotheses: the serializer round-trips, serialized
    text never starts with the reserved prefix, the hash does not collide on the texts that occur (`S`), the LRU
    capacity is at least 1, and the guard: `v` is not a string beginning with `__pynenc__client_data__`. -/
theorem cds_roundtrip (hrt : ∀ v, deser (ser v) = some v) (hnr : ∀ v, isRef (ser v) = false)
    (hnc : NoColl H S) (c : Conf) (hc : 1 ≤ c.cacheSize) (st : Store V) (v : V) (hS : S (ser v)) (dis : Bool)
    (guard : ∀ s, asStr v = some s → isRef s = false) :
    ∃ st1 data, serialize ser asStr H c st v dis = (st1, some data) ∧
      ∀ (c2 : Conf) (st2 : Store V), 1 ≤ c2.cacheSize → Coherent ser H S st2 → ExtExtends st1 st2 →
        ∃ st3, resolve deser c2 st2 data = (st3, .ok v) := by
  obtain ⟨st1, data, h1, _, h3⟩ := resolve_of_serialized (asStr := asStr) hrt hnr hnc c hc st v hS dis guard
  exact ⟨st1, data, h1, h3⟩

/-- the same over whole histories of one process (interleaved with other processes' stores), starting from the
    empty store: any operations before the `serialize`, any operations between it and the `resolve` -/
theorem cds_roundtrip_history (hrt : ∀ v, deser (ser v) = some v) (hnr : ∀ v, isRef (ser v) = false)
    (hnc : NoColl H S) (c : Conf) (hc : 1 ≤ c.cacheSize) (before after : List (Op V))
    (hb : OpsIn ser S before) (ha : OpsIn ser S after) (v : V) (hS : S (ser v)) (dis : Bool)
    (guard : ∀ s, asStr v = some s → isRef s = false) :
    ∃ st1 data, serialize ser asStr H c (run ser deser asStr H c {} before) v dis = (st1, some data) ∧
      ∃ st3, resolve deser c (run ser deser asStr H c st1 after) data = (st3, .ok v) := by
  have h0 := run_coherent_extends (asStr := asStr) hrt hnr hnc c before ({} : Store V) (coherent_empty ser H S) hb
  obtain ⟨st1, data, h1, _, h3⟩ :=
    resolve_of_serialized (asStr := asStr) hrt hnr hnc c hc (run ser deser asStr H c {} before) v hS dis guard
  have hco1 : Coherent ser H S st1 := by
    have := serialize_coherent (asStr := asStr) hnr c h0.1 v hS dis
    rwa [h1] at this
  have h2 := run_coherent_extends (asStr := asStr) hrt hnr hnc c after st1 hco1 ha
  exact ⟨st1, data, h1, h3 c _ hc h2.1 h2.2⟩

/-- **a reference always resolves to the content it was created from — whatever this process believed before**:
    the starting store `st` is arbitrary, in particular its LRU may hold keys the backend no longer has (another
    process purged the backend: `foreignPurge`).  The text `serialize` returns is resolved to `v` by a process with
    an empty cache reading the same backend.  (`serialize` writes the backend entry on every call.) -/
theorem fresh_process_resolves (hrt : ∀ v, deser (ser v) = some v) (hnr : ∀ v, isRef (ser v) = false)
    (hnc : NoColl H S) (c : Conf) (hc : 1 ≤ c.cacheSize) (st : Store V) (v : V) (hS : S (ser v)) (dis : Bool)
    (guard : ∀ s, asStr v = some s → isRef s = false) (c2 : Conf) (hc2 : 1 ≤ c2.cacheSize) :
    ∃ st1 data, serialize ser asStr H c st v dis = (st1, some data) ∧ freshResolve deser c2 st1 data = .ok v := by
  obtain ⟨st1, data, h1, h2, _⟩ := resolve_of_serialized (asStr := asStr) hrt hnr hnc c hc st v hS dis guard
  refine ⟨st1, data, h1, ?_⟩
  rcases h2 with h | ⟨hk, hget⟩
  · subst h
    simp [freshResolve, resolve, hnr, hrt]
  · have hr : isRef data = true := by rw [hk]; exact C15P.isRef_genKey H (ser v)
    have hlen : ¬ (0 ≥ c2.cacheSize) := by omega
    simp [freshResolve, resolve, hr, AMap.get?, hget, hrt, cachePut, hlen]

theorem fresh_process_resolves_after_foreign_purge (hrt : ∀ v, deser (ser v) = some v)
    (hnr : ∀ v, isRef (ser v) = false) (hnc : NoColl H S) (c : Conf) (hc : 1 ≤ c.cacheSize) (st : Store V) (v : V)
    (hS : S (ser v)) (dis : Bool) (guard : ∀ s, asStr v = some s → isRef s = false) :
    ∃ st1 data, serialize ser asStr H c (foreignPurge st) v dis = (st1, some data) ∧
      freshResolve deser c st1 data = .ok v :=
  fresh_process_resolves hrt hnr hnc c hc (foreignPurge st) v hS dis guard c hc

/-- **the representation of a value does not depend on a storage fault**: whenever `serialize` under a failing backend
    write returns at all, it returns exactly what the fault-free `serialize` returns (so the call identity computed from
    it is the canonical one) and changes nothing; otherwise the error propagates.  (Guard: capacity ≥ 1.) -/
theorem fault_never_changes_representation (hnr : ∀ v, isRef (ser v) = false) (c : Conf) (hc : 1 ≤ c.cacheSize)
    (st : Store V) (v : V) (guard : ∀ s, asStr v = some s → isRef s = false) (data : Str)
    (h : (serializeFault ser asStr H c st v).2 = some (some data)) :
    (serialize ser asStr H c st v false).2 = some data ∧ (serializeFault ser asStr H c st v).1 = st := by
  have hr := C15P.serialize_routing (H := H) hnr c hc st v false guard
  have hf : (asStr v).filter isRef = none := by
    cases ha : asStr v with
    | none => rfl
    | some s => simp [Option.filter, guard s ha]
  unfold serializeFault at h ⊢
  by_cases hd : c.disabled = true
  · simp only [hd, if_true] at h ⊢
    simp only [Option.some.injEq] at h
    rw [hr]; simp [hd, h]
  · simp only [hd, Bool.false_eq_true, if_false, hf] at h ⊢
    by_cases he : external c (ser v).length = true
    · simp [he] at h
    · simp only [he, Bool.false_eq_true, if_false, Option.some.injEq] at h ⊢
      rw [hr]
      have he' : external c (ser v).length = false := by simpa using he
      subst h
      simp [hd, he']

/-- non-vacuity of the hypotheses: values = strings, serializer = quoting, identity "hash" on all texts -/
example : ∃ (ser : Str → Str) (deser : Str → Option Str) (H : Str → Str),
    (∀ v, deser (ser v) = some v) ∧ (∀ v, isRef (ser v) = false) ∧ NoColl H (fun _ => True) :=
  ⟨fun s => '"' :: s, fun s => s.tail?, id, fun _ => rfl, fun v => by
    simp [isRef, refPrefix, Gen.Reserved.clientData, startsWith], fun a b _ _ h => h⟩

/-- **An externalised value is content-addressed**: two references are equal exactly when the contents they were
    created from are equal (`⇒` under no collision), and by `cds_roundtrip` a reference resolves to that content. -/
theorem reference_content_addressed (hnr : ∀ v, isRef (ser v) = false) (hnc : NoColl H S)
    (c1 c2 : Conf) (h1 : 1 ≤ c1.cacheSize) (h2 : 1 ≤ c2.cacheSize) (st1 st2 : Store V) (v1 v2 : V)
    (hS1 : S (ser v1)) (hS2 : S (ser v2)) (d1 d2 : Bool)
    (g1 : ∀ s, asStr v1 = some s → isRef s = false) (g2 : ∀ s, asStr v2 = some s → isRef s = false)
    (r1 r2 : Str) (e1 : (serialize ser asStr H c1 st1 v1 d1).2 = some r1)
    (e2 : (serialize ser asStr H c2 st2 v2 d2).2 = some r2) (hr1 : isRef r1 = true) (hr2 : isRef r2 = true) :
    (r1 = r2 ↔ ser v1 = ser v2) := by
  rw [C15P.serialize_routing hnr c1 h1 st1 v1 d1 g1] at e1
  rw [C15P.serialize_routing hnr c2 h2 st2 v2 d2 g2] at e2
  have k1 : r1 = genKey H (ser v1) := by
    split at e1
    · simp only [Option.some.injEq] at e1; rw [← e1, hnr] at hr1; cases hr1
    · exact (Option.some.inj e1).symm
  have k2 : r2 = genKey H (ser v2) := by
    split at e2
    · simp only [Option.some.injEq] at e2; rw [← e2, hnr] at hr2; cases hr2
    · exact (Option.some.inj e2).symm
  subst k1 k2
  constructor
  · intro h; exact hnc _ _ hS1 hS2 (genKey_inj h)
  · intro h; rw [h]

/-- a small concrete world for the refutations: values are strings, `ser` quotes, the "hash" is the identity -/
def qser (s : Str) : Str := '"' :: s
def qdeser (s : Str) : Option Str := s.tail?

/-- non-vacuity of `reference_content_addressed` / `cds_roundtrip`: with threshold 1 the value `ab` is externalised
    (the result is a reference), and resolving it in a store with an empty cache gives `ab` back -/
example :
    let r := serialize qser some id { minSize := 1 } ({} : Store Str) "ab".toList false
    (r.2.map isRef) = some true ∧
      (resolve qdeser { minSize := 1 } { r.1 with lru := [] } (r.2.getD [])).2 = .ok "ab".toList := by decide

/-- **Guard is real** (genuine defect): the user string `__pynenc__client_data__:x` is returned as its own
    "serialization", taken for a reference by `resolve`, and fails with `KeyError`. -/
theorem reserved_prefix_refutation :
    let v : Str := "__pynenc__client_data__:x".toList
    let r := serialize qser some id {} ({} : Store Str) v false
    r.2 = some v ∧ (resolve qdeser {} r.1 v).2 = .keyError := by decide

/-- **The LRU holds the caller's object** (genuine defect).  With mutable values — `caller a` is the object the
    client passed, its content is whatever the heap says now — `serialize` files the caller's own object under the
    reference, so after the client mutates it an in-process `resolve` returns the *mutated* content, while a
    process with an empty cache gets the content the reference was created from. -/
theorem lru_alias_refutation :
    let before : Nat → Str := fun _ => "[1]".toList
    let after : Nat → Str := fun _ => "[1,-1]".toList
    let c : Conf := { minSize := 1 }
    let r := serialize (contentOf before) (fun _ => none) id c {} (Obj.caller 0) false
    let inProc := (resolve (fun s => some (Obj.fresh s)) c r.1 (r.2.getD [])).2
    let worker := (resolve (fun s => some (Obj.fresh s)) c { r.1 with lru := [] } (r.2.getD [])).2
    inProc = .ok (Obj.caller 0) ∧ contentOf after (Obj.caller 0) ≠ before 0 ∧
      worker = .ok (Obj.fresh (before 0)) := by decide

/-- full statement (false of the current code): whatever the client does to its own object after `serialize`
    (`before` = contents at serialize time, `after` = contents at resolve time), an in-process `resolve` of the
    reference yields the content it was created from -/
def ReferenceStableStatement : Prop :=
  ∀ (before after : Nat → Str) (c : Conf), 1 ≤ c.cacheSize → isRef (before 0) = false →
    ∀ data st1, serialize (contentOf before) (fun _ => none) id c {} (Obj.caller 0) false = (st1, some data) →
    ∀ o st2, resolve (fun s => some (Obj.fresh s)) c st1 data = (st2, .ok o) → contentOf after o = before 0

theorem reference_stable_refutation : ¬ ReferenceStableStatement := by
  intro h
  have := h (fun _ => "[1]".toList) (fun _ => "[1,-1]".toList) { minSize := 1 } (by decide) (by decide)
    _ _ rfl (Obj.caller 0) _ rfl
  exact absurd this (by decide)

/-- what does hold: without a mutation in between (`after = before`) the statement is true -/
theorem reference_stable_partial (before : Nat → Str) (c : Conf) (hc : 1 ≤ c.cacheSize)
    (hnr : isRef (before 0) = false) (data : Str) (st1 : Store Obj)
    (hs : serialize (contentOf before) (fun _ => none) id c {} (Obj.caller 0) false = (st1, some data))
    (o : Obj) (st2 : Store Obj) (hr : resolve (fun s => some (Obj.fresh s)) c st1 data = (st2, .ok o)) :
    contentOf before o = before 0 := by
  have inl : ∀ st, resolve (fun s => some (Obj.fresh s)) c st (before 0) = (st, .ok (Obj.fresh (before 0))) := by
    intro st; simp [resolve, hnr]
  unfold serialize at hs
  split at hs
  · cases hs
    rw [show contentOf before (Obj.caller 0) = before 0 from rfl, inl] at hr
    cases hr; rfl
  · simp only [Option.filter] at hs
    rcases maybeStore_cases (H := id) c ([] : AMap Str Str) (before 0) with ⟨_, h⟩ | ⟨_, h⟩
    · simp only [show contentOf before (Obj.caller 0) = before 0 from rfl] at hs
      have h' : maybeStore id c ({} : Store Obj).ext (before 0) = (AMap.set [] (genKey id (before 0)) (before 0), genKey id (before 0)) := h
      simp only [h', isRef_genKey, if_true] at hs
      obtain ⟨l, hl⟩ := cachePut_isSome hc ({} : Store Obj).lru (genKey id (before 0)) (Obj.caller 0)
      simp only [hl] at hs
      cases hs
      have hl' : l = [(genKey id (before 0), Obj.caller 0)] := by
        have : cachePut c ([] : AMap Str Obj) (genKey id (before 0)) (Obj.caller 0) = some l := hl
        unfold cachePut at this
        split at this
        · rename_i hh; simp at hh; omega
        · simpa [AMap.set] using this.symm
      subst hl'
      simp only [resolve, isRef_genKey, if_true, AMap.get?, if_true] at hr
      cases hr; rfl
    · simp only [show contentOf before (Obj.caller 0) = before 0 from rfl] at hs
      have h' : maybeStore id c ({} : Store Obj).ext (before 0) = (([] : AMap Str Str), before 0) := h
      simp only [h', hnr, Bool.false_eq_true, if_false] at hs
      cases hs
      rw [inl] at hr
      cases hr; rfl
/-- with `local_cache_size = 0` externalising any value raises (`popitem` on the empty cache) -/
theorem cache_size_zero_refutation :
    (serialize qser some id { minSize := 1, cacheSize := 0 } ({} : Store Str) "ab".toList false).2 = none := by
  decide

end cds

/-! ## 3. JSON serializer envelopes -/
section json
open Pynenc.Json

/-- **`JsonSerializer.deserialize (JsonSerializer.serialize v) = v`** for every value of the stated domain `wf`:
    scalars, lists and string-keyed dictionaries nested to any depth, Enum members (plain or Int/Str) anywhere in
    that nesting, exceptions and JsonSerializable objects whose arguments / data are plain JSON; no tuple; no user
    dictionary holding a reserved envelope key with a truthy payload.  (Text layer `json.loads ∘ json.dumps = id`
    on JSON trees, class resolution and `Enum(value)` lookup are assumptions recorded in the registry `reg`.) -/
theorem json_roundtrip (reg : Registry) (v : PyVal) (h : wf reg v = true) : roundtrip reg v = .ok v :=
  C15P.json_roundtrip reg v h

def demoReg : Registry :=
  { builtins := ["ValueError", "RuntimeError"],
    classes := [⟨"m", "Color", .enum false (.cons (.int 1) (.cons (.int 2) .nil))⟩, ⟨"m", "Money", .obj⟩] }

/-- non-vacuity: a nested value with an enum, an exception and an object is in the domain -/
example : wf demoReg (.dict (.cons "a" (.list (.cons (.enum "m" "Color" false (.int 2)) (.cons (.float 0) .nil)))
    (.cons "e" (.exc "builtins" "ValueError" (.cons (.str "x") .nil) "x")
    (.cons "o" (.obj "m" "Money" (.dict (.cons "amount" (.int 3) .nil))) .nil)))) = true := by decide

/-- the envelope keys are pairwise different and none is the client-data prefix; the source has no reserved key
    the model ignores (regenerated from `ReservedKeys` on every run) -/
theorem reserved_keys_distinct :
    reservedKeys.Nodup ∧ Gen.Reserved.clientData ∉ reservedKeys ∧ Gen.Reserved.unknownKeys = [] := by decide

/-- outside the domain (1): a tuple comes back as a list -/
theorem json_tuple_refutation :
    roundtrip demoReg (.tuple (.cons (.int 1) .nil)) = .ok (.list (.cons (.int 1) .nil)) := by decide

/-- outside the domain (2): a user dictionary that happens to contain a reserved key with a truthy payload is
    taken for an envelope and comes back as something else (here: an exception object) -/
theorem json_reserved_key_refutation :
    roundtrip demoReg (.dict (.cons Gen.Reserved.error
        (d3 "type" (.str "ValueError") "args" (.list .nil) "message" (.str "")) .nil)) =
      .ok (.exc "builtins" "ValueError" .nil "") := by decide

/-- outside the domain (3): an Enum member inside exception arguments comes back as its raw envelope dictionary
    (payloads of envelopes are not reconstructed recursively) -/
theorem json_nested_special_refutation :
    roundtrip demoReg (.exc "builtins" "ValueError" (.cons (.enum "m" "Color" false (.int 1)) .nil) "Color.RED") =
      .ok (.exc "builtins" "ValueError" (.cons (enumEnvelope "m" "Color" (.int 1)) .nil) "Color.RED") := by decide

end json

end Pynenc.C15
