import PynencModel.Model.Pool
/-
  C14 — process-based runners keep their worker pool at capacity when workers die.

  The model (`Model/Pool.lean`) is the bookkeeping of `MultiThreadRunner`, `PersistentProcessRunner`
  and `ProcessRunner`: the tracking dictionary runner id ↦ process handle, `_on_start`, the loop
  iteration (prune dead, spawn replacements — each class with its own rule) and
  `get_active_child_runner_ids` (the ids heartbeats are reported for).  A *fault sequence* is any
  list of `Step`s: `die S` (any set of runner ids dies — any subset of the pool, the whole pool,
  again and again), `iter q` (one loop iteration with `q` invocations queued) and `beat` (the parent
  reports heartbeats), in any order.  `run c steps` is the state of a runner started with
  configuration `c` after such a sequence; every theorem below is for all configurations and all
  sequences (no bound on process counts, queue lengths, or the length of the sequence).

  Property theorems only; helper lemmas are `private`.
-/
namespace Pynenc.C14
open Pynenc.Pool

/-! ### helper lemmas -/

private theorem live_spawnN (p : Pool) (n : Nat) : (spawnN p n).live = p.live + n := by
  have h : ∀ l : List Nat, (l.filter fun _ => true) = l := fun l => List.filter_eq_self.2 (by simp)
  simp [spawnN, Pool.live, freshIds, List.filter_append, List.filter_map, Function.comp_def, h]

private theorem length_spawnN (p : Pool) (n : Nat) :
    (spawnN p n).tracked.length = p.tracked.length + n := by
  simp [spawnN, freshIds]

private theorem live_prune (p : Pool) : (prune p).live = p.live := by
  simp [prune, Pool.live, List.filter_filter]

private theorem length_prune (p : Pool) : (prune p).tracked.length = p.live := by
  simp [prune, Pool.live]

private theorem live_le_length (p : Pool) : p.live ≤ p.tracked.length := by
  simp only [Pool.live]; exact List.length_filter_le _ _

private theorem live_die_le (p : Pool) (d : List Nat) : (die p d).tracked.length = p.tracked.length := by
  simp [die]

/-- every tracked id is below the fresh-id supply -/
def Bounded (p : Pool) : Prop := ∀ w ∈ p.tracked, w.1 < p.next

private theorem ids_die (p : Pool) (d : List Nat) : (die p d).ids = p.ids := by
  simp only [die, Pool.ids, List.map_map]
  apply List.map_congr_left
  intro w _
  by_cases h : w.1 ∈ d <;> simp [h]

private theorem bounded_die (p : Pool) (d : List Nat) (h : Bounded p) : Bounded (die p d) := by
  intro w hw
  simp only [die, List.mem_map] at hw
  obtain ⟨v, hv, rfl⟩ := hw
  have := h v hv
  by_cases hc : v.1 ∈ d <;> simpa [hc, die] using this

private theorem bounded_spawnN (p : Pool) (n : Nat) (h : Bounded p) : Bounded (spawnN p n) := by
  intro w hw
  simp only [spawnN, freshIds, List.mem_append, List.mem_map, List.mem_range] at hw
  rcases hw with hw | ⟨i, ⟨a, ha, rfl⟩, rfl⟩
  · have := h w hw; simp only [spawnN]; omega
  · simp only [spawnN]; omega

private theorem bounded_prune (p : Pool) (h : Bounded p) : Bounded (prune p) := by
  intro w hw
  simp only [prune, List.mem_filter] at hw
  exact h w hw.1

private theorem nodup_fresh (p : Pool) (n : Nat) : (freshIds p n).Nodup := by
  unfold freshIds List.Nodup
  rw [List.pairwise_map]
  exact List.nodup_range.imp (by intro a b hab; omega)

private theorem nodup_spawnN (p : Pool) (n : Nat) (h : Bounded p) (hn : p.ids.Nodup) :
    (spawnN p n).ids.Nodup := by
  have hf : (spawnN p n).ids = p.ids ++ freshIds p n := by
    simp [spawnN, Pool.ids, List.map_map, Function.comp_def]
  rw [hf, List.nodup_append]
  refine ⟨hn, nodup_fresh p n, ?_⟩
  intro a ha b hb
  simp only [Pool.ids, List.mem_map] at ha
  obtain ⟨w, hw, rfl⟩ := ha
  simp only [freshIds, List.mem_map, List.mem_range] at hb
  obtain ⟨k, _, rfl⟩ := hb
  have := h w hw
  omega

private theorem nodup_prune (p : Pool) (hn : p.ids.Nodup) : (prune p).ids.Nodup := by
  simp only [prune, Pool.ids]
  exact hn.sublist ((List.filter_sublist).map _)

/-- well-formed bookkeeping: ids below the supply and pairwise distinct -/
private def WF (p : Pool) : Prop := Bounded p ∧ p.ids.Nodup

private theorem wf_step (c : Cfg) (p : Pool) (s : Step) (h : WF p) : WF (step c p s) := by
  cases s with
  | die d => exact ⟨bounded_die p d h.1, by show (die p d).ids.Nodup; rw [ids_die]; exact h.2⟩
  | iter q =>
    exact ⟨bounded_spawnN _ _ (bounded_prune p h.1),
           nodup_spawnN _ _ (bounded_prune p h.1) (nodup_prune p h.2)⟩
  | beat => exact h

private theorem wf_exec (c : Cfg) (steps : List Step) : ∀ p, WF p → WF (exec c p steps) := by
  induction steps with
  | nil => intro p h; exact h
  | cons s rest ih => intro p h; exact ih _ (wf_step c p s h)

private theorem wf_start (c : Cfg) : WF (start c) := by
  have h0 : WF ({} : Pool) := ⟨by intro w hw; simp at hw, by simp [Pool.ids]⟩
  exact ⟨bounded_spawnN _ _ h0.1, nodup_spawnN _ _ h0.1 h0.2⟩

private theorem wf_run (c : Cfg) (steps : List Step) : WF (run c steps) :=
  wf_exec c steps _ (wf_start c)

/-! ### what one loop iteration does, from *any* bookkeeping state -/

/-- The number of live tracked workers after a loop iteration is the number alive before it plus the
    class's spawn count evaluated on that number (dead workers do not count: the bug repaired by
    96e00a6 was exactly that `MultiThreadRunner` evaluated it on the *tracked* number). -/
theorem iteration_live (c : Cfg) (p : Pool) (q : Nat) :
    (iteration c p q).live = p.live + spawnCount c p.live q := by
  simp [iteration, live_spawnN, live_prune, length_prune]

/-- Dead workers are forgotten: after a loop iteration every tracked worker is alive, so the
    tracking dictionary has exactly as many entries as there are live workers and none is dead —
    whatever died before, in whatever combination. -/
theorem iteration_forgets_dead (c : Cfg) (p : Pool) (q : Nat) :
    (∀ w ∈ (iteration c p q).tracked, w.2 = true) ∧
    (iteration c p q).tracked.length = (iteration c p q).live ∧
    (iteration c p q).deadIds = [] := by
  have h1 : ∀ w ∈ (iteration c p q).tracked, w.2 = true := by
    intro w hw
    simp [iteration, spawnN, prune, freshIds] at hw
    rcases hw with h | ⟨a, _, rfl⟩
    · exact h.2
    · rfl
  refine ⟨h1, ?_, ?_⟩
  · simp only [Pool.live]
    rw [List.filter_eq_self.2 h1]
  · simp only [Pool.deadIds, List.map_eq_nil_iff, List.filter_eq_nil_iff]
    intro w hw; simp [h1 w hw]

/-- Pruning never forgets a worker that is alive: every worker alive before the iteration is still
    tracked (and alive) after it. -/
theorem iteration_keeps_alive (c : Cfg) (p : Pool) (q : Nat) (i : Nat)
    (h : (i, true) ∈ p.tracked) : (i, true) ∈ (iteration c p q).tracked := by
  simp [iteration, spawnN, prune, h]

/-- Replacements are new workers: every worker tracked after an iteration was either alive and
    tracked before, or carries a runner id that had never been handed out. -/
theorem iteration_spawns_fresh (c : Cfg) (p : Pool) (q : Nat) (w : Nat × Bool)
    (h : w ∈ (iteration c p q).tracked) : (w ∈ p.tracked ∧ w.2 = true) ∨ (p.next ≤ w.1 ∧ w.2 = true) := by
  simp only [iteration, spawnN, prune, freshIds, List.mem_append, List.mem_filter, List.mem_map,
    List.mem_range] at h
  rcases h with h | ⟨i, ⟨a, _, rfl⟩, rfl⟩
  · exact .inl h
  · exact .inr ⟨by omega, rfl⟩

/-- A loop iteration that finds nothing dead and has nothing to spawn changes nothing. -/
theorem iteration_idle (c : Cfg) (p : Pool) (q : Nat) (ha : ∀ w ∈ p.tracked, w.2 = true)
    (h0 : spawnCount c p.tracked.length q = 0) : iteration c p q = p := by
  have hp : p.tracked.filter (·.2) = p.tracked := List.filter_eq_self.2 ha
  simp [iteration, prune, hp, h0, spawnN, freshIds]

/-- No churn: for the fixed-size pools (PersistentProcessRunner; MultiThreadRunner with enforce-max) a
    second iteration without deaths in between neither spawns nor forgets anything, whatever the queue
    — replacements are made for dead workers only. -/
theorem no_churn (c : Cfg) (hk : c.kind = .persistent ∨ (c.kind = .multi ∧ c.enforce = true))
    (p : Pool) (q q' : Nat) : iteration c (iteration c p q) q' = iteration c p q := by
  have hf := iteration_forgets_dead c p q
  apply iteration_idle c _ q' hf.1
  rw [hf.2.1, iteration_live]
  rcases hk with hk | ⟨hk, he⟩
  · simp only [spawnCount, hk]; split <;> split <;> omega
  · simp only [spawnCount, hk, he, if_true]; omega

/-! ### capacity after an iteration, for every reachable state -/

/-- the exact live pool size a loop iteration leaves behind — the "configured capacity" of the
    property — per runner class and configuration:
    * PersistentProcessRunner: `num_processes`;
    * MultiThreadRunner with `enforce_max_processes`: `max_processes` (if `min_processes` was configured
      larger, the survivors of the initial `min_processes` are kept: `max max_processes liveBefore`);
    * MultiThreadRunner without it: queue-driven — if more invocations are queued than workers are alive
      and the pool is below `max_processes`, `min queued max_processes`; otherwise the survivors, unchanged;
    * ProcessRunner (one process per invocation, `cap` = `max_parallel_slots`): the survivors plus one
      new process per queued invocation while free slots (`cap - live`) last: `min cap (live + queued)`. -/
def capacity (c : Cfg) (liveBefore q : Nat) : Nat :=
  match c.kind with
  | .persistent => c.cap
  | .multi =>
    if c.enforce then max c.cap liveBefore
    else if q > liveBefore ∧ liveBefore < c.cap then min q c.cap else liveBefore
  | .process => min c.cap (liveBefore + q)

/-- the largest pool a runner of configuration `c` ever tracks -/
def poolBound (c : Cfg) : Nat :=
  match c.kind with | .persistent => c.cap | .multi => max c.minP c.cap | .process => c.cap

private theorem start_length (c : Cfg) :
    (start c).tracked.length = (match c.kind with | .persistent => c.cap | .multi => c.minP | .process => 0) := by
  cases hk : c.kind <;> simp [start, length_spawnN, hk]

private theorem step_length_le (c : Cfg) (p : Pool) (s : Step) (B : Nat) (hc : c.cap ≤ B)
    (h : p.tracked.length ≤ B) : (step c p s).tracked.length ≤ B := by
  cases s with
  | die d => simpa [step, die] using h
  | beat => exact h
  | iter q =>
    have hl := live_le_length p
    simp only [step, iteration, length_spawnN, length_prune, spawnCount]
    cases c.kind <;> simp only <;> (repeat' split) <;> omega

private theorem exec_length_le (c : Cfg) (B : Nat) (hc : c.cap ≤ B) (steps : List Step) :
    ∀ p : Pool, p.tracked.length ≤ B → (exec c p steps).tracked.length ≤ B := by
  induction steps with
  | nil => intro p h; exact h
  | cons s rest ih => intro p h; exact ih _ (step_length_le c p s B hc h)

/-- A runner never tracks more workers than its bound (`num_processes`; `max(min_processes,
    max_processes)`; `max_parallel_slots`), whatever dies and however often the loop runs. -/
theorem never_over_capacity (c : Cfg) (steps : List Step) :
    (run c steps).tracked.length ≤ poolBound c ∧ (run c steps).live ≤ poolBound c := by
  have h : (run c steps).tracked.length ≤ poolBound c := by
    apply exec_length_le c (poolBound c)
    · unfold poolBound; cases c.kind <;> simp only <;> omega
    · rw [start_length]; unfold poolBound; cases c.kind <;> simp only <;> omega
  exact ⟨h, Nat.le_trans (live_le_length _) h⟩

/-- **after_iteration_full.**  For every configuration, every sequence of worker deaths (any subsets,
    repeated, all at once), loop iterations and heartbeat reports since the runner started, and every
    queue length: right after one more loop iteration the number of live tracked workers equals the
    configured capacity (`capacity`, stated per class above), every tracked worker is alive (the dead
    ones are forgotten) and the dictionary holds exactly the live ones. -/
theorem after_iteration_full (c : Cfg) (steps : List Step) (q : Nat) :
    (iteration c (run c steps) q).live = capacity c (run c steps).live q ∧
    (∀ w ∈ (iteration c (run c steps) q).tracked, w.2 = true) ∧
    (iteration c (run c steps) q).tracked.length = capacity c (run c steps).live q := by
  have hb := (never_over_capacity c steps).2
  have hlive : (iteration c (run c steps) q).live = capacity c (run c steps).live q := by
    rw [iteration_live]
    generalize (run c steps).live = l at hb
    unfold poolBound at hb
    unfold capacity spawnCount
    cases hk : c.kind <;> simp only [hk] at hb ⊢ <;> (repeat' split) <;> omega
  have hf := iteration_forgets_dead c (run c steps) q
  exact ⟨hlive, hf.1, by rw [hf.2.1, hlive]⟩

/-- PersistentProcessRunner: after any fault sequence, one loop iteration restores exactly
    `num_processes` live workers. -/
theorem persistent_full (c : Cfg) (hk : c.kind = .persistent) (steps : List Step) (q : Nat) :
    (iteration c (run c steps) q).live = c.cap := by
  rw [(after_iteration_full c steps q).1]; simp [capacity, hk]

/-- MultiThreadRunner with `enforce_max_processes` and `min_processes ≤ max_processes`: after any
    fault sequence, one loop iteration restores exactly `max_processes` live workers. -/
theorem multi_enforce_full (c : Cfg) (hk : c.kind = .multi) (he : c.enforce = true) (hm : c.minP ≤ c.cap)
    (steps : List Step) (q : Nat) : (iteration c (run c steps) q).live = c.cap := by
  rw [(after_iteration_full c steps q).1]
  have hb := (never_over_capacity c steps).2
  simp only [poolBound, hk] at hb
  simp only [capacity, hk, he, if_true]
  omega

/-- MultiThreadRunner without `enforce_max_processes`: the queue's demand is always met up to
    `max_processes` — after an iteration at least `min queued max_processes` workers are alive — and a
    non-empty queue never faces an empty pool, so new work keeps being picked up even after the whole
    pool died. -/
theorem multi_queue_demand_met (c : Cfg) (hk : c.kind = .multi) (he : c.enforce = false)
    (steps : List Step) (q : Nat) :
    min q c.cap ≤ (iteration c (run c steps) q).live ∧
    (0 < q → 0 < c.cap → 0 < (iteration c (run c steps) q).live) := by
  rw [(after_iteration_full c steps q).1]
  simp only [capacity, hk, he, Bool.false_eq_true, if_false]
  constructor
  · split <;> omega
  · intro hq hc; split <;> omega

/-- ProcessRunner: after any fault sequence, one loop iteration leaves `min cap (live + queued)`
    processes alive: the slots of dead children are free again (`cap - live`), each is filled while
    invocations are queued; in particular a queue at least as long as the free slots fills the pool. -/
theorem process_full (c : Cfg) (hk : c.kind = .process) (steps : List Step) (q : Nat) :
    (iteration c (run c steps) q).live = min c.cap ((run c steps).live + q) ∧
    (c.cap - (run c steps).live ≤ q → (iteration c (run c steps) q).live = c.cap) := by
  have hb := (never_over_capacity c steps).2
  simp only [poolBound, hk] at hb
  rw [(after_iteration_full c steps q).1]
  simp only [capacity, hk, true_and]
  intro h; omega

/-- Runner ids are never reused: in every reachable state the tracked ids are pairwise distinct and
    all were handed out by the fresh-id supply. -/
theorem tracked_ids_distinct (c : Cfg) (steps : List Step) :
    (run c steps).ids.Nodup ∧ ∀ i ∈ (run c steps).ids, i < (run c steps).next := by
  obtain ⟨hb, hn⟩ := wf_run c steps
  refine ⟨hn, ?_⟩
  intro i hi
  simp only [Pool.ids, List.mem_map] at hi
  obtain ⟨w, hw, rfl⟩ := hi
  exact hb w hw

/-! ### heartbeats -/

/-- **heartbeats_only_alive.**  The ids the parent reports heartbeats for are exactly the tracked
    workers whose process is alive — in any state, in particular while dead workers are still in the
    dictionary (the report runs *before* the loop iteration prunes them). -/
theorem heartbeats_only_alive (p : Pool) (i : Nat) :
    i ∈ heartbeatIds p ↔ (i, true) ∈ p.tracked := by
  simp only [heartbeatIds, List.mem_map, List.mem_filter]
  constructor
  · rintro ⟨w, ⟨hw, ha⟩, rfl⟩
    have : w = (w.1, true) := by cases w; simp_all
    rw [← this]; exact hw
  · intro h; exact ⟨(i, true), ⟨h, rfl⟩, rfl⟩

/-- Every id passed to `register_runner_heartbeats` during any step is either a tracked worker that
    is alive at that moment, or the brand-new id of a worker that the same step starts and tracks
    (ProcessRunner gives each reserved child context a first heartbeat). -/
theorem reports_alive_or_fresh (c : Cfg) (p : Pool) (s : Step) (i : Nat) (h : i ∈ reports c p s) :
    (i, true) ∈ p.tracked ∨ (p.next ≤ i ∧ (i, true) ∈ (step c p s).tracked) := by
  cases s with
  | die d => simp [reports] at h
  | beat => exact .inl ((heartbeats_only_alive p i).1 h)
  | iter q =>
    right
    simp only [reports, spawnRegistered] at h
    cases hk : c.kind <;> simp only [hk] at h
    · simp at h
    · simp at h
    · simp only [freshIds, List.mem_map, List.mem_range] at h
      obtain ⟨a, ha, rfl⟩ := h
      refine ⟨by simp [prune], ?_⟩
      simp only [step, iteration, spawnN, freshIds, List.mem_append, List.mem_map, List.mem_range]
      exact .inr ⟨(prune p).next + a, ⟨a, ha, rfl⟩, rfl⟩

/-- the invariant behind `dead_never_reported_again` -/
private def Gone (i : Nat) (p : Pool) : Prop := (i, true) ∉ p.tracked ∧ i < p.next

private theorem gone_step (c : Cfg) (i : Nat) (p : Pool) (s : Step) (h : Gone i p) :
    Gone i (step c p s) ∧ i ∉ reports c p s := by
  obtain ⟨h1, h2⟩ := h
  cases s with
  | die d =>
    refine ⟨⟨?_, h2⟩, by simp [reports]⟩
    intro hm
    simp only [step, die, List.mem_map] at hm
    obtain ⟨w, hw, he⟩ := hm
    by_cases hc : w.1 ∈ d
    · simp [hc] at he
    · simp only [List.contains_eq_mem, hc, decide_false] at he
      exact h1 (he ▸ hw)
  | beat => exact ⟨⟨h1, h2⟩, fun hm => h1 ((heartbeats_only_alive p i).1 hm)⟩
  | iter q =>
    refine ⟨⟨?_, by simp only [step, iteration, spawnN, prune]; omega⟩, ?_⟩
    · intro hm
      rcases iteration_spawns_fresh c p q _ hm with h | h
      · exact h1 h.1
      · simp only at h; omega
    · intro hm
      rcases reports_alive_or_fresh c p (.iter q) i hm with h | h
      · exact h1 h
      · omega

private theorem gone_all (c : Cfg) (i : Nat) (steps : List Step) :
    ∀ p, Gone i p → i ∉ allReports c p steps ∧ Gone i (exec c p steps) := by
  induction steps with
  | nil => intro p h; exact ⟨by simp [allReports], h⟩
  | cons s rest ih =>
    intro p h
    obtain ⟨hg, hr⟩ := gone_step c i p s h
    obtain ⟨h1, h2⟩ := ih _ hg
    refine ⟨?_, h2⟩
    simp only [allReports, List.mem_append]
    rintro (h | h)
    · exact hr h
    · exact h1 h

/-- **dead_never_reported_again.**  Take any history `pre` of a runner, let any set `dead` of workers
    die, and continue with any history `post` (more deaths, iterations, heartbeat reports, in any
    order and number).  A worker `i` that was tracked and is among the dead is never again passed to
    `register_runner_heartbeats` — neither by a heartbeat report (also not by one that comes before the
    next iteration has pruned it) nor as a "fresh" id of a replacement — and never again tracked as
    alive.  Its last heartbeat therefore ages, which is what makes its unfinished invocations
    recoverable. -/
theorem dead_never_reported_again (c : Cfg) (pre post : List Step) (dead : List Nat) (i : Nat)
    (hi : i ∈ dead) (ht : i ∈ (run c pre).ids) :
    i ∉ allReports c (die (run c pre) dead) post ∧
    i ∉ heartbeatIds (run c (pre ++ [.die dead] ++ post)) := by
  have hlt := (tracked_ids_distinct c pre).2 i ht
  have hg : Gone i (die (run c pre) dead) := by
    refine ⟨?_, by simpa [die] using hlt⟩
    intro hm
    simp only [die, List.mem_map] at hm
    obtain ⟨w, _, he⟩ := hm
    by_cases hc : w.1 ∈ dead
    · simp [hc] at he
    · simp [hc] at he
      subst he
      exact hc hi
  obtain ⟨h1, h2⟩ := gone_all c i post _ hg
  refine ⟨h1, ?_⟩
  have : run c (pre ++ [.die dead] ++ post) = exec c (die (run c pre) dead) post := by
    simp [run, exec, step]
  rw [this]
  exact fun hm => h2.1 ((heartbeats_only_alive _ i).1 hm)

/-- All ids reported over a whole history of a runner are ids of workers that this runner created
    (below the fresh-id supply at the end): nothing foreign is ever kept alive by the parent. -/
theorem reports_are_own_workers (c : Cfg) (steps : List Step) (i : Nat)
    (h : i ∈ allReports c (start c) steps) : i < (run c steps).next := by
  have key : ∀ (steps : List Step) (p : Pool), Bounded p → i ∈ allReports c p steps →
      i < (exec c p steps).next := by
    intro steps
    induction steps with
    | nil => intro p _ h; simp [allReports] at h
    | cons s rest ih =>
      intro p hb h
      have hmono : ∀ (rest : List Step) (p : Pool), p.next ≤ (exec c p rest).next := by
        intro rest
        induction rest with
        | nil => intro p; exact Nat.le_refl _
        | cons s r ihr =>
          intro p
          refine Nat.le_trans ?_ (ihr (step c p s))
          cases s <;> simp [step, die, iteration, spawnN, prune]
      have hb' : Bounded (step c p s) := by
        cases s with
        | die d => exact bounded_die p d hb
        | beat => exact hb
        | iter q => exact bounded_spawnN _ _ (bounded_prune p hb)
      simp only [allReports, List.mem_append] at h
      rcases h with h | h
      · have : i < (step c p s).next := by
          rcases reports_alive_or_fresh c p s i h with h | h
          · have := hb _ h
            cases s <;> simp [step, die, iteration, spawnN, prune] <;> omega
          · exact hb' _ h.2
        exact Nat.lt_of_lt_of_le this (hmono rest _)
      · exact ih _ hb' h
  exact key steps _ (wf_start c).1 h

/-! ### the theorems tell the repaired loop from the old one, and what is *not* promised -/

/-- The loop of the tree before `fix:` 96e00a6 (no pruning before scaling up) does not have the
    property: capacity 3, two of three workers die, the old iteration leaves one live worker for ever
    (the probe recorded in DESIGN §9). -/
theorem unfixed_loop_refuted :
    let c : Cfg := { kind := .multi, cap := 3, minP := 3, enforce := true }
    let s := die (start c) [0, 2]
    (iterationNoCleanup c s 0).live = 1 ∧
    (iterationNoCleanup c (iterationNoCleanup c (iterationNoCleanup c s 0) 0) 0).live = 1 ∧
    (iteration c s 0).live = 3 := by decide

/-- What the queue-driven mode does *not* promise: `min_processes` is only the size of the initial
    pool.  With an empty queue, workers that die are forgotten and not replaced, so the pool may sit
    below `min_processes` (here: 0 of 2) until invocations are queued again. -/
theorem multi_queue_may_sit_below_min :
    let c : Cfg := { kind := .multi, cap := 4, minP := 2, enforce := false }
    (iteration c (run c [.die [0, 1]]) 0).live = 0 ∧ (iteration c (run c [.die [0, 1]]) 3).live = 3 := by
  decide

/-! ### non-vacuity: concrete histories exercise every branch -/

/-- persistent, 3 workers: all die at once, then two of the replacements, with heartbeats in between -/
example :
    let c : Cfg := { kind := .persistent, cap := 3 }
    (run c [.die [0, 1, 2], .beat, .iter 0, .die [3, 5], .beat]).tracked = [(3, false), (4, true), (5, false)] ∧
    heartbeatIds (run c [.die [0, 1, 2], .beat, .iter 0, .die [3, 5], .beat]) = [4] ∧
    (run c [.die [0, 1, 2], .beat, .iter 0, .die [3, 5], .beat, .iter 0]).tracked = [(4, true), (6, true), (7, true)] := by
  decide

/-- multi, enforce: starts with `min_processes` = 1, fills to 3, refills after deaths -/
example :
    let c : Cfg := { kind := .multi, cap := 3, minP := 1, enforce := true }
    (run c []).live = 1 ∧ (run c [.iter 0]).live = 3 ∧ (run c [.iter 0, .die [0, 2], .iter 0]).ids = [1, 3, 4] := by
  decide

/-- multi, queue-driven: both branches of the formula -/
example :
    let c : Cfg := { kind := .multi, cap := 4, minP := 1, enforce := false }
    (run c [.iter 0]).live = 1 ∧ (run c [.iter 3]).live = 3 ∧ (run c [.iter 9]).live = 4 ∧
    (run c [.iter 9, .die [1, 2, 3], .iter 2]).live = 2 := by decide

/-- process runner: free slots = capacity − live; the ids registered while spawning are the new ones -/
example :
    let c : Cfg := { kind := .process, cap := 2 }
    (run c [.iter 5]).ids = [0, 1] ∧ (run c [.iter 5, .die [0], .iter 1]).ids = [1, 2] ∧
    reports c (run c [.iter 5, .die [0]]) (.iter 1) = [2] ∧
    (run c [.iter 5, .die [0, 1], .iter 0]).live = 0 := by decide

/-- `dead_never_reported_again` has satisfiable hypotheses (worker 1 is tracked, then dies) -/
example :
    let c : Cfg := { kind := .persistent, cap := 2 }
    1 ∈ (run c [.iter 0]).ids ∧ allReports c (die (run c [.iter 0]) [1]) [.beat, .iter 0, .beat] = [0, 0, 2] := by
  decide

end Pynenc.C14
