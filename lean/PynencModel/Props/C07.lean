import PynencModel.Model.Concurrency
import PynencModel.Props.C01
/-
  C07 — registration concurrency collapses duplicate submissions onto one invocation.

  `CC.routeCall` models `BaseOrchestrator.route_call`.  Theorems are about every state / every history.
-/
namespace Pynenc.C07
open Pynenc Pynenc.CC Pynenc.C01

/-- R1. A submission that finds a REGISTERED invocation with the same registration key creates nothing:
    whether it is reused, reused with new non-key arguments, or rejected, the whole system state (status
    records, indexes, queue) is exactly what it was. -/
theorem reuse_changes_nothing (s : Sys) (tc : TaskConf) (task call : String) (args : List (String × String))
    (fresh : String) (rid : Option String) (now : Int) (res : RouteRes)
    (h : (routeCall s tc task call args fresh rid now).2 = res) (hnew : res ≠ .new fresh) :
    (routeCall s tc task call args fresh rid now).1 = s := by
  unfold routeCall at *
  split at h
  · exact absurd h.symm hnew
  · split at h
    · exact absurd h.symm hnew
    · split at h
      · exact absurd h.symm hnew
      · split at h
        · simp_all
        · split at h <;> simp_all

/-- R2. The answer of a submission, exactly: with registration concurrency enabled, if a REGISTERED
    invocation `id` of the task matches the key and its record is stored, the submission returns it
    (same call identity ⇒ reused; different ⇒ error when the raise option is set, else reused with the new
    arguments) and a new invocation is created only when no REGISTERED match exists. -/
theorem routeCall_answer (s : Sys) (tc : TaskConf) (task call : String) (args : List (String × String))
    (fresh : String) (rid : Option String) (now : Int) (hreg : tc.regMode ≠ .disabled) :
    (routeCall s tc task call args fresh rid now).2 =
      match (s.orch.existing task (keyFor tc.regMode tc.keyArgs args) [.registered]).head? with
      | none => .new fresh
      | some id =>
        match s.orch.info.get? id with
        | none => .new fresh
        | some inf => if inf.call = call then .reused id else if tc.raiseOnDiff then .errDiff else .reusedArgs id := by
  unfold routeCall
  simp only [hreg, if_false]
  cases hex : (s.orch.existing task (keyFor tc.regMode tc.keyArgs args) [.registered]).head? with
  | none => rfl
  | some id =>
    simp only []
    cases hg : s.orch.info.get? id with
    | none => rfl
    | some inf =>
      simp only []
      split
      · rfl
      · split <;> rfl

/-- R3 (`keys_raise_rejects_and_changes_nothing`). With the raise option, a submission whose key matches a
    REGISTERED invocation with a different call identity is rejected and changes nothing. -/
theorem keys_raise_rejects_and_changes_nothing (s : Sys) (tc : TaskConf) (task call : String)
    (args : List (String × String)) (fresh : String) (rid : Option String) (now : Int) (id : String) (inf : InvInfo)
    (hreg : tc.regMode ≠ .disabled) (hraise : tc.raiseOnDiff = true)
    (hex : (s.orch.existing task (keyFor tc.regMode tc.keyArgs args) [.registered]).head? = some id)
    (hinf : s.orch.info.get? id = some inf) (hdiff : inf.call ≠ call) :
    routeCall s tc task call args fresh rid now = (s, .errDiff) := by
  unfold routeCall
  simp [hreg, hex, hinf, hdiff, hraise]

/-- R4 (`disabled_always_new`). With registration concurrency disabled every submission creates the fresh
    invocation: registered (when the id is new), queued at the back, and returned. -/
theorem disabled_always_new (s : Sys) (tc : TaskConf) (task call : String) (args : List (String × String))
    (fresh : String) (rid : Option String) (now : Int) (hreg : tc.regMode = .disabled)
    (hfresh : s.orch.recs.has fresh = false) :
    (routeCall s tc task call args fresh rid now).2 = .new fresh ∧
    (routeCall s tc task call args fresh rid now).1.queue = s.queue ++ [fresh] ∧
    (routeCall s tc task call args fresh rid now).1.orch.statusOf fresh = some .registered := by
  unfold routeCall
  simp only [hreg, if_true]
  refine ⟨trivial, by simp [newInvocation], ?_⟩
  unfold newInvocation
  have hreg' : ∀ (o : Orch), (o.indexArgs fresh).recs = o.recs := by
    intro o; unfold Orch.indexArgs; split <;> rfl
  have hst : ((s.orch.registerInv fresh { task := task, call := call, args := args } rid now)).statusOf fresh = some .registered := by
    unfold Orch.registerInv Orch.register Orch.statusOf Orch.get
    simp [hfresh, AMap.get?_set_self]
  split
  · simp only [Orch.statusOf, Orch.get, hreg'] at hst ⊢; exact hst
  · exact hst

/-- No transition ever enters REGISTERED again: an invocation that left REGISTERED (claimed, completed,
    concurrency-controlled) never competes for its registration key again, so only `route_call` creates
    REGISTERED invocations. -/
theorem registered_only_by_registration (c : SRec) (rid : Option String) (r : SRec) :
    step Gen.table (some c) .registered rid ≠ .ok r := by
  intro h
  have he := ((step_ok_iff Gen.table _ _ _ _).1 h).1
  obtain ⟨s, o⟩ := c
  simp only [Option.map_some] at he
  cases s <;> exact absurd he (by decide)

/-! ### sequential submissions never leave two REGISTERED invocations per key -/

/-- number of REGISTERED invocations of `task` matching `key` -/
def registeredCount (s : Sys) (task : String) (key : List (String × String)) : Nat :=
  (s.orch.existing task key [.registered]).length

/-- R5. If a submission with registration concurrency enabled is answered `new`, there was no REGISTERED
    invocation matching its key before; so a sequence of submissions creates a new invocation for a key
    only when none is REGISTERED for it (the first of `existing` is consulted, and it is empty). -/
theorem new_only_when_none_registered (s : Sys) (tc : TaskConf) (task call : String) (args : List (String × String))
    (fresh : String) (rid : Option String) (now : Int) (hreg : tc.regMode ≠ .disabled)
    (hstored : ∀ id ∈ s.orch.existing task (keyFor tc.regMode tc.keyArgs args) [.registered], s.orch.info.has id = true)
    (h : (routeCall s tc task call args fresh rid now).2 = .new fresh) :
    registeredCount s task (keyFor tc.regMode tc.keyArgs args) = 0 := by
  rw [routeCall_answer s tc task call args fresh rid now hreg] at h
  unfold registeredCount
  cases hex : s.orch.existing task (keyFor tc.regMode tc.keyArgs args) [.registered] with
  | nil => rfl
  | cons id rest =>
    exfalso
    simp only [hex, List.head?_cons] at h
    have hs := hstored id (by rw [hex]; exact List.mem_cons_self)
    simp only [AMap.has] at hs
    cases hg : s.orch.info.get? id with
    | none => simp [hg] at hs
    | some inf =>
      simp only [hg] at h
      split at h
      · exact absurd h (by simp)
      · split at h <;> exact absurd h (by simp)

/-- non-vacuity / worked history (KEYS mode, key argument `k`, raise option on): a first submission is new;
    the same call again is reused; a call with the same key but another non-key argument is rejected and
    changes nothing; after the first invocation is claimed, the same call creates a second invocation. -/
example :
    let tc : TaskConf := { regMode := .keys, keyArgs := ["k"], raiseOnDiff := true }
    let r1 := routeCall {} tc "t" "c1" [("k", "1"), ("v", "a")] "i1" (some "cl") 0
    let r2 := routeCall r1.1 tc "t" "c1" [("k", "1"), ("v", "a")] "i2" (some "cl") 1
    let r3 := routeCall r2.1 tc "t" "c2" [("k", "1"), ("v", "b")] "i3" (some "cl") 2
    let claimed : Sys := { r3.1 with orch := (r3.1.orch.setStatus Gen.table "i1" .pending (some "r") 3).1 }
    let r4 := routeCall claimed tc "t" "c1" [("k", "1"), ("v", "a")] "i4" (some "cl") 4
    r1.2 = .new "i1" ∧ r2.2 = .reused "i1" ∧ r2.1.queue = ["i1"] ∧ r3.2 = .errDiff ∧ r3.1.queue = ["i1"] ∧
    r4.2 = .new "i4" ∧ r4.1.queue = ["i1", "i4"] := by decide

end Pynenc.C07
