import PynencModel.Props.C07
/-
  C07, continued — the census invariant: sequential submissions never leave two REGISTERED invocations of a task whose
  registration keys match.  Separate file so that the statement of Props/C07.lean stays as it was.
-/
namespace Pynenc.C07
open Pynenc Pynenc.CC

/-- two argument dictionaries of one task bind the same parameter names, each once (what `Arguments.from_call` gives) -/
def SameShape (a b : List (String × String)) : Prop :=
  a.map (·.1) = b.map (·.1) ∧ (a.map (·.1)).Nodup

/-- the registration key of `a` is contained in `b` -/
def keyIn (m : Mode) (ks : List String) (a b : List (String × String)) : Prop :=
  ∀ kv ∈ keyFor m ks a, kv ∈ b

private theorem mem_of_name_mem {b : List (String × String)} {k : String} (h : k ∈ b.map (·.1)) : ∃ v, (k, v) ∈ b := by
  obtain ⟨⟨k', v⟩, hm, rfl⟩ := List.mem_map.1 h
  exact ⟨v, hm⟩

private theorem value_unique {a : List (String × String)} (hn : (a.map (·.1)).Nodup) {k v v' : String}
    (h1 : (k, v) ∈ a) (h2 : (k, v') ∈ a) : v = v' := by
  induction a with
  | nil => simp at h1
  | cons p rest ih =>
    simp only [List.map_cons, List.nodup_cons] at hn
    rcases List.mem_cons.1 h1 with e1 | m1 <;> rcases List.mem_cons.1 h2 with e2 | m2
    · have := e1.trans e2.symm; cases this; rfl
    · exfalso; apply hn.1; rw [← e1]; exact List.mem_map_of_mem (f := (·.1)) m2
    · exfalso; apply hn.1; rw [← e2]; exact List.mem_map_of_mem (f := (·.1)) m1
    · exact ih hn.2 m1 m2

/-- K0. For calls of one task (same parameter names) "the key of `a` is contained in `b`" is symmetric: the two
    invocations have the same registration key. -/
theorem keyIn_symm (m : Mode) (ks : List String) (a b : List (String × String)) (hs : SameShape a b)
    (h : keyIn m ks a b) : keyIn m ks b a := by
  obtain ⟨hnames, hnd⟩ := hs
  have hndb : (b.map (·.1)).Nodup := hnames ▸ hnd
  intro kv hkv
  obtain ⟨k, v⟩ := kv
  cases m with
  | disabled => simp [keyFor] at hkv
  | task => simp [keyFor] at hkv
  | arguments =>
    simp only [keyFor] at hkv
    have hk : k ∈ a.map (·.1) := hnames ▸ List.mem_map_of_mem (f := (·.1)) hkv
    obtain ⟨v', hv'⟩ := mem_of_name_mem hk
    have : (k, v') ∈ b := h (k, v') (by simpa [keyFor] using hv')
    have := value_unique hndb hkv this
    subst this; exact hv'
  | keys =>
    simp only [keyFor, List.mem_filter] at hkv
    obtain ⟨hb, hks⟩ := hkv
    have hk : k ∈ a.map (·.1) := hnames ▸ List.mem_map_of_mem (f := (·.1)) hb
    obtain ⟨v', hv'⟩ := mem_of_name_mem hk
    have : (k, v') ∈ b := h (k, v') (by simp only [keyFor, List.mem_filter]; exact ⟨hv', hks⟩)
    have := value_unique hndb hb this
    subst this; exact hv'

end Pynenc.C07
