import PynencModel.Props.C07
/-
  C07, continued — the census invariant: sequential submissions never leave two REGISTERED invocations of a task whose
  registration keys match.  Separate file so that the statement of Props/C07.lean stays as it was.
-/
namespace Pynenc.C07
open Pynenc Pynenc.CC

/-- two argument dictionaries of one task bind the same parameter names, each once (what `Arguments.from_call` gives) -/
def SameShape (a b : List (String × String)) : Prop :=
  a.map (·.1) = b.map (·.1) ∧ (a.map (·.1)).Nodup

/-- the registration key of `a` is contained in `b` -/
def keyIn (m : Mode) (ks : List String) (a b : List (String × String)) : Prop :=
  ∀ kv ∈ keyFor m ks a, kv ∈ b

private theorem mem_of_name_mem {b : List (String × String)} {k : String} (h : k ∈ b.map (·.1)) : ∃ v, (k, v) ∈ b := by
  obtain ⟨⟨k', v⟩, hm, rfl⟩ := List.mem_map.1 h
  exact ⟨v, hm⟩

private theorem value_unique {a : List (String × String)} (hn : (a.map (·.1)).Nodup) {k v v' : String}
    (h1 : (k, v) ∈ a) (h2 : (k, v') ∈ a) : v = v' := by
  induction a with
  | nil => simp at h1
  | cons p rest ih =>
    simp only [List.map_cons, List.nodup_cons] at hn
    rcases List.mem_cons.1 h1 with e1 | m1 <;> rcases List.mem_cons.1 h2 with e2 | m2
    · have := e1.trans e2.symm; cases this; rfl
    · exfalso; apply hn.1; rw [← e1]; exact List.mem_map_of_mem (f := (·.1)) m2
    · exfalso; apply hn.1; rw [← e2]; exact List.mem_map_of_mem (f := (·.1)) m1
    · exact ih hn.2 m1 m2

/-- K0. For calls of one task (same parameter names) "the key of `a` is contained in `b`" is symmetric: the two
    invocations have the same registration key. -/
theorem keyIn_symm (m : Mode) (ks : List String) (a b : List (String × String)) (hs : SameShape a b)
    (h : keyIn m ks a b) : keyIn m ks b a := by
  obtain ⟨hnames, hnd⟩ := hs
  have hndb : (b.map (·.1)).Nodup := hnames ▸ hnd
  intro kv hkv
  obtain ⟨k, v⟩ := kv
  cases m with
  | disabled => simp [keyFor] at hkv
  | task => simp [keyFor] at hkv
  | arguments =>
    simp only [keyFor] at hkv
    have hk : k ∈ a.map (·.1) := hnames ▸ List.mem_map_of_mem (f := (·.1)) hkv
    obtain ⟨v', hv'⟩ := mem_of_name_mem hk
    have : (k, v') ∈ b := h (k, v') (by simpa [keyFor] using hv')
    have := value_unique hndb hkv this
    subst this; exact hv'
  | keys =>
    simp only [keyFor, List.mem_filter] at hkv
    obtain ⟨hb, hks⟩ := hkv
    have hk : k ∈ a.map (·.1) := hnames ▸ List.mem_map_of_mem (f := (·.1)) hb
    obtain ⟨v', hv'⟩ := mem_of_name_mem hk
    have : (k, v') ∈ b := h (k, v') (by simp only [keyFor, List.mem_filter]; exact ⟨hv', hks⟩)
    have := value_unique hndb hb this
    subst this; exact hv'

end Pynenc.C07

namespace Pynenc.C07
open Pynenc Pynenc.CC

/-! ### the census invariant -/

/-- what sequential use maintains for one task with registration concurrency `tc.regMode` -/
structure CensusInv (tc : TaskConf) (task : String) (o : Orch) : Prop where
  infoNodup : o.info.NodupKeys
  recsNodup : o.recs.NodupKeys
  /-- the argument index holds exactly the arguments of every invocation of the task -/
  rows : ∀ id inf, (id, inf) ∈ o.info → inf.task = task → ∀ k v, (id, k, v) ∈ o.argIdx ↔ (k, v) ∈ inf.args
  /-- index rows only for recorded invocations -/
  rowsKnown : ∀ id k v, (id, k, v) ∈ o.argIdx → ∃ inf, (id, inf) ∈ o.info
  /-- all calls of the task bind the same parameter names -/
  shape : ∀ i j infi infj, (i, infi) ∈ o.info → (j, infj) ∈ o.info → infi.task = task → infj.task = task →
    SameShape infi.args infj.args
  /-- THE CENSUS: no two REGISTERED invocations of the task have matching registration keys
      (for mode TASK the key is empty: at most one REGISTERED invocation of the task) -/
  uniq : ∀ i j infi infj, i ≠ j → (i, infi) ∈ o.info → (j, infj) ∈ o.info → infi.task = task → infj.task = task →
    o.statusOf i = some .registered → o.statusOf j = some .registered →
    ¬ keyIn tc.regMode tc.keyArgs infi.args infj.args

private theorem matchesKey_iff (o : Orch) (id : String) (key : List (String × String)) :
    o.matchesKey id key = true ↔ ∀ kv ∈ key, (id, kv.1, kv.2) ∈ o.argIdx := by
  unfold Orch.matchesKey
  simp [List.all_eq_true]

/-- `existing` returns nothing iff no recorded invocation of the task passes both filters -/
private theorem existing_nil (o : Orch) (task : String) (key : List (String × String)) (sts : List Status)
    (h : (o.existing task key sts).head? = none) :
    ∀ id inf, (id, inf) ∈ o.info → inf.task = task →
      (sts.isEmpty = true ∨ ∃ s, o.statusOf id = some s ∧ s ∈ sts) →
      ¬ (key.isEmpty = true ∨ o.matchesKey id key = true) := by
  intro id inf hm ht hst hk
  have hnil : o.existing task key sts = [] := by
    cases hl : o.existing task key sts with
    | nil => rfl
    | cons a l => rw [hl] at h; simp at h
  unfold Orch.existing at hnil
  have hf := List.map_eq_nil_iff.1 hnil
  have hnot := (List.filter_eq_nil_iff.1 hf) (id, inf) hm
  apply hnot
  simp only [Bool.and_eq_true, decide_eq_true_eq, Bool.or_eq_true]
  refine ⟨⟨ht, hk⟩, ?_⟩
  rcases hst with h1 | ⟨s, hs, hmem⟩
  · left; exact h1
  · right; simp [hs, hmem]

private theorem set_absent {β : Type} (m : AMap String β) (k : String) (v : β) (h : m.has k = false) :
    m.set k v = m ++ [(k, v)] := by
  induction m with
  | nil => rfl
  | cons p rest ih =>
    obtain ⟨k', v'⟩ := p
    by_cases hk : k' = k
    · subst hk; simp [AMap.has, AMap.get?] at h
    · have : AMap.has rest k = false := by simpa [AMap.has, AMap.get?, hk] using h
      simp [AMap.set, hk, ih this]

private theorem has_false_not_mem {β : Type} (m : AMap String β) (k : String) (h : m.has k = false) (v : β) : (k, v) ∉ m := by
  intro hm
  induction m with
  | nil => simp at hm
  | cons p rest ih =>
    obtain ⟨k', v'⟩ := p
    by_cases hk : k' = k
    · subst hk; simp [AMap.has, AMap.get?] at h
    · have hr : AMap.has rest k = false := by simpa [AMap.has, AMap.get?, hk] using h
      rcases List.mem_cons.1 hm with e | e
      · injection e with e1; exact hk e1.symm
      · exact ih hr e

private theorem nodup_append_absent {β : Type} (m : AMap String β) (k : String) (v : β) (hn : m.NodupKeys) (h : m.has k = false) :
    AMap.NodupKeys (m ++ [(k, v)]) := by
  have := AMap.nodupKeys_set m hn k v
  rwa [set_absent m k v h] at this

private theorem get?_append_absent {β : Type} (m : AMap String β) (k : String) (v : β) (h : m.has k = false) :
    AMap.get? (m ++ [(k, v)]) k = some v := by
  have := AMap.get?_set_self m k v
  rwa [set_absent m k v h] at this

/-- the state after `_route_new_call_invocation` of a fresh id, spelled out -/
private theorem newInvocation_shape (s : Sys) (tc : TaskConf) (f task call : String) (args : List (String × String))
    (rid : Option String) (now : Int) (hreg : tc.regMode ≠ .disabled)
    (hf1 : s.orch.recs.has f = false) (hf2 : s.orch.info.has f = false)
    (hrows : ∀ k v, (f, k, v) ∉ s.orch.argIdx) :
    (newInvocation s tc f task call args rid now).orch.info = s.orch.info ++ [(f, { task := task, call := call, args := args })] ∧
    (newInvocation s tc f task call args rid now).orch.recs = s.orch.recs ++ [(f, { status := .registered, owner := rid, ts := now })] ∧
    (∀ id k v, (id, k, v) ∈ (newInvocation s tc f task call args rid now).orch.argIdx ↔
        (id, k, v) ∈ s.orch.argIdx ∨ (id = f ∧ (k, v) ∈ args)) := by
  have hinfo : (s.orch.registerInv f { task := task, call := call, args := args } rid now).info
      = s.orch.info ++ [(f, { task := task, call := call, args := args })] := by
    simp [Orch.registerInv, Orch.register, hf1, set_absent _ _ _ hf2]
  have hrecs : (s.orch.registerInv f { task := task, call := call, args := args } rid now).recs
      = s.orch.recs ++ [(f, { status := .registered, owner := rid, ts := now })] := by
    simp [Orch.registerInv, Orch.register, hf1, set_absent _ _ _ hf1]
  have hidx : (s.orch.registerInv f { task := task, call := call, args := args } rid now).argIdx = s.orch.argIdx := by
    simp [Orch.registerInv, Orch.register, hf1]
  have hget : (s.orch.registerInv f { task := task, call := call, args := args } rid now).info.get? f
      = some { task := task, call := call, args := args } := by
    rw [hinfo]; exact get?_append_absent _ _ _ hf2
  have hcond : (tc.regMode ≠ .disabled ∨ tc.runMode ≠ .disabled) := Or.inl hreg
  unfold newInvocation
  simp only [hcond, if_true]
  unfold Orch.indexArgs
  simp only [hget]
  refine ⟨hinfo, hrecs, ?_⟩
  intro id k v
  simp only [hidx, List.mem_append, List.mem_map, List.mem_filter]
  constructor
  · rintro (⟨hm, _⟩ | ⟨⟨k', v'⟩, hkv, heq⟩)
    · left; exact hm
    · right
      injection heq with h1 h2
      injection h2 with h2 h3
      subst h1; subst h2; subst h3
      exact ⟨rfl, hkv⟩
  · rintro (hm | ⟨hid, hkv⟩)
    · left
      refine ⟨hm, ?_⟩
      have hne : id ≠ f := by intro e; subst e; exact hrows k v hm
      simp only [Bool.not_eq_true', List.any_eq_false, List.mem_map]
      rintro r ⟨⟨k', v'⟩, _, rfl⟩
      simp [Ne.symm hne]
    · right; subst hid; exact ⟨(k, v), hkv, rfl⟩


private theorem get?_append_ne {β : Type} (m : AMap String β) (k f : String) (v : β) (h : k ≠ f) :
    AMap.get? (m ++ [(f, v)]) k = AMap.get? m k := by
  induction m with
  | nil => simp [AMap.get?, Ne.symm h]
  | cons p rest ih =>
    obtain ⟨k', v'⟩ := p
    by_cases hk : k' = k
    · simp [AMap.get?, hk]
    · simp [AMap.get?, hk, ih]

private theorem mem_get?_some {β : Type} (m : AMap String β) (k : String) (v : β) (h : (k, v) ∈ m) : m.has k = true := by
  induction m with
  | nil => simp at h
  | cons p rest ih =>
    obtain ⟨k', v'⟩ := p
    by_cases hk : k' = k
    · simp [AMap.has, AMap.get?, hk]
    · rcases List.mem_cons.1 h with e | e
      · injection e with e1; exact absurd e1.symm hk
      · have := ih e
        simpa [AMap.has, AMap.get?, hk] using this

/-- registering a fresh invocation of `task` whose key matches no REGISTERED invocation keeps the census -/
theorem newInvocation_preserves (s : Sys) (tc : TaskConf) (f task call : String) (args : List (String × String))
    (rid : Option String) (now : Int) (hreg : tc.regMode ≠ .disabled) (hinv : CensusInv tc task s.orch)
    (hf1 : s.orch.recs.has f = false) (hf2 : s.orch.info.has f = false)
    (hshape : ∀ j infj, (j, infj) ∈ s.orch.info → infj.task = task → SameShape args infj.args)
    (hnd : (args.map (·.1)).Nodup)
    (hnone : (s.orch.existing task (keyFor tc.regMode tc.keyArgs args) [.registered]).head? = none) :
    CensusInv tc task (newInvocation s tc f task call args rid now).orch := by
  have hrows0 : ∀ k v, (f, k, v) ∉ s.orch.argIdx := by
    intro k v hm
    obtain ⟨inf, hi⟩ := hinv.rowsKnown f k v hm
    exact has_false_not_mem _ _ hf2 inf hi
  obtain ⟨hinfo, hrecs, hidx⟩ := newInvocation_shape s tc f task call args rid now hreg hf1 hf2 hrows0
  generalize (newInvocation s tc f task call args rid now).orch = o' at hinfo hrecs hidx ⊢
  have hmem : ∀ id inf, (id, inf) ∈ o'.info ↔ (id, inf) ∈ s.orch.info ∨ (id = f ∧ inf = { task := task, call := call, args := args }) := by
    intro id inf; rw [hinfo]; simp [List.mem_append]
  have hne_of_old : ∀ id inf, (id, inf) ∈ s.orch.info → id ≠ f := by
    intro id inf hm e; subst e; exact has_false_not_mem _ _ hf2 inf hm
  have hstat_old : ∀ id, id ≠ f → o'.statusOf id = s.orch.statusOf id := by
    intro id hne
    simp only [Orch.statusOf, Orch.get, hrecs, get?_append_ne _ _ _ _ hne]
  have hstat_new : o'.statusOf f = some .registered := by
    simp only [Orch.statusOf, Orch.get, hrecs, get?_append_absent _ _ _ hf1, Option.map_some]
  -- the fresh invocation matches no REGISTERED one
  have hfresh : ∀ i infi, (i, infi) ∈ s.orch.info → infi.task = task → s.orch.statusOf i = some .registered →
      ¬ keyIn tc.regMode tc.keyArgs args infi.args := by
    intro i infi hm ht hst hk
    refine existing_nil s.orch task _ [.registered] hnone i infi hm ht (Or.inr ⟨.registered, hst, by simp⟩) (Or.inr ?_)
    rw [matchesKey_iff]
    intro kv hkv
    exact (hinv.rows i infi hm ht kv.1 kv.2).2 (hk kv hkv)
  refine ⟨?_, ?_, ?_, ?_, ?_, ?_⟩
  · rw [hinfo]; exact nodup_append_absent _ _ _ hinv.infoNodup hf2
  · rw [hrecs]; exact nodup_append_absent _ _ _ hinv.recsNodup hf1
  · intro id inf hm ht k v
    rcases (hmem id inf).1 hm with hold | ⟨rfl, rfl⟩
    · have hne := hne_of_old id inf hold
      rw [hidx]
      constructor
      · rintro (h | ⟨e, _⟩)
        · exact (hinv.rows id inf hold ht k v).1 h
        · exact absurd e hne
      · intro h; exact Or.inl ((hinv.rows id inf hold ht k v).2 h)
    · rw [hidx]
      constructor
      · rintro (h | ⟨_, h⟩)
        · exact absurd h (hrows0 k v)
        · exact h
      · intro h; exact Or.inr ⟨rfl, h⟩
  · intro id k v hm
    rcases (hidx id k v).1 hm with h | ⟨rfl, _⟩
    · obtain ⟨inf, hi⟩ := hinv.rowsKnown id k v h
      exact ⟨inf, (hmem id inf).2 (Or.inl hi)⟩
    · exact ⟨_, (hmem _ _).2 (Or.inr ⟨rfl, rfl⟩)⟩
  · intro i j infi infj hi hj hti htj
    rcases (hmem i infi).1 hi with hio | ⟨rfl, rfl⟩ <;> rcases (hmem j infj).1 hj with hjo | ⟨rfl, rfl⟩
    · exact hinv.shape i j infi infj hio hjo hti htj
    · have := hshape i infi hio hti
      exact ⟨this.1.symm, this.1 ▸ this.2⟩
    · exact hshape j infj hjo htj
    · exact ⟨rfl, hnd⟩
  · intro i j infi infj hij hi hj hti htj hsi hsj
    rcases (hmem i infi).1 hi with hio | ⟨rfl, rfl⟩ <;> rcases (hmem j infj).1 hj with hjo | ⟨rfl, rfl⟩
    · rw [hstat_old i (hne_of_old i infi hio)] at hsi
      rw [hstat_old j (hne_of_old j infj hjo)] at hsj
      exact hinv.uniq i j infi infj hij hio hjo hti htj hsi hsj
    · -- old i against the fresh one
      rw [hstat_old i (hne_of_old i infi hio)] at hsi
      intro hk
      have hs := hshape i infi hio hti
      exact hfresh i infi hio hti hsi (keyIn_symm _ _ _ _ ⟨hs.1.symm, hs.1 ▸ hs.2⟩ hk)
    · rw [hstat_old j (hne_of_old j infj hjo)] at hsj
      exact hfresh j infj hjo htj hsj
    · exact absurd rfl hij

/-- `existing` only returns ids that have an info record -/
private theorem existing_mem_info (o : Orch) (task : String) (key : List (String × String)) (sts : List Status) (id : String)
    (h : id ∈ o.existing task key sts) : o.info.has id = true := by
  unfold Orch.existing at h
  obtain ⟨⟨id', inf⟩, hm, rfl⟩ := List.mem_map.1 h
  exact mem_get?_some _ _ inf (List.mem_filter.1 hm).1

/-- **C07 census, one submission**: `route_call` of a task with registration concurrency keeps the census, whatever it
    answers (new invocation, reuse, reuse with different arguments, rejection). -/
theorem routeCall_preserves (s : Sys) (tc : TaskConf) (task call : String) (args : List (String × String))
    (fresh : String) (rid : Option String) (now : Int) (hreg : tc.regMode ≠ .disabled) (hinv : CensusInv tc task s.orch)
    (hf1 : s.orch.recs.has fresh = false) (hf2 : s.orch.info.has fresh = false)
    (hshape : ∀ j infj, (j, infj) ∈ s.orch.info → infj.task = task → SameShape args infj.args)
    (hnd : (args.map (·.1)).Nodup) :
    CensusInv tc task (routeCall s tc task call args fresh rid now).1.orch := by
  unfold routeCall
  simp only [hreg, if_false]
  cases hex : (s.orch.existing task (keyFor tc.regMode tc.keyArgs args) [.registered]).head? with
  | none => exact newInvocation_preserves s tc fresh task call args rid now hreg hinv hf1 hf2 hshape hnd hex
  | some id =>
    have hin : id ∈ s.orch.existing task (keyFor tc.regMode tc.keyArgs args) [.registered] := List.mem_of_mem_head? hex
    have hhas := existing_mem_info _ _ _ _ _ hin
    cases hg : s.orch.info.get? id with
    | none => simp [AMap.has, hg] at hhas
    | some inf =>
      simp only [hg]
      split
      · exact hinv
      · split <;> exact hinv


/-- **C07 census, status changes**: no accepted status transition (claim, run, finish, retry, concurrency control, recovery,
    kill, re-route …) breaks the census — none of them makes an invocation REGISTERED (`registered_only_by_registration`),
    and none touches the indexes. -/
theorem setStatus_preserves (tc : TaskConf) (task : String) (o : Orch) (id : String) (req : Status) (rid : Option String)
    (now : Int) (hinv : CensusInv tc task o) : CensusInv tc task (o.setStatus Gen.table id req rid now).1 := by
  unfold Orch.setStatus
  cases hg : o.get id with
  | none => exact hinv
  | some cur =>
    simp only
    cases hs : step Gen.table (some cur.srec) req rid with
    | error e => exact hinv
    | ok r =>
      simp only
      have hreq : r.status = req := by
        have := ((C01.step_ok_iff Gen.table _ _ _ _).1 hs).2.2
        rw [← this]
      have hnr : req ≠ .registered := by
        intro e; subst e; exact registered_only_by_registration cur.srec rid r hs
      have hstat : ∀ i, ({ o with recs := o.recs.set id { status := r.status, owner := r.owner, ts := now } } : Orch).statusOf i
          = some .registered → o.statusOf i = some .registered := by
        intro i hi
        by_cases hi' : i = id
        · subst hi'
          simp only [Orch.statusOf, Orch.get, AMap.get?_set_self, Option.map_some, Option.some.injEq] at hi
          exact absurd (hreq ▸ hi) hnr
        · simpa only [Orch.statusOf, Orch.get, AMap.get?_set_other _ _ _ _ hi'] using hi
      exact ⟨hinv.infoNodup, AMap.nodupKeys_set _ hinv.recsNodup _ _, hinv.rows, hinv.rowsKnown, hinv.shape,
        fun i j infi infj hij hi hj hti htj hsi hsj => hinv.uniq i j infi infj hij hi hj hti htj (hstat i hsi) (hstat j hsj)⟩

/-- the empty orchestrator satisfies the census -/
theorem census_init (tc : TaskConf) (task : String) : CensusInv tc task {} :=
  ⟨List.nodup_nil, List.nodup_nil, fun _ _ h => absurd h List.not_mem_nil, fun _ _ _ h => absurd h List.not_mem_nil,
   fun _ _ _ _ h => absurd h List.not_mem_nil, fun _ _ _ _ _ h => absurd h List.not_mem_nil⟩

/-- one event of the life of a task with registration concurrency: a submission (fresh id, arguments bound to the task's
    signature) or any status request by anybody -/
inductive Ev where
  | submit (call : String) (args : List (String × String)) (fresh : String) (rid : Option String) (now : Int)
  | status (id : String) (req : Status) (rid : Option String) (now : Int)

def applyEv (tc : TaskConf) (task : String) (s : Sys) : Ev → Sys
  | .submit call args fresh rid now => (routeCall s tc task call args fresh rid now).1
  | .status id req rid now => { s with orch := (s.orch.setStatus Gen.table id req rid now).1 }

/-- side conditions of a history, checked against the state each event meets: submitted ids are fresh and the arguments
    bind the parameter names `names` (one signature), each once -/
def EvOk (names : List String) (s : Sys) : Ev → Prop
  | .submit _ args fresh _ _ => s.orch.recs.has fresh = false ∧ s.orch.info.has fresh = false ∧
      args.map (·.1) = names ∧ names.Nodup
  | .status _ _ _ _ => True

def HistOk (tc : TaskConf) (task : String) (names : List String) : Sys → List Ev → Prop
  | _, [] => True
  | s, e :: rest => EvOk names s e ∧ HistOk tc task names (applyEv tc task s e) rest

/-- all recorded invocations of the task bind `names` -/
def Bound (task : String) (names : List String) (o : Orch) : Prop :=
  ∀ j infj, (j, infj) ∈ o.info → infj.task = task → infj.args.map (·.1) = names

private theorem mem_set {β : Type} (m : AMap String β) (k : String) (v : β) (p : String × β) (h : p ∈ m.set k v) :
    p ∈ m ∨ p = (k, v) := by
  induction m with
  | nil => simp [AMap.set] at h; exact Or.inr h
  | cons q rest ih =>
    obtain ⟨k', v'⟩ := q
    by_cases hk : k' = k
    · simp only [AMap.set, hk, if_true, List.mem_cons] at h
      rcases h with e | e
      · exact Or.inr e
      · exact Or.inl (List.mem_cons_of_mem _ e)
    · simp only [AMap.set, hk, if_false, List.mem_cons] at h
      rcases h with e | e
      · exact Or.inl (by rw [e]; exact List.mem_cons_self)
      · rcases ih e with h' | h'
        · exact Or.inl (List.mem_cons_of_mem _ h')
        · exact Or.inr h'

private theorem routeCall_bound (s : Sys) (tc : TaskConf) (task call : String) (args : List (String × String))
    (fresh : String) (rid : Option String) (now : Int) (names : List String) (hb : Bound task names s.orch)
    (hargs : args.map (·.1) = names) (hf1 : s.orch.recs.has fresh = false) :
    Bound task names (routeCall s tc task call args fresh rid now).1.orch := by
  have hnew : Bound task names (newInvocation s tc fresh task call args rid now).orch := by
    intro j infj hm ht
    have hidx : ∀ (o : Orch) (i : String), (o.indexArgs i).info = o.info := by
      intro o i; unfold Orch.indexArgs; split <;> rfl
    have hreg : (s.orch.registerInv fresh { task := task, call := call, args := args } rid now).info
        = s.orch.info.set fresh { task := task, call := call, args := args } := by
      simp [Orch.registerInv, Orch.register, hf1]
    have hinfo : (newInvocation s tc fresh task call args rid now).orch.info
        = s.orch.info.set fresh { task := task, call := call, args := args } := by
      unfold newInvocation
      simp only
      split
      · rw [hidx, hreg]
      · exact hreg
    rw [hinfo] at hm
    -- an entry of `set` is the new one or an old one
    have : (j, infj) ∈ s.orch.info ∨ infj = { task := task, call := call, args := args } := by
      rcases mem_set _ _ _ _ hm with h | h
      · exact Or.inl h
      · injection h with _ h2; exact Or.inr h2
    rcases this with h | h
    · exact hb j infj h ht
    · subst h; exact hargs
  unfold routeCall
  split
  · exact hnew
  · split
    · exact hnew
    · split
      · exact hnew
      · split
        · exact hb
        · split <;> exact hb

/-- **C07 census over whole histories**: starting from the empty orchestrator, after ANY sequence of submissions of the
    task (any arguments over its signature, any order, duplicates, differing non-key arguments) interleaved with ANY
    status requests by anybody (claims, runs, completions, retries, recovery, kills, refused requests), no two REGISTERED
    invocations of the task have matching registration keys.  Sequential: each event is one atomic step. -/
theorem census_holds_after_any_history (tc : TaskConf) (task : String) (names : List String)
    (hreg : tc.regMode ≠ .disabled) (evs : List Ev) :
    ∀ (s : Sys), CensusInv tc task s.orch → Bound task names s.orch → HistOk tc task names s evs →
      CensusInv tc task (evs.foldl (applyEv tc task) s).orch := by
  induction evs with
  | nil => intro s h _ _; exact h
  | cons e rest ih =>
    intro s hinv hb hok
    obtain ⟨he, hrest⟩ := hok
    simp only [List.foldl_cons]
    cases e with
    | submit call args fresh rid now =>
      obtain ⟨hf1, hf2, hargs, hnd⟩ := he
      have hshape : ∀ j infj, (j, infj) ∈ s.orch.info → infj.task = task → SameShape args infj.args := by
        intro j infj hm ht
        exact ⟨hargs.trans (hb j infj hm ht).symm, hargs ▸ hnd⟩
      exact ih _ (routeCall_preserves s tc task call args fresh rid now hreg hinv hf1 hf2 hshape (hargs ▸ hnd))
        (routeCall_bound s tc task call args fresh rid now names hb hargs hf1) hrest
    | status id req rid now =>
      refine ih _ (setStatus_preserves tc task s.orch id req rid now hinv) ?_ hrest
      intro j infj hm ht
      have : ((s.orch.setStatus Gen.table id req rid now).1).info = s.orch.info := by
        unfold Orch.setStatus
        split
        · rfl
        · split <;> rfl
      exact hb j infj (this ▸ hm) ht

/-- non-vacuity: a concrete two-submission history meets the side conditions and the census is not trivially empty:
    same key twice is collapsed (one REGISTERED), a different key gives a second one -/
example :
    let tc : TaskConf := { regMode := .keys, keyArgs := ["k"] }
    let evs := [Ev.submit "c1" [("k", "1"), ("x", "a")] "i1" none 0, Ev.submit "c2" [("k", "1"), ("x", "b")] "i2" none 1,
                Ev.submit "c3" [("k", "2"), ("x", "a")] "i3" none 2]
    let s := evs.foldl (applyEv tc "t") {}
    (s.orch.existing "t" [] [.registered]) = ["i1", "i3"] := by decide

end Pynenc.C07
