import PynencModel.Props.C07
/-
  C07, continued — the census invariant: sequential submissions never leave two REGISTERED invocations of a task whose
  registration keys match.  Separate file so that the statement of Props/C07.lean stays as it was.
-/
namespace Pynenc.C07
open Pynenc Pynenc.CC

/-- two argument dictionaries of one task bind the same parameter names, each once (what `Arguments.from_call` gives) -/
def SameShape (a b : List (String × String)) : Prop :=
  a.map (·.1) = b.map (·.1) ∧ (a.map (·.1)).Nodup

/-- the registration key of `a` is contained in `b` -/
def keyIn (m : Mode) (ks : List String) (a b : List (String × String)) : Prop :=
  ∀ kv ∈ keyFor m ks a, kv ∈ b

private theorem mem_of_name_mem {b : List (String × String)} {k : String} (h : k ∈ b.map (·.1)) : ∃ v, (k, v) ∈ b := by
  obtain ⟨⟨k', v⟩, hm, rfl⟩ := List.mem_map.1 h
  exact ⟨v, hm⟩

private theorem value_unique {a : List (String × String)} (hn : (a.map (·.1)).Nodup) {k v v' : String}
    (h1 : (k, v) ∈ a) (h2 : (k, v') ∈ a) : v = v' := by
  induction a with
  | nil => simp at h1
  | cons p rest ih =>
    simp only [List.map_cons, List.nodup_cons] at hn
    rcases List.mem_cons.1 h1 with e1 | m1 <;> rcases List.mem_cons.1 h2 with e2 | m2
    · have := e1.trans e2.symm; cases this; rfl
    · exfalso; apply hn.1; rw [← e1]; exact List.mem_map_of_mem (f := (·.1)) m2
    · exfalso; apply hn.1; rw [← e2]; exact List.mem_map_of_mem (f := (·.1)) m1
    · exact ih hn.2 m1 m2

/-- K0. For calls of one task (same parameter names) "the key of `a` is contained in `b`" is symmetric: the two
    invocations have the same registration key. -/
theorem keyIn_symm (m : Mode) (ks : List String) (a b : List (String × String)) (hs : SameShape a b)
    (h : keyIn m ks a b) : keyIn m ks b a := by
  obtain ⟨hnames, hnd⟩ := hs
  have hndb : (b.map (·.1)).Nodup := hnames ▸ hnd
  intro kv hkv
  obtain ⟨k, v⟩ := kv
  cases m with
  | disabled => simp [keyFor] at hkv
  | task => simp [keyFor] at hkv
  | arguments =>
    simp only [keyFor] at hkv
    have hk : k ∈ a.map (·.1) := hnames ▸ List.mem_map_of_mem (f := (·.1)) hkv
    obtain ⟨v', hv'⟩ := mem_of_name_mem hk
    have : (k, v') ∈ b := h (k, v') (by simpa [keyFor] using hv')
    have := value_unique hndb hkv this
    subst this; exact hv'
  | keys =>
    simp only [keyFor, List.mem_filter] at hkv
    obtain ⟨hb, hks⟩ := hkv
    have hk : k ∈ a.map (·.1) := hnames ▸ List.mem_map_of_mem (f := (·.1)) hb
    obtain ⟨v', hv'⟩ := mem_of_name_mem hk
    have : (k, v') ∈ b := h (k, v') (by simp only [keyFor, List.mem_filter]; exact ⟨hv', hks⟩)
    have := value_unique hndb hb this
    subst this; exact hv'

end Pynenc.C07

namespace Pynenc.C07
open Pynenc Pynenc.CC

/-! ### the census invariant -/

/-- what sequential use maintains for one task with registration concurrency `tc.regMode` -/
structure CensusInv (tc : TaskConf) (task : String) (o : Orch) : Prop where
  infoNodup : o.info.NodupKeys
  recsNodup : o.recs.NodupKeys
  /-- the argument index holds exactly the arguments of every invocation of the task -/
  rows : ∀ id inf, (id, inf) ∈ o.info → inf.task = task → ∀ k v, (id, k, v) ∈ o.argIdx ↔ (k, v) ∈ inf.args
  /-- index rows only for recorded invocations -/
  rowsKnown : ∀ id k v, (id, k, v) ∈ o.argIdx → ∃ inf, (id, inf) ∈ o.info
  /-- all calls of the task bind the same parameter names -/
  shape : ∀ i j infi infj, (i, infi) ∈ o.info → (j, infj) ∈ o.info → infi.task = task → infj.task = task →
    SameShape infi.args infj.args
  /-- THE CENSUS: no two REGISTERED invocations of the task have matching registration keys
      (for mode TASK the key is empty: at most one REGISTERED invocation of the task) -/
  uniq : ∀ i j infi infj, i ≠ j → (i, infi) ∈ o.info → (j, infj) ∈ o.info → infi.task = task → infj.task = task →
    o.statusOf i = some .registered → o.statusOf j = some .registered →
    ¬ keyIn tc.regMode tc.keyArgs infi.args infj.args

private theorem matchesKey_iff (o : Orch) (id : String) (key : List (String × String)) :
    o.matchesKey id key = true ↔ ∀ kv ∈ key, (id, kv.1, kv.2) ∈ o.argIdx := by
  unfold Orch.matchesKey
  simp [List.all_eq_true, List.contains_iff_mem]

/-- `existing` returns nothing iff no recorded invocation of the task passes both filters -/
private theorem existing_nil (o : Orch) (task : String) (key : List (String × String)) (sts : List Status)
    (h : (o.existing task key sts).head? = none) :
    ∀ id inf, (id, inf) ∈ o.info → inf.task = task →
      (sts.isEmpty = true ∨ ∃ s, o.statusOf id = some s ∧ s ∈ sts) →
      ¬ (key.isEmpty = true ∨ o.matchesKey id key = true) := by
  intro id inf hm ht hst hk
  have hnil : o.existing task key sts = [] := by
    cases hl : o.existing task key sts with
    | nil => rfl
    | cons a l => rw [hl] at h; simp at h
  unfold Orch.existing at hnil
  have hf := List.map_eq_nil_iff.1 hnil
  have hnot := (List.filter_eq_nil_iff.1 hf) (id, inf) hm
  apply hnot
  simp only [Bool.and_eq_true, decide_eq_true_eq, Bool.or_eq_true]
  refine ⟨⟨ht, hk⟩, ?_⟩
  rcases hst with h1 | ⟨s, hs, hmem⟩
  · left; exact h1
  · right; simp [hs, hmem]

private theorem set_absent {β : Type} (m : AMap String β) (k : String) (v : β) (h : m.has k = false) :
    m.set k v = m ++ [(k, v)] := by
  induction m with
  | nil => rfl
  | cons p rest ih =>
    obtain ⟨k', v'⟩ := p
    by_cases hk : k' = k
    · subst hk; simp [AMap.has, AMap.get?] at h
    · have : AMap.has rest k = false := by simpa [AMap.has, AMap.get?, hk] using h
      simp [AMap.set, hk, ih this]

private theorem has_false_not_mem {β : Type} (m : AMap String β) (k : String) (h : m.has k = false) (v : β) : (k, v) ∉ m := by
  intro hm
  induction m with
  | nil => simp at hm
  | cons p rest ih =>
    obtain ⟨k', v'⟩ := p
    by_cases hk : k' = k
    · subst hk; simp [AMap.has, AMap.get?] at h
    · have hr : AMap.has rest k = false := by simpa [AMap.has, AMap.get?, hk] using h
      rcases List.mem_cons.1 hm with e | e
      · injection e with e1; exact hk e1.symm
      · exact ih hr e

private theorem nodup_append_absent {β : Type} (m : AMap String β) (k : String) (v : β) (hn : m.NodupKeys) (h : m.has k = false) :
    AMap.NodupKeys (m ++ [(k, v)]) := by
  have := AMap.nodupKeys_set m hn k v
  rwa [set_absent m k v h] at this

private theorem get?_append_absent {β : Type} (m : AMap String β) (k : String) (v : β) (h : m.has k = false) :
    AMap.get? (m ++ [(k, v)]) k = some v := by
  have := AMap.get?_set_self m k v
  rwa [set_absent m k v h] at this

/-- the state after `_route_new_call_invocation` of a fresh id, spelled out -/
private theorem newInvocation_shape (s : Sys) (tc : TaskConf) (f task call : String) (args : List (String × String))
    (rid : Option String) (now : Int) (hreg : tc.regMode ≠ .disabled)
    (hf1 : s.orch.recs.has f = false) (hf2 : s.orch.info.has f = false)
    (hrows : ∀ k v, (f, k, v) ∉ s.orch.argIdx) :
    (newInvocation s tc f task call args rid now).orch.info = s.orch.info ++ [(f, { task := task, call := call, args := args })] ∧
    (newInvocation s tc f task call args rid now).orch.recs = s.orch.recs ++ [(f, { status := .registered, owner := rid, ts := now })] ∧
    (∀ id k v, (id, k, v) ∈ (newInvocation s tc f task call args rid now).orch.argIdx ↔
        (id, k, v) ∈ s.orch.argIdx ∨ (id = f ∧ (k, v) ∈ args)) := by
  have hinfo : (s.orch.registerInv f { task := task, call := call, args := args } rid now).info
      = s.orch.info ++ [(f, { task := task, call := call, args := args })] := by
    simp [Orch.registerInv, Orch.register, hf1, set_absent _ _ _ hf2]
  have hrecs : (s.orch.registerInv f { task := task, call := call, args := args } rid now).recs
      = s.orch.recs ++ [(f, { status := .registered, owner := rid, ts := now })] := by
    simp [Orch.registerInv, Orch.register, hf1, set_absent _ _ _ hf1]
  have hidx : (s.orch.registerInv f { task := task, call := call, args := args } rid now).argIdx = s.orch.argIdx := by
    simp [Orch.registerInv, Orch.register, hf1]
  have hget : (s.orch.registerInv f { task := task, call := call, args := args } rid now).info.get? f
      = some { task := task, call := call, args := args } := by
    rw [hinfo]; exact get?_append_absent _ _ _ hf2
  have hcond : (tc.regMode ≠ .disabled ∨ tc.runMode ≠ .disabled) := Or.inl hreg
  unfold newInvocation
  simp only [hcond, if_true]
  unfold Orch.indexArgs
  simp only [hget]
  refine ⟨hinfo, hrecs, ?_⟩
  intro id k v
  simp only [hidx, List.mem_append, List.mem_map, List.mem_filter]
  constructor
  · rintro (⟨hm, _⟩ | ⟨⟨k', v'⟩, hkv, heq⟩)
    · left; exact hm
    · right
      injection heq with h1 h2
      injection h2 with h2 h3
      subst h1; subst h2; subst h3
      exact ⟨rfl, hkv⟩
  · rintro (hm | ⟨hid, hkv⟩)
    · left
      refine ⟨hm, ?_⟩
      have hne : id ≠ f := by intro e; subst e; exact hrows k v hm
      simp only [Bool.not_eq_true', List.any_eq_false, List.mem_map]
      rintro r ⟨⟨k', v'⟩, _, rfl⟩
      simp [Ne.symm hne]
    · right; subst hid; exact ⟨(k, v), hkv, rfl⟩

end Pynenc.C07
