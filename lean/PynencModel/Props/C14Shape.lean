/-
  C14, tie of the pool bookkeeping to the source beside the differential: `Gen/PoolShape.lean` lists, from the Python AST on every
  run (harness/translate/pool.py), the filter of `get_active_child_runner_ids` of the three process-based runners, the events of the
  persistent runner's `runner_loop_iteration` in program order and the reclaim of the process runner.  They are the shapes
  `Pool.prune`, `Pool.iteration` / `spawnCount` and `Pool.heartbeatIds` model.
-/
import PynencModel.Gen.PoolShape

namespace Pynenc.C14S
open Pynenc

/-- the persistent runner prunes every dead tracked worker, counts what is left, and — with no other condition — spawns the
    difference to `num_processes`; the three runners report exactly the tracked workers that are alive; the process runner deletes
    every dead entry and offers `max_parallel_slots − tracked` slots. -/
theorem code_prunes_the_dead_and_refills_unconditionally :
    Gen.PoolShape.persistentLoop =
      ["prune-if not proc.is_alive() in self.child_runner_ids.items()",
       "pop self.child_runner_ids.pop(rid, None)",
       "count current_count = len(self.child_runner_ids)",
       "if current_count < self.num_processes",
       "count processes_to_spawn = self.num_processes - current_count",
       "spawn-times range(processes_to_spawn)",
       "endif",
       "sleep"] ∧
    Gen.PoolShape.activeIds =
      ["PersistentProcessRunner: runner_id | self.child_runner_ids.items() | proc.is_alive()",
       "MultiThreadRunner: runner_id | self.child_runner_ids.items() | proc.is_alive()",
       "ProcessRunner: runner_id | self.child_runner_ids.items() | info.process.is_alive()"] ∧
    Gen.PoolShape.processReclaim =
      ["del-if not info.process.is_alive()", "return self.max_parallel_slots - len(self.child_runner_ids)"] := by decide

/- What that shape computes is `Pool.iteration` for `Kind.persistent` (`spawnCount` = `cap − tracked-after-prune`, no queue or
   survivor condition): `persistent_full`, `iteration_forgets_dead`, `heartbeats_only_alive` in Props/C14.lean. -/

end Pynenc.C14S
