/-
  C02, in-memory exclusion: the lock table of `MemOrchestrator` keeps the read-validate-write of one invocation to one thread,
  for any number of threads and every interleaving; the two alternatives (check-then-create; one condition variable without
  re-check) do not.  Tie to the source: `Gen/Exclusion.lean`, regenerated on every run.
-/
import PynencModel.Model.Exclusion
import PynencModel.Gen.Exclusion

namespace Pynenc.C02X
open Pynenc.Excl

structure Inv (s : S) : Prop where
  table_ref : ∀ t l, ref (s.pc t) = some l → s.table = some l
  held_lock : ∀ t l, lockOf (s.pc t) = some l → s.held l = true
  alone     : ∀ t u l l', lockOf (s.pc t) = some l → lockOf (s.pc u) = some l' → t = u
  fresh     : ∀ t l x, s.pc t = .readCS l x → x = s.record
  count     : s.record = s.writes

theorem lockOf_ref {p : Pc} {l : Nat} (h : lockOf p = some l) : ref p = some l := by
  cases p <;> simp_all [lockOf, ref]

theorem inv_init : Inv init := by
  constructor <;> simp [init, ref, lockOf]

theorem inv_step (s s' : S) (hi : Inv s) (hs : Step .setdefault s s') : Inv s' := by
  obtain ⟨h1, h2, h3, h4, h5⟩ := hi
  cases hs with
  | getOld t l _ hp ht =>
    constructor
    · intro u m hu
      by_cases e : u = t
      · subst e; simp [upd, ref] at hu; subst hu; exact ht
      · simp [upd, e] at hu; exact h1 u m hu
    · intro u m hu
      by_cases e : u = t
      · subst e; simp [upd, lockOf] at hu
      · simp [upd, e] at hu; exact h2 u m hu
    · intro u w m m' hu hw
      by_cases e : u = t
      · subst e; simp [upd, lockOf] at hu
      · by_cases e' : w = t
        · subst e'; simp [upd, lockOf] at hw
        · simp [upd, e] at hu; simp [upd, e'] at hw; exact h3 u w m m' hu hw
    · intro u m x hu
      by_cases e : u = t
      · subst e; simp [upd] at hu
      · simp [upd, e] at hu; exact h4 u m x hu
    · exact h5
  | getNew t _ hp ht =>
    constructor
    · intro u m hu
      by_cases e : u = t
      · subst e; simp [upd, ref] at hu; subst hu; rfl
      · simp [upd, e] at hu; have := h1 u m hu; simp [ht] at this
    · intro u m hu
      by_cases e : u = t
      · subst e; simp [upd, lockOf] at hu
      · simp [upd, e] at hu; exact h2 u m hu
    · intro u w m m' hu hw
      by_cases e : u = t
      · subst e; simp [upd, lockOf] at hu
      · by_cases e' : w = t
        · subst e'; simp [upd, lockOf] at hw
        · simp [upd, e] at hu; simp [upd, e'] at hw; exact h3 u w m m' hu hw
    · intro u m x hu
      by_cases e : u = t
      · subst e; simp [upd] at hu
      · simp [upd, e] at hu; exact h4 u m x hu
    · exact h5
  | checkHit t l hv => cases hv
  | checkMiss t hv => cases hv
  | create t hv => cases hv
  | acquire t l hp hh =>
    have ht : s.table = some l := h1 t l (by simp [hp, ref])
    have nobody : ∀ u m, lockOf (s.pc u) = some m → False := by
      intro u m hu
      have : s.table = some m := h1 u m (lockOf_ref hu)
      have : m = l := by simp [ht] at this; exact this.symm
      subst this
      have := h2 u m hu
      simp [hh] at this
    constructor
    · intro u m hu
      by_cases e : u = t
      · subst e; simp [upd, ref] at hu; subst hu; exact ht
      · simp [upd, e] at hu; exact h1 u m hu
    · intro u m hu
      by_cases e : u = t
      · subst e; simp [upd, lockOf] at hu; subst hu; simp [upd]
      · simp [upd, e] at hu; exact (nobody u m hu).elim
    · intro u w m m' hu hw
      by_cases e : u = t
      · by_cases e' : w = t
        · rw [e, e']
        · simp [upd, e'] at hw; exact (nobody w m' hw).elim
      · simp [upd, e] at hu; exact (nobody u m hu).elim
    · intro u m x hu
      by_cases e : u = t
      · subst e; simp [upd] at hu
      · simp [upd, e] at hu; exact h4 u m x hu
    · exact h5
  | read t l hp =>
    constructor
    · intro u m hu
      by_cases e : u = t
      · subst e; simp [upd, ref] at hu; subst hu; exact h1 u _ (by simp [hp, ref])
      · simp [upd, e] at hu; exact h1 u m hu
    · intro u m hu
      by_cases e : u = t
      · subst e; simp [upd, lockOf] at hu; subst hu; exact h2 u _ (by simp [hp, lockOf])
      · simp [upd, e] at hu; exact h2 u m hu
    · intro u w m m' hu hw
      by_cases e : u = t
      · by_cases e' : w = t
        · rw [e, e']
        · simp [upd, e'] at hw; rw [e]; exact h3 t w l m' (by simp [hp, lockOf]) hw
      · by_cases e' : w = t
        · simp [upd, e] at hu; rw [e']; exact h3 u t m l hu (by simp [hp, lockOf])
        · simp [upd, e] at hu; simp [upd, e'] at hw; exact h3 u w m m' hu hw
    · intro u m x hu
      by_cases e : u = t
      · subst e; simp [upd] at hu; exact hu.2.symm
      · simp [upd, e] at hu; exact h4 u m x hu
    · exact h5
  | write t l x hp =>
    have hx : x = s.record := h4 t l x hp
    constructor
    · intro u m hu
      by_cases e : u = t
      · subst e; simp [upd, ref] at hu; subst hu; exact h1 u _ (by simp [hp, ref])
      · simp [upd, e] at hu; exact h1 u m hu
    · intro u m hu
      by_cases e : u = t
      · subst e; simp [upd, lockOf] at hu; subst hu; exact h2 u _ (by simp [hp, lockOf])
      · simp [upd, e] at hu; exact h2 u m hu
    · intro u w m m' hu hw
      by_cases e : u = t
      · by_cases e' : w = t
        · rw [e, e']
        · simp [upd, e'] at hw; rw [e]; exact h3 t w l m' (by simp [hp, lockOf]) hw
      · by_cases e' : w = t
        · simp [upd, e] at hu; rw [e']; exact h3 u t m l hu (by simp [hp, lockOf])
        · simp [upd, e] at hu; simp [upd, e'] at hw; exact h3 u w m m' hu hw
    · intro u m y hu
      by_cases e : u = t
      · subst e; simp [upd] at hu
      · simp [upd, e] at hu
        have := h3 u t m l (by simp [hu, lockOf]) (by simp [hp, lockOf])
        exact (e this).elim
    · show x + 1 = s.writes + 1
      rw [hx, h5]
  | leave t l hp =>
    constructor
    · intro u m hu
      by_cases e : u = t
      · subst e; simp [upd, ref] at hu
      · simp [upd, e] at hu; exact h1 u m hu
    · intro u m hu
      by_cases e : u = t
      · subst e; simp [upd, lockOf] at hu
      · simp [upd, e] at hu
        have := h3 u t m l hu (by simp [hp, lockOf])
        exact (e this).elim
    · intro u w m m' hu hw
      by_cases e : u = t
      · subst e; simp [upd, lockOf] at hu
      · by_cases e' : w = t
        · subst e'; simp [upd, lockOf] at hw
        · simp [upd, e] at hu; simp [upd, e'] at hw; exact h3 u w m m' hu hw
    · intro u m x hu
      by_cases e : u = t
      · subst e; simp [upd] at hu
      · simp [upd, e] at hu; exact h4 u m x hu
    · exact h5


theorem reach_inv {s : S} (h : Reach .setdefault s) : Inv s := by
  induction h with
  | init => exact inv_init
  | step s s' _ hs ih => exact inv_step s s' ih hs

/-- C02 (in-memory): at no reachable state are two threads inside the read-validate-write of the invocation. -/
theorem mutual_exclusion {s : S} (h : Reach .setdefault s) (t u l l' : Nat)
    (ht : lockOf (s.pc t) = some l) (hu : lockOf (s.pc u) = some l') : t = u :=
  (reach_inv h).alone t u l l' ht hu

/-- what a thread is about to replace is what it read and validated against -/
theorem write_replaces_what_was_read {s : S} (h : Reach .setdefault s) (t l x : Nat) (hp : s.pc t = .readCS l x) :
    x = s.record := (reach_inv h).fresh t l x hp

/-- no accepted change is lost: the record has moved once per write -/
theorem no_lost_update {s : S} (h : Reach .setdefault s) : s.record = s.writes := (reach_inv h).count

/-- the earlier form of the lookup (`if id not in locks: locks[id] = Lock()`) lets two threads in, and an update is lost -/
theorem check_then_create_lets_two_in :
    ∃ s, Reach .checkThenCreate s ∧ (lockOf (s.pc 0)).isSome ∧ (lockOf (s.pc 1)).isSome ∧ s.record ≠ s.writes := by
  let s1 : S := { init with pc := upd init.pc 0 .looked }
  let s2 : S := { s1 with pc := upd s1.pc 1 .looked }
  let s3 : S := { s2 with pc := upd s2.pc 0 (.has s2.next), table := some s2.next, next := s2.next + 1 }
  let s4 : S := { s3 with pc := upd s3.pc 1 (.has s3.next), table := some s3.next, next := s3.next + 1 }
  let s5 : S := { s4 with pc := upd s4.pc 0 (.inCS 0), held := upd s4.held 0 true }
  let s6 : S := { s5 with pc := upd s5.pc 1 (.inCS 1), held := upd s5.held 1 true }
  let s7 : S := { s6 with pc := upd s6.pc 0 (.readCS 0 s6.record) }
  let s8 : S := { s7 with pc := upd s7.pc 1 (.readCS 1 s7.record) }
  let s9 : S := { s8 with pc := upd s8.pc 0 (.wrote 0), record := 0 + 1, writes := s8.writes + 1 }
  let s10 : S := { s9 with pc := upd s9.pc 1 (.wrote 1), record := 0 + 1, writes := s9.writes + 1 }
  have r1 : Reach .checkThenCreate s1 := .step _ _ .init (.checkMiss _ 0 rfl rfl rfl)
  have r2 : Reach .checkThenCreate s2 := .step _ _ r1 (.checkMiss _ 1 rfl rfl rfl)
  have r3 : Reach .checkThenCreate s3 := .step _ _ r2 (.create _ 0 rfl rfl)
  have r4 : Reach .checkThenCreate s4 := .step _ _ r3 (.create _ 1 rfl rfl)
  have r5 : Reach .checkThenCreate s5 := .step _ _ r4 (.acquire _ 0 0 rfl rfl)
  have r6 : Reach .checkThenCreate s6 := .step _ _ r5 (.acquire _ 1 1 rfl rfl)
  have r7 : Reach .checkThenCreate s7 := .step _ _ r6 (.read _ 0 0 rfl)
  have r8 : Reach .checkThenCreate s8 := .step _ _ r7 (.read _ 1 1 rfl)
  have r9 : Reach .checkThenCreate s9 := .step _ _ r8 (.write _ 0 0 0 rfl)
  have r10 : Reach .checkThenCreate s10 := .step _ _ r9 (.write _ 1 1 0 rfl)
  exact ⟨s10, r10, by decide, by decide, by decide⟩

/-- non-vacuity: two threads go through the table one after the other, both changes counted -/
example : ∃ s, Reach .setdefault s ∧ s.pc 0 = .done ∧ (lockOf (s.pc 1)).isSome ∧ s.writes = 2 := by
  let s1 : S := { init with pc := upd init.pc 0 (.has init.next), table := some init.next, next := init.next + 1 }
  let s2 : S := { s1 with pc := upd s1.pc 1 (.has 0) }
  let s3 : S := { s2 with pc := upd s2.pc 0 (.inCS 0), held := upd s2.held 0 true }
  let s4 : S := { s3 with pc := upd s3.pc 0 (.readCS 0 s3.record) }
  let s5 : S := { s4 with pc := upd s4.pc 0 (.wrote 0), record := 0 + 1, writes := s4.writes + 1 }
  let s6 : S := { s5 with pc := upd s5.pc 0 .done, held := upd s5.held 0 false }
  let s7 : S := { s6 with pc := upd s6.pc 1 (.inCS 0), held := upd s6.held 0 true }
  let s8 : S := { s7 with pc := upd s7.pc 1 (.readCS 0 s7.record) }
  let s9 : S := { s8 with pc := upd s8.pc 1 (.wrote 0), record := 1 + 1, writes := s8.writes + 1 }
  have r1 : Reach .setdefault s1 := .step _ _ .init (.getNew _ 0 rfl rfl rfl)
  have r2 : Reach .setdefault s2 := .step _ _ r1 (.getOld _ 1 0 rfl rfl rfl)
  have r3 : Reach .setdefault s3 := .step _ _ r2 (.acquire _ 0 0 rfl rfl)
  have r4 : Reach .setdefault s4 := .step _ _ r3 (.read _ 0 0 rfl)
  have r5 : Reach .setdefault s5 := .step _ _ r4 (.write _ 0 0 0 rfl)
  have r6 : Reach .setdefault s6 := .step _ _ r5 (.leave _ 0 0 rfl)
  have r7 : Reach .setdefault s7 := .step _ _ r6 (.acquire _ 1 0 rfl rfl)
  have r8 : Reach .setdefault s8 := .step _ _ r7 (.read _ 1 0 rfl)
  have r9 : Reach .setdefault s9 := .step _ _ r8 (.write _ 1 0 1 rfl)
  exact ⟨s9, r9, by decide, by decide, by decide⟩

/-! ### the condition-variable alternative -/

namespace CvProofs
open Pynenc.Excl.Cv

structure CInv (s : Cv.S) : Prop where
  busy_cs : ∀ t, s.pc t = .inCS → s.busy = true
  alone   : ∀ t u, s.pc t = .inCS → s.pc u = .inCS → t = u

theorem wake_inCS (f : Nat → Cv.Pc) (j : Nat) : wake f j = .inCS ↔ f j = .inCS := by
  unfold wake; cases h : f j <;> simp

theorem cinv_step (s s' : Cv.S) (hi : CInv s) (hs : Cv.Step .recheck s s') : CInv s' := by
  obtain ⟨h1, h2⟩ := hi
  have nobody_if_free : s.busy = false → ∀ u, s.pc u = .inCS → False := by
    intro hb u hu; have := h1 u hu; simp [hb] at this
  cases hs with
  | enterFree t hp hb =>
    constructor
    · intro _ _; rfl
    · intro u w hu hw
      by_cases e : u = t
      · by_cases e' : w = t
        · rw [e, e']
        · simp [upd, e'] at hw; exact (nobody_if_free hb w hw).elim
      · simp [upd, e] at hu; exact (nobody_if_free hb u hu).elim
  | enterBusy t hp hb =>
    constructor
    · intro _ _; exact hb
    · intro u w hu hw
      by_cases e : u = t
      · subst e; simp [upd] at hu
      · by_cases e' : w = t
        · subst e'; simp [upd] at hw
        · simp [upd, e] at hu; simp [upd, e'] at hw; exact h2 u w hu hw
  | bystander =>
    constructor
    · intro u hu; exact h1 u ((wake_inCS _ _).1 hu)
    · intro u w hu hw; exact h2 u w ((wake_inCS _ _).1 hu) ((wake_inCS _ _).1 hw)
  | resumeFree t hp hb =>
    constructor
    · intro _ _; rfl
    · intro u w hu hw
      by_cases e : u = t
      · by_cases e' : w = t
        · rw [e, e']
        · simp [upd, e'] at hw; exact (nobody_if_free hb w hw).elim
      · simp [upd, e] at hu; exact (nobody_if_free hb u hu).elim
  | resumeBusy t _ hp hb =>
    constructor
    · intro _ _; exact hb
    · intro u w hu hw
      by_cases e : u = t
      · subst e; simp [upd] at hu
      · by_cases e' : w = t
        · subst e'; simp [upd] at hw
        · simp [upd, e] at hu; simp [upd, e'] at hw; exact h2 u w hu hw
  | resumeBlind t hv => cases hv
  | leave t hp =>
    have gone : ∀ u, wake (upd s.pc t .done) u = .inCS → False := by
      intro u hu
      have hu' := (wake_inCS _ _).1 hu
      by_cases e : u = t
      · subst e; simp [upd] at hu'
      · simp [upd, e] at hu'; exact e (h2 u t hu' hp)
    constructor
    · intro u hu; exact (gone u hu).elim
    · intro u w hu _; exact (gone u hu).elim

theorem cinv_init : CInv Cv.init := by
  constructor <;> simp [Cv.init]

theorem creach_inv {s : Cv.S} (h : Cv.Reach .recheck s) : CInv s := by
  induction h with
  | init => exact cinv_init
  | step s s' _ hs ih => exact cinv_step s s' ih hs

/-- with the re-check (`while`), one condition variable shared by all invocations still keeps the exclusion -/
theorem condition_with_recheck_excludes {s : Cv.S} (h : Cv.Reach .recheck s) (t u : Nat)
    (ht : s.pc t = .inCS) (hu : s.pc u = .inCS) : t = u := (creach_inv h).alone t u ht hu

/-- without it (`if`), the end of a transition of ANOTHER invocation lets a second thread in -/
theorem condition_without_recheck_lets_two_in :
    ∃ s, Cv.Reach .noRecheck s ∧ s.pc 0 = .inCS ∧ s.pc 1 = .inCS := by
  let s1 : Cv.S := { pc := upd Cv.init.pc 0 .inCS, busy := true }
  let s2 : Cv.S := { s1 with pc := upd s1.pc 1 .waiting }
  let s3 : Cv.S := { s2 with pc := wake s2.pc }
  let s4 : Cv.S := { pc := upd s3.pc 1 .inCS, busy := true }
  have r1 : Cv.Reach .noRecheck s1 := .step _ _ .init (.enterFree _ 0 rfl rfl)
  have r2 : Cv.Reach .noRecheck s2 := .step _ _ r1 (.enterBusy _ 1 rfl rfl)
  have r3 : Cv.Reach .noRecheck s3 := .step _ _ r2 (.bystander _)
  have r4 : Cv.Reach .noRecheck s4 := .step _ _ r3 (.resumeBlind _ 1 rfl rfl rfl)
  exact ⟨s4, r4, by decide, by decide⟩

end CvProofs

/-- tie to the source (regenerated on every run): the lock is fetched by one atomic get-or-create for the id of the request;
    the record is read, the change decided and written between entering and leaving that lock; nothing but `purge` touches the
    table; the only other writer of records is registration (ids that have no record yet: `registration_creates_registered`,
    `reregistration_changes_nothing`). -/
theorem code_is_lookup_enter_read_decide_write_leave :
    Gen.Exclusion.lookup = "setdefault" ∧
    Gen.Exclusion.transition = ["lookup", "enter", "read", "decide", "write", "leave"] ∧
    Gen.Exclusion.tableTouches = ["purge:clear"] ∧
    Gen.Exclusion.unlockedWriters = ["_register_new_invocations:write"] := by decide

end Pynenc.C02X
